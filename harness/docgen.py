"""Generator of valid CellML 1.0 documents as JSON, their XML, and an independent reference evaluator.

Shared by C01 (flattening fidelity), C17 (fault injection: `mutate_*` hooks below), C15 (determinism: `permute_doc`),
C13 (annotations: variables carry optional cmeta ids on source / relay / target ends).

Document (JSON-serialisable dict)
---------------------------------
  {'name': str, 'cmeta': str|None,
   'units':       [{'name': n, 'base': True} | {'name': n, 'elems': [{'units','prefix'?,'exponent'?,'multiplier'?}]}],
   'components':  [{'name': c, 'variables': [{'name','units','pub','priv','init','cmeta'}], 'maths': [[eq,...],...]}],
                    pub/priv in {'in','out','none',None (attribute absent)}; init: decimal text or None;
                    maths: one list of equations per <math> element
   'groups':      [{'relationship': 'encapsulation'|'containment', 'name': str|None,
                    'refs': [{'component': c, 'children': [ref...]}]}],
   'connections': [{'c1': a, 'c2': b, 'vars': [[v1, v2], ...]}],
   'order':       [['units', i] | ['component', i] | ['group', i] | ['connection', i]]   file order of <model>'s children
   'meta':        generator bookkeeping (signals, routes) — ignored by to_xml and by the loader model}
Equation: {'lhs': ['var', x] | ['diff', x, t], 'rhs': expr}
expr:  ['num', text, unit] | ['var', x] | ['diff', x, t] | ['+', e, e, ...] | ['*', e, e, ...] | ['-', e, e] | ['/', e, e]
       | ['neg', e] | ['pow', e, n]   (n: int)

Everything a document means is computed here from the document alone (`doc_semantics`, `reference_values`): exact
`Fraction` arithmetic, the SI table of the CellML specification (unitlib.SI), union-find over connections. No import of
cellmlmanip, no reference to the Lean model.
"""
import copy
from fractions import Fraction

import unitlib as U

CELLML_NS = 'http://www.cellml.org/cellml/1.0#'
CMETA_NS = 'http://www.cellml.org/metadata/1.0#'
MATHML_NS = 'http://www.w3.org/1998/Math/MathML'

# ------------------------------------------------------------------------------------------------- unit library
# Dimensions are pairs (a, b) = volt^a second^b. Each family: same dimension, different scales (and two spellings of
# the same scale, so that "factor 1 between differently named units" is covered).
UNIT_DEFS = {
    'mV': [{'units': 'volt', 'prefix': 'milli'}],
    'uV': [{'units': 'volt', 'prefix': 'micro'}],
    'kV': [{'units': 'volt', 'prefix': '3'}],
    'V_alias': [{'units': 'volt'}],
    'cV': [{'units': 'volt', 'multiplier': '0.01'}],
    'V_near': [{'units': 'volt', 'multiplier': '1.000001'}],     # not isclose to volt at 1e-9: needs a conversion
    'ms': [{'units': 'second', 'prefix': 'milli'}],
    'us': [{'units': 'ms', 'prefix': 'milli'}],
    'minute': [{'units': 'second', 'multiplier': '60'}],
    'sec': [{'units': 'second'}],
    'percent': [{'units': 'dimensionless', 'multiplier': '0.01'}],
    'one': [{'units': 'dimensionless'}],
    'V_per_s': [{'units': 'volt'}, {'units': 'second', 'exponent': '-1'}],
    'mV_per_ms': [{'units': 'mV'}, {'units': 'ms', 'exponent': '-1'}],
    'mV_per_s': [{'units': 'volt', 'prefix': 'milli'}, {'units': 'second', 'exponent': '-1'}],
    'uV_per_ms': [{'units': 'uV'}, {'units': 'second', 'prefix': 'milli', 'exponent': '-1'}],
    'per_s': [{'units': 'second', 'exponent': '-1'}],
    'per_ms': [{'units': 'ms', 'exponent': '-1'}],
    'kHz': [{'units': 'hertz', 'prefix': 'kilo'}],
    'per_minute': [{'units': 'minute', 'exponent': '-1'}],
    'V2': [{'units': 'volt', 'exponent': '2'}],
    'mV2': [{'units': 'mV', 'exponent': '2'}],
    'mV_V': [{'units': 'mV'}, {'units': 'volt'}],
    # multiplier AND exponent on the same <unit> element (CellML 1.1 5.2.2: multiplier * (prefix * unit)**exponent),
    # alone, with a prefix, and in chains (a unit of this kind defined from another one of this kind)
    'qV2': [{'units': 'volt', 'exponent': '2', 'multiplier': '0.25'}],                       # 0.25 V^2
    'hmV2': [{'units': 'volt', 'prefix': 'milli', 'exponent': '2', 'multiplier': '0.5'}],    # 0.5e-6 V^2
    'per_V_q': [{'units': 'volt', 'exponent': '-1', 'multiplier': '0.25'}],                  # 0.25 / V
    'V_chain': [{'units': 'per_V_q', 'exponent': '-1', 'multiplier': '0.5'}],                # 0.5 / (0.25/V) = 2 V
    'V2_chain': [{'units': 'V_chain', 'exponent': '2', 'multiplier': '0.25'}],               # 0.25 (2 V)^2 = 1 V^2
    'half_per_s': [{'units': 'second', 'exponent': '-1', 'multiplier': '0.5'}],              # 0.5 / s
    'q_per_ms': [{'units': 'second', 'prefix': 'milli', 'exponent': '-1', 'multiplier': '0.25'}],   # 250 / s
    's_chain': [{'units': 'half_per_s', 'exponent': '-1', 'multiplier': '0.25'}],            # 0.25 / (0.5/s) = 0.5 s
    'per_s2_4': [{'units': 'second', 'exponent': '-2', 'multiplier': '4'}],                  # 4 / s^2
    'V_per_2s': [{'units': 'volt'}, {'units': 'second', 'exponent': '-1', 'multiplier': '0.5'}],    # 0.5 V/s
    'Vs_chain': [{'units': 'V_chain', 'multiplier': '0.5'}, {'units': 's_chain', 'exponent': '-1', 'multiplier': '4'}],  # 8 V/s
}
# units whose definition has multiplier != 1 and exponent != 1 on one element (directly or through a chain)
MULT_EXP_UNITS = {'qV2', 'hmV2', 'V_chain', 'V2_chain', 'half_per_s', 'q_per_ms', 's_chain', 'V_per_2s', 'Vs_chain'}
FAMILIES = {
    (1, 0): ['volt', 'mV', 'uV', 'kV', 'V_alias', 'cV', 'V_near', 'V_chain'],
    (0, 1): ['second', 'ms', 'us', 'minute', 'sec', 's_chain'],
    (0, 0): ['dimensionless', 'percent', 'one'],
    (1, -1): ['V_per_s', 'mV_per_ms', 'mV_per_s', 'uV_per_ms', 'V_per_2s', 'Vs_chain'],
    (0, -1): ['per_s', 'per_ms', 'hertz', 'kHz', 'per_minute', 'half_per_s', 'q_per_ms'],
    (2, 0): ['V2', 'mV2', 'mV_V', 'qV2', 'hmV2', 'V2_chain'],
    (0, -2): ['per_s2_4'],
}
VAR_DIMS = [(1, 0), (1, 0), (1, 0), (1, -1), (0, 0), (0, -1), (2, 0), (0, 1)]
TIME_DIM = (0, 1)
NAME_POOL = ['x', 'y', 'z', 'v', 'w', 'u', 'V', 'I', 'g', 'k', 'a', 'b', 'p', 'q', 'r', 'alpha', 'beta', 'E_K', 'i_Na',
             'x1', 'y_2', '_z', 'Vm', 'tau', 'rate', 'offset']
TIME_NAMES = ['t', 'time', 'T', 'tt']
COMP_POOL = ['membrane', 'environment', 'gate', 'channel', 'cell', 'A', 'B', 'c0', 'c1', 'c2', 'c3', 'inner', 'outer',
             'm_gate', 'I_Na', 'pump', 'x', 'leak']
NUM_TEXTS = ['1', '2', '3', '4', '5', '7', '0.5', '0.25', '1.5', '2.5', '10', '0.125', '12', '100', '0.75', '6']


def compound_unit(dim, rng):
    """name and definition of an on-demand unit of dimension volt^a second^b built from random family members"""
    a, b = dim
    u1 = rng.choice(FAMILIES[(1, 0)])
    u2 = rng.choice(FAMILIES[(0, 1)])
    name = 'u_%s_%s_%s_%s' % (u1, ('m%d' % -a) if a < 0 else a, u2, ('m%d' % -b) if b < 0 else b)
    elems = []
    if a:
        elems.append({'units': u1, 'exponent': str(a)} if a != 1 else {'units': u1})
    if b:
        elems.append({'units': u2, 'exponent': str(b)} if b != 1 else {'units': u2})
    if not elems:
        return 'dimensionless', None
    return name, elems


class UnitUse:
    """collects the user units a document needs, with the definitions they depend on"""

    def __init__(self):
        self.defs = {}

    def need(self, name, elems=None):
        if name in U.SI or name in self.defs:
            return name
        elems = elems if elems is not None else UNIT_DEFS[name]
        for e in elems:
            self.need(e['units'])
        self.defs[name] = elems
        return name

    def pick(self, dim, rng):
        if dim in FAMILIES and rng.random() < 0.9:
            special = [n for n in FAMILIES[dim] if n in MULT_EXP_UNITS]
            if special and rng.random() < 0.12:      # a noticeable share of multiplier-and-exponent units
                return self.need(rng.choice(special))
            return self.need(rng.choice(FAMILIES[dim]))
        name, elems = compound_unit(dim, rng)
        return self.need(name, elems)


# ------------------------------------------------------------------------------------------------- topology
def random_forest(rng, k, max_depth=4):
    """parent[i] in {None, j<i}; depth (levels) <= max_depth"""
    parent, depth = [], []
    for i in range(k):
        cands = [j for j in range(i) if depth[j] < max_depth]
        if cands and rng.random() < 0.65:
            p = rng.choice(cands)
            parent.append(p)
            depth.append(depth[p] + 1)
        else:
            parent.append(None)
            depth.append(1)
    return parent


def all_forests(k):
    """every parent function on k labelled components that is a forest"""
    out = []

    def rec(i, parent):
        if i == k:
            for s in range(k):          # acyclic?
                seen, x = set(), s
                while x is not None and x not in seen:
                    seen.add(x)
                    x = parent[x]
                if x is not None:
                    return
            out.append(list(parent))
            return
        for p in [None] + [j for j in range(k) if j != i]:
            parent.append(p)
            rec(i + 1, parent)
            parent.pop()
    rec(0, [])
    return out


def ancestors(parent, c):
    out = [c]
    while parent[out[-1]] is not None:
        out.append(parent[out[-1]])
    return out


def route(parent, a, b):
    """components visited from a to b: up*, at most one sibling hop, down* (the only shape the interface rules allow)"""
    A, B = ancestors(parent, a), ancestors(parent, b)
    if b in A:
        return A[:A.index(b) + 1]
    if a in B:
        return B[:B.index(a) + 1][::-1]
    common = [x for x in A if x in B]
    if common:
        lca = common[0]
        return A[:A.index(lca)] + B[:B.index(lca)][::-1]
    return A + B[::-1]


def hop_kind(parent, a, b):
    if parent[b] == a:
        return 'down'
    if parent[a] == b:
        return 'up'
    assert parent[a] == parent[b]
    return 'sibling'


# ------------------------------------------------------------------------------------------------- generation
class Builder:
    def __init__(self, rng, parent, names=None, p_rename=0.5, p_cmeta=0.15, multi_cmeta=False, unit_choice=None):
        self.rng, self.parent = rng, parent
        k = len(parent)
        self.cnames = names or rng.sample(COMP_POOL, k)
        self.vars = [dict() for _ in range(k)]          # comp -> local name -> variable dict
        self.order = [[] for _ in range(k)]             # declaration order of local names
        self.conns = []                                 # (compA, nameA, compB, nameB) A = provider
        self.signals = []
        self.units = UnitUse()
        self.p_rename, self.p_cmeta, self.multi_cmeta = p_rename, p_cmeta, multi_cmeta
        self.unit_choice = unit_choice                  # optional callable(signal, comp_index, hop_index) -> unit name
        self.cmeta_used = set()
        self.maths = [[] for _ in range(k)]

    def fresh_name(self, comp, prefer=None, pool=NAME_POOL):
        rng = self.rng
        if prefer is not None and prefer not in self.vars[comp] and rng.random() >= self.p_rename:
            return prefer
        cands = [n for n in pool if n not in self.vars[comp]]
        if cands:
            return rng.choice(cands)
        i = 0
        while '%s_%d' % (prefer or 'v', i) in self.vars[comp]:
            i += 1
        return '%s_%d' % (prefer or 'v', i)

    def add_var(self, comp, name, units, pub=None, priv=None, init=None, sig=None):
        self.vars[comp][name] = {'name': name, 'units': units, 'pub': pub, 'priv': priv, 'init': init, 'cmeta': None,
                                 'sig': sig}
        self.order[comp].append(name)

    def new_signal(self, owner, dim, name=None, units=None, pool=NAME_POOL):
        sid = len(self.signals)
        name = name or self.fresh_name(owner, pool=pool)
        units = units or self.units.pick(dim, self.rng)
        self.add_var(owner, name, units, sig=sid)
        sig = {'id': sid, 'owner': owner, 'name': name, 'dim': dim, 'views': {owner: name}, 'kind': None, 'hops': 0}
        self.signals.append(sig)
        return sig

    def view(self, sig, comp, max_hops=5):
        """local name of the signal in `comp`, creating the relay chain; None when out of reach"""
        if comp in sig['views']:
            return sig['views'][comp]
        if sig.get('local'):
            return None
        path = route(self.parent, sig['owner'], comp)
        if len(path) - 1 > max_hops:
            return None
        rng = self.rng
        for hi, (a, b) in enumerate(zip(path[:-1], path[1:])):
            if b in sig['views']:
                continue
            kind = hop_kind(self.parent, a, b)
            src = self.vars[a][sig['views'][a]]
            pool = TIME_NAMES + NAME_POOL if sig['dim'] == TIME_DIM and sig.get('is_time') else NAME_POOL
            ln = self.fresh_name(b, prefer=sig['name'], pool=pool)
            forced = self.unit_choice(sig, b, hi) if self.unit_choice else None
            if forced:
                un = self.units.need(forced)
            elif rng.random() < 0.35:
                un = src['units']
            else:
                un = self.units.pick(sig['dim'], rng)
            if kind == 'down':
                src['priv'] = 'out'
                self.add_var(b, ln, un, pub='in', priv=rng.choice(['none', None, None]), sig=sig['id'])
            elif kind == 'up':
                src['pub'] = 'out'
                self.add_var(b, ln, un, priv='in', pub=rng.choice(['none', None, None]), sig=sig['id'])
            else:
                src['pub'] = 'out'
                self.add_var(b, ln, un, pub='in', priv=rng.choice(['none', None, None]), sig=sig['id'])
            sig['views'][b] = ln
            sig['hops'] = max(sig['hops'], hi + 1)
            self.conns.append((a, sig['views'][a], b, ln))
        return sig['views'][comp]

    # ---- expressions ---------------------------------------------------------------------------------------
    def num(self, dim, allow_zero=False):
        rng = self.rng
        return ['num', rng.choice(NUM_TEXTS), self.units.pick(dim, rng)]

    def leaf(self, comp, dim, avail):
        """avail: signals that may be referenced"""
        rng = self.rng
        cands = [s for s in avail if s['dim'] == dim]
        rng.shuffle(cands)
        if cands and rng.random() < 0.75:
            for s in cands[:3]:
                ln = self.view(s, comp)
                if ln is not None:
                    return ['var', ln]
        return self.num(dim)

    def expr(self, comp, dim, avail, depth, states=()):
        rng = self.rng
        if depth <= 0 or rng.random() < 0.25:
            return self.leaf(comp, dim, avail)
        r = rng.random()
        ok = lambda d: abs(d[0]) <= 2 and abs(d[1]) <= 2     # noqa: E731
        if r < 0.35:
            n = rng.choice([2, 2, 3])
            return ['+'] + [self.expr(comp, dim, avail, depth - 1, states) for _ in range(n)]
        if r < 0.45:
            return ['-', self.expr(comp, dim, avail, depth - 1, states), self.expr(comp, dim, avail, depth - 1, states)]
        if r < 0.62:
            d1 = rng.choice([(0, 0), (1, 0), (0, -1), (0, 1), (1, -1)])
            d2 = (dim[0] - d1[0], dim[1] - d1[1])
            if ok(d2):
                parts = [self.expr(comp, d1, avail, depth - 1, states), self.expr(comp, d2, avail, depth - 1, states)]
                rng.shuffle(parts)
                return ['*'] + parts
        if r < 0.76:
            d2 = rng.choice([(0, 0), (1, 0), (0, 1), (0, -1)])
            d1 = (dim[0] + d2[0], dim[1] + d2[1])
            if ok(d1):
                return ['/', self.expr(comp, d1, avail, depth - 1, states), self.expr(comp, d2, avail, depth - 1, states)]
        if r < 0.84:
            n = rng.choice([2, 2, 3, -1, -2])
            if dim[0] % n == 0 and dim[1] % n == 0:
                d1 = (dim[0] // n, dim[1] // n)
                if ok(d1):
                    return ['pow', self.expr(comp, d1, avail, depth - 1, states), n]
        if r < 0.90:
            return ['neg', self.expr(comp, dim, avail, depth - 1, states)]
        if r < 0.97 and states:
            cands = [s for s in states if (s['dim'][0], s['dim'][1] - 1) == dim]
            if cands:
                s = rng.choice(cands)
                x, t = self.view(s, comp), self.view(self.time, comp)
                if x is not None and t is not None:
                    return ['diff', x, t]
        return self.leaf(comp, dim, avail)

    # ---- annotations ---------------------------------------------------------------------------------------
    def annotate(self):
        rng = self.rng
        for sig in self.signals:
            if rng.random() >= self.p_cmeta * (3 if self.multi_cmeta else 1):
                continue
            comps = list(sig['views'])
            picks = [rng.choice(comps)]
            if self.multi_cmeta and len(comps) > 1:
                picks = rng.sample(comps, rng.randint(2, min(3, len(comps))))
            for c in picks:
                v = self.vars[c][sig['views'][c]]
                base = rng.choice([v['name'], 'id_' + v['name'], self.cnames[c] + '_' + v['name'], 'membrane_voltage'])
                cid, i = base, 0
                while cid in self.cmeta_used:
                    i += 1
                    cid = '%s%d' % (base, i)
                self.cmeta_used.add(cid)
                v['cmeta'] = cid

    # ---- document ------------------------------------------------------------------------------------------
    def finish(self, shuffle=True, merge_conn=0.7, name='m'):
        rng = self.rng
        k = len(self.parent)
        for c in range(k):                     # interfaces never set explicitly: random spelling of "no interface"
            for v in self.vars[c].values():
                for f in ('pub', 'priv'):
                    if v[f] is None and rng.random() < 0.3:
                        v[f] = 'none'
        # unit definitions: dependency order randomised (the loader's work list has to sort them out)
        unames = list(self.units.defs)
        if shuffle:
            rng.shuffle(unames)
        units = [{'name': n, 'elems': self.units.defs[n]} for n in unames]
        comps = []
        for c in range(k):
            names = list(self.order[c])
            if shuffle:
                rng.shuffle(names)
            eqs = list(self.maths[c])
            if shuffle:
                rng.shuffle(eqs)
            maths = []
            while eqs:                      # split over one or more <math> elements
                n = rng.randint(1, len(eqs))
                maths.append(eqs[:n])
                eqs = eqs[n:]
            comps.append({'name': self.cnames[c],
                          'variables': [{f: self.vars[c][n][f] for f in ('name', 'units', 'pub', 'priv', 'init', 'cmeta')}
                                        for n in names],
                          'maths': maths})
        kids = {c: [d for d in range(k) if self.parent[d] == c] for c in range(k)}

        def ref(c):
            ch = list(kids[c])
            if shuffle:
                rng.shuffle(ch)
            return {'component': self.cnames[c], 'children': [ref(d) for d in ch]}
        tops = [c for c in range(k) if self.parent[c] is None and kids[c]]
        if shuffle:
            rng.shuffle(tops)
        groups = []
        if tops:
            if rng.random() < 0.6 or len(tops) == 1:
                groups.append({'relationship': 'encapsulation', 'name': None, 'refs': [ref(c) for c in tops]})
            else:
                for c in tops:
                    groups.append({'relationship': 'encapsulation', 'name': None, 'refs': [ref(c)]})
        if k >= 2 and rng.random() < 0.15:   # a containment group: ignored by the loader, any shape
            a, b = rng.sample(range(k), 2)
            groups.append({'relationship': 'containment', 'name': rng.choice([None, 'phys']),
                           'refs': [{'component': self.cnames[b], 'children': [{'component': self.cnames[a], 'children': []}]}]})
        conns = []
        raw = list(self.conns)
        if shuffle:
            rng.shuffle(raw)
        for a, va, b, vb in raw:
            swap = shuffle and rng.random() < 0.5
            c1, v1, c2, v2 = (b, vb, a, va) if swap else (a, va, b, vb)
            done = False
            if rng.random() < merge_conn:
                for cn in conns:
                    if cn['c1'] == self.cnames[c1] and cn['c2'] == self.cnames[c2]:
                        cn['vars'].append([v1, v2])
                        done = True
                    elif cn['c1'] == self.cnames[c2] and cn['c2'] == self.cnames[c1]:
                        cn['vars'].append([v2, v1])
                        done = True
                    if done:
                        break
            if not done:
                conns.append({'c1': self.cnames[c1], 'c2': self.cnames[c2], 'vars': [[v1, v2]]})
        order = [['units', i] for i in range(len(units))] + [['component', i] for i in range(k)] + \
                [['group', i] for i in range(len(groups))] + [['connection', i] for i in range(len(conns))]
        if shuffle:
            rng.shuffle(order)
        meta = {'parent': [None if p is None else self.cnames[p] for p in self.parent],
                'components': list(self.cnames),
                'signals': [{'id': s['id'], 'owner': self.cnames[s['owner']], 'name': s['name'], 'kind': s['kind'],
                             'dim': list(s['dim']), 'hops': s['hops'],
                             'views': {self.cnames[c]: n for c, n in s['views'].items()}} for s in self.signals]}
        return {'name': name, 'cmeta': None, 'units': units, 'components': comps, 'groups': groups,
                'connections': conns, 'order': order, 'meta': meta}


def far_forest(rng):
    """two branches of depth 3 (or one of depth 4 and one of depth 2) plus a loose component: leaf to leaf is 5 hops"""
    if rng.random() < 0.5:
        parent = [None, 0, 1, None, 3, 4, None]
        ends = (2, 5)
    else:
        parent = [None, 0, 1, 2, None, 4, None]
        ends = (3, 5)
    return parent, (ends if rng.random() < 0.5 else ends[::-1])


def gen_doc(rng, k=None, n_signals=None, max_depth=4, expr_depth=3, multi_cmeta=False, p_cmeta=0.15, parent=None,
            far=None):
    """A random valid document: component forest, signals (constants, algebraic variables, states with ODEs) owned by
    random components and referenced from random other components through relay chains with unit changes.
    far=(owner, reader): the first signal lives in `owner` and is read in `reader` (forces a long chain)."""
    if parent is None:
        k = k or rng.choice([1, 2, 2, 3, 3, 4, 4, 5, 6, 7])
        parent = random_forest(rng, k, max_depth)
    k = len(parent)
    b = Builder(rng, parent, multi_cmeta=multi_cmeta, p_cmeta=p_cmeta)
    towner = rng.randrange(k)
    b.time = b.new_signal(towner, TIME_DIM, name=rng.choice(TIME_NAMES), units=b.units.need(rng.choice(FAMILIES[TIME_DIM])))
    b.time['kind'] = 'free'
    b.time['is_time'] = True
    ns = n_signals or rng.randint(1, 7)
    kinds = []
    for i in range(ns):
        r = rng.random()
        kinds.append('state' if r < 0.3 else 'alg' if r < 0.7 else 'const-init' if r < 0.85 else 'const-eq')
    sigs = []
    for kd in kinds:
        owner = far[0] if far and not sigs else rng.randrange(k)
        s = b.new_signal(owner, rng.choice(VAR_DIMS))
        s['kind'] = kd
        sigs.append(s)
    far_sig = sigs[0] if far else None
    if far:
        s = b.new_signal(far[1], sigs[0]['dim'])
        s['kind'] = 'alg-far'
        sigs.append(s)
    if rng.random() < 0.12:
        # an input nobody drives: a variable with an `in` interface and no connection (free in the document)
        s = b.new_signal(rng.randrange(k), rng.choice(VAR_DIMS))
        s['kind'], s['local'] = 'free-in', True
        v = b.vars[s['owner']][s['name']]
        if rng.random() < 0.5:
            v['pub'] = 'in'
        else:
            v['priv'] = 'in'
        sigs.insert(0, s)
    states = [s for s in sigs if s['kind'] == 'state']
    for i, s in enumerate(sigs):
        o = s['owner']
        v = b.vars[o][s['name']]
        if s['kind'] == 'free-in':
            continue
        if s['kind'] == 'const-init':
            v['init'] = rng.choice(NUM_TEXTS)
        elif s['kind'] == 'const-eq':
            b.maths[o].append({'lhs': ['var', s['name']], 'rhs': b.num(s['dim'])})
        elif s['kind'] == 'alg-far':
            ln = b.view(far_sig, o, max_hops=5)
            b.maths[o].append({'lhs': ['var', s['name']], 'rhs': ['+', ['var', ln], b.num(s['dim'])]})
        elif s['kind'] == 'alg':
            avail = sigs[:i] + [x for x in states if x['id'] != s['id'] and x not in sigs[:i]]
            if rng.random() < 0.2:
                avail = avail + [b.time]
            b.maths[o].append({'lhs': ['var', s['name']], 'rhs': b.expr(o, s['dim'], avail, rng.randint(1, expr_depth), states)})
        else:
            v['init'] = rng.choice(NUM_TEXTS)
            t = b.view(b.time, o, max_hops=99)
            ddim = (s['dim'][0], s['dim'][1] - 1)
            avail = sigs + ([b.time] if rng.random() < 0.2 else [])
            # a derivative reference to this very state inside its own ODE would be circular: exclude it
            others = [x for x in states if x['id'] != s['id']]
            b.maths[o].append({'lhs': ['diff', s['name'], t], 'rhs': b.expr(o, ddim, avail, rng.randint(1, expr_depth), ())})
            s['_others'] = [x['id'] for x in others]
    # pure observers: components that only look at a signal (target end of a chain with nothing else attached)
    for _ in range(rng.randint(0, 3)):
        s = rng.choice(sigs + [b.time])
        b.view(s, rng.randrange(k))
    b.annotate()
    doc = b.finish()
    doc['meta']['multi_cmeta'] = bool(multi_cmeta)
    return doc


def topo_doc(rng, parent, owner, target, units_by_hop, swap=False, kind='alg', annotate=None):
    """One signal defined in `owner`, observed in `target` (an algebraic variable there reads it): the exhaustive family.
    units_by_hop: unit names for the variables along the route (owner first)."""
    b = Builder(rng, parent, names=['c%d' % i for i in range(len(parent))], p_rename=0.5, p_cmeta=0.0,
                unit_choice=lambda sig, comp, hi: (units_by_hop[min(hi + 1, len(units_by_hop) - 1)]
                                                   if sig['name'] == 'x' and not sig.get('is_time') else None))
    b.time = b.new_signal(owner, TIME_DIM, name='t', units=b.units.need('ms'))
    b.time['kind'] = 'free'
    b.time['is_time'] = True
    s = b.new_signal(owner, (1, 0), name='x', units=b.units.need(units_by_hop[0]))
    s['kind'] = kind
    v = b.vars[owner]['x']
    if kind == 'state':
        v['init'] = '2.5'
        b.maths[owner].append({'lhs': ['diff', 'x', 't'], 'rhs': ['num', '3', b.units.need('mV_per_ms')]})
    elif kind == 'const-init':
        v['init'] = '2.5'
    else:
        b.maths[owner].append({'lhs': ['var', 'x'], 'rhs': ['+', ['num', '2', b.units.need('mV')],
                                                            ['num', '0.5', b.units.need('volt')]]})
    ln = b.view(s, target, max_hops=99)
    y = b.fresh_name(target, prefer='y')
    b.add_var(target, y, b.units.need(rng.choice(FAMILIES[(1, 0)])), sig=None)
    rhs = ['+', ['var', ln], ['num', '1', b.units.need(rng.choice(FAMILIES[(1, 0)]))]]
    b.maths[target].append({'lhs': ['var', y], 'rhs': rhs})
    if kind == 'state':
        tl = b.view(b.time, target, max_hops=99)
        r = b.fresh_name(target, prefer='rate')
        b.add_var(target, r, b.units.need(rng.choice(FAMILIES[(1, -1)])), sig=None)
        b.maths[target].append({'lhs': ['var', r], 'rhs': ['diff', ln, tl]})
    if annotate is not None:
        path = route(parent, owner, target)
        c = path[min(annotate, len(path) - 1)]
        b.vars[c][s['views'][c]]['cmeta'] = 'ann_x'
    doc = b.finish(shuffle=True)
    if swap:
        for cn in doc['connections']:
            cn['c1'], cn['c2'] = cn['c2'], cn['c1']
            cn['vars'] = [[w, v_] for v_, w in cn['vars']]
    doc['meta']['multi_cmeta'] = False
    return doc


def topo_cases(ks=(2, 3)):
    """(parent, owner, target) for every forest on k labelled components, every ordered pair owner != target"""
    out = []
    for k in ks:
        for parent in all_forests(k):
            for o in range(k):
                for t in range(k):
                    if o != t:
                        out.append((parent, o, t))
    return out


# ------------------------------------------------------------------------------------------------- XML
def _esc(s):
    return str(s).replace('&', '&amp;').replace('<', '&lt;').replace('"', '&quot;')


def expr_xml(e):
    op = e[0]
    if op == 'num':
        return '<cn cellml:units="%s">%s</cn>' % (_esc(e[2]), _esc(e[1]))
    if op == 'var':
        return '<ci>%s</ci>' % _esc(e[1])
    if op == 'diff':
        return '<apply><diff/><bvar><ci>%s</ci></bvar><ci>%s</ci></apply>' % (_esc(e[2]), _esc(e[1]))
    if op in ('+', '*'):
        return '<apply><%s/>%s</apply>' % ('plus' if op == '+' else 'times', ''.join(expr_xml(a) for a in e[1:]))
    if op in ('-', '/'):
        return '<apply><%s/>%s%s</apply>' % ('minus' if op == '-' else 'divide', expr_xml(e[1]), expr_xml(e[2]))
    if op == 'neg':
        return '<apply><minus/>%s</apply>' % expr_xml(e[1])
    if op == 'pow':
        return '<apply><power/>%s<cn cellml:units="dimensionless">%d</cn></apply>' % (expr_xml(e[1]), e[2])
    raise ValueError('unknown expression node %r' % (op,))


def eq_xml(eq):
    return '<apply><eq/>%s%s</apply>' % (expr_xml(eq['lhs']), expr_xml(eq['rhs']))


def _ref_xml(r):
    return '<component_ref component="%s">%s</component_ref>' % (_esc(r['component']),
                                                                 ''.join(_ref_xml(c) for c in r['children']))


def to_xml(doc):
    """CellML 1.0 text of the document (valid for cellmlmanip/data/cellml_1_0.rng when the document is)."""
    out = ['<?xml version="1.0" encoding="utf-8"?>\n<model name="%s"%s xmlns="%s" xmlns:cellml="%s" xmlns:cmeta="%s">\n'
           % (_esc(doc['name']), (' cmeta:id="%s"' % _esc(doc['cmeta'])) if doc.get('cmeta') else '',
              CELLML_NS, CELLML_NS, CMETA_NS)]
    order = doc.get('order') or ([['units', i] for i in range(len(doc['units']))] +
                                 [['component', i] for i in range(len(doc['components']))] +
                                 [['group', i] for i in range(len(doc['groups']))] +
                                 [['connection', i] for i in range(len(doc['connections']))])
    for kind, i in order:
        if kind == 'units':
            u = doc['units'][i]
            if u.get('base'):
                out.append('<units name="%s" base_units="yes"/>\n' % _esc(u['name']))
            else:
                out.append('<units name="%s">%s</units>\n' % (_esc(u['name']), ''.join(
                    '<unit %s/>' % ' '.join('%s="%s"' % (k, _esc(e[k])) for k in
                                            ('units', 'prefix', 'exponent', 'multiplier', 'offset') if e.get(k) is not None)
                    for e in u['elems'])))
        elif kind == 'component':
            c = doc['components'][i]
            out.append('<component name="%s">\n' % _esc(c['name']))
            for v in c['variables']:
                attrs = 'name="%s" units="%s"' % (_esc(v['name']), _esc(v['units']))
                if v.get('pub') is not None:
                    attrs += ' public_interface="%s"' % v['pub']
                if v.get('priv') is not None:
                    attrs += ' private_interface="%s"' % v['priv']
                if v.get('init') is not None:
                    attrs += ' initial_value="%s"' % _esc(v['init'])
                if v.get('cmeta') is not None:
                    attrs += ' cmeta:id="%s"' % _esc(v['cmeta'])
                out.append('  <variable %s/>\n' % attrs)
            for m in c['maths']:
                out.append('  <math xmlns="%s">%s</math>\n' % (MATHML_NS, ''.join(eq_xml(e) for e in m)))
            out.append('</component>\n')
        elif kind == 'group':
            g = doc['groups'][i]
            rel = '<relationship_ref relationship="%s"%s/>' % (g['relationship'],
                                                             (' name="%s"' % _esc(g['name'])) if g.get('name') else '')
            out.append('<group>%s%s</group>\n' % (rel, ''.join(_ref_xml(r) for r in g['refs'])))
        elif kind == 'connection':
            cn = doc['connections'][i]
            out.append('<connection><map_components component_1="%s" component_2="%s"/>%s</connection>\n' % (
                _esc(cn['c1']), _esc(cn['c2']),
                ''.join('<map_variables variable_1="%s" variable_2="%s"/>' % (_esc(a), _esc(b)) for a, b in cn['vars'])))
    out.append('</model>\n')
    return ''.join(out)


# ------------------------------------------------------------------------------------------------- meaning
class DocError(Exception):
    """the document has no value under the reference semantics (division by zero, undefined unit, algebraic loop)"""


def unit_scales(doc):
    """name -> (scale to SI as Fraction, dimension dict) for every unit of the document, from the definitions alone
    (CellML 1.1 section 5.2; integer exponents only, which is all this generator emits)"""
    out = {}
    defs = {u['name']: u for u in doc['units']}

    def get(n, stack=()):
        if n in out:
            return out[n]
        if n in defs:
            if n in stack:
                raise DocError('cyclic unit ' + n)
            u = defs[n]
            if u.get('base'):
                out[n] = (Fraction(1), {'[' + n + ']': Fraction(1)})
                return out[n]
            sc, dims = Fraction(1), {}
            for e in u['elems']:
                rs, rd = get(e['units'], stack + (n,))
                if e.get('prefix') is not None:
                    p = U.SI_PREFIX.get(e['prefix'])
                    p = int(e['prefix']) if p is None else p
                    rs = rs * Fraction(10) ** p
                ex = Fraction(e.get('exponent') or '1')
                if ex.denominator != 1:
                    raise DocError('non-integer unit exponent')
                rs = rs ** int(ex)
                rd = {k_: v * ex for k_, v in rd.items()}
                if e.get('multiplier') is not None:
                    rs = rs * Fraction(e['multiplier'])
                sc *= rs
                dims = U.dim_add(dims, rd)
            out[n] = (sc, dims)
            return out[n]
        if n in U.SI:
            p10, dd = U.SI[n]
            out[n] = (Fraction(10) ** p10, {k_: Fraction(v) for k_, v in dd.items() if k_ != 'rad'})
            return out[n]
        raise DocError('undefined unit ' + n)
    for n in list(defs):
        get(n)
    return get


def num_value(text):
    """the number a <cn> / initial_value text denotes after the loader's float(): exact value of the binary64"""
    return Fraction(float(text))


def doc_semantics(doc):
    """Union-find over connections (no direction, no interfaces) + definitions per connected class.
    Returns dict with: cls(c, v) -> class id; defs: class -> ('eq', comp, rhs) | ('ode', comp, rhs, time class);
    init: class -> SI value; scale(unit) ; members."""
    scale = unit_scales(doc)
    parent = {}

    def find(x):
        while parent[x] != x:
            parent[x] = parent[parent[x]]
            x = parent[x]
        return x
    decl = {}
    for c in doc['components']:
        for v in c['variables']:
            key = (c['name'], v['name'])
            parent[key] = key
            decl[key] = v
    for cn in doc['connections']:
        for v1, v2 in cn['vars']:
            a, b_ = (cn['c1'], v1), (cn['c2'], v2)
            if a not in parent or b_ not in parent:
                raise DocError('connection to an undeclared variable')
            ra, rb = find(a), find(b_)
            if ra != rb:
                parent[ra] = rb
    defs, odes, init = {}, {}, {}
    for c in doc['components']:
        for m in c['maths']:
            for eq in m:
                lhs = eq['lhs']
                if (c['name'], lhs[1]) not in parent:
                    raise DocError('undeclared identifier')
                k_ = find((c['name'], lhs[1]))
                if k_ in defs or k_ in odes:
                    raise DocError('variable defined twice')
                if lhs[0] == 'var':
                    defs[k_] = (c['name'], eq['rhs'])
                else:
                    odes[k_] = (c['name'], eq['rhs'], find((c['name'], lhs[2])))
    for key, v in decl.items():
        if v.get('init') is not None:
            k_ = find(key)
            if k_ in init or k_ in defs:
                raise DocError('variable defined twice')
            init[k_] = num_value(v['init']) * scale(v['units'])[0]
    return {'find': find, 'decl': decl, 'defs': defs, 'odes': odes, 'init': init, 'scale': scale}


FREE_SI = Fraction(3, 8)


def reference_values(doc, free_si=FREE_SI):
    """Physical (SI) value of every variable and of every state's derivative under the document's own equations, at
    the initial state. Returns {'vars': {(c, v): Fraction}, 'derivs': {(c, x): Fraction for ODE classes, per member},
    'bound': {(c, v): Fraction}} where bound is the same expression evaluated with |.| everywhere (conditioning).
    Raises DocError when the document has no value (division by zero, loops)."""
    sem = doc_semantics(doc)
    find, defs, odes, init, scale = sem['find'], sem['defs'], sem['odes'], sem['init'], sem['scale']
    val, active = {}, set()

    def ev(comp, e):
        op = e[0]
        if op == 'num':
            v = num_value(e[1]) * scale(e[2])[0]
            return v, abs(v)
        if op == 'var':
            if (comp, e[1]) not in sem['decl']:
                raise DocError('undeclared identifier')
            return cls_value(find((comp, e[1])))
        if op == 'diff':
            k_ = find((comp, e[1]))
            if k_ not in odes:
                raise DocError('derivative of a non-state')
            if find((comp, e[2])) != odes[k_][2]:
                raise DocError('derivative with respect to a different variable')
            return deriv_value(k_)
        if op == '+':
            parts = [ev(comp, a) for a in e[1:]]
            return sum(p[0] for p in parts), sum(p[1] for p in parts)
        if op == '*':
            v, m = Fraction(1), Fraction(1)
            for a in e[1:]:
                pv, pm = ev(comp, a)
                v, m = v * pv, m * pm
            return v, m
        if op == '-':
            a, b_ = ev(comp, e[1]), ev(comp, e[2])
            return a[0] - b_[0], a[1] + b_[1]
        if op == '/':
            a, b_ = ev(comp, e[1]), ev(comp, e[2])
            if b_[0] == 0:
                raise DocError('division by zero')
            # conditioning of a quotient: |a| bound over the exact |b| scaled by how ill-conditioned b is
            return a[0] / b_[0], a[1] / abs(b_[0]) * (b_[1] / abs(b_[0]))
        if op == 'neg':
            a = ev(comp, e[1])
            return -a[0], a[1]
        if op == 'pow':
            a = ev(comp, e[1])
            n = e[2]
            if n < 0 and a[0] == 0:
                raise DocError('division by zero')
            if n >= 0:
                return a[0] ** n, a[1] ** n
            return a[0] ** n, (a[1] / abs(a[0])) ** (-n) * abs(a[0]) ** n
        raise DocError('unknown node')

    def cls_value(k_):
        if k_ in val:
            return val[k_]
        if k_ in odes:
            if k_ not in init:
                raise DocError('state without initial value')
            val[k_] = (init[k_], abs(init[k_]))
        elif k_ in defs:
            if k_ in active:
                raise DocError('algebraic loop')
            active.add(k_)
            val[k_] = ev(*defs[k_])
            active.discard(k_)
        elif k_ in init:
            val[k_] = (init[k_], abs(init[k_]))
        else:
            val[k_] = (free_si, abs(free_si))
        return val[k_]
    dval = {}

    def deriv_value(k_):
        if k_ not in dval:
            if ('d', k_) in active:
                raise DocError('algebraic loop')
            active.add(('d', k_))
            dval[k_] = ev(odes[k_][0], odes[k_][1])
            active.discard(('d', k_))
        return dval[k_]
    out = {'vars': {}, 'derivs': {}, 'bound': {}, 'dbound': {}, 'free': set(), 'state': set()}
    for key in sem['decl']:
        k_ = find(key)
        v, m = cls_value(k_)
        out['vars'][key], out['bound'][key] = v, m
        if k_ in odes:
            d, dm = deriv_value(k_)
            out['derivs'][key], out['dbound'][key] = d, dm
            out['state'].add(key)
        elif k_ not in defs and k_ not in init:
            out['free'].add(key)
    out['scale'] = scale
    out['sem'] = sem
    return out


def gen_valid_doc(rng, tries=40, **kw):
    """gen_doc, re-drawn until the reference semantics gives every variable a value and no zero denominators"""
    for _ in range(tries):
        doc = gen_doc(rng, **kw)
        try:
            ref = reference_values(doc)
        except DocError:
            continue
        # keep away from exact cancellations: they make relative comparison of float results meaningless
        if any(v == 0 and ref['bound'][k_] != 0 for k_, v in ref['vars'].items()):
            continue
        return doc
    raise RuntimeError('generator could not produce a valid document')


# ------------------------------------------------------------------------------------------------- reuse hooks
def permute_doc(doc, rng):
    """C15: same document, different element order / component_1-2 order / variable order (meaning unchanged)."""
    d = copy.deepcopy(doc)
    rng.shuffle(d['order'])
    for c in d['components']:
        rng.shuffle(c['variables'])
        rng.shuffle(c['maths'])
    for cn in d['connections']:
        if rng.random() < 0.5:
            cn['c1'], cn['c2'] = cn['c2'], cn['c1']
            cn['vars'] = [[w, v] for v, w in cn['vars']]
        rng.shuffle(cn['vars'])
    return d


def mutate_units(doc, rng):
    """C17 hook: inject a unit fault (cyclic / dangling / duplicate / built-in override / offset). Not implemented here."""
    return doc


def mutate_interfaces(doc, rng):
    """C17 hook: inject an interface fault (both ends sources, both receivers, no direction). Not implemented here."""
    return doc


def mutate_connections(doc, rng):
    """C17 hook: missing component / variable, non-sibling non-parent pair, incompatible units, two sources."""
    return doc


def mutate_maths(doc, rng):
    """C17 hook: variable defined twice, undefined identifier or unit, non-variable / higher-order LHS."""
    return doc


def mutate_structure(doc, rng):
    """C17 hook: component units, reactions, duplicate component, two parents."""
    return doc


MUTATORS = {'units': mutate_units, 'interfaces': mutate_interfaces, 'connections': mutate_connections,
            'maths': mutate_maths, 'structure': mutate_structure}


# ------------------------------------------------------------------------------------------------- shrinking
def shrink_candidates(doc):
    """smaller / simpler variants of a document, most aggressive first (used by the shrinkers of C01/C17/C15)"""
    # 1. drop a component with everything that mentions it
    for i, c in enumerate(doc['components']):
        d = copy.deepcopy(doc)
        name = c['name']
        del d['components'][i]
        d['connections'] = [cn for cn in d['connections'] if name not in (cn['c1'], cn['c2'])]

        def prune(refs):
            out = []
            for r in refs:
                if r['component'] == name:
                    out.extend(prune(r['children']))
                else:
                    out.append({'component': r['component'], 'children': prune(r['children'])})
            return out
        for g in d['groups']:
            g['refs'] = prune(g['refs'])
        d['groups'] = [g for g in d['groups'] if g['refs']]
        d['order'] = None
        yield d
    # 2. drop one equation
    for ci, c in enumerate(doc['components']):
        for mi, m in enumerate(c['maths']):
            for ei in range(len(m)):
                d = copy.deepcopy(doc)
                del d['components'][ci]['maths'][mi][ei]
                d['components'][ci]['maths'] = [x for x in d['components'][ci]['maths'] if x]
                yield d
    # 3. drop one map_variables
    for i, cn in enumerate(doc['connections']):
        for j in range(len(cn['vars'])):
            d = copy.deepcopy(doc)
            del d['connections'][i]['vars'][j]
            if not d['connections'][i]['vars']:
                del d['connections'][i]
                d['order'] = None
            yield d
    # 4. drop an unreferenced variable
    for ci, c in enumerate(doc['components']):
        for vi, v in enumerate(c['variables']):
            used = any(v['name'] in str(m) for m in c['maths']) or any(
                (cn['c1'] == c['name'] and any(a == v['name'] for a, _ in cn['vars'])) or
                (cn['c2'] == c['name'] and any(b_ == v['name'] for _, b_ in cn['vars'])) for cn in doc['connections'])
            if not used:
                d = copy.deepcopy(doc)
                del d['components'][ci]['variables'][vi]
                yield d
    # 5. replace a right-hand side by one of its operands
    for ci, c in enumerate(doc['components']):
        for mi, m in enumerate(c['maths']):
            for ei, eq in enumerate(m):
                rhs = eq['rhs']
                if rhs[0] in ('+', '*', '-', '/', 'neg', 'pow') and rhs[0] in ('+', '-', 'neg'):
                    for a in rhs[1:]:
                        if isinstance(a, list):
                            d = copy.deepcopy(doc)
                            d['components'][ci]['maths'][mi][ei]['rhs'] = a
                            yield d
    # 6. equalise units: give a variable the unit of the variable it is connected to
    decl = {(c['name'], v['name']): (ci, vi) for ci, c in enumerate(doc['components']) for vi, v in enumerate(c['variables'])}
    for cn in doc['connections']:
        for v1, v2 in cn['vars']:
            a, b_ = decl.get((cn['c1'], v1)), decl.get((cn['c2'], v2))
            if a and b_:
                ua = doc['components'][a[0]]['variables'][a[1]]['units']
                ub = doc['components'][b_[0]]['variables'][b_[1]]['units']
                if ua != ub:
                    d = copy.deepcopy(doc)
                    d['components'][b_[0]]['variables'][b_[1]]['units'] = ua
                    yield d
    # 7. drop annotations
    for ci, c in enumerate(doc['components']):
        for vi, v in enumerate(c['variables']):
            if v.get('cmeta'):
                d = copy.deepcopy(doc)
                d['components'][ci]['variables'][vi]['cmeta'] = None
                yield d


def shrink(doc, still_fails, budget=150):
    """greedy: keep any candidate on which `still_fails(candidate)` is true"""
    cur = doc
    progress = True
    while progress and budget > 0:
        progress = False
        for cand in shrink_candidates(cur):
            budget -= 1
            if budget <= 0:
                break
            try:
                if still_fails(cand):
                    cur, progress = cand, True
                    break
            except Exception:
                continue
    return cur


# ===================================================================================================================
# C17 — fault injection (appended; nothing above is changed). Extended document fields, all optional:
#   component['xunits']    : [unit definition, ...]  <units> elements INSIDE the component (unsupported feature)
#   component['reactions'] : n                       n schema-valid <reaction> elements (unsupported feature)
#   component['badeqs']    : [{'at': j, 'lhs': xexpr, 'rhs': expr}]  an own <math> element before <math> number j whose
#                            left-hand side is not a variable / first derivative; xexpr adds ['diffn', x, t, n]
#   unit element 'offset'  : text
#   doc['xml_faults']      : [{'kind':..., 'site': i}]  text-level damage applied after rendering (schema faults)
# `spec_violations(doc)` is a reference validator written from the CellML 1.0 specification (sections 3.4, 4.4, 5.4,
# 6.4) — not from parser.py: it says which fault classes a document has, hence whether load_model must refuse it.
def xexpr_xml(e):
    if e[0] == 'diffn':
        return ('<apply><diff/><bvar><ci>%s</ci><degree><cn cellml:units="dimensionless">%s</cn></degree></bvar>'
                '<ci>%s</ci></apply>' % (_esc(e[2]), e[3], _esc(e[1])))
    if e[0] == 'diffx':     # first derivative of an EXPRESSION (not of a variable): ['diffx', expr, t]
        return '<apply><diff/><bvar><ci>%s</ci></bvar>%s</apply>' % (_esc(e[2]), expr_xml(e[1]))
    return expr_xml(e)


def units_xml(u):
    if u.get('base'):
        return '<units name="%s" base_units="yes"/>\n' % _esc(u['name'])
    return '<units name="%s">%s</units>\n' % (_esc(u['name']), ''.join(
        '<unit %s/>' % ' '.join('%s="%s"' % (k, _esc(e[k])) for k in ('units', 'prefix', 'exponent', 'multiplier', 'offset')
                                if e.get(k) is not None) for e in u['elems']))


def to_xml_x(doc):
    """`to_xml` plus the extended fields (same text as `to_xml` on a document that has none of them)"""
    out = ['<?xml version="1.0" encoding="utf-8"?>\n<model name="%s"%s xmlns="%s" xmlns:cellml="%s" xmlns:cmeta="%s">\n'
           % (_esc(doc['name']), (' cmeta:id="%s"' % _esc(doc['cmeta'])) if doc.get('cmeta') else '',
              CELLML_NS, CELLML_NS, CMETA_NS)]
    order = doc.get('order') or ([['units', i] for i in range(len(doc['units']))] +
                                 [['component', i] for i in range(len(doc['components']))] +
                                 [['group', i] for i in range(len(doc['groups']))] +
                                 [['connection', i] for i in range(len(doc['connections']))])
    for kind, i in order:
        if kind == 'units':
            out.append(units_xml(doc['units'][i]))
        elif kind == 'component':
            c = doc['components'][i]
            out.append('<component name="%s">\n' % _esc(c['name']))
            for u in c.get('xunits') or []:
                out.append('  ' + units_xml(u))
            for v in c['variables']:
                attrs = 'name="%s" units="%s"' % (_esc(v['name']), _esc(v['units']))
                if v.get('pub') is not None:
                    attrs += ' public_interface="%s"' % v['pub']
                if v.get('priv') is not None:
                    attrs += ' private_interface="%s"' % v['priv']
                if v.get('init') is not None:
                    attrs += ' initial_value="%s"' % _esc(v['init'])
                if v.get('cmeta') is not None:
                    attrs += ' cmeta:id="%s"' % _esc(v['cmeta'])
                out.append('  <variable %s/>\n' % attrs)
            vname = c['variables'][0]['name'] if c['variables'] else 'x'
            for _ in range(c.get('reactions') or 0):
                out.append('  <reaction reversible="no"><variable_ref variable="%s"><role role="reactant" '
                           'stoichiometry="1"/></variable_ref></reaction>\n' % _esc(vname))
            bad = c.get('badeqs') or []
            for j in range(len(c['maths']) + 1):
                for b in bad:
                    if min(b['at'], len(c['maths'])) == j:
                        out.append('  <math xmlns="%s"><apply><eq/>%s%s</apply></math>\n'
                                   % (MATHML_NS, xexpr_xml(b['lhs']), expr_xml(b['rhs'])))
                if j < len(c['maths']):
                    out.append('  <math xmlns="%s">%s</math>\n' % (MATHML_NS, ''.join(eq_xml(e) for e in c['maths'][j])))
            out.append('</component>\n')
        elif kind == 'group':
            g = doc['groups'][i]
            rel = '<relationship_ref relationship="%s"%s/>' % (g['relationship'],
                                                             (' name="%s"' % _esc(g['name'])) if g.get('name') else '')
            out.append('<group>%s%s</group>\n' % (rel, ''.join(_ref_xml(r) for r in g['refs'])))
        elif kind == 'connection':
            cn = doc['connections'][i]
            out.append('<connection><map_components component_1="%s" component_2="%s"/>%s</connection>\n' % (
                _esc(cn['c1']), _esc(cn['c2']),
                ''.join('<map_variables variable_1="%s" variable_2="%s"/>' % (_esc(a), _esc(b)) for a, b in cn['vars'])))
    out.append('</model>\n')
    text = ''.join(out)
    for f in doc.get('xml_faults') or []:
        text = apply_xml_fault(text, f)
    return text


def parent_edges(doc):
    """(parent, child) pairs of the encapsulation groups, document order"""
    out = []

    def walk(refs, par):
        for r in refs:
            if par is not None:
                out.append((par, r['component']))
            walk(r['children'], r['component'])
    order = doc.get('order') or [['group', i] for i in range(len(doc['groups']))]
    for kind, i in order:
        if kind == 'group' and doc['groups'][i]['relationship'] == 'encapsulation':
            walk(doc['groups'][i]['refs'], None)
    return out


def parent_map(doc):
    return {c: p for p, c in parent_edges(doc)}


def relation(par, a, b):
    """'sibling' | 'down' (a is the parent of b) | 'up' | 'self' | None (not adjacent)"""
    if a == b:
        return 'self'
    if par.get(b) == a:
        return 'down'
    if par.get(a) == b:
        return 'up'
    if par.get(a) == par.get(b):
        return 'sibling'
    return None


def _iface(v, f):
    return v.get(f) if v.get(f) in ('in', 'out') else 'none'


def connection_ends(doc):
    """every <map_variables> with what the specification says about it:
    dicts {ci, vi, a: (comp, var), b: (comp, var), rel, ia, ib (the interfaces that face each other), src, tgt}"""
    par = parent_map(doc)
    decl = {(c['name'], v['name']): v for c in doc['components'] for v in c['variables']}
    out = []
    for ci, cn in enumerate(doc['connections']):
        for vi, (v1, v2) in enumerate(cn['vars']):
            a, b = (cn['c1'], v1), (cn['c2'], v2)
            e = {'ci': ci, 'vi': vi, 'a': a, 'b': b, 'rel': relation(par, cn['c1'], cn['c2']), 'src': None, 'tgt': None}
            if a in decl and b in decl and e['rel'] in ('sibling', 'down', 'up', 'self'):
                fa = 'priv' if e['rel'] == 'down' else 'pub'
                fb = 'priv' if e['rel'] == 'up' else 'pub'
                e['ia'], e['ib'] = _iface(decl[a], fa), _iface(decl[b], fb)
                if (e['ia'], e['ib']) == ('out', 'in'):
                    e['src'], e['tgt'] = a, b
                elif (e['ia'], e['ib']) == ('in', 'out'):
                    e['src'], e['tgt'] = b, a
            out.append(e)
    return out


# fault classes of the property (load_model must raise) and extra classes of broken documents outside its list
# zero as the schema lets it be written in an offset attribute (xsd:decimal): a valid document, must be loaded
ZERO_OFFSETS = ['0', '0.0', '+0', '-0', '0.00', ' 0 ']
PROPERTY_CLASSES = ['component-units', 'reaction', 'units-offset', 'units-cycle', 'units-dangling', 'units-duplicate',
                    'units-builtin-override', 'missing-component', 'missing-variable', 'both-sources', 'both-receivers',
                    'no-direction', 'non-adjacent', 'incompatible-units', 'two-sources', 'defined-twice',
                    'undefined-identifier', 'undefined-unit', 'nonvar-lhs', 'higher-order-lhs', 'duplicate-component',
                    'schema']
EXTRA_CLASSES = ['duplicate-variable', 'two-parents', 'unfed-relay', 'state-without-init', 'self-connection']


def _expr_walk(e, idents, units):
    op = e[0]
    if op == 'num':
        units.append(e[2])
    elif op == 'var':
        idents.append(e[1])
    elif op in ('diff', 'diffn'):
        idents.extend([e[1], e[2]])
    elif op == 'diffx':
        idents.append(e[2])
        _expr_walk(e[1], idents, units)
    else:
        for a in e[1:]:
            if isinstance(a, list):
                _expr_walk(a, idents, units)


def spec_violations(doc):
    """set of fault classes the document has according to the CellML 1.0 specification (+ the features cellmlmanip
    documents as unsupported). Empty set = the document is valid and supported: load_model must return a model."""
    out = set()
    # ---- units (5.4): unique names, no redefinition of the standard units, no cycles, references resolve, offsets
    names = [u['name'] for u in doc['units']]
    if len(set(names)) != len(names):
        out.add('units-duplicate')
    if any(n in U.SI or n == 'celsius' for n in names):
        out.add('units-builtin-override')
    defs = {}
    for u in doc['units']:
        defs.setdefault(u['name'], u)
    known = set(U.SI) | set(defs)
    state = {}

    def visit(n):
        if n not in defs or state.get(n) == 2:
            return
        if state.get(n) == 1:
            out.add('units-cycle')
            return
        state[n] = 1
        for e in defs[n].get('elems') or []:
            if e['units'] not in known:
                out.add('units-dangling')
            visit(e['units'])
        state[n] = 2
    for u in doc['units']:
        if not u.get('base'):
            for e in u.get('elems') or []:
                if e.get('offset') is not None:
                    try:
                        if Fraction(e['offset'].strip()) != 0:
                            out.add('units-offset')
                    except (ValueError, ZeroDivisionError):
                        out.add('schema')
    for n in names:
        visit(n)
    usable = 'units-cycle' not in out and 'units-dangling' not in out and 'units-duplicate' not in out
    scale = None
    if usable:
        try:
            scale = unit_scales(doc)
        except DocError:
            scale = None
    # ---- components and variables (3.4.2, 3.4.3)
    cnames = [c['name'] for c in doc['components']]
    if len(set(cnames)) != len(cnames):
        out.add('duplicate-component')
    decl = {}
    for c in doc['components']:
        if c.get('xunits'):
            out.add('component-units')
        if c.get('reactions'):
            out.add('reaction')
        vn = [v['name'] for v in c['variables']]
        if len(set(vn)) != len(vn):
            out.add('duplicate-variable')
        for v in c['variables']:
            decl.setdefault((c['name'], v['name']), v)
            if v['units'] not in known:
                out.add('undefined-unit')
            if v.get('pub') == 'in' and v.get('priv') == 'in':
                out.add('schema')
            if v.get('init') is not None and 'in' in (v.get('pub'), v.get('priv')):
                out.add('schema')
    # ---- encapsulation (6.4.3): one parent at most
    kids = [c for _, c in parent_edges(doc)]
    if len(set(kids)) != len(kids):
        out.add('two-parents')
    # ---- connections (3.4.5, 3.4.6)
    ends = connection_ends(doc)
    targets, fed, sources = {}, set(), []
    for e in ends:
        if e['a'][0] not in cnames or e['b'][0] not in cnames:
            out.add('missing-component')
            continue
        if e['a'] not in decl or e['b'] not in decl:
            out.add('missing-variable')
            continue
        if e['rel'] is None:
            out.add('non-adjacent')
            continue
        if e['rel'] == 'self':
            out.add('self-connection')
        if e['src'] is None:
            pair = (e['ia'], e['ib'])
            out.add('both-sources' if pair == ('out', 'out') else 'both-receivers' if pair == ('in', 'in')
                    else 'no-direction')
            continue
        targets[e['tgt']] = targets.get(e['tgt'], 0) + 1
        fed.add(e['tgt'])
        sources.append(e['src'])
        if scale is not None:
            try:
                if scale(decl[e['a']]['units'])[1] != scale(decl[e['b']]['units'])[1]:
                    out.add('incompatible-units')
            except DocError:
                pass
    if any(n > 1 for n in targets.values()):
        out.add('two-sources')
    for s in sources:
        if 'in' in (decl[s].get('pub'), decl[s].get('priv')) and s not in fed:
            out.add('unfed-relay')
    # ---- maths (4.4): identifiers, units of numbers, shape of the left-hand side, one definition per quantity
    parent = {k: k for k in decl}

    def find(x):
        while parent[x] != x:
            parent[x] = parent[parent[x]]
            x = parent[x]
        return x
    for e in ends:
        if e['src'] is not None:
            parent[find(e['a'])] = find(e['b'])
    ndef, odes = {}, set()
    for c in doc['components']:
        eqs = [eq for m in c['maths'] for eq in m]
        for b in c.get('badeqs') or []:
            out.add('higher-order-lhs' if b['lhs'][0] == 'diffn' else 'nonvar-lhs')
            eqs = eqs + [{'lhs': None, 'rhs': b['rhs'], 'xl': b['lhs']}]
        for eq in eqs:
            idents, units = [], []
            _expr_walk(eq['rhs'], idents, units)
            _expr_walk(eq.get('xl') or eq['lhs'], idents, units)
            if any((c['name'], x) not in decl for x in idents):
                out.add('undefined-identifier')
            if any(u not in known for u in units):
                out.add('undefined-unit')
            if eq['lhs'] is not None and (c['name'], eq['lhs'][1]) in decl:
                k = find((c['name'], eq['lhs'][1]))
                ndef[k] = ndef.get(k, 0) + 1
                if eq['lhs'][0] == 'diff':
                    odes.add(k)
    for key, v in decl.items():
        if v.get('init') is not None and find(key) not in odes:
            ndef[find(key)] = ndef.get(find(key), 0) + 1
    if any(n > 1 for n in ndef.values()):
        out.add('defined-twice')
    for k in odes:
        if not any(v.get('init') is not None for key, v in decl.items() if find(key) == k):
            out.add('state-without-init')
    if doc.get('xml_faults'):
        out.add('schema')
    return out


# ------------------------------------------------------------------------------------------- sites and injectors
_LIST_OF = {'units': 'units', 'component': 'components', 'group': 'groups', 'connection': 'connections'}
OTHER_DIM_UNITS = ['ampere', 'kelvin', 'mole', 'candela', 'kilogram']


def _order(doc):
    if not doc.get('order'):
        doc['order'] = ([['units', i] for i in range(len(doc['units']))] +
                        [['component', i] for i in range(len(doc['components']))] +
                        [['group', i] for i in range(len(doc['groups']))] +
                        [['connection', i] for i in range(len(doc['connections']))])
    return doc['order']


def _add(doc, kind, item, where='last'):
    """append `item` to the document, placing its element first / in the middle / last among <model>'s children"""
    order = _order(doc)
    lst = doc[_LIST_OF[kind]]
    lst.append(item)
    pos = {'first': 0, 'middle': len(order) // 2}.get(where, len(order))
    order.insert(pos, [kind, len(lst) - 1])


def _var(doc, ref):
    for c in doc['components']:
        if c['name'] == ref[0]:
            for v in c['variables']:
                if v['name'] == ref[1]:
                    return v
    return None


def _comp(doc, name):
    return next((c for c in doc['components'] if c['name'] == name), None)


def _fresh(comp, base):
    used = {v['name'] for v in comp['variables']}
    n, i = base, 0
    while n in used:
        i += 1
        n = '%s%d' % (base, i)
    return n


def _facing(e, which):
    """(variable ref, interface attribute) of the source / target end of a valid connection"""
    ref = e[which]
    is_a = ref == e['a']
    if e['rel'] == 'down':
        return ref, ('priv' if is_a else 'pub')
    if e['rel'] == 'up':
        return ref, ('pub' if is_a else 'priv')
    return ref, 'pub'


def _class_defined(doc):
    """(component, variable) -> True when the connected class of the variable already has a definition"""
    try:
        sem = doc_semantics(doc)
    except DocError:
        return lambda ref: False
    find = sem['find']
    done = set(sem['defs']) | set(sem['odes']) | set(sem['init'])
    return lambda ref: ref in sem['decl'] and find(ref) in done


def fault_sites(doc):
    """every (kind, site) at which a fault can be injected into this VALID document; sites are JSON lists"""
    out = []
    ends = [e for e in connection_ends(doc) if e['src'] is not None]
    defined = _class_defined(doc)
    fed = {e['tgt'] for e in ends}
    for e in ends:
        key = [e['ci'], e['vi']]
        out += [('missing-variable', key + [1]), ('missing-variable', key + [2]), ('both-sources', key),
                ('both-receivers', key), ('no-direction', key + ['both']), ('no-direction', key + ['src']),
                ('no-direction', key + ['tgt']), ('incompatible-units', key + [1]), ('incompatible-units', key + [2]),
                ('two-sources', key + ['new']), ('two-sources', key + ['dup'])]
        if defined(e['tgt']):
            out.append(('defined-twice', ['conn'] + key))
        if e['src'] in fed:
            out.append(('unfed-relay', key))
    for ci in range(len(doc['connections'])):
        out += [('missing-component', [ci, 1]), ('missing-component', [ci, 2])]
    par = parent_map(doc)
    names = [c['name'] for c in doc['components']]
    for i, a in enumerate(names):
        for j, b in enumerate(names):
            if i < j and relation(par, a, b) is None:
                out += [('non-adjacent', [i, j, 0]), ('non-adjacent', [i, j, 1])]
    for ci, c in enumerate(doc['components']):
        out += [('duplicate-component', [ci, w]) for w in ('last', 'middle')]
        out += [('component-units', [ci]), ('reaction', [ci])]
        nm = len(c['maths'])
        for at in sorted({0, nm // 2, nm}):
            if c['variables']:
                out += [('nonvar-lhs', [ci, at, k]) for k in ('sum', 'number', 'neg')]
            if len(c['variables']) >= 2:
                out += [('higher-order-lhs', [ci, at, n]) for n in (2, 3, '1.5', '0.5')]
                out += [('nonvar-lhs', [ci, at, k]) for k in ('dsum', 'dscaled', 'dtwo')]
        for vi, v in enumerate(c['variables']):
            out.append(('undefined-unit', ['var', ci, vi]))
            out.append(('duplicate-variable', [ci, vi]))
        for mi, m in enumerate(c['maths']):
            for ei, eq in enumerate(m):
                out += [('defined-twice', ['eq', ci, mi, ei]), ('undefined-unit', ['eq', ci, mi, ei]),
                        ('undefined-identifier', [ci, mi, ei, 'rhs']), ('undefined-identifier', [ci, mi, ei, 'lhs'])]
                v = next((x for x in c['variables'] if x['name'] == eq['lhs'][1]), None)
                if eq['lhs'][0] == 'var' and v is not None and 'in' not in (v.get('pub'), v.get('priv')):
                    out.append(('defined-twice', ['init', ci, mi, ei]))
    for where in ('first', 'middle', 'last'):
        out += [('units-offset', [where, o]) for o in ('273.15', '32', '-1', '0.5')]
        out += [('units-cycle', [where, n]) for n in (1, 2, 3)]
        out += [('units-dangling', [where]), ('units-duplicate', [where, 'new']), ('units-duplicate', [where, 'newbase']),
                ('units-builtin-override', [where, 'volt', 0]), ('units-builtin-override', [where, 'litre', 1]),
                ('units-builtin-override', [where, 'second', 0])]
    for ui, u in enumerate(doc['units']):
        out += [('units-duplicate', ['last', ui]), ('units-duplicate', ['first', ui])]
        if not u.get('base'):
            out += [('units-dangling', ['edit', ui]), ('units-cycle', ['edit', ui])]
            if len(u['elems']) == 1 and u['elems'][0].get('exponent') in (None, '1', '1.0'):
                out.append(('units-offset', ['edit', ui]))
    if len(names) >= 3:
        for ci in range(len(names)):
            out.append(('two-parents', [ci]))
    return out


def inject(doc, kind, site, rng):
    """the fault `kind` at `site` of a valid document: returns (faulty document, touched regions) or None when the site
    no longer exists (second fault of a pair). The regions are what `diff_regions` must report — nothing else changes."""
    d = copy.deepcopy(doc)
    ends = {(e['ci'], e['vi']): e for e in connection_ends(d)}
    comps = d['components']

    def vreg(ref):
        return 'var:%s:%s' % ref
    try:
        if kind == 'missing-component':
            cn = d['connections'][site[0]]
            cn['c1' if site[1] == 1 else 'c2'] = 'nosuchcomp'
            return d, {'conn:%d' % site[0]}
        if kind == 'missing-variable':
            d['connections'][site[0]]['vars'][site[1]][site[2] - 1] = 'nosuchvar'
            return d, {'conn:%d' % site[0]}
        if kind in ('both-sources', 'both-receivers', 'no-direction', 'incompatible-units', 'two-sources', 'unfed-relay') \
                or (kind == 'defined-twice' and site[0] == 'conn'):
            key = (site[1], site[2]) if kind == 'defined-twice' else (site[0], site[1])
            e = ends.get(key)
            if e is None or e['src'] is None:
                return None
            (sref, sf), (tref, tf) = _facing(e, 'src'), _facing(e, 'tgt')
            sv, tv = _var(d, sref), _var(d, tref)
            if kind == 'both-sources':
                tv[tf] = 'out'
                return d, {vreg(tref)}
            if kind == 'both-receivers':
                sv[sf] = 'in'
                return d, {vreg(sref)}
            if kind == 'no-direction':
                none = lambda: rng.choice(['none', None])     # noqa: E731
                touched = set()
                if site[2] in ('both', 'src'):
                    sv[sf] = none()
                    touched.add(vreg(sref))
                if site[2] in ('both', 'tgt'):
                    tv[tf] = none()
                    touched.add(vreg(tref))
                return d, touched
            if kind == 'incompatible-units':
                ref = e['a'] if site[2] == 1 else e['b']
                scale = unit_scales(d)
                other = _var(d, e['b'] if site[2] == 1 else e['a'])
                cands = [u for u in OTHER_DIM_UNITS + ['second', 'volt', 'dimensionless']
                         if scale(u)[1] != scale(other['units'])[1]]
                _var(d, ref)['units'] = rng.choice(cands)
                return d, {vreg(ref)}
            if kind == 'two-sources':
                cn = d['connections'][e['ci']]
                if site[2] == 'dup':
                    cn['vars'].append(list(cn['vars'][e['vi']]))
                    return d, {'conn:%d' % e['ci']}
                sc = _comp(d, sref[0])
                nv = {'name': _fresh(sc, 'src2'), 'units': sv['units'], 'init': None, 'cmeta': None,
                      'pub': sv.get('pub') if sv.get('pub') != 'in' else 'none',
                      'priv': sv.get('priv') if sv.get('priv') != 'in' else 'none'}
                sc['variables'].append(nv)
                pair = [nv['name'], tref[1]] if sref == e['a'] else [tref[1], nv['name']]
                if rng.random() < 0.5:
                    cn['vars'].append(pair)
                    return d, {'conn:%d' % e['ci'], vreg((sref[0], nv['name']))}
                _add(d, 'connection', {'c1': cn['c1'], 'c2': cn['c2'], 'vars': [pair]}, rng.choice(['first', 'middle', 'last']))
                return d, {'conn+', vreg((sref[0], nv['name']))}
            if kind == 'unfed-relay':
                feeders = [(k, f) for k, f in ends.items() if f['tgt'] == sref]
                if not feeders:
                    return None
                (fci, fvi), _ = feeders[0]
                del d['connections'][fci]['vars'][fvi]
                if not d['connections'][fci]['vars']:
                    d['connections'][fci]['vars'] = None      # placeholder: removed below
                    d['connections'] = [c_ for c_ in d['connections'] if c_['vars'] is not None]
                    d['order'] = [[k_, (i if k_ != 'connection' or i < fci else i - 1)] for k_, i in _order(d)
                                  if not (k_ == 'connection' and i == fci)]
                    return d, {'conn-'}
                return d, {'conn:%d' % fci}
            if kind == 'defined-twice':
                tc = _comp(d, tref[0])
                tc['maths'].append([{'lhs': ['var', tref[1]], 'rhs': ['num', '3', tv['units']]}])
                return d, {'maths:%s' % tref[0]}
        if kind == 'non-adjacent':
            a, b = comps[site[0]], comps[site[1]]
            if site[2]:
                a, b = b, a
            u = rng.choice(['volt', 'second', 'dimensionless'])
            sn, tn = _fresh(a, 'far_src'), _fresh(b, 'far_in')
            a['variables'].append({'name': sn, 'units': u, 'pub': 'out', 'priv': 'out', 'init': '1.5', 'cmeta': None})
            b['variables'].append({'name': tn, 'units': u, 'pub': 'in', 'priv': None, 'init': None, 'cmeta': None})
            cn = {'c1': a['name'], 'c2': b['name'], 'vars': [[sn, tn]]}
            if rng.random() < 0.5:
                cn = {'c1': b['name'], 'c2': a['name'], 'vars': [[tn, sn]]}
            _add(d, 'connection', cn, rng.choice(['first', 'middle', 'last']))
            return d, {'conn+', vreg((a['name'], sn)), vreg((b['name'], tn))}
        if kind == 'duplicate-component':
            c2 = copy.deepcopy(comps[site[0]])
            for v in c2['variables']:
                v['cmeta'] = None
            _add(d, 'component', c2, site[1])
            return d, {'comp+'}
        if kind == 'component-units':
            comps[site[0]]['xunits'] = [{'name': 'local_u', 'elems': [{'units': 'volt', 'prefix': 'milli'}]}]
            return d, {'x:%s' % comps[site[0]]['name']}
        if kind == 'reaction':
            comps[site[0]]['reactions'] = rng.choice([1, 1, 2])
            return d, {'x:%s' % comps[site[0]]['name']}
        if kind in ('nonvar-lhs', 'higher-order-lhs'):
            c = comps[site[0]]
            vs = c['variables']
            x = rng.choice(vs)
            rhs = ['num', '3', x['units']]
            if kind == 'higher-order-lhs':
                t = rng.choice([v for v in vs if v is not x])
                lhs = ['diffn', x['name'], t['name'], site[2]]
            elif site[2] == 'sum':
                lhs = ['+', ['var', x['name']], ['num', '1', x['units']]]
            elif site[2] in ('dsum', 'dscaled', 'dtwo'):
                # the derivative of an expression: d(x + 1)/dt, d(2 x)/dt, d(x + y)/dt
                t = rng.choice([v for v in vs if v is not x])
                inner = {'dsum': ['+', ['var', x['name']], ['num', '1', x['units']]],
                         'dscaled': ['*', ['num', '2', 'dimensionless'], ['var', x['name']]],
                         'dtwo': ['+', ['var', x['name']], ['var', t['name']]]}[site[2]]
                lhs = ['diffx', inner, t['name']]
            elif site[2] == 'number':
                lhs, rhs = ['num', '3', x['units']], ['var', x['name']]
            else:
                lhs = ['neg', ['var', x['name']]]
            c.setdefault('badeqs', []).append({'at': site[1], 'lhs': lhs, 'rhs': rhs})
            return d, {'x:%s' % c['name']}
        if kind == 'duplicate-variable':
            c = comps[site[0]]
            v2 = dict(c['variables'][site[1]], cmeta=None)
            c['variables'].append(v2)
            return d, {'var:%s:%s' % (c['name'], v2['name'])}
        if kind == 'undefined-unit' and site[0] == 'var':
            c = comps[site[1]]
            c['variables'][site[2]]['units'] = 'nosuchunit'
            return d, {'var:%s:%s' % (c['name'], c['variables'][site[2]]['name'])}
        if kind in ('undefined-unit', 'undefined-identifier', 'defined-twice'):
            ci, mi, ei = (site[1], site[2], site[3]) if site[0] in ('eq', 'init') else (site[0], site[1], site[2])
            c = comps[ci]
            eq = c['maths'][mi][ei]
            if kind == 'undefined-unit':
                eq['rhs'] = ['+', eq['rhs'], ['num', '1', 'nosuchunit']]
            elif kind == 'undefined-identifier':
                if site[3] == 'lhs':
                    eq['lhs'] = [eq['lhs'][0], 'nosuchvar'] + eq['lhs'][2:]
                else:
                    eq['rhs'] = rng.choice([['+', eq['rhs'], ['var', 'nosuchvar']], ['*', ['var', 'nosuchvar'], eq['rhs']]])
            elif site[0] == 'init':
                v = next(x for x in c['variables'] if x['name'] == eq['lhs'][1])
                v['init'] = '1.5'
                return d, {'var:%s:%s' % (c['name'], v['name'])}
            else:
                dup = copy.deepcopy(eq)
                if rng.random() < 0.5:
                    c['maths'].append([dup])
                else:
                    c['maths'][mi].insert(ei + 1, dup)
            return d, {'maths:%s' % c['name']}
        return _inject_units(d, doc, kind, site, rng)
    except (IndexError, KeyError, StopIteration, DocError, TypeError):
        return None


def _inject_units(d, doc, kind, site, rng):
    def used_name(base):
        names = {u['name'] for u in d['units']}
        n, i = base, 0
        while n in names or n in U.SI:
            i += 1
            n = '%s%d' % (base, i)
        return n
    if kind == 'two-parents':
        names = [c['name'] for c in d['components']]
        c = names[site[0]]
        a, b = rng.sample([n for n in names if n != c], 2)
        d['groups'].append({'relationship': 'encapsulation', 'name': None,
                            'refs': [{'component': a, 'children': [{'component': c, 'children': []}]},
                                     {'component': b, 'children': [{'component': c, 'children': []}]}]})
        _order(d).append(['group', len(d['groups']) - 1])
        return d, {'groups'}
    if site[0] == 'edit':
        u = d['units'][site[1]]
        if kind == 'units-dangling':
            rng.choice(u['elems'])['units'] = 'nowhere_unit'
        elif kind == 'units-offset':
            # the schema allows a non-zero offset only in a simple definition (one <unit>, exponent 1): rule 5.4.2.7
            if len(u['elems']) != 1 or u['elems'][0].get('exponent') not in (None, '1', '1.0'):
                return None
            u['elems'][0]['offset'] = rng.choice(['273.15', '32', '-1', '5', '0.5', '-0.25'])
        elif kind == 'units-cycle':
            u['elems'].append({'units': u['name'], 'exponent': '2'})
        else:
            return None
        return d, {'units'}
    where = site[0]
    if kind == 'units-offset':
        _add(d, 'units', {'name': used_name('deg_off'), 'elems': [{'units': 'kelvin', 'offset': site[1]}]}, where)
    elif kind == 'units-cycle':
        ns = [used_name('cyc%d_' % i) for i in range(site[1])]
        for i, n in enumerate(ns):
            _add(d, 'units', {'name': n, 'elems': [{'units': ns[(i + 1) % len(ns)]}, {'units': 'second', 'exponent': '-1'}]},
                 where)
    elif kind == 'units-dangling':
        _add(d, 'units', {'name': used_name('dangling'), 'elems': [{'units': 'volt'}, {'units': 'nowhere_unit'}]}, where)
    elif kind == 'units-duplicate':
        if site[1] == 'newbase':        # the same NEW BASE unit declared twice
            n = used_name('twicebase')
            _add(d, 'units', {'name': n, 'base': True}, 'first')
            _add(d, 'units', {'name': n, 'base': True}, where)
        elif site[1] == 'new':
            n = used_name('twice')
            _add(d, 'units', {'name': n, 'elems': [{'units': 'volt', 'prefix': 'milli'}]}, 'first')
            _add(d, 'units', {'name': n, 'elems': [{'units': 'volt', 'prefix': 'milli'}]}, where)
        else:
            u = copy.deepcopy(d['units'][site[1]])
            if rng.random() < 0.3:
                u = {'name': u['name'], 'base': True}
            _add(d, 'units', u, where)
    elif kind == 'units-builtin-override':
        u = {'name': site[1], 'base': True} if site[2] else {'name': site[1], 'elems': [{'units': 'metre', 'exponent': '3'}]}
        _add(d, 'units', u, where)
    else:
        return None
    return d, {'units'}


def diff_regions(a, b):
    """where two documents differ: 'units', 'groups', 'comp+', 'conn+', 'conn-', 'conn:<i>', 'var:<comp>:<name>',
    'maths:<comp>', 'x:<comp>' (extended fields), 'cname:<i>'"""
    out = set()
    if a['units'] != b['units']:
        out.add('units')
    if a['groups'] != b['groups']:
        out.add('groups')
    if len(a['components']) != len(b['components']):
        out.add('comp+')
    for i, (ca, cb) in enumerate(zip(a['components'], b['components'])):
        if ca['name'] != cb['name']:
            out.add('cname:%d' % i)
        if ca['variables'] != cb['variables']:
            va, vb = ca['variables'], cb['variables']
            for j in range(max(len(va), len(vb))):
                x, y = (va[j] if j < len(va) else None), (vb[j] if j < len(vb) else None)
                if x != y:
                    out.add('var:%s:%s' % (cb['name'], (y or x)['name']))
        if ca['maths'] != cb['maths']:
            out.add('maths:%s' % cb['name'])
        if any(ca.get(f) != cb.get(f) for f in ('xunits', 'reactions', 'badeqs')):
            out.add('x:%s' % cb['name'])
    if len(a['connections']) < len(b['connections']):
        out.add('conn+')
    elif len(a['connections']) > len(b['connections']):
        out.add('conn-')
    else:
        for i, (x, y) in enumerate(zip(a['connections'], b['connections'])):
            if x != y:
                out.add('conn:%d' % i)
    return out


NEUTRAL = ['none', 'permute', 'unused-variable', 'unused-units', 'lonely-component', 'same-dimension-unit']


def neutral(doc, kind, rng):
    """a VALID variant of a valid document, made with the same machinery as the faults: must still load"""
    d = copy.deepcopy(doc)
    if kind == 'permute':
        return permute_doc(d, rng)
    if kind == 'unused-variable' and d['components']:
        c = rng.choice(d['components'])
        c['variables'].append({'name': _fresh(c, 'unused'), 'units': 'volt', 'pub': rng.choice([None, 'out', 'in']),
                               'priv': rng.choice([None, 'none']), 'init': None, 'cmeta': None})
    elif kind == 'unused-units':
        names = {u['name'] for u in d['units']}
        if 'spare_u' not in names:
            _add(d, 'units', {'name': 'spare_u', 'elems': [{'units': 'volt', 'prefix': 'kilo'}, {'units': 'second', 'offset': rng.choice(ZERO_OFFSETS)}]},
                 rng.choice(['first', 'middle', 'last']))
    elif kind == 'lonely-component':
        if not any(c['name'] == 'lonely' for c in d['components']):
            _add(d, 'component', {'name': 'lonely', 'variables': [{'name': 'q', 'units': 'volt', 'pub': None, 'priv': None,
                                                                   'init': '2', 'cmeta': None}], 'maths': []},
                 rng.choice(['first', 'middle', 'last']))
    elif kind == 'same-dimension-unit':
        ends = [e for e in connection_ends(d) if e['src'] is not None]
        if ends:
            e = rng.choice(ends)
            tv = _var(d, e['tgt'])
            scale = unit_scales(d)
            dim = scale(tv['units'])[1]
            cands = [u for u in ['volt', 'second', 'dimensionless', 'hertz'] + [x['name'] for x in d['units']]
                     if scale(u)[1] == dim]
            tv['units'] = rng.choice(cands)
    return d


# ------------------------------------------------------------------------------------------- schema faults (text level)
import re as _re  # noqa: E402


def _nth(pattern, text, n):
    ms = list(_re.finditer(pattern, text))
    return ms[min(n, len(ms) - 1)] if ms else None


def apply_xml_fault(text, f):
    """damage the XML text at one place; returns the text unchanged when the place does not exist"""
    kind, what, n = f['kind'], f.get('what'), f.get('n', 0)
    if kind == 'unknown-element':
        m = _nth(r'<%s(?: [^>]*[^/>])?>' % what, text, n)
        return text if m is None else text[:m.end()] + '<bogus/>' + text[m.end():]
    if kind == 'missing-attribute':
        el, attr = what
        m = _nth(r'<%s [^>]*?( %s="[^"]*")' % (el, attr), text, n)
        if m is None:
            m = _nth(r'<%s( %s="[^"]*")' % (el, attr), text, n)
        return text if m is None else text[:m.start(1)] + text[m.end(1):]
    if kind == 'wrong-namespace':
        return text.replace('xmlns="%s"' % CELLML_NS, 'xmlns="%s"' % what, 1)
    if kind == 'bad-value':
        attr, val = what
        m = _nth(r' %s="([^"]*)"' % attr, text, n)
        if m is None:           # attribute absent everywhere: add it to the n-th variable
            m2 = _nth(r'<variable ', text, n)
            return text if m2 is None else text[:m2.end()] + '%s="%s" ' % (attr, val) + text[m2.end():]
        return text[:m.start(1)] + val + text[m.end(1):]
    if kind == 'empty-connection':
        m = _nth(r'<connection>.*?</connection>', text, n)
        if m is None:
            return text
        return text[:m.start()] + _re.sub(r'<map_variables [^>]*/>', '', m.group(0)) + text[m.end():]
    if kind == 'no-map-components':
        m = _nth(r'<map_components [^>]*/>', text, n)
        return text if m is None else text[:m.start()] + text[m.end():]
    if kind == 'malformed':
        if what == 'truncate':
            return text[:max(40, (len(text) * (n + 1)) // 4)]
        if what == 'unclosed':
            m = _nth(r'</component>', text, n)
            return text if m is None else text[:m.start()] + text[m.end():]
        if what == 'stray-lt':
            m = _nth(r'<variable ', text, n)
            return text if m is None else text[:m.start()] + '< ' + text[m.start():]
        if what == 'bad-entity':
            m = _nth(r' name="', text, n)
            return text if m is None else text[:m.end()] + '&nosuch;' + text[m.end():]
        if what == 'mismatched-tag':
            m = _nth(r'</component>', text, n)
            return text if m is None else text[:m.start()] + '</group>' + text[m.end():]
    return text


def xml_fault_sites(doc):
    """schema-level faults applicable to this document (text-level; `n` = which occurrence: first / middle / last)"""
    nv = sum(len(c['variables']) for c in doc['components'])
    nc, nk, nu = len(doc['components']), len(doc['connections']), len([u for u in doc['units'] if not u.get('base')])
    nm = sum(len(cn['vars']) for cn in doc['connections'])

    def occ(k):
        return sorted({0, k // 2, k - 1}) if k > 0 else []
    out = [{'kind': 'unknown-element', 'what': 'model', 'n': 0}, {'kind': 'wrong-namespace', 'what': CELLML_NS.replace('1.0', '1.1')},
           {'kind': 'wrong-namespace', 'what': 'http://example.org/not-cellml'},
           {'kind': 'missing-attribute', 'what': ['model', 'name'], 'n': 0}]
    out += [{'kind': 'malformed', 'what': 'truncate', 'n': n} for n in (0, 1, 2)]
    for n in occ(nc):
        out += [{'kind': 'unknown-element', 'what': 'component', 'n': n},
                {'kind': 'missing-attribute', 'what': ['component', 'name'], 'n': n},
                {'kind': 'malformed', 'what': 'unclosed', 'n': n}, {'kind': 'malformed', 'what': 'mismatched-tag', 'n': n}]
    for n in occ(nv):
        out += [{'kind': 'missing-attribute', 'what': ['variable', 'name'], 'n': n},
                {'kind': 'missing-attribute', 'what': ['variable', 'units'], 'n': n},
                {'kind': 'bad-value', 'what': ['public_interface', 'sideways'], 'n': n},
                {'kind': 'bad-value', 'what': ['initial_value', 'abc'], 'n': n},
                {'kind': 'malformed', 'what': 'stray-lt', 'n': n}, {'kind': 'malformed', 'what': 'bad-entity', 'n': n}]
    for n in occ(nk):
        out += [{'kind': 'unknown-element', 'what': 'connection', 'n': n}, {'kind': 'empty-connection', 'n': n},
                {'kind': 'no-map-components', 'n': n},
                {'kind': 'missing-attribute', 'what': ['map_components', 'component_1'], 'n': n}]
    for n in occ(nm):
        out.append({'kind': 'missing-attribute', 'what': ['map_variables', 'variable_2'], 'n': n})
    for n in occ(nu):
        out += [{'kind': 'unknown-element', 'what': 'units', 'n': n}, {'kind': 'missing-attribute', 'what': ['unit', 'units'], 'n': n}]
    for n in occ(len(doc['groups'])):
        out.append({'kind': 'unknown-element', 'what': 'group', 'n': n})
    return out


def xml_fault_check(valid_text, text, f):
    """validation of a schema fault, independent of lxml: the text changed in ONE place, and it is well-formed exactly
    when the fault is not of the malformed kind (expat)"""
    import xml.parsers.expat as expat
    if text == valid_text:
        return 'text unchanged'
    i = 0
    while i < min(len(text), len(valid_text)) and text[i] == valid_text[i]:
        i += 1
    j = 0
    while j < min(len(text), len(valid_text)) - i and text[-1 - j] == valid_text[-1 - j]:
        j += 1
    if f['kind'] != 'malformed' and f['kind'] != 'empty-connection' and max(len(text), len(valid_text)) - i - j > 80:
        return 'changed region too large'
    p = expat.ParserCreate()
    try:
        p.Parse(text.encode(), True)
        wf = True
    except expat.ExpatError:
        wf = False
    if wf != (f['kind'] != 'malformed'):
        return 'well-formedness is %s' % wf
    return None


# ------------------------------------------------------------------------------------------- the hooks, filled in
def _mutate(kinds):
    def f(doc, rng):
        sites = [s for s in fault_sites(doc) if s[0] in kinds]
        rng.shuffle(sites)
        for kind, site in sites:
            r = inject(doc, kind, site, rng)
            if r is not None:
                return r[0]
        return doc
    return f


mutate_units = _mutate(['units-offset', 'units-cycle', 'units-dangling', 'units-duplicate', 'units-builtin-override'])
mutate_interfaces = _mutate(['both-sources', 'both-receivers', 'no-direction'])
mutate_connections = _mutate(['missing-component', 'missing-variable', 'non-adjacent', 'incompatible-units', 'two-sources'])
mutate_maths = _mutate(['defined-twice', 'undefined-identifier', 'undefined-unit', 'nonvar-lhs', 'higher-order-lhs'])
mutate_structure = _mutate(['component-units', 'reaction', 'duplicate-component', 'two-parents'])
MUTATORS = {'units': mutate_units, 'interfaces': mutate_interfaces, 'connections': mutate_connections,
            'maths': mutate_maths, 'structure': mutate_structure}
