import Cellml.Units.Wire
import Cellml.Units.Conv

/-! Namespacing of unit names per store, and the process state in which several stores (and the models that own
    them) live side by side: units.py 64-69 (`_STORE_PREFIX`), 113-141 (`_next_id`, `_prefix`, shared registry),
    143-238 (`add_unit`, `add_base_unit`, `is_defined`, `get_unit`, `format`), 393-406 (`_prefix_name`).

    The process state is `Units.Wire.World`: the list of registries and the list of stores `(id, known names)` each
    pointing at its registry; the store counter `UnitStore._next_id` is the length of the store list (stores are never
    destroyed in the model, so the next id is the number of stores created so far).
    An operation is indexed by the store it acts on. `obsStore w i` is everything that can be observed through store
    `i`. Core Lean only (linked into the driver). -/

namespace Iso
open Units Units.Wire

/-! ### `_STORE_PREFIX.sub('', text)` for `_STORE_PREFIX = (?<![a-zA-Z0-9_])store[0-9]+_` -/

/-- does the text start with `store[0-9]+_` ? Returns what follows the match. The digits are matched greedily; the
    character after them must be `_` (which is not a digit, so there is nothing to backtrack into). -/
def matchStorePrefix : List Char → Option (List Char)
  | 's' :: 't' :: 'o' :: 'r' :: 'e' :: ds =>
      let digits := ds.takeWhile Char.isDigit
      match digits, ds.dropWhile Char.isDigit with
      | _ :: _, '_' :: rest => some rest
      | _, _ => none
  | _ => none

/-- left-to-right scan with the previous character of the ORIGINAL text (the look-behind sees the original text,
    also directly after a removed match, where it sees the `_` that ended the match) -/
def stripGo : Nat → Char → List Char → List Char
  | 0, _, cs => cs
  | _, _, [] => []
  | fuel + 1, prev, c :: r =>
      if isWordChar prev then c :: stripGo fuel c r
      else match matchStorePrefix (c :: r) with
        | some rest => stripGo fuel '_' rest
        | none => c :: stripGo fuel c r

/-- `_STORE_PREFIX.sub('', s)`; at the start of the text the look-behind succeeds -/
def strip (s : String) : String := String.ofList (stripGo (s.length + 1) ' ' s.toList)

/-- `store.format(store.get_unit(name))`: the registry key of the unit (pint prints the canonical spelling of a
    built-in alias, `metre` ↦ `meter`) with store prefixes removed -/
def formatName (id : Nat) (name : String) : String :=
  match nameContainer (prefixName id name) with
  | [] => "dimensionless"
  | (k, _) :: _ => strip k

/-! ### operations, indexed by the store they act on -/

inductive Op where
  /-- `UnitStore()` / `UnitStore(other)` / `Model(name)` / `Model(name, unit_store=other)` / `load_model(path, unit_store=…)` -/
  | newStore (share : Option Nat)
  /-- `stores[s].add_unit(name, _make_pint_unit_definition(name, elems))` -/
  | addUnit (s : Nat) (name : String) (elems : List UnitElem)
  /-- `stores[s].add_base_unit(name)` -/
  | addBase (s : Nat) (name : String)
deriving Repr, DecidableEq

/-- the operation acts on the (already existing) store `j` -/
def Op.actsOn : Op → Nat → Bool
  | .newStore _, _ => false
  | .addUnit s _ _, j => s == j
  | .addBase s _, j => s == j

/-- apply a definition to store `s`; a rejected definition changes nothing -/
def applyTo (w : World) (s : Nat) (f : Registry → Store → Except AddErr (Registry × Store)) : World :=
  match w.regOf s with
  | some (st, ri, reg) =>
      match f reg st with
      | .ok (reg', st') => w.update s ri reg' st'
      | .error _ => w
  | none => w

def step (w : World) : Op → World
  | .newStore share => w.newStore share
  | .addUnit s name elems => applyTo w s (fun reg st => addUnit reg st name elems)
  | .addBase s name => applyTo w s (fun reg st => addBaseUnit reg st name)

def run (w : World) (ops : List Op) : World := ops.foldl step w

/-! ### observations -/

/-- what `format(unit, base_units=True)` shows (before prefix stripping) plus the dimensionality used by conversion -/
structure UnitObs where
  scale : Scale
  root  : Container
  dims  : Dims
deriving Repr, DecidableEq, BEq

def obsUnit (reg : Registry) (c : Container) : UnitObs :=
  let r := toRoot reg c          -- one expansion, shared by the three fields
  let root := PMap.norm r.2
  { scale := PMap.norm r.1, root := root, dims := PMap.norm (dimsOfRoot reg root) }

theorem obsUnit_eq (reg : Registry) (c : Container) :
    obsUnit reg c = { scale := scaleOf reg c, root := rootOf reg c, dims := dimsOf reg c } := rfl

/-- `get_unit(name)` then its root form; `none` is the `KeyError` -/
def obsName (reg : Registry) (st : Store) (name : String) : Option UnitObs :=
  match getUnit st name with
  | .ok c => some (obsUnit reg c)
  | .error _ => none

structure StoreObs where
  /-- user names in the order they were added: determines `is_defined` of EVERY name -/
  known : List String
  /-- root form of every known name (user names and built-ins) -/
  units : List (String × Option UnitObs)
deriving Repr, DecidableEq, BEq

def obsStore (w : World) (i : Nat) : Option StoreObs :=
  match w.regOf i with
  | some (st, _, reg) =>
      some { known := st.known,
             units := (st.known ++ Cellml.Gen.cellmlUnits).map (fun n => (n, obsName reg st n)) }
  | none => none

/-- probe with an arbitrary name (e.g. a name only another store knows): `(is_defined, get_unit + root form)` -/
def probe (w : World) (i : Nat) (name : String) : Option (Bool × Option UnitObs) :=
  match w.regOf i with
  | some (st, _, reg) => some (st.isDefined name, obsName reg st name)
  | none => none

/-! ### conversion across stores -/

inductive XErr where
  | noStore
  | crossRegistry      -- units of different registries: pint raises ValueError / the asserts fire
  | keyError           -- `get_unit` failed
  | unit (e : UErr)
deriving Repr, DecidableEq

/-- `stores[i].get_conversion_factor(stores[i].get_unit(x), stores[j].get_unit(y))` (as a scale; `[]` is one) -/
def crossFactor (w : World) (i : Nat) (x : String) (j : Nat) (y : String) : Except XErr Scale :=
  match w.regOf i, w.regOf j with
  | some (sti, ri, reg), some (stj, rj, _) =>
      match getUnit sti x, getUnit stj y with
      | .ok a, .ok b =>
          if ri ≠ rj then .error .crossRegistry
          else match factor reg a b with
            | .ok f => .ok f
            | .error e => .error (.unit e)
      | _, _ => .error .keyError
  | _, _ => .error .noStore

/-! ### memoisation (`functools.lru_cache` on `_get_singularity` and `_generate_piecewise`) -/

/-- a memoised call: look the key up, else compute and remember -/
def cachedCall {κ ν : Type} [BEq κ] (f : κ → ν) (cache : List (κ × ν)) (k : κ) : ν × List (κ × ν) :=
  match cache.lookup k with
  | some v => (v, cache)
  | none => (f k, (k, f k) :: cache)

/-- every entry of the cache is the function's value at its key -/
def CacheOk {κ ν : Type} (f : κ → ν) (cache : List (κ × ν)) : Prop := ∀ k v, (k, v) ∈ cache → v = f k

/-- a sequence of memoised calls threaded through the cache -/
def cachedCalls {κ ν : Type} [BEq κ] (f : κ → ν) : List (κ × ν) → List κ → List ν
  | _, [] => []
  | cache, k :: ks => (cachedCall f cache k).1 :: cachedCalls f (cachedCall f cache k).2 ks

end Iso
