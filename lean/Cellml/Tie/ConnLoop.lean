import Cellml.Generated.Code.ConnLoop
import Mathlib.Tactic.SplitIfs

/-! # Tie: body of the `while connections_to_process:` loop of `Parser._add_connections` (generated) = one unfolding
    of `Load.connectLoop` (hand model: `stepConn` + the deque / counter bookkeeping + the `assert`) -/

namespace Cellml.Tie
open Load Cellml.Gen

/-- what one iteration of the model loop does to (deque, unchanged_loop_count, state) -/
def modelIter (reg : Registry) (vt : VarTable) (dq : List (VRef × VRef)) (unch : Nat) (st : CState) :
    Except PyErr (List (VRef × VRef) × Nat × CState) :=
  match dq with
  | [] => .error ⟨"IndexError"⟩
  | c :: rest =>
    match stepConn reg vt st c with
    | .error e => .error ⟨e.className⟩
    | .ok none =>
        if unch + 1 ≤ (rest ++ [c]).length then .ok (rest ++ [c], unch + 1, st)
        else .error ⟨"AssertionError"⟩
    | .ok (some st') => .ok (rest, 0, st')

theorem asg_cons_ne (st : CState) (t s a : VRef) (h : s ≠ t) (m : List (VRef × VRef)):
   ({ assigned := (t, a) :: st.assigned, mapping := m, convs := st.convs, cmeta := st.cmeta } : CState).asg s = st.asg s := by
  simp [CState.asg, List.lookup]
  have : (s == t) = false := by simpa using h
  simp [this]

theorem connLoop_body_tie (reg : Registry) (vt : VarTable) (dq : List (VRef × VRef)) (unch : Nat) (st : CState) :
    ConnLoop.addConnectionsBody (connLoopView reg vt) dq unch st = modelIter reg vt dq unch st := by
  unfold ConnLoop.addConnectionsBody modelIter
  cases dq with
  | nil => simp [popleft, bind, Except.bind]
  | cons c rest =>
    obtain ⟨s, t⟩ := c
    simp only [popleft, stepConn, connLoopView, bind, Except.bind, pure, Except.pure, throw, throwThe, MonadExceptOf.throw, Py.truthy_option, Py.truthy_bool]
    cases ht : st.asg t with
    | some b => simp [Err.className]
    | none =>
      cases hs : st.asg s with
      | none =>
        by_cases h : unch ≤ rest.length
        · have : ¬ rest.length < unch := by omega
          simp [h]
        · have : rest.length < unch := by omega
          simp [h]
      | some a =>
        have hne : s ≠ t := by rintro rfl; simp [ht] at hs
        have e1 : ({ assigned := st.assigned, mapping := (t, s) :: st.mapping, convs := st.convs, cmeta := st.cmeta } : CState).asg s = some a := by
          simpa [CState.asg] using hs
        simp only [e1, setAssigned]
        cases hf : Units.factor reg (unitsOf vt s) (unitsOf vt t) with
        | error e => cases e <;> simp [Err.className]
        | ok f =>
          by_cases hf1 : f = []
          · subst hf1
            simp [scaleIsOne, cmetaOf, asg_cons_ne, hne, hs, transferCmeta]
            generalize (List.lookup t st.cmeta).join = ct
            cases ct
            · simp
            · by_cases hd : (List.lookup a st.cmeta).join.isSome = true <;> simp [hd, Err.className]
          · simp [scaleIsOne, hf1, addConvEq]

/-- The model loop `Load.connectLoop` IS the `while connections_to_process:` loop over the generated body: it stops on
    the empty deque, and otherwise runs the generated body once and continues from the state the body returns. -/
theorem connectLoop_nil (reg : Registry) (vt : VarTable) (unch : Nat) (h : unch ≤ ([] : List (VRef × VRef)).length)
    (st : CState) : connectLoop reg vt [] unch h st = .ok st := by
  unfold connectLoop; rfl

theorem connectLoop_cons (reg : Registry) (vt : VarTable) (c : VRef × VRef) (rest : List (VRef × VRef)) (unch : Nat)
    (h : unch ≤ (c :: rest).length) (st : CState) :
    errClass Err.className (connectLoop reg vt (c :: rest) unch h st) =
      match ConnLoop.addConnectionsBody (connLoopView reg vt) (c :: rest) unch st with
      | .error e => .error e
      | .ok (dq', unch', st') =>
        if h' : unch' ≤ dq'.length then errClass Err.className (connectLoop reg vt dq' unch' h' st')
        else .error ⟨"AssertionError"⟩ := by
  rw [connLoop_body_tie]
  unfold modelIter
  rw [connectLoop]
  cases hstep : stepConn reg vt st c with
  | error e => simp [hstep, errClass]
  | ok o =>
    cases o with
    | none =>
      simp only [hstep]
      by_cases hlt : unch + 1 ≤ (rest ++ [c]).length
      · rw [dif_pos hlt, if_pos hlt]; simp only [dif_pos hlt]
      · rw [dif_neg hlt, if_neg hlt]; simp [errClass, Err.className]
    | some st' => simp [hstep]

end Cellml.Tie
