import Cellml.C06.Spec

/-! C06, structural part (core Lean only): `_remove_ode_and_assign_rhs_to_new_variable`,
    `_convert_state_variable_deriv`, one turn of the loop over the ODEs, on a state that satisfies the invariant. -/

namespace Model.CV
open Model

/-- with the invariant and `Cross`, after an equation is taken out nothing else defines its variable -/
theorem defKey_absent_after_erase {s : CState} (h : Inv0 s) (hc : Cross s.equations) (e : CEqn)
    (he : e ∈ s.equations) : ∀ e0 ∈ s.equations.erase e, defKey e0 ≠ defKey e := by
  intro e0 he0 hk
  have hm : e0 ∈ s.equations := List.mem_of_mem_erase he0
  have hne := key_absent_after_erase h e he e0 he0
  cases hl : e.lhs with
  | var v =>
    cases hl0 : e0.lhs with
    | var v0 =>
      rw [defKey_var hl, defKey_var hl0] at hk
      exact hne (by rw [keyKind_var hl, keyKind_var hl0, hk])
    | deriv x t =>
      rw [defKey_var hl, defKey_deriv hl0] at hk
      exact hc e he e0 hm v x t hl hl0 hk.symm
  | deriv x t =>
    cases hl0 : e0.lhs with
    | var v0 =>
      rw [defKey_deriv hl, defKey_var hl0] at hk
      exact hc e0 hm e he v0 x t hl0 hl hk
    | deriv x0 t0 =>
      rw [defKey_deriv hl, defKey_deriv hl0] at hk
      exact hne (by rw [keyKind_deriv hl, keyKind_deriv hl0, hk])

/-- `_remove_ode_and_assign_rhs_to_new_variable` -/
theorem removeOdeAssign_spec {s : CState} (h : Inv0 s) (ode : CEqn) (x0 : Nat) (ho : ode ∈ s.equations) :
    (removeOdeAssign s ode x0).2 = s.vars.length ∧
    (removeOdeAssign s ode x0).1.equations = s.equations.erase ode ++ [⟨.var s.vars.length, ode.rhs⟩] ∧
    (removeOdeAssign s ode x0).1.vars.length = s.vars.length + 1 ∧
    Inv0 (removeOdeAssign s ode x0).1 := by
  unfold removeOdeAssign
  rw [addVariable_eq _ _ _ _ (freshName_fresh s _)]
  dsimp only
  generalize (⟨freshName s (nameOfV s x0 ++ "_orig_deriv"), lhsUnit s ode.lhs, none, none⟩ : CVar) = x
  have h1 : Inv0 { s with vars := s.vars ++ [x] } := h.addVar x
  obtain ⟨r1, r2, _, r4⟩ := removeEq_ok h1 ode ho
  have hfresh : ∀ e0 ∈ (removeEq { s with vars := s.vars ++ [x] } ode).equations, defKey e0 < s.vars.length := by
    rw [r1]; intro e0 he0; exact h.defKey_lt (List.mem_of_mem_erase he0)
  have hfk := fresh_of_lt (e := ⟨.var s.vars.length, ode.rhs⟩) hfresh (by simp [defKey, keyKind])
  have hsc : EqScoped (removeEq { s with vars := s.vars ++ [x] } ode).vars.length ⟨.var s.vars.length, ode.rhs⟩ := by
    rw [r2, eqScoped_iff]
    have := (eqScoped_iff _ _).mp (h.scopedE ode ho)
    simp only [CLhs.vars, List.mem_cons, List.not_mem_nil, or_false, List.length_append, List.length_cons,
      List.length_nil]
    exact ⟨fun i hi => by omega, fun i hi => by have := this.2 i hi; omega⟩
  obtain ⟨a1, a2, _, a4⟩ := addEq_ok r4 _ true hsc hfk.1 (fun _ => hfk.2)
  refine ⟨rfl, by rw [a1, r1], by rw [a2, r2]; simp, a4⟩

/-- the state after `_convert_state_variable_deriv`, the replacement map it answers -/
theorem convertStateDeriv_spec {s : CState} (h : Inv0 s) (v nv : Nat) (cfq : X) (hq : cfq.vars = []) (ode : CEqn)
    (x t : Nat) (hlk : s.odeDef.lookup v = some ode) (hl : ode.lhs = .deriv x t) (hnv : nv < s.vars.length)
    (hfree : ∀ e0 ∈ s.equations, defKey e0 ≠ nv) :
    (convertStateDeriv s v nv cfq).2 = [((x, t), s.vars.length)] ∧
    (convertStateDeriv s v nv cfq).1.equations =
      s.equations.erase ode ++ [⟨.var s.vars.length, ode.rhs⟩, ⟨.deriv nv t, .mul (.var s.vars.length) cfq⟩] ∧
    (convertStateDeriv s v nv cfq).1.vars.length = s.vars.length + 1 ∧
    Inv0 (convertStateDeriv s v nv cfq).1 := by
  obtain ⟨ho, _⟩ := (h.lookup_odeDef v ode).mp hlk
  obtain ⟨r1, r2, r3, r4⟩ := removeOdeAssign_spec h ode v ho
  have hcs : convertStateDeriv s v nv cfq =
      (addEq (removeOdeAssign s ode v).1 ⟨.deriv nv t, .mul (.var (removeOdeAssign s ode v).2) cfq⟩ true,
       [((x, t), (removeOdeAssign s ode v).2)]) := by
    simp only [convertStateDeriv, hlk, hl]
  rw [hcs, r1]
  have ht : t < s.vars.length := by
    have := (eqScoped_iff _ _).mp (h.scopedE ode ho)
    exact this.1 t (by simp [hl, CLhs.vars])
  have hsc : EqScoped (removeOdeAssign s ode v).1.vars.length ⟨.deriv nv t, .mul (.var s.vars.length) cfq⟩ := by
    rw [r3, eqScoped_iff]
    simp only [CLhs.vars, X.vars, hq, List.append_nil, List.mem_cons, List.not_mem_nil, or_false]
    exact ⟨fun i hi => by rcases hi with hi | hi <;> omega, fun i hi => by omega⟩
  have hk : ∀ e0 ∈ (removeOdeAssign s ode v).1.equations,
      defKey e0 ≠ defKey ⟨.deriv nv t, .mul (.var s.vars.length) cfq⟩ := by
    rw [r2]; intro e0 he0
    have hd : defKey (⟨.deriv nv t, .mul (.var s.vars.length) cfq⟩ : CEqn) = nv := by simp [defKey, keyKind]
    rw [hd]
    rcases List.mem_append.mp he0 with he0 | he0
    · exact hfree e0 (List.mem_of_mem_erase he0)
    · simp only [List.mem_cons, List.not_mem_nil, or_false] at he0
      rw [he0]; simp only [defKey, keyKind]; omega
  obtain ⟨a1, a2, _, a4⟩ := addEq_ok r4 _ true hsc
    (fun e0 he0 hkk => hk e0 he0 (by unfold defKey; rw [hkk])) (fun _ => hk)
  refine ⟨rfl, by rw [a1, r2]; simp, by rw [a2, r3], a4⟩

/-- the state after `_convert_free_variable_deriv`, the replacement map entry it answers -/
theorem convertFreeDeriv_spec {s : CState} (h : Inv0 s) (hc : Cross s.equations) (ode : CEqn) (nv : Nat) (cfq : X)
    (hq : cfq.vars = []) (x t : Nat) (ho : ode ∈ s.equations) (hl : ode.lhs = .deriv x t) (hnv : nv < s.vars.length) :
    (convertFreeDeriv s ode nv cfq).2 = [((x, t), s.vars.length)] ∧
    (convertFreeDeriv s ode nv cfq).1.equations =
      s.equations.erase ode ++ [⟨.var s.vars.length, ode.rhs⟩, ⟨.deriv x nv, .div (.var s.vars.length) cfq⟩] ∧
    (convertFreeDeriv s ode nv cfq).1.vars.length = s.vars.length + 1 ∧
    Inv0 (convertFreeDeriv s ode nv cfq).1 := by
  obtain ⟨r1, r2, r3, r4⟩ := removeOdeAssign_spec h ode x ho
  have hcs : convertFreeDeriv s ode nv cfq =
      (addEq (removeOdeAssign s ode x).1 ⟨.deriv x nv, .div (.var (removeOdeAssign s ode x).2) cfq⟩ true,
       [((x, t), (removeOdeAssign s ode x).2)]) := by
    simp only [convertFreeDeriv, hl]
  rw [hcs, r1]
  have hx : x < s.vars.length := by
    have := (eqScoped_iff _ _).mp (h.scopedE ode ho)
    exact this.1 x (by simp [hl, CLhs.vars])
  have hsc : EqScoped (removeOdeAssign s ode x).1.vars.length ⟨.deriv x nv, .div (.var s.vars.length) cfq⟩ := by
    rw [r3, eqScoped_iff]
    simp only [CLhs.vars, X.vars, hq, List.append_nil, List.mem_cons, List.not_mem_nil, or_false]
    exact ⟨fun i hi => by rcases hi with hi | hi <;> omega, fun i hi => by omega⟩
  have hk : ∀ e0 ∈ (removeOdeAssign s ode x).1.equations,
      defKey e0 ≠ defKey ⟨.deriv x nv, .div (.var s.vars.length) cfq⟩ := by
    rw [r2]; intro e0 he0
    have hd : defKey (⟨.deriv x nv, .div (.var s.vars.length) cfq⟩ : CEqn) = x := by simp [defKey, keyKind]
    rw [hd]
    rcases List.mem_append.mp he0 with he0 | he0
    · have := defKey_absent_after_erase h hc ode ho e0 he0
      rwa [defKey_deriv hl] at this
    · simp only [List.mem_cons, List.not_mem_nil, or_false] at he0
      rw [he0]; simp only [defKey, keyKind]; omega
  obtain ⟨a1, a2, _, a4⟩ := addEq_ok r4 _ true hsc
    (fun e0 he0 hkk => hk e0 he0 (by unfold defKey; rw [hkk])) (fun _ => hk)
  refine ⟨rfl, by rw [a1, r2]; simp, by rw [a2, r3], a4⟩

end Model.CV
