import Cellml.Expr.Wire
/-! Channel C04: unit inference. -/
namespace C04
open Sexp Expr.Wire

def handle (args : List Sexp) : Sexp :=
  match setup args with
  | some (ctx, [.list (.atom "exprs" :: es)]) =>
      .list [.list (.atom "defs" :: ctx.defs), .list (.atom "results" :: es.map (fun s =>
        match E.ofSexpWith? (resolveUnit ctx.w) s with
        | none => .atom "bad-expr"
        | some e =>
            match Infer.traverse ctx.reg ctx.Γ e with
            | .ok (_, u) => .list (.atom "ok" :: unitReply ctx.reg u)
            | .error err => errReply err))]
  | _ => .atom "bad-request"
end C04
