import Cellml.Units.DenLemmas
import Cellml.Units.WorklistLemmas

/-! Soundness of the work list with respect to the denotation `Den`:
    every unit of a successfully loaded document expands, in the final registry, to the meaning the specification
    formula assigns to it. Ingredients: the namespace is injective and disjoint from the built-in keys; extending a
    registry by a fresh key leaves older meanings unchanged; `defMeaning` composed with root expansion is the
    specification formula (root expansion is a homomorphism: `toRoot_add`, `toRoot_smul`). -/

namespace Units
open PMap

/-! ### the namespace: prefixed names are disjoint from the built-in keys, and prefixing is injective -/

/-- the string starts with `store` -/
def storeLike (q : String) : Bool := q.toList.take 5 == ['s', 't', 'o', 'r', 'e']

theorem prefixName_builtin (id : Nat) {n : String} (h : Cellml.Gen.cellmlUnits.contains n = true) :
    prefixName id n = n := by unfold prefixName; rw [if_pos h]

theorem prefixName_user (id : Nat) {n : String} (h : Cellml.Gen.cellmlUnits.contains n = false) :
    prefixName id n = "store" ++ toString id ++ "_" ++ n := by
  unfold prefixName
  rw [if_neg (by rw [h]; exact Bool.false_ne_true)]

theorem prefixName_storeLike (id : Nat) {n : String} (h : Cellml.Gen.cellmlUnits.contains n = false) :
    storeLike (prefixName id n) = true := by
  rw [prefixName_user id h]
  simp [storeLike, String.toList_append]

theorem prefixName_inj (id : Nat) {n m : String} (hn : Cellml.Gen.cellmlUnits.contains n = false)
    (hm : Cellml.Gen.cellmlUnits.contains m = false) (h : prefixName id n = prefixName id m) : n = m := by
  rw [prefixName_user id hn, prefixName_user id hm] at h
  have := String.toList_inj.mpr h
  simp only [String.toList_append, List.append_assoc] at this
  exact String.toList_inj.mp (List.append_cancel_left (List.append_cancel_left (List.append_cancel_left this)))

theorem aliases_not_storeLike :
    Cellml.Gen.builtinUnits.all (fun e => e.2.1.all (fun a => !storeLike a)) = true := by decide +kernel

theorem canonName_storeLike {q : String} (h : storeLike q = true) : canonName q = q := by
  unfold canonName
  have : Cellml.Gen.builtinUnits.find? (fun x => match x with | (_, aliases, _) => aliases.contains q) = none := by
    rw [List.find?_eq_none]
    intro x hx hc
    obtain ⟨nm, al, df⟩ := x
    simp only at hc
    have h1 := List.all_eq_true.mp aliases_not_storeLike _ hx
    have h2 := List.all_eq_true.mp h1 q (List.contains_iff_mem.mp hc)
    rw [h] at h2; cases h2
  rw [this]

theorem nameContainer_storeLike {q : String} (h : storeLike q = true) : nameContainer q = [(q, 1)] := by
  unfold nameContainer
  have : (q == "dimensionless") = false := by
    cases hq : q == "dimensionless"
    · rfl
    · rw [beq_iff_eq.mp hq] at h; revert h; decide
  rw [this, canonName_storeLike h]; rfl

def keys (reg : Registry) : List String := reg.map Prod.fst

theorem builtin_keys_not_storeLike : (keys builtinRegistry).all (fun k => !storeLike k) = true := by decide +kernel


/-! ### registry lemmas: extension by a fresh key does not change what older containers mean -/

theorem lookup_isSome_iff {reg : Registry} {n : String} : (reg.lookup n).isSome = true ↔ n ∈ keys reg := by
  induction reg with
  | nil => simp [keys]
  | cons hd tl ih =>
      obtain ⟨k, d⟩ := hd
      simp only [List.lookup_cons, keys, List.map_cons, List.mem_cons]
      by_cases hk : n = k
      · subst hk; simp
      · have : (n == k) = false := by simpa using hk
        simp only [this, hk, false_or]
        exact ih

theorem allKnown_iff {reg : Registry} {c : Container} : allKnown reg c = true ↔ ∀ p ∈ c, p.1 ∈ keys reg := by
  unfold allKnown
  rw [List.all_eq_true]
  constructor
  · intro h p hp; exact lookup_isSome_iff.mp (h p hp)
  · intro h p hp; exact lookup_isSome_iff.mpr (h p hp)

theorem get_eq_zero_of_not_key {c : PMap String} {n : String} (h : ∀ p ∈ c, p.1 ≠ n) : get c n = 0 := by
  induction c with
  | nil => rfl
  | cons hd tl ih =>
      obtain ⟨k, e⟩ := hd
      have hk : k ≠ n := h (k, e) (List.mem_cons_self)
      simp only [get_cons, hk, if_false]
      rw [ih (fun p hp => h p (List.mem_cons_of_mem _ hp))]
      grind

theorem allKnown_get_zero {reg : Registry} {c : Container} {q : String} (hk : allKnown reg c = true)
    (hq : q ∉ keys reg) : get c q = 0 :=
  get_eq_zero_of_not_key (fun p hp heq => hq (heq ▸ allKnown_iff.mp hk p hp))

theorem allKnown_cons {reg : Registry} {c : Container} (e : String × UnitDef) (hk : allKnown reg c = true) :
    allKnown (e :: reg) c = true :=
  allKnown_iff.mpr (fun p hp => by simp only [keys, List.map_cons, List.mem_cons]; exact Or.inr (allKnown_iff.mp hk p hp))

theorem toRoot_cons_fresh {reg : Registry} {c : Container} {q : String} (df : UnitDef)
    (hk : allKnown reg c = true) (hq : q ∉ keys reg) : toRoot ((q, df) :: reg) c ≃₂ toRoot reg c := by
  cases df with
  | base dim => exact Equiv₂.refl _
  | derived K c' =>
      simp only [toRoot, expand]
      apply expand_congr
      have hz := allKnown_get_zero hk hq
      refine ⟨?_, ?_⟩
      · intro p; simp only [get_add, get_smul, get_nil, hz]; grind
      · intro p; simp only [get_add, get_sub, get_smul, get_single, hz]; grind

theorem expand_inert : ∀ (reg : Registry) (s : Scale) (c : Container), (∀ n ∈ keys reg, get c n = 0) →
    expand reg (s, c) ≃₂ (s, c) := by
  intro reg
  induction reg with
  | nil => intro s c _; exact Equiv₂.refl _
  | cons hd tl ih =>
      intro s c h
      obtain ⟨n, d⟩ := hd
      have htl : ∀ m ∈ keys tl, get c m = 0 := fun m hm => h m (by simp only [keys, List.map_cons, List.mem_cons]; exact Or.inr hm)
      cases d with
      | base dim => simpa [expand] using ih s c htl
      | derived K c' =>
          simp only [expand]
          have hz : get c n = 0 := h n (by simp [keys])
          refine Equiv₂.trans (expand_congr tl _ (s, c) ⟨?_, ?_⟩) (ih s c htl)
          · intro p; simp only [get_add, get_smul, hz]; grind
          · intro p; simp only [get_add, get_sub, get_smul, get_single, hz]; grind

theorem toRoot_nil (reg : Registry) : toRoot reg [] ≃₂ (([] : Scale), ([] : Container)) :=
  expand_inert reg [] [] (fun _ _ => rfl)

/-- the newest entry, a derived unit `q = K · c'`, means `K` times what `c'` meant before -/
theorem toRoot_new_derived (reg : Registry) (q : String) (K : Scale) (c' : Container) :
    toRoot ((q, .derived K c') :: reg) [(q, 1)] ≃₂ (add K (toRoot reg c').1, (toRoot reg c').2) := by
  simp only [toRoot, expand]
  have h1 : expand reg (add [] (smul (get [(q, (1 : Rat))] q) K),
      add (sub [(q, (1 : Rat))] (single q (get [(q, (1 : Rat))] q))) (smul (get [(q, (1 : Rat))] q) c')) ≃₂
      expand reg (add K [], add [] c') := by
    apply expand_congr
    refine ⟨?_, ?_⟩
    · intro p; simp only [get_add, get_smul, get_nil, get_cons]; grind
    · intro p; simp only [get_add, get_sub, get_smul, get_single, get_nil, get_cons]; grind
  refine Equiv₂.trans h1 (Equiv₂.trans (expand_add reg K [] [] c') ?_)
  have h2 := expand_inert reg K [] (fun _ _ => rfl)
  refine ⟨?_, ?_⟩
  · intro p; have := h2.1 p; simp only [get_add] at this ⊢; simp only [this]
  · intro p; have := h2.2 p; simp only [get_add, get_nil] at this ⊢; simp only [this]; grind

/-- the newest entry, a new base unit, is its own root -/
theorem toRoot_new_base (reg : Registry) (q : String) (dim : Option String) (hq : q ∉ keys reg) :
    toRoot ((q, .base dim) :: reg) [(q, 1)] ≃₂ (([] : Scale), [(q, (1 : Rat))]) := by
  simp only [toRoot, expand]
  apply expand_inert
  intro n hn
  have : q ≠ n := fun h => hq (h ▸ hn)
  simp only [get_cons, this, if_false, get_nil]; grind


/-! ### `elemMeaning` / `defMeaning`, destructured -/

theorem pow10_zero : pow10 0 = [] := rfl

theorem elemMeaning_ok {id : Nat} {e : UnitElem} {s : Scale} {c : Container} {b : Bool}
    (h : elemMeaning id e = .ok (s, c, b)) :
    ∃ k q m, elemPrefix e = some k ∧ elemExponent e = some q ∧ elemMultiplier e = some m ∧ elemOffsetBad e = false ∧
      s = add m (smul q (pow10 k)) ∧ c = smul q (nameContainer (mangle id e.units)) ∧
      b = (e.units == "dimensionless") := by
  unfold elemMeaning at h
  simp only [bind, Except.bind, pure, Except.pure, throw, throwThe, MonadExceptOf.throw] at h
  repeat' split at h
  all_goals cases h
  all_goals simp only [elemPrefix, elemExponent, elemMultiplier, elemOffsetBad, Option.bind_some, Bool.not_eq_true, *] at *
  all_goals exact ⟨_, _, _, rfl, rfl, rfl, trivial, rfl, rfl, trivial⟩

theorem defMeaning_cons_ok {id : Nat} {e : UnitElem} {es : List UnitElem} {k : Scale} {c : Container} {md : Bool}
    (h : defMeaning id (e :: es) = .ok (k, c, md)) :
    ∃ s c1 b s' c' b', elemMeaning id e = .ok (s, c1, b) ∧ defMeaning id es = .ok (s', c', b') ∧
      k = add s s' ∧ c = add c1 c' ∧ md = (b || b') := by
  simp only [defMeaning, bind, Except.bind, pure, Except.pure] at h
  split at h
  · cases h
  · rename_i v hv
    obtain ⟨s, c1, b⟩ := v
    simp only at h
    split at h
    · cases h
    · rename_i v' hv'
      obtain ⟨s', c', b'⟩ := v'
      simp only [Except.ok.injEq, Prod.mk.injEq] at h
      exact ⟨s, c1, b, s', c', b', hv, hv', h.1.symm, h.2.1.symm, h.2.2.symm⟩

/-! ### the invariant of a load, and soundness -/

/-- what is true of (registry, store) at every point of a load of `defs` into a store with id `id` -/
structure Inv (id : Nat) (defs : List UDef) (reg : Registry) (st : Store) : Prop where
  sid : st.id = id
  /-- the key a not yet defined name would get is free -/
  fresh : ∀ n, st.isDefined n = false → prefixName id n ∉ keys reg
  /-- every defined name resolves, and expands to its denotation -/
  known : ∀ n, st.isDefined n = true →
    allKnown reg (nameContainer (prefixName id n)) = true ∧
      ∃ x, NameDen id defs n x ∧ toRoot reg (nameContainer (prefixName id n)) ≃₂ x

def builtinOK (n : String) : Bool :=
  allKnown builtinRegistry (nameContainer n) &&
    match builtinDen n with
    | some x => beq (toRoot builtinRegistry (nameContainer n)).1 x.1 && beq (toRoot builtinRegistry (nameContainer n)).2 x.2
    | none => false

theorem builtins_ok : Cellml.Gen.cellmlUnits.all builtinOK = true := by decide +kernel

theorem inv_init (id : Nat) (defs : List UDef) : Inv id defs builtinRegistry { id := id, known := [] } where
  sid := rfl
  fresh := by
    intro n hn
    have hc : Cellml.Gen.cellmlUnits.contains n = false := by simpa [Store.isDefined] using hn
    intro hmem
    have := List.all_eq_true.mp builtin_keys_not_storeLike _ hmem
    rw [prefixName_storeLike id hc] at this; cases this
  known := by
    intro n hn
    have hc : Cellml.Gen.cellmlUnits.contains n = true := by simpa [Store.isDefined] using hn
    have hok := List.all_eq_true.mp builtins_ok n (List.contains_iff_mem.mp hc)
    rw [prefixName_builtin id hc]
    unfold builtinOK at hok
    rw [Bool.and_eq_true] at hok
    refine ⟨hok.1, ?_⟩
    have h2 := hok.2
    split at h2
    · rename_i x hx
      rw [Bool.and_eq_true] at h2
      exact ⟨x, .builtin hc hx, equiv_of_beq h2.1, equiv_of_beq h2.2⟩
    · cases h2


theorem isDefined_false_cellml {st : Store} {n : String} (h : st.isDefined n = false) :
    Cellml.Gen.cellmlUnits.contains n = false := by
  simp only [Store.isDefined, Bool.or_eq_false_iff] at h; exact h.1

/-- `defMeaning` followed by root expansion in a registry that satisfies the invariant IS the specification formula -/
theorem defMeaning_den {id : Nat} {defs : List UDef} {reg : Registry} {st : Store} (inv : Inv id defs reg st) :
    ∀ (elems : List UnitElem) (k : Scale) (c : Container) (md : Bool), defMeaning id elems = .ok (k, c, md) →
      (∀ e ∈ elems, st.isDefined e.units = true) → (∀ e ∈ elems, mangle id e.units = prefixName id e.units) →
      ∃ x, Den id defs elems x ∧ (add k (toRoot reg c).1, (toRoot reg c).2) ≃₂ x := by
  intro elems
  induction elems with
  | nil =>
      intro k c md h _ _
      simp only [defMeaning, pure, Except.pure, Except.ok.injEq, Prod.mk.injEq] at h
      obtain ⟨rfl, rfl, _⟩ := h
      refine ⟨_, .nil, ?_⟩
      have := toRoot_nil reg
      refine ⟨?_, this.2⟩
      intro p; have := this.1 p; simp only [get_add, get_nil] at this ⊢; rw [this]; grind
  | cons e es ih =>
      intro k c md h hdef hgood
      obtain ⟨s, c1, b, s', c', b', he, hes, rfl, rfl, _⟩ := defMeaning_cons_ok h
      obtain ⟨kp, q, m, hp, hq, hmul, _, rfl, rfl, _⟩ := elemMeaning_ok he
      obtain ⟨y, hy, hyeq⟩ := ih s' c' b' hes (fun e' he' => hdef e' (List.mem_cons_of_mem _ he'))
        (fun e' he' => hgood e' (List.mem_cons_of_mem _ he'))
      have hdefe := hdef e List.mem_cons_self
      rw [hgood e List.mem_cons_self]
      obtain ⟨_, xr, hxr, hxeq⟩ := inv.known e.units hdefe
      -- root expansion of the whole container, as a product
      have hadd := toRoot_add reg (smul q (nameContainer (prefixName id e.units))) c'
      have hsm := toRoot_smul reg q (nameContainer (prefixName id e.units))
      have hfinal : (add (add (add m (smul q (pow10 kp))) s')
            (toRoot reg (add (smul q (nameContainer (prefixName id e.units))) c')).1,
          (toRoot reg (add (smul q (nameContainer (prefixName id e.units))) c')).2) ≃₂
          mulDen (elemDen kp q m xr) y := by
        refine ⟨?_, ?_⟩
        · intro p
          have a1 := hadd.1 p; have a2 := hsm.1 p; have a3 := hxeq.1 p; have a4 := hyeq.1 p
          simp only [mulDen, elemDen, get_add, get_smul] at a1 a2 a3 a4 ⊢
          grind
        · intro p
          have a1 := hadd.2 p; have a2 := hsm.2 p; have a3 := hxeq.2 p; have a4 := hyeq.2 p
          simp only [mulDen, elemDen, get_add, get_smul] at a1 a2 a3 a4 ⊢
          grind
      refine ⟨_, ?_, hfinal⟩
      have key : ∀ n x, NameDen id defs n x → n = e.units → Den id defs (e :: es) (mulDen (elemDen kp q m x) y) := by
        intro n x hx hn
        cases hx with
        | builtin h1 h2 => exact .builtin hp hq hmul (hn ▸ h1) (hn ▸ h2) hy
        | base hm hb => exact .base hp hq hmul hm hb hn hy
        | user hm hb hx => exact .user hp hq hmul hm hb hn hx hy
      exact key _ _ hxr rfl


theorem mem_keys_cons {q : String} {df : UnitDef} {reg : Registry} {n : String} :
    n ∈ keys ((q, df) :: reg) ↔ n = q ∨ n ∈ keys reg := by simp [keys]

/-- the invariant survives adding a name with a fresh key, provided the new name gets its denotation -/
theorem inv_extend {id : Nat} {defs : List UDef} {reg : Registry} {st : Store} (inv : Inv id defs reg st)
    {name : String} (df : UnitDef) (hnew : st.isDefined name = false)
    (hden : ∃ x, NameDen id defs name x ∧
      toRoot ((prefixName id name, df) :: reg) [(prefixName id name, 1)] ≃₂ x) :
    Inv id defs ((prefixName id name, df) :: reg) { st with known := name :: st.known } where
  sid := inv.sid
  fresh := by
    intro n hn
    rw [isDefined_cons, Bool.or_eq_false_iff] at hn
    have hne : n ≠ name := by simpa using hn.2
    intro hmem
    rcases mem_keys_cons.mp hmem with h | h
    · exact hne (prefixName_inj id (isDefined_false_cellml hn.1) (isDefined_false_cellml hnew) h)
    · exact inv.fresh n hn.1 h
  known := by
    intro n hn
    rw [isDefined_cons] at hn
    have hq := inv.fresh name hnew
    by_cases hold : st.isDefined n = true
    · obtain ⟨hk, x, hx, hxeq⟩ := inv.known n hold
      exact ⟨allKnown_cons _ hk, x, hx, (toRoot_cons_fresh df hk hq).trans hxeq⟩
    · have hnn : n = name := by
        cases h : st.isDefined n
        · rw [h] at hn; simpa using hn
        · exact absurd h hold
      subst hnn
      rw [nameContainer_storeLike (prefixName_storeLike id (isDefined_false_cellml hnew))]
      refine ⟨allKnown_iff.mpr ?_, hden⟩
      intro p hp
      simp only [List.mem_singleton] at hp
      rw [hp]; exact mem_keys_cons.mpr (Or.inl rfl)

theorem inv_addBase {id : Nat} {defs : List UDef} {reg : Registry} {st : Store} (inv : Inv id defs reg st)
    {d : UDef} (hm : d ∈ defs) (hb : d.base = true) {reg' : Registry} {st' : Store}
    (h : addBaseUnit reg st d.name = .ok (reg', st')) : Inv id defs reg' st' := by
  obtain ⟨hnew, hr⟩ := addBaseUnit_ok h
  simp only [Prod.mk.injEq] at hr
  have hs := inv.sid
  subst hs
  rw [hr.1, hr.2]
  exact inv_extend inv _ hnew ⟨_, .base hm hb, toRoot_new_base reg _ _ (inv.fresh _ hnew)⟩

theorem inv_addNow {id : Nat} {defs : List UDef} {reg : Registry} {st : Store} (inv : Inv id defs reg st)
    {d : UDef} (hm : d ∈ defs) (hb : d.base = false) (hr : ready st d = true)
    (hgood : ∀ e ∈ d.elems, mangle id e.units = prefixName id e.units) {reg' : Registry} {st' : Store}
    (h : addNow reg st d = .ok (reg', st')) : Inv id defs reg' st' := by
  obtain ⟨_, hnew, _, _, hu⟩ := addNow_ok h
  obtain ⟨k, c, md, hdm, _, _, _, _, _, hres⟩ := addUnit_ok hu
  simp only [Prod.mk.injEq] at hres
  have hs := inv.sid
  subst hs
  rw [hres.1, hres.2]
  obtain ⟨x, hx, hxeq⟩ := defMeaning_den inv d.elems k c md hdm (List.all_eq_true.mp hr) hgood
  refine inv_extend inv _ hnew ⟨x, .user hm hb hx, ?_⟩
  refine (toRoot_new_derived reg _ (norm k) (norm c)).trans (Equiv₂.trans ?_ hxeq)
  have h1 := toRoot_congr reg (norm_equiv c)
  refine ⟨?_, h1.2⟩
  intro p
  have := h1.1 p
  simp only [get_add, get_norm, this]


theorem inv_addBases {id : Nat} {defs : List UDef} : ∀ (ds : List UDef), (∀ d ∈ ds, d ∈ defs) →
    ∀ (reg : Registry) (st : Store) (reg' : Registry) (st' : Store), Inv id defs reg st →
      addBases reg st ds = .ok (reg', st') → Inv id defs reg' st' := by
  intro ds
  induction ds with
  | nil => intro _ reg st reg' st' inv h; simp only [addBases, Except.ok.injEq, Prod.mk.injEq] at h; rw [← h.1, ← h.2]; exact inv
  | cons d ds ih =>
      intro hsub reg st reg' st' inv h
      have hsub' : ∀ x ∈ ds, x ∈ defs := fun x hx => hsub x (List.mem_cons_of_mem _ hx)
      simp only [addBases] at h
      split at h
      · rename_i hb
        split at h
        · rename_i r1 s1 hadd
          exact ih hsub' _ _ _ _ (inv_addBase inv (hsub d List.mem_cons_self) hb hadd) h
        · cases h
      · exact ih hsub' _ _ _ _ inv h

theorem inv_seqAdd {id : Nat} {defs : List UDef} : ∀ (ord : List UDef),
    (∀ d ∈ ord, d ∈ defs ∧ d.base = false) →
    (∀ d ∈ ord, ∀ e ∈ d.elems, mangle id e.units = prefixName id e.units) →
    ∀ (reg : Registry) (st : Store) (reg' : Registry) (st' : Store), Inv id defs reg st →
      seqAdd reg st ord = .ok (reg', st') → Inv id defs reg' st' := by
  intro ord
  induction ord with
  | nil => intro _ _ reg st reg' st' inv h; simp only [seqAdd, Except.ok.injEq, Prod.mk.injEq] at h; rw [← h.1, ← h.2]; exact inv
  | cons d ds ih =>
      intro hsub hgood reg st reg' st' inv h
      simp only [seqAdd] at h
      split at h
      · rename_i hr
        split at h
        · rename_i r1 s1 hadd
          have hd := hsub d List.mem_cons_self
          exact ih (fun x hx => hsub x (List.mem_cons_of_mem _ hx)) (fun x hx => hgood x (List.mem_cons_of_mem _ hx))
            _ _ _ _ (inv_addNow inv hd.1 hd.2 hr (hgood d List.mem_cons_self) hadd) h
        · cases h
      · cases h

/-- references that the `_WORD` substitution rewrites as intended (true of every identifier that starts with a
    letter or an underscore: `mangle_good` below) -/
def GoodRefs (id : Nat) (defs : List UDef) : Prop :=
  ∀ d ∈ defs, d.base = false → ∀ e ∈ d.elems, mangle id e.units = prefixName id e.units

theorem addUnits_inv {id : Nat} {defs : List UDef} {reg : Registry} {st : Store} (hgood : GoodRefs id defs)
    (h : addUnits id defs = .ok (reg, st)) : Inv id defs reg st := by
  obtain ⟨reg0, st0, ord, hb, hp, hs⟩ := addUnits_ok h
  have inv0 := inv_addBases defs (fun d hd => hd) _ _ _ _ (inv_init id defs) hb
  refine inv_seqAdd ord ?_ ?_ _ _ _ _ inv0 hs
  · intro d hd; exact mem_queue.mp (hp.mem_iff.mp hd)
  · intro d hd e he
    have := mem_queue.mp (hp.mem_iff.mp hd)
    exact hgood d this.1 this.2 e he

/-- after a successful load every name of the document is defined -/
theorem addUnits_defined {id : Nat} {defs : List UDef} {reg : Registry} {st : Store}
    (h : addUnits id defs = .ok (reg, st)) : ∀ d ∈ defs, st.known.contains d.name = true := by
  obtain ⟨reg0, st0, ord, hb, hp, hs⟩ := addUnits_ok h
  have k0 := (addBases_known defs _ _ _ _ hb).1
  have k1 := (seqAdd_known ord _ _ _ _ hs).1
  intro d hd
  rw [List.contains_iff_mem, k1, k0]
  simp only [List.append_nil, List.mem_append, List.mem_reverse, List.mem_map]
  cases hbase : d.base
  · left; exact ⟨d, hp.mem_iff.mpr (mem_queue.mpr ⟨hd, hbase⟩), rfl⟩
  · right; exact ⟨d, mem_basesOf.mpr ⟨hd, hbase⟩, rfl⟩

theorem addUnits_id {id : Nat} {defs : List UDef} {reg : Registry} {st : Store}
    (h : addUnits id defs = .ok (reg, st)) : st.id = id := by
  obtain ⟨reg0, st0, ord, hb, hp, hs⟩ := addUnits_ok h
  rw [(seqAdd_known ord _ _ _ _ hs).2, (addBases_known defs _ _ _ _ hb).2]

/-- SOUNDNESS: after a successful load, every unit of the document expands to a denotation of its name -/
theorem addUnits_sound {id : Nat} {defs : List UDef} {reg : Registry} {st : Store} (hgood : GoodRefs id defs)
    (h : addUnits id defs = .ok (reg, st)) :
    ∀ d ∈ defs, ∃ x, NameDen id defs d.name x ∧ meaningOf reg st d.name ≃₂ x := by
  intro d hd
  have inv := addUnits_inv hgood h
  have hdef : st.isDefined d.name = true := by
    simp only [Store.isDefined, addUnits_defined h d hd, Bool.or_true]
  obtain ⟨_, x, hx, hxeq⟩ := inv.known d.name hdef
  refine ⟨x, hx, ?_⟩
  unfold meaningOf
  rw [addUnits_id h]
  exact hxeq


/-! ### `word_subst_correct`: the `_WORD` substitution on identifiers that start with a letter or an underscore -/

/-- an identifier that starts with a letter or an underscore and continues with letters, digits, underscores -/
def goodIdent (n : String) : Bool :=
  match n.toList with
  | [] => false
  | c :: r => isWordStart c && r.all isWordChar

theorem isWordChar_of_start {c : Char} (h : isWordStart c = true) : isWordChar c = true := by
  simp only [isWordStart, isWordChar, Char.isAlphanum, Bool.or_eq_true] at h ⊢
  rcases h with h | h
  · exact Or.inl (Or.inl h)
  · exact Or.inr h

theorem takeWhile_all {p : Char → Bool} : ∀ (l : List Char), (∀ x ∈ l, p x = true) → l.takeWhile p = l := by
  intro l
  induction l with
  | nil => intro _; rfl
  | cons a l ih => intro h; simp [h a (by simp), ih (fun x hx => h x (by simp [hx]))]

theorem dropWhile_all {p : Char → Bool} : ∀ (l : List Char), (∀ x ∈ l, p x = true) → l.dropWhile p = [] := by
  intro l
  induction l with
  | nil => intro _; rfl
  | cons a l ih => intro h; simp [h a (by simp), ih (fun x hx => h x (by simp [hx]))]

theorem wordSubstGo_nil (f : String → String) (fuel : Nat) (prev : Char) : wordSubstGo f fuel prev [] = [] := by
  cases fuel <;> rfl

/-- `word_subst_correct`: on a well-shaped identifier the `_WORD` substitution rewrites exactly the whole name -/
theorem wordSubst_good (f : String → String) {n : String} (h : goodIdent n = true) : wordSubst f n = f n := by
  unfold goodIdent at h
  split at h
  · cases h
  · rename_i c r hn
    rw [Bool.and_eq_true] at h
    have hall : ∀ x ∈ c :: r, isWordChar x = true := by
      intro x hx
      rcases List.mem_cons.mp hx with rfl | hx
      · exact isWordChar_of_start h.1
      · exact List.all_eq_true.mp h.2 x hx
    unfold wordSubst
    rw [hn]
    simp only [wordSubstGo]
    have hcond : (isWordStart c && !(' '.isDigit || ' ' == '.')) = true := by
      rw [h.1]; decide
    rw [if_pos hcond, takeWhile_all _ hall, dropWhile_all _ hall, wordSubstGo_nil,
      List.append_nil, String.ofList_toList, ← hn, String.ofList_toList]

theorem mangle_good (id : Nat) {n : String} (h : goodIdent n = true) : mangle id n = prefixName id n :=
  wordSubst_good _ h

example : goodIdent "store1_x" = true ∧ goodIdent "_x" = true ∧ goodIdent "metre_per_second" = true ∧
    goodIdent "2pi" = false := by decide +kernel
end Units
