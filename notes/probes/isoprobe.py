"""Scratch probe: operations on model B must not change any observable of model A (C16)."""
import sys, random, logging, collections
import sympy as sp, cellmlmanip
from cellmlmanip.model import DataDirectionFlow as D, Quantity, Variable
from cellmlmanip.units import UnitStore
logging.disable(logging.CRITICAL)
rng = random.Random(int(sys.argv[1]) if len(sys.argv) > 1 else 0)
F = '/repo/tests/cellml_files/'
def snap(m):
    s = m.units
    o = {'eqs': [str(e) for e in m.equations], 'vars': [(v.name, s.format(v.units), s.format(v.units, True), v.initial_value, v.cmeta_id) for v in m.variables()],
         'states': [v.name for v in m.get_state_variables()], 'derived': [v.name for v in m.get_derived_quantities()],
         'sorted': [str(e) for e in m.get_equations_for(m.get_derivatives())],
         'units': sorted((u, s.format(s.get_unit(u), True)) for u in s._known_units),
         'rdf': len(list(m.rdf))}
    o['eval'] = []
    for e in m.equations[:40]:
        try: o['eval'].append(s.format(s.evaluate_units(e.rhs), True))
        except Exception as ex: o['eval'].append(type(ex).__name__)
    return o
finds = collections.defaultdict(list)
for shared in (False, True):
    A = cellmlmanip.load_model(F + 'hodgkin_huxley_squid_axon_model_1952_modified.cellml')
    before = snap(A)
    B = cellmlmanip.load_model(F + 'hodgkin_huxley_squid_axon_model_1952_modified.cellml', unit_store=A.units if shared else None)
    def check(tag):
        now = snap(A)
        for k in now:
            if now[k] != before[k]: finds['A changed (%s) after %s [shared=%s]' % (k, tag, shared)].append([x for x in zip(now[k], before[k]) if x[0] != x[1]][:2] if isinstance(now[k], list) else (now[k], before[k]))
    check('loading B')
    # same-named unit, different meaning in B
    try: B.units.add_unit('my_unit', 'metre*1000'); A.units.add_unit('my_unit', 'second/1000'); before = snap(A)
    except Exception as ex: finds['add same-named unit EXC %s [shared=%s]' % (type(ex).__name__, shared)].append(str(ex)[:80])
    check('defining my_unit in B')
    ua, ub = A.units.get_unit('my_unit'), B.units.get_unit('my_unit')
    print('shared', shared, '| A.my_unit', A.units.format(ua, True), '| B.my_unit', B.units.format(ub, True), '| A knows mm? ', A.units.is_defined('only_in_B'))
    B.units.add_unit('only_in_B', 'metre/1000')
    try: A.units.get_unit('only_in_B'); finds['name of B known in A [shared=%s]' % shared].append(1)
    except KeyError: pass
    if shared:
        try: print('  cross convert B.my_unit -> A.metre:', A.units.get_conversion_factor(ub, A.units.get_unit('metre')))
        except Exception as ex: finds['cross conversion failed'].append(type(ex).__name__)
    check('defining only_in_B')
    V = B.get_variable_by_name('membrane$V'); t = B.get_free_variable()
    B.convert_variable(V, B.units.get_unit('volt'), D.INPUT); check('convert V in B')
    B.convert_variable(t, B.units.get_unit('second'), D.INPUT); check('convert time in B')
    Vb = B.get_variable_by_cmeta_id(V.cmeta_id) if V.cmeta_id else [v for v in B.variables() if v.name.startswith('membrane$V_conv')][0]
    B.remove_fixable_singularities([v for v in B.variables() if v.name == 'membrane$V'][0]); check('singularities in B')
    B.add_cmeta_id(B.get_variable_by_name('sodium_channel$g_Na')); check('add_cmeta_id in B')
    C = cellmlmanip.load_model(F + 'beeler_reuter_model_1977.cellml', unit_store=A.units if shared else None); check('loading C')
    # now singularities on A itself after B's cached analysis
    A2 = cellmlmanip.load_model(F + 'hodgkin_huxley_squid_axon_model_1952_modified.cellml')
    A.remove_fixable_singularities(A.get_variable_by_name('membrane$V')); A2.remove_fixable_singularities(A2.get_variable_by_name('membrane$V'))
    if sorted(str(e) for e in A.equations) != sorted(str(e) for e in A2.equations): finds['singularity result differs from a fresh process-mate [shared=%s]' % shared].append(1)
for k, v in finds.items(): print('##', k, len(v), str(v[0])[:300])
print('done')
