"""Code-translator spec (see harness/translate_code.py and notes/TIE_GUIDE.md): the cmeta / RDF functions of
cellmlmanip/model.py that MUTATE the model. The generated definitions are `do` blocks in `PyM AState`
(lean/Cellml/Tie/PyM.lean: value or exception class AND the state left behind), `self` is that state. Accessors:
lean/Cellml/Tie/CmetaView.lean; tie theorems: lean/Cellml/Tie/Cmeta.lean."""

# leaves shared by the functions of this group: one field read / written each
PATTERNS = [
    # call of a translated function of the reading group (Cellml.Gen.CmetaQ)
    ('self.has_cmeta_id(__A)', '← callQ (fun self => CmetaQ.hasCmetaId self {A})'),
    # attributes of a Variable object
    ('__A._cmeta_id', '(← varCmeta {A})'),
    ('__A.rdf_identity', '(← varRdfIdentity {A})'),
    ('__A.name', '(← varName {A})'),
    # the dicts of the model in `k in d` position = their keys
    ('self._name_to_variable', '(← nameKeys)'),
    ('self._variables_added', '(← variablesAdded)'),
]
STMT_PATTERNS = [
    ('__A._set_cmeta_id(__B)', 'setCmeta {A} {B}'),
    ('self._cmeta_id_to_variable[__K] = __V', 'cmetaMapSet {K} {V}'),
    ('del self._cmeta_id_to_variable[__K]', 'cmetaMapDel {K}'),
    ('del self._name_to_variable[__K]', 'nameDictDel {K}'),
    ('self._invalidate_cache()', 'invalidateCache'),
]

GROUP = {
    'name': 'Cmeta',
    'imports': ['Cellml.Generated.Code.CmetaQ'],
    'header': 'open Cellml.Tie.PCmeta\nopen Model',
    'patterns': PATTERNS,
    'stmt_patterns': STMT_PATTERNS,
    'functions': [
        {'file': 'cellmlmanip/model.py',
         'func': 'Model.transfer_cmeta_id',
         'lean_name': 'transferCmetaId',
         'signature': '(source target : Nat) : M Unit'},
        {'file': 'cellmlmanip/model.py',
         'func': 'Model.add_cmeta_id',
         'lean_name': 'addCmetaId',
         'signature': '(variable_ : Nat) : M Unit',
         # the `while self.has_cmeta_id(cmeta_id)` loop on fuel: one test more than there are ids in the registry plus
         # the model's own (the hand model's `freeCmeta` runs on `|registry| + 1` and tests once more at 0)
         'while_fuel': ['(← callQ (fun self => .ok (self.m.cmetaMap.length + 2)))'],
         'patterns': [
             # callee outside this package, bound as a leaf (see CmetaView.displayName)
             ('self.get_display_name(__A)', '← displayName {A}'),
         ]},
        {'file': 'cellmlmanip/model.py',
         'func': 'Model.add_variable',
         'lean_name': 'addVariable',
         'signature': '(name : String) (units : UnitArg) (initial_value : Option Rat) '
                      '(public_interface private_interface : Option String) (cmeta_id : Option String) : M Nat',
         'patterns': [
             # the unit store is not part of this state
             ('isinstance(units, self.units.Unit)', '(units).isUnit'),
             ('self.units.get_unit(__A)', '← getUnit {A}'),
         ],
         'stmt_patterns': [
             # a new Variable object, then `d[name] = var` (units, interfaces and the back pointer are not state of the
             # hand model; which argument goes to which field flows from the keywords)
             ('self._name_to_variable[__K] = var = Variable(name=__N, units=__U, model=self, initial_value=__I, '
              'public_interface=__P, private_interface=__Q, order_added=__O, cmeta_id=__C)',
              'let var ← newVariable {N} {O} {C} {I}\nnameDictSet {K} var'),
             ('self._variables_added += __K', 'variablesAddedIncr {K}'),
         ]},
        {'file': 'cellmlmanip/model.py',
         'func': 'Model.remove_variable',
         'lean_name': 'removeVariable',
         'signature': '(variable_ : Nat) : M Unit',
         'patterns': [
             # calls of C08 functions (tied by their own package), bound to the hand model's functions
             ('self.get_definition(__A)', '← getDefinitionM {A}'),
             # rdflib pattern query with wildcards for predicate and object
             ('self.rdf.triples((__S, None, None))', '(← rdfTriplesOf {S})'),
         ],
         'stmt_patterns': [
             ('self.remove_equation(__E)', 'removeEquationM {E}'),
             ('self.rdf.remove(__T)', 'rdfRemove {T}'),
             # the back pointer of the Variable object is not state of the hand model
             ('__A._model = None', ''),
         ]},
    ]}
