import Cellml.Tie.ConvertVarE

/-! # The stopping model `Model.CVE` (class and state at the first raise) REFINES the flag model `Model.CV`

    `RefG D f0 rd g m`: the stopping model's outcome `g` against the flag model's result `m` (flag read by `rd`), from an
    entry state whose flag is `f0`:
    * `g` returns `r`  ⇒  `r = m` (the same state and value) and the flag model's flag is still `f0` — NO hypothesis on the
      entry flag is needed: the flag model's calls never READ the flag;
    * `g` raises `e`   ⇒  the flag model's flag is up — or `e` is the `IndexError` of `args[k]` on a plain-variable
      left-hand side filed among the ODEs, which the flag model does not have (it skips such an entry); `D` = "the entry
      state files only derivatives among the ODEs" excludes it.
    So everything `Props/C06.lean` / `C06/*.lean` prove about `Model.CV.convertVariable` holds for what the stopping model
    returns, and "flag up" now has a class and a state. -/

namespace Cellml.Tie.CVE
open Model Model.CV Cellml.Tie Cellml.Tie.CV
open Model.CVE (Raised)

def RefG {β : Type} (D : Prop) (f0 : Bool) (rd : β → Bool) (g : Except Raised β) (m : β) : Prop :=
  match g with
  | .ok r => r = m ∧ rd m = f0
  | .error e => rd m = true ∨ (e.cls = "IndexError" ∧ ¬ D)

/-- a function that answers a value (and has changed the model) -/
abbrev Ref {α : Type} (D : Prop) (f0 : Bool) (g : Except Raised (CState × α)) (m : CState × α) : Prop :=
  RefG D f0 (fun r => r.1.raised) g m
/-- a function that answers nothing -/
abbrev RefS (D : Prop) (f0 : Bool) (g : Except Raised CState) (m : CState) : Prop := RefG D f0 (fun r => r.raised) g m

theorem RefG.bind {β γ : Type} {D : Prop} {f0 : Bool} {rb : β → Bool} {rc : γ → Bool} {g : Except Raised β} {m' : β}
    {k : β → Except Raised γ} {M : γ} (hg : RefG D f0 rb g m') (hr : rb m' = true → rc M = true)
    (hk : rb m' = f0 → RefG D f0 rc (k m') M) : RefG D f0 rc (g >>= k) M := by
  cases g with
  | error e =>
    rcases hg with h | h
    · exact Or.inl (hr h)
    · exact Or.inr h
  | ok r =>
    obtain ⟨rfl, h⟩ := hg
    exact hk h

theorem RefG.pure {β : Type} {D : Prop} {f0 : Bool} {rb : β → Bool} (m : β) (h : rb m = f0) :
    RefG D f0 rb (pure m : Except Raised β) m := ⟨rfl, h⟩

-- ================================================================================================ the four calls
theorem ref_addVariable (D : Prop) (s : CState) (n : String) (u : U) (i : Option Rat) (f0 : Bool) (hf : s.raised = f0) :
    Ref D f0 (Model.CVE.addVariable s n u i) (CV.addVariable s n u i) := by
  unfold Model.CVE.addVariable CV.addVariable
  by_cases h : n ∈ CV.names s <;> simp [RefG, h, hf]

theorem ref_transferCmeta (D : Prop) (s : CState) (a b : Nat) (f0 : Bool) (hf : s.raised = f0) :
    RefS D f0 (Model.CVE.transferCmeta s a b) (CV.transferCmeta s a b) := by
  unfold Model.CVE.transferCmeta CV.transferCmeta
  cases ha : cmetaOfV s a with
  | none => simp [RefG]
  | some c =>
    cases hb : cmetaOfV s b with
    | some d => simp [RefG]
    | none => simp [RefG, hf]

theorem ref_addEq (D : Prop) (s : CState) (e : CEqn) (c : Bool) (f0 : Bool) (hf : s.raised = f0) :
    RefS D f0 (Model.CVE.addEq s e c) (CV.addEq s e c) := by
  unfold Model.CVE.addEq CV.addEq
  obtain ⟨lhs, rhs⟩ := e
  cases lhs with
  | var v =>
    by_cases h : (c && CV.isDefined s v) = true <;> simp [RefG, Model.CVE.lhsVar, h, hf]
  | deriv x t =>
    by_cases h : (c && CV.isDefined s x) = true <;> simp [RefG, Model.CVE.lhsVar, h, hf]

theorem ref_removeEq (D : Prop) (s : CState) (e : CEqn) (f0 : Bool) (hf : s.raised = f0) :
    RefS D f0 (Model.CVE.removeEq s e) (CV.removeEq s e) := by
  unfold Model.CVE.removeEq CV.removeEq Model.CVE.filed
  obtain ⟨lhs, rhs⟩ := e
  by_cases hm : (⟨lhs, rhs⟩ : CEqn) ∈ s.equations
  · cases lhs with
    | var v => by_cases h : hasKey v s.varDef = true <;> simp [RefG, hm, h, hf]
    | deriv x t => by_cases h : hasKey x s.odeDef = true <;> simp [RefG, hm, h, hf]
  · simp [RefG, hm]

-- ================================================================================================ the helpers
theorem ref_removeOdeAssign (D : Prop) (s : CState) (ode : CEqn) (x : Nat) (f0 : Bool) (hf : s.raised = f0) :
    Ref D f0 (Model.CVE.removeOdeAssign s ode x) (CV.removeOdeAssign s ode x) := by
  unfold Model.CVE.removeOdeAssign CV.removeOdeAssign
  refine RefG.bind (ref_addVariable D _ _ _ _ f0 hf) (fun h => addEq_sticky _ _ _ (removeEq_sticky _ _ h)) fun h1 => ?_
  refine RefG.bind (ref_removeEq D _ _ f0 h1) (fun h => addEq_sticky _ _ _ h) fun h2 => ?_
  refine RefG.bind (ref_addEq D _ _ _ f0 h2) (fun h => h) fun h3 => ?_
  exact ⟨rfl, h3⟩

/-- `hl`: where only derivatives are filed among the ODEs (`D`), `original_ode` has a derivative on the left -/
theorem ref_convertFreeDeriv (D : Prop) (s : CState) (ode : CEqn) (nt : Nat) (cfq : X) (f0 : Bool) (hf : s.raised = f0)
    (hl : D → ∃ x t, ode.lhs = .deriv x t) :
    Ref D f0 (Model.CVE.convertFreeDeriv s ode nt cfq) (CV.convertFreeDeriv s ode nt cfq) := by
  unfold Model.CVE.convertFreeDeriv CV.convertFreeDeriv
  cases h : ode.lhs with
  | var w =>
    show _ ∨ _
    refine Or.inr ⟨rfl, fun hD => ?_⟩
    obtain ⟨x, t, hxt⟩ := hl hD
    rw [h] at hxt; cases hxt
  | deriv x t =>
    refine RefG.bind (ref_removeOdeAssign D _ _ _ f0 hf) (fun h => addEq_sticky _ _ _ h) fun h1 => ?_
    refine RefG.bind (ref_addEq D _ _ _ f0 h1) (fun h => h) fun h2 => ?_
    exact ⟨rfl, h2⟩

theorem ref_convertStateDeriv (D : Prop) (s : CState) (v nv : Nat) (cfq : X) (f0 : Bool) (hf : s.raised = f0)
    (hd : D → ∀ e, s.odeDef.lookup v = some e → ∃ x t, e.lhs = .deriv x t) :
    Ref D f0 (Model.CVE.convertStateDeriv s v nv cfq) (CV.convertStateDeriv s v nv cfq) := by
  unfold Model.CVE.convertStateDeriv CV.convertStateDeriv
  cases ho : s.odeDef.lookup v with
  | none => exact Or.inl rfl
  | some ode =>
    dsimp only
    cases h : ode.lhs with
    | var w =>
      show _ ∨ _
      refine Or.inr ⟨rfl, fun hD => ?_⟩
      obtain ⟨x, t, hxt⟩ := hd hD ode ho
      rw [h] at hxt; cases hxt
    | deriv x t =>
      refine RefG.bind (ref_removeOdeAssign D _ _ _ f0 hf) (fun h => addEq_sticky _ _ _ h) fun h1 => ?_
      refine RefG.bind (ref_addEq D _ _ _ f0 h1) (fun h => h) fun h2 => ?_
      exact ⟨rfl, h2⟩

-- ================================================================================================ loops
/-- a `foldlM` whose step refines one step of the flag model's `foldl` refines the `foldl` -/
theorem refG_foldlM {σ α : Type} (D : Prop) (f0 : Bool) (rd : σ → Bool) (step : σ → α → σ)
    (stepE : σ → α → Except Raised σ) (hst : ∀ s a, rd s = true → rd (step s a) = true) :
    ∀ (l : List α) (s : σ), (∀ a ∈ l, ∀ s, rd s = f0 → RefG D f0 rd (stepE s a) (step s a)) →
      rd s = f0 → RefG D f0 rd (l.foldlM stepE s) (l.foldl step s)
  | [], s, _, h => ⟨rfl, h⟩
  | a :: l, s, hbody, h => by
    rw [List.foldlM_cons, List.foldl_cons]
    refine RefG.bind (hbody a (List.mem_cons_self ..) s h) (fun h' => foldl_sticky rd step hst l _ h') fun h' => ?_
    exact refG_foldlM D f0 rd step stepE hst l _ (fun a ha => hbody a (List.mem_cons_of_mem _ ha)) h'

theorem ref_replaceRefs (D : Prop) (s : CState) (rep : Rep) (f0 : Bool) (hf : s.raised = f0) :
    RefS D f0 (Model.CVE.replaceRefs s rep) (CV.replaceRefs s rep) := by
  unfold Model.CVE.replaceRefs CV.replaceRefs
  refine refG_foldlM D f0 (fun s : CState => s.raised) _ _ (fun s e h => ?_) _ _ (fun e _ st hst => ?_) hf
  · show (if _ then _ else _ : CState).raised = true
    split
    · exact addEq_sticky _ _ _ (removeEq_sticky _ _ h)
    · exact h
  · unfold Model.CVE.replaceStep
    by_cases hm : mentions rep e = true
    · simp only [hm, if_true]
      refine RefG.bind (ref_removeEq D _ _ f0 hst) (fun h => addEq_sticky _ _ _ h) fun h1 => ?_
      exact ref_addEq D _ _ _ f0 h1
    · simp only [hm]
      exact ⟨rfl, hst⟩

-- ================================================================================================ _convert_variable_instance
theorem ref_instInput (D : Prop) (s2 : CState) (v nv : Nat) (cfq : X) (f0 : Bool) (hf : s2.raised = f0) :
    RefS D f0 (Model.CVE.instInput s2 v nv cfq) (CV.instInput s2 v nv cfq) := by
  unfold Model.CVE.instInput CV.instInput
  cases ho : s2.varDef.lookup v with
  | none =>
    simp only [pure_bind]
    exact ref_addEq D _ _ _ f0 hf
  | some oe =>
    refine RefG.bind (ref_removeEq D _ _ f0 hf) (fun h => addEq_sticky _ _ _ (addEq_sticky _ _ _ h)) fun h1 => ?_
    refine RefG.bind (ref_addEq D _ _ _ f0 h1) (fun h => addEq_sticky _ _ _ h) fun h2 => ?_
    exact ref_addEq D _ _ _ f0 h2

theorem ref_convertInstance (D : Prop) (s : CState) (v : Nat) (cf : Rat) (u : U) (dir : Dir) (move : Bool) (f0 : Bool)
    (hf : s.raised = f0) :
    Ref D f0 (Model.CVE.convertInstance s v cf u dir move) (CV.convertInstance s v cf u dir move) := by
  unfold Model.CVE.convertInstance CV.convertInstance
  refine RefG.bind (ref_addVariable D _ _ _ _ f0 hf) (fun h => ?_) fun h1 => ?_
  · have h2 : ∀ (c : Bool) (a b : Nat) (s1 : CState), s1.raised = true →
        (if c = true then CV.transferCmeta s1 a b else s1).raised = true := by
      intro c a b s1 h; split
      · exact transferCmeta_sticky _ _ _ h
      · exact h
    cases dir with
    | input => exact instInput_sticky _ _ _ _ (h2 _ _ _ _ h)
    | output => exact instOutput_sticky _ _ _ _ (h2 _ _ _ _ h)
  · generalize CV.addVariable s (freshName s (nameOfV s v ++ "_converted")) u (newInit s v cf dir) = p at h1 ⊢
    obtain ⟨s1, nv⟩ := p
    dsimp only at h1 ⊢
    have hrest : ∀ s2 : CState, s2.raised = f0 →
        Ref D f0 (match dir with
          | Dir.input => do
            let s3 ← Model.CVE.instInput s2 v nv (X.lit cf (u.div (unitOfV s v)))
            pure (s3, nv)
          | Dir.output => do
            let s3 ← Model.CVE.instOutput s2 v nv (X.lit cf (u.div (unitOfV s v)))
            pure (s3, nv))
          (match dir with
          | Dir.input => (CV.instInput s2 v nv (X.lit cf (u.div (unitOfV s v))), nv)
          | Dir.output => (CV.instOutput s2 v nv (X.lit cf (u.div (unitOfV s v))), nv)) := by
      intro s2 h2
      cases dir with
      | input =>
        refine RefG.bind (ref_instInput D _ _ _ _ f0 h2) (fun h => h) fun h3 => ?_
        exact ⟨rfl, h3⟩
      | output =>
        refine RefG.bind (ref_addEq D _ _ _ f0 h2) (fun h => h) fun h3 => ?_
        exact ⟨rfl, h3⟩
    by_cases hc : ((cmetaOfV s1 v).isSome && move) = true
    · simp only [hc, if_true]
      refine RefG.bind (ref_transferCmeta D _ _ _ f0 h1) (fun h => ?_) fun h2 => hrest _ h2
      cases dir with
      | input => exact instInput_sticky _ _ _ _ h
      | output => exact instOutput_sticky _ _ _ _ h
    · simp only [hc, if_false, Bool.false_eq_true, pure_bind]
      exact hrest _ h1

-- ================================================================================================ convert_variable
/-- the stopping model's sorted dict items are the flag model's `sortedOdes` (the keys of a dict are distinct) -/
theorem sortedItems_eq_sortedOdes (s : CState) (hk : KeysNodup s) : Model.CVE.sortedItems s = sortedOdes s := by
  rw [sortedOdes_eq s hk, pySorted_eq_foldr]
  rfl

theorem mem_sortedItems (s : CState) (ode : CEqn) (h : ode ∈ Model.CVE.sortedItems s) : ∃ p ∈ s.odeDef, p.2 = ode := by
  unfold Model.CVE.sortedItems at h
  rw [← pySorted_eq_foldr s] at h
  obtain ⟨p, hp, rfl⟩ := List.mem_map.mp h
  exact ⟨p, mem_pySorted _ _ _ hp, rfl⟩

theorem ref_freeStep (D : Prop) (v nv : Nat) (cfq : X) (acc : CState × Rep) (ode : CEqn) (f0 : Bool)
    (hf : acc.1.raised = f0) (hl : D → ∃ x t, ode.lhs = .deriv x t) :
    RefG D f0 (fun r : CState × Rep => r.1.raised) (Model.CVE.freeStep v nv cfq acc ode) (CV.freeStep v nv cfq acc ode) := by
  unfold Model.CVE.freeStep CV.freeStep
  cases h : ode.lhs with
  | var w =>
    show _ ∨ _
    refine Or.inr ⟨rfl, fun hD => ?_⟩
    obtain ⟨x, t, hxt⟩ := hl hD
    rw [h] at hxt; cases hxt
  | deriv x t =>
    dsimp only
    by_cases htv : t = v
    · simp only [htv, if_true]
      refine RefG.bind (ref_convertFreeDeriv D _ _ _ _ f0 hf (fun hD => ⟨x, t, h⟩)) (fun h => h) fun h1 => ?_
      exact ⟨rfl, h1⟩
    · simp only [htv, if_false]
      exact Or.inl rfl

theorem ite_bind_eq {ε β γ : Type} (c : Prop) [Decidable c] (x y : Except ε β) (k : β → Except ε γ) :
    (if c then x >>= k else y >>= k) = (if c then x else y) >>= k := by split <;> rfl

/-- **refinement of the driver.** From ANY entry flag: when the stopping model returns, the flag model computes exactly
    that state and variable and leaves the flag as it was; when the stopping model raises, the flag model's flag is up
    (or, outside `DerivOdes s`, the exception is the `IndexError` the flag model does not have). -/
theorem ref_convertVariable (s : CState) (v : Nat) (u : U) (cf : Rat) (dir : Dir) (move : Bool)
    (hv : v < s.vars.length) (hk : KeysNodup s) :
    Ref (DerivOdes s) s.raised (Model.CVE.convertVariable s v u (.ok cf) dir move)
      ((CV.convertVariable s v u cf dir move).1, (CV.convertVariable s v u cf dir move).2.1) := by
  have hin := nameOfV_mem s v hv
  unfold Model.CVE.convertVariable CV.convertVariable
  simp only [hin, if_true]
  by_cases h1 : cf = 1
  · simp only [h1, if_true]
    exact ⟨rfl, rfl⟩
  · simp only [h1, if_false]
    cases dir with
    | output =>
      refine RefG.bind (ref_convertInstance _ s v cf u .output move _ rfl) (fun h => h) fun hci => ?_
      exact ⟨rfl, hci⟩
    | input =>
      have hDci : DerivOdes s → DerivOdes (CV.convertInstance s v cf u .input move).1 :=
        fun hd => hd.convertInstance v cf u .input move
      have hKci := hk.convertInstance v cf u .input move
      have hDa : DerivOdes s → DerivOdes (statePhase (hasKey v s.odeDef) (CV.convertInstance s v cf u .input move).1 v
          (CV.convertInstance s v cf u .input move).2 (X.lit cf (u.div (unitOfV s v)))).1 := by
        intro hd; unfold statePhase; split
        · exact (hDci hd).convertStateDeriv _ _ _
        · exact hDci hd
      have hKa : KeysNodup (statePhase (hasKey v s.odeDef) (CV.convertInstance s v cf u .input move).1 v
          (CV.convertInstance s v cf u .input move).2 (X.lit cf (u.div (unitOfV s v)))).1 := by
        unfold statePhase; split
        · exact hKci.convertStateDeriv _ _ _
        · exact hKci
      refine RefG.bind (ref_convertInstance _ s v cf u .input move _ rfl)
        (fun h => replacePhase_sticky _ (freePhase_sticky _ _ _ _ _ ?_)) fun hci => ?_
      · unfold statePhase; split
        · exact convertStateDeriv_sticky _ _ _ _ h
        · exact h
      · dsimp only
        simp only [ite_bind_eq]
        refine RefG.bind (rb := fun r : CState × Rep => r.1.raised)
          (m' := statePhase (hasKey v s.odeDef) (CV.convertInstance s v cf u .input move).1 v
            (CV.convertInstance s v cf u .input move).2 (X.lit cf (u.div (unitOfV s v)))) ?_
          (fun h => replacePhase_sticky _ (freePhase_sticky _ _ _ _ _ h)) fun ha => ?_
        · unfold statePhase; split
          · exact ref_convertStateDeriv _ _ _ _ _ _ hci
              (fun hd e he => hDci hd _ (mem_of_lookup _ _ _ he))
          · exact ⟨rfl, hci⟩
        · refine RefG.bind (rb := fun r : CState × Rep => r.1.raised)
            (m' := freePhase (getFree s == some v)
              (statePhase (hasKey v s.odeDef) (CV.convertInstance s v cf u .input move).1 v
                (CV.convertInstance s v cf u .input move).2 (X.lit cf (u.div (unitOfV s v)))) v
              (CV.convertInstance s v cf u .input move).2 (X.lit cf (u.div (unitOfV s v)))) ?_
            (fun h => replacePhase_sticky _ h) fun hb => ?_
          · unfold freePhase; split
            · rw [sortedItems_eq_sortedOdes _ hKa]
              refine refG_foldlM _ _ (fun r : CState × Rep => r.1.raised) _ _
                (fun a e ha => freeStep_sticky v _ _ a e ha) _ _ (fun ode hode acc hacc => ?_) ha
              refine ref_freeStep _ _ _ _ _ _ _ hacc (fun hd => ?_)
              rw [← sortedItems_eq_sortedOdes _ hKa] at hode
              obtain ⟨p, hp, rfl⟩ := mem_sortedItems _ _ hode
              exact hDa hd p hp
            · exact ⟨rfl, ha⟩
          · refine RefG.bind (rb := fun r : CState => r.raised)
              (m' := replacePhase (freePhase (getFree s == some v)
                (statePhase (hasKey v s.odeDef) (CV.convertInstance s v cf u .input move).1 v
                  (CV.convertInstance s v cf u .input move).2 (X.lit cf (u.div (unitOfV s v)))) v
                (CV.convertInstance s v cf u .input move).2 (X.lit cf (u.div (unitOfV s v))))) ?_
              (fun h => h) fun hc => ⟨rfl, hc⟩
            unfold replacePhase; split
            · exact ⟨rfl, hb⟩
            · exact ref_replaceRefs _ _ _ _ hb

end Cellml.Tie.CVE
