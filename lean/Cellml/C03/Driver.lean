import Cellml.Basic.Sexp
/-! Channel C03 of the model driver (stub: not built yet). -/
namespace C03
def handle (_args : List Sexp) : Sexp := .atom "not-implemented"
end C03
