import Cellml.Generated.Code.Convert
import Cellml.Expr.ConvertLemmas
import Mathlib.Tactic.SplitIfs

/-! # Tie, part 1: the helpers of `UnitCalculator.convert_expression_recursively` (generated from units.py) -
    `maybe_convert_expr` = `Convert.maybeConv`, `maybe_convert_child` - and one lemma per constructor of `E` for every
    branch except Piecewise (`ConvertPw.lean`) and the n-ary classes Add / Mul / And / Or / fnN (`ConvertN.lean`):
    generated code (recursive calls played by the model) = `Convert.convert`.
    Main theorems: `Cellml/Tie/Convert.lean`. -/

namespace Cellml.Tie.PConvert
open Units Infer Convert Cellml.Gen

/-- `maybe_convert_expr` (generated) = `Convert.maybeConv`, for every expression, flag, source unit and target (or
    `None`); the model's `same` flag (object identity) has no counterpart in the returned triple. -/
theorem maybeConvertExpr_tie (reg : Registry) (Γ : VarEnv) (ex : E) (wc : Bool) (frm : Container)
    (tgt : Option Container) (same : Bool) :
    Gen.Convert.maybeConvertExpr (convView reg Γ) ex wc (some frm) tgt
      = encConv (maybeConv reg ex wc frm tgt same) := by
  unfold Gen.Convert.maybeConvertExpr maybeConv encConv convView
  cases tgt with
  | none => simp [errClass, Except.map, pure, Except.pure]
  | some t =>
    simp only [Option.isNone_some, Bool.false_eq_true, if_false]
    cases hf : conversionFactor reg frm t with
    | error e =>
      cases e <;> simp [errClass, Except.map, bind, Except.bind, tryCatch, tryCatchThe, MonadExceptOf.tryCatch,
        Except.tryCatch, throw, throwThe, MonadExceptOf.throw, StateT.pure, pure, Except.pure, convCls, UnitErr.name]
    | ok f =>
      cases f <;> simp [errClass, Except.map, bind, Except.bind, tryCatch, tryCatchThe, MonadExceptOf.tryCatch,
        Except.tryCatch, pure, Except.pure, StateT.pure, cfNotOne, mkQuantity, unitDiv]

theorem maybeConvertChild_eq (rec : E → PyUnit → Except PyErr ConvRes) (e : E) (wc : Bool) (t : PyUnit) :
    Gen.Convert.maybeConvertChild rec e wc t = (rec e t).map (fun r => (r.1, r.2.1 || wc, r.2.2)) := by
  unfold Gen.Convert.maybeConvertChild
  cases h : rec e t with
  | error err => simp [bind, Except.bind, Except.map, h]
  | ok r => obtain ⟨a, b, c⟩ := r; simp [bind, Except.bind, Except.map, pure, Except.pure, h]

theorem modelRec_ok {reg : Registry} {Γ : VarEnv} {e : E} {t : PyUnit} {r : CR} (h : Convert.convert reg Γ e t = .ok r) :
    modelRec reg Γ e t = .ok (r.e, r.wc, some r.u) := by
  simp [modelRec, encConv, errClass, Except.map, h]

theorem modelRec_error {reg : Registry} {Γ : VarEnv} {e : E} {t : PyUnit} {err : UnitErr}
    (h : Convert.convert reg Γ e t = .error err) : modelRec reg Γ e t = .error ⟨convCls err⟩ := by
  simp [modelRec, encConv, errClass, Except.map, h]

theorem encConv_ok (r : CR) : encConv (.ok r) = .ok (r.e, r.wc, some r.u) := rfl
theorem encConv_error (err : UnitErr) : encConv (.error err : Except UnitErr CR) = .error ⟨convCls err⟩ := rfl

section
variable (reg : Registry) (Γ : VarEnv)

local notation "GEN" => Gen.Convert.convertExpressionRecursively (convView reg Γ) (modelRec reg Γ)
local notation "MODEL" => fun e t => encConv (Convert.convert reg Γ e t)

/-- leaves: a Symbol goes through `maybe_convert_expr` with its own unit -/
theorem tie_symbol_aux (ex : E) (u : Container) (tgt : PyUnit) (hs : isSymbol ex = true)
    (hu : (convView reg Γ).unitsOf ex = .ok (some u)) :
    GEN ex tgt = encConv (maybeConv reg ex false u tgt true) := by
  have hm : isMatrix ex = false := by cases ex <;> simp_all [isSymbol, isMatrix]
  unfold Gen.Convert.convertExpressionRecursively
  simp only [hm, hs, Py.truthy_bool, hu]
  simp [bind, Except.bind, pure, Except.pure]
  rw [maybeConvertExpr_tie reg Γ _ _ _ _ true]
  cases maybeConv reg ex false u tgt true <;> simp [encConv, errClass, Except.map]

theorem tie_qty (v : Rat) (u : Container) (tgt : PyUnit) : GEN (.qty v u) tgt = MODEL (.qty v u) tgt := by
  rw [tie_symbol_aux reg Γ _ u tgt rfl rfl]; simp [Convert.convert]

theorem tie_cf (s : Scale) (u : Container) (tgt : PyUnit) : GEN (.cf s u) tgt = MODEL (.cf s u) tgt := by
  rw [tie_symbol_aux reg Γ _ u tgt rfl rfl]; simp [Convert.convert]

theorem tie_var (i : Nat) (tgt : PyUnit) : GEN (.var i) tgt = MODEL (.var i) tgt := by
  cases h : Γ[i]? with
  | some vi =>
    rw [tie_symbol_aux reg Γ _ vi.unit tgt rfl (by simp [convView, h])]; simp [Convert.convert, h]
  | none =>
    unfold Gen.Convert.convertExpressionRecursively
    simp [isMatrix, isSymbol, convView, h, Convert.convert, bind, Except.bind, encConv, errClass, Except.map, convCls,
      UnitErr.name]


macro "branch" : tactic => `(tactic|
  (unfold Gen.Convert.convertExpressionRecursively
   simp only [isMatrix, isSymbol, isDerivative, isMul, isPow, isAdd, isRelational, isPiecewise, isFunction, isNumber,
     isBoolean, isVariable, Py.truthy_bool, Convert.convert, args, nargs, dNum, dWrt, dOrder, maybeConvertChild_eq]))

macro "mon" : tactic => `(tactic|
  simp [bind, Except.bind, pure, Except.pure, Except.map, encConv_ok, encConv_error, rebuild, Bool.or_comm, StateT.pure, Functor.map,
    throw, throwThe, MonadExceptOf.throw, *])

theorem tie_deriv (v t : Nat) (tgt : PyUnit) : GEN (.deriv v t) tgt = MODEL (.deriv v t) tgt := by
  branch
  cases hv : Γ[v]? with
  | none =>
    have : Convert.convert reg Γ (.var v) none = .error (.unsupported "unknown variable") := by simp [Convert.convert, hv]
    simp [bind, Except.bind, modelRec_error this, Except.map, encConv_error]
  | some vv =>
    have h1 : Convert.convert reg Γ (.var v) none = .ok ⟨.var v, false, vv.unit, true⟩ := by
      simp [Convert.convert, hv, maybeConv]
    cases ht : Γ[t]? with
    | none =>
      have : Convert.convert reg Γ (.var t) none = .error (.unsupported "unknown variable") := by simp [Convert.convert, ht]
      simp [bind, Except.bind, modelRec_ok h1, modelRec_error this, Except.map, encConv_error]
    | some vt =>
      have h2 : Convert.convert reg Γ (.var t) none = .ok ⟨.var t, false, vt.unit, true⟩ := by
        simp [Convert.convert, ht, maybeConv]
      simp [bind, Except.bind, modelRec_ok h1, modelRec_ok h2, Except.map, unitDiv, pure, Except.pure]
      rw [maybeConvertExpr_tie reg Γ _ _ _ _ true]
      cases maybeConv reg (.deriv v t) false (divC vv.unit vt.unit) tgt true <;> simp [encConv, errClass, Except.map]

theorem tie_pow (b x : E) (tgt : PyUnit) : GEN (.pow b x) tgt = MODEL (.pow b x) tgt := by
  branch
  cases hx : Convert.convert reg Γ x (some []) with
  | error err => have := modelRec_error hx; simp [unpack2]; mon
  | ok rx =>
    have hx' := modelRec_ok hx
    cases hf : evalClosed rx.e with
    | none =>
      simp [unpack2, pyFloat, tryCatch, tryCatchThe, MonadExceptOf.tryCatch, Except.tryCatch]; mon
      simp [convCls, UnitErr.name]
    | some o =>
      cases o with
      | none =>
        simp [unpack2, pyFloat, tryCatch, tryCatchThe, MonadExceptOf.tryCatch, Except.tryCatch]; mon
        simp [convCls, UnitErr.name]
      | some q =>
        cases hb : Convert.convert reg Γ b none with
        | error err =>
          have := modelRec_error hb
          simp [unpack2, pyFloat, tryCatch, tryCatchThe, MonadExceptOf.tryCatch, Except.tryCatch]; mon
        | ok rb =>
          have := modelRec_ok hb
          simp [unpack2, pyFloat, tryCatch, tryCatchThe, MonadExceptOf.tryCatch, Except.tryCatch]
          mon
          simp only [unitPow]
          cases hw1 : rx.wc <;> cases hw2 : rb.wc <;> simp <;> exact maybeConvertExpr_tie reg Γ _ _ _ _ _

theorem dimless_eq (tgt : PyUnit) : (tgt.isSome && (tgt != some ([] : Container))) = !dimlessTarget tgt := by
  cases tgt with
  | none => rfl
  | some t => cases t <;> simp [dimlessTarget]

theorem tie_rel (r : Rel) (a b : E) (tgt : PyUnit) : GEN (.rel r a b) tgt = MODEL (.rel r a b) tgt := by
  branch
  simp only [dimless_eq]
  cases hd : dimlessTarget tgt with
  | false => mon; simp [convCls, UnitErr.name]
  | true =>
    cases ha : Convert.convert reg Γ a none with
    | error err => have := modelRec_error ha; mon
    | ok ra =>
      have := modelRec_ok ha
      cases hb : Convert.convert reg Γ b (some ra.u) with
      | error err => have := modelRec_error hb; mon
      | ok rb => have := modelRec_ok hb; mon; cases ra.wc <;> cases rb.wc <;> simp

theorem tie_abs (a : E) (tgt : PyUnit) : GEN (.abs a) tgt = MODEL (.abs a) tgt := by
  branch
  cases ha : Convert.convert reg Γ a tgt with
  | error err => have := modelRec_error ha; simp [funcName, Py.isIn]; mon
  | ok ra => have := modelRec_ok ha; simp [funcName, Py.isIn]; mon; cases ra.wc <;> simp

theorem tie_floor (a : E) (tgt : PyUnit) : GEN (.floor a) tgt = MODEL (.floor a) tgt := by
  branch
  cases ha : Convert.convert reg Γ a tgt with
  | error err => have := modelRec_error ha; simp [funcName, Py.isIn]; mon
  | ok ra => have := modelRec_ok ha; simp [funcName, Py.isIn]; mon; cases ra.wc <;> simp

theorem tie_ceil (a : E) (tgt : PyUnit) : GEN (.ceil a) tgt = MODEL (.ceil a) tgt := by
  branch
  cases ha : Convert.convert reg Γ a tgt with
  | error err => have := modelRec_error ha; simp [funcName, Py.isIn]; mon
  | ok ra => have := modelRec_ok ha; simp [funcName, Py.isIn]; mon; cases ra.wc <;> simp


theorem tie_fn1 (f : String) (a : E) (tgt : PyUnit) (hf : Py.isIn f ["floor", "ceiling", "Abs"] = false) :
    GEN (.fn1 f a) tgt = MODEL (.fn1 f a) tgt := by
  branch
  simp only [funcName, hf, dimless_eq]
  cases hd : dimlessTarget tgt with
  | false => mon; simp [convCls, UnitErr.name]
  | true =>
    cases ha : Convert.convert reg Γ a (some []) with
    | error err => have := modelRec_error ha; mon
    | ok ra => have := modelRec_ok ha; mon; cases ra.wc <;> simp

theorem tie_not (a : E) (tgt : PyUnit) : GEN (.not a) tgt = MODEL (.not a) tgt := by
  branch
  simp only [funcName, dimless_eq]
  cases hd : dimlessTarget tgt with
  | false => simp [Py.isIn]; mon; simp [convCls, UnitErr.name]
  | true =>
    cases ha : Convert.convert reg Γ a (some []) with
    | error err => have := modelRec_error ha; simp [Py.isIn]; mon
    | ok ra => have := modelRec_ok ha; simp [Py.isIn]; mon; cases ra.wc <;> simp

theorem tie_numLeaf (ex : E) (tgt : PyUnit) (hl : isNumLeaf ex = true) : GEN ex tgt = MODEL ex tgt := by
  cases ex <;> simp [isNumLeaf] at hl <;>
  · branch
    simp only [dimless_eq]
    cases hd : dimlessTarget tgt <;> mon <;> simp [convCls, UnitErr.name]

theorem tie_undef (tgt : PyUnit) : GEN .undef tgt = MODEL .undef tgt := by
  branch; mon; simp [convCls, UnitErr.name]

theorem tie_other (n : String) (tgt : PyUnit) : GEN (.other n) tgt = MODEL (.other n) tgt := by
  branch
  by_cases h1 : n = "Matrix"
  · subst h1; mon; simp [convCls, UnitErr.name]
  · by_cases h2 : n = "Derivative"
    · subst h2; mon; simp [convCls, UnitErr.name]
    · mon; simp [convCls, UnitErr.name]

end

end Cellml.Tie.PConvert
