"""Extensions of the code translator: subclasses of translate_code.Fn that add rules for one spec group
(spec key 'fn_class': '<module>:<Class>'). See translate_code.fn_class."""
