"""C01 — loading a CellML document preserves its mathematics (flattening fidelity)."""
import json
import logging
import os
import shutil
import tempfile
from fractions import Fraction

import docgen as D
from common import Str, sx

ID = 'C01'
LEAN_MODULES = ['Cellml.Props.C01', 'Cellml.Tie.ConnDir', 'Cellml.Tie.ConnLoop', 'Cellml.Tie.LoaderConsts', 'Cellml.Tie.LoaderSym', 'Cellml.Tie.LoaderRel', 'Cellml.Tie.Misc5', 'Cellml.Tie.LoaderComps', 'Cellml.Tie.LoaderParse', 'Cellml.Tie.ConvertCases', 'Cellml.Tie.ConvertPw', 'Cellml.Tie.Convert', 'Cellml.Tie.Units', 'Cellml.Tie.ConnLoopClosed', 'Cellml.Tie.LoaderUnitsOrder', 'Cellml.Tie.GenBWhile', 'Cellml.Tie.GenBUnitDefs', 'Cellml.Tie.LoaderStagesA', 'Cellml.Tie.LoaderStagesB', 'Cellml.Tie.LoaderStagesC', 'Cellml.Tie.LoaderStagesD', 'Cellml.Tie.MathsWalk', 'Cellml.Tie.LoaderGen', 'Cellml.Tie.NumPipe', 'Cellml.Props.C01Gen', 'Cellml.Tie.AddVars', 'Cellml.Tie.AddVarRef', 'Cellml.Tie.WalkGen']
N = {'quick': 300, 'thorough': 5000}
RULE = ('documents from harness/docgen.py: component forests of 1-7 components (depth <= 4), 1-7 signals (constants by '
        'initial_value or equation, algebraic variables, states with ODEs, derivative references on other right-hand '
        'sides) owned by random components and read elsewhere through relay chains of up to 5 hops whose ends carry '
        'different units of one dimension (families include units defined with multiplier AND exponent on one <unit> '
        'element, and chains of them); random local names, element order, component_1/2 order, cmeta ids on '
        'source/relay/target ends; plus the exhaustive family: every forest on 2 and 3 labelled components x every '
        'ordered (owner, reader) pair (quick: one unit assignment each; thorough: every ordered pair of the 6-unit '
        'volt family on the two ends); 15% of the random documents get one schema-valid perturbation (interface flip, '
        'wrong dimension on a connection end, second source, cut chain, missing state initial value, double definition, '
        'undeclared identifier/unit/variable/component, two parents, all ends swapped, connections reversed) so that the '
        'refusing branches of the model are compared too. non-trivial = loads, has a connection, and at least one connection or sum '
        'needs a conversion factor; distinct = distinct document JSON')
TRUSTED = ['Lean 4.33 kernel', 'axioms: propext, Classical.choice, Quot.sound',
           'correspondence harness harness/props/c01.py + docgen.py (document generator, XML writer, reference evaluator)',
           'lxml RELAX NG validation, the MathML transpiler (C02) and the unit-fix pass (C05) are used, not modelled here',
           'pint 0.18 is modelled (mini-pint: Cellml/Units/Core.lean), not verified']
ASSUMPTIONS = ['values are exact rationals in the model; the implementation inserts binary64 conversion factors, compared '
               'at relative 1e-9 of the conditioning bound of each expression',
               'scales with non-integer prime exponents denote irrational reals: the theorems hold for every '
               'interpretation `den` of scales that respects equality and sends 1 to 1; the executable instance is exact '
               'for integer exponents (all units of the generator)']
FINGERPRINT = {'cellmlmanip/parser.py': ['Parser.parse', 'Parser._add_components', 'Parser._add_variables',
                                        'Parser._add_maths', 'Parser._add_relationships',
                                        'Parser._handle_component_ref', 'Parser._add_connections',
                                        'Parser._determine_connection_direction', 'Parser.transform_constants',
                                        'Parser._get_variable_name', '_Component'],
               'cellmlmanip/model.py': ['Variable.__init__', 'Model.add_variable', 'Model.add_equation',
                                       'Model._check_duplicate_definitions', 'Model.transfer_cmeta_id',
                                       'Model.get_state_variables', 'SYMPY_SYMBOL_DELIMITER']}
TOL = Fraction(1, 10 ** 9)


# ---------------------------------------------------------------------------------------------- cases
def gen(rng, n, tier):
    topo = D.topo_cases()
    fam = D.FAMILIES[(1, 0)][:6]
    famx = fam + ['V_chain', 'V_chain']       # + a unit defined with multiplier and exponent on one element (chain)
    if tier == 'thorough':
        for parent, o, t in topo:
            hops = len(D.route(parent, o, t)) - 1
            for ua in fam:
                for ub in fam:
                    mid = [rng.choice(famx) for _ in range(hops - 1)]
                    kind = rng.choice(['alg', 'alg', 'state', 'const-init'])
                    yield make_case(D.topo_doc(rng, parent, o, t, [ua] + mid + [ub], swap=rng.random() < 0.5, kind=kind,
                                               annotate=rng.choice([None, None, 0, 1, 2])), 'topo')
        n_rand = n
    else:
        n_topo = min(len(topo), n // 3)
        for parent, o, t in (topo if n_topo == len(topo) else rng.sample(topo, n_topo)):
            hops = len(D.route(parent, o, t)) - 1
            us = [rng.choice(famx) for _ in range(hops + 1)]
            kind = rng.choice(['alg', 'alg', 'state', 'const-init'])
            yield make_case(D.topo_doc(rng, parent, o, t, us, swap=rng.random() < 0.5, kind=kind,
                                       annotate=rng.choice([None, None, 0, 1, 2])), 'topo')
        n_rand = n - n_topo
    for i in range(n_rand):
        r = rng.random()
        if r < 0.12:
            parent, far = D.far_forest(rng)
            doc = D.gen_valid_doc(rng, parent=parent, far=far, n_signals=rng.randint(1, 5))
        elif r < 0.5:
            doc = D.gen_valid_doc(rng, k=rng.choice([3, 4, 5, 6, 7]), n_signals=rng.randint(3, 7))
        elif r < 0.92:
            doc = D.gen_valid_doc(rng)
        else:
            doc = D.gen_valid_doc(rng, multi_cmeta=True)
        if rng.random() < 0.15:
            doc, what = perturb(doc, rng)
            yield dict(make_case(doc, 'perturbed'), what=what)
        else:
            yield make_case(doc, 'random')


def make_case(doc, kind):
    return {'doc': doc, 'kind': kind}


PERTURBATIONS = ['flip-interface', 'wrong-dimension', 'second-source', 'cut-chain', 'drop-state-init', 'define-twice',
                 'undeclared-identifier', 'missing-variable', 'missing-component', 'two-parents', 'init-and-equation',
                 'unknown-unit', 'swap-ends-all', 'reverse-conns']


def perturb(doc, rng, what=None):
    """A schema-valid variant of a valid document that the loader may refuse (the malformed stream: it ties the error
    branches of the model; systematic fault injection is C17's). Returns (doc, what)."""
    import copy
    d = copy.deepcopy(doc)
    d['meta'] = dict(d.get('meta', {}), perturbed=True)
    what = what or rng.choice(PERTURBATIONS)
    comps = d['components']
    allv = [(c, v) for c in comps for v in c['variables']]
    conns = [(cn, i) for cn in d['connections'] for i in range(len(cn['vars']))]
    by = {c['name']: c for c in comps}

    def var(cname, vname):
        return next((v for v in by[cname]['variables'] if v['name'] == vname), None)
    if what == 'flip-interface' and allv:
        c, v = rng.choice(allv)
        pub, priv = rng.choice([('in', 'out'), ('in', None), ('out', 'in'), ('none', 'in'), ('out', 'out'), ('out', None),
                                (None, 'out'), (None, None)])
        if v.get('init') is not None and 'in' in (pub, priv):
            v['init'] = None
        v['pub'], v['priv'] = pub, priv
    elif what == 'wrong-dimension' and conns:
        cn, i = rng.choice(conns)
        v = var(cn['c1'], cn['vars'][i][0])
        v['units'] = rng.choice(['second', 'ampere', 'dimensionless'])
    elif what == 'second-source' and conns and len(allv) > 2:
        cn, i = rng.choice(conns)
        c, v = rng.choice(allv)
        d['connections'].append({'c1': c['name'], 'c2': cn['c2'], 'vars': [[v['name'], cn['vars'][i][1]]]})
        d['order'] = None
    elif what == 'cut-chain' and conns:
        cn, i = rng.choice(conns)
        del cn['vars'][i]
        if not cn['vars']:
            d['connections'].remove(cn)
            d['order'] = None
    elif what == 'drop-state-init':
        cands = [v for c, v in allv if v.get('init') is not None]
        if cands:
            rng.choice(cands)['init'] = None
    elif what == 'define-twice':
        eqs = [(c, eq) for c in comps for m in c['maths'] for eq in m]
        if eqs:
            c, eq = rng.choice(eqs)
            c['maths'].append([copy.deepcopy(eq)])
    elif what == 'undeclared-identifier':
        eqs = [(c, eq) for c in comps for m in c['maths'] for eq in m]
        if eqs:
            c, eq = rng.choice(eqs)
            eq['rhs'] = ['+', eq['rhs'], ['var', 'nosuchvar']]
    elif what == 'missing-variable' and conns:
        cn, i = rng.choice(conns)
        cn['vars'][i][rng.randrange(2)] = 'nosuchvar'
    elif what == 'missing-component' and conns:
        cn, i = rng.choice(conns)
        cn[rng.choice(['c1', 'c2'])] = 'nosuchcomp'
    elif what == 'two-parents' and len(comps) >= 3:
        a, b, c = rng.sample([c['name'] for c in comps], 3)
        d['groups'].append({'relationship': 'encapsulation', 'name': None,
                            'refs': [{'component': a, 'children': [{'component': c, 'children': []}]},
                                     {'component': b, 'children': [{'component': c, 'children': []}]}]})
        d['order'] = None
    elif what == 'init-and-equation':
        eqs = [(c, eq) for c in comps for m in c['maths'] for eq in m if eq['lhs'][0] == 'var']
        if eqs:
            c, eq = rng.choice(eqs)
            v = var(c['name'], eq['lhs'][1])
            if v and 'in' not in (v['pub'], v['priv']):
                v['init'] = '1.5'
    elif what == 'unknown-unit':
        if rng.random() < 0.5 and allv:
            rng.choice(allv)[1]['units'] = 'nosuchunit'
        else:
            eqs = [(c, eq) for c in comps for m in c['maths'] for eq in m]
            if eqs:
                c, eq = rng.choice(eqs)
                eq['rhs'] = ['+', eq['rhs'], ['num', '1', 'nosuchunit']]
    elif what == 'swap-ends-all':
        for cn in d['connections']:
            cn['c1'], cn['c2'] = cn['c2'], cn['c1']
            cn['vars'] = [[w, v] for v, w in cn['vars']]
    elif what == 'reverse-conns':
        d['connections'].reverse()
        for cn in d['connections']:
            cn['vars'].reverse()
        d['order'] = None
    return d, what


def corpus():
    out = []
    rng = __import__('random').Random(7)
    # the 3-component relay mV -> volt of the non-vacuity example of Props/C01.lean
    parent = [None, 0, 1]
    out.append(make_case(D.topo_doc(rng, parent, 0, 2, ['mV', 'volt', 'uV'], kind='alg'), 'corpus'))
    out.append(make_case(D.topo_doc(rng, parent, 2, 0, ['mV', 'V_alias', 'volt'], kind='state', annotate=2), 'corpus'))
    # past oracle bug: SymPy turns (y*y)**q (q a Quantity) into Abs(y)**(2*q); the flat evaluator must know Abs
    out.append(make_case({
        'name': 'm', 'cmeta': None, 'groups': [], 'connections': [], 'order': None,
        'units': [{'name': 'ms', 'elems': [{'units': 'second', 'prefix': 'milli'}]}],
        'components': [{'name': 'outer', 'variables': [
            {'name': 'y', 'units': 'dimensionless', 'pub': 'in', 'priv': 'none', 'init': None, 'cmeta': None},
            {'name': 'x', 'units': 'ms', 'pub': None, 'priv': None, 'init': '12', 'cmeta': None},
            {'name': 't', 'units': 'second', 'pub': 'in', 'priv': None, 'init': None, 'cmeta': None}],
            'maths': [[{'lhs': ['diff', 'x', 't'], 'rhs': ['pow', ['*', ['var', 'y'], ['var', 'y']], 2]}]]}],
        'meta': {'signals': []}}, 'corpus'))
    # numbers in the same units that agree to 6 significant digits: Quantity names ('_' + '{:g}'.format(value)) collide,
    # the values must not (constants by initial_value, by equation, and <cn> inside expressions)
    def v(name, units, init=None):
        return {'name': name, 'units': units, 'pub': None, 'priv': None, 'init': init, 'cmeta': None}

    def n(text, units):
        return ['num', text, units]
    out.append(make_case({
        'name': 'm', 'cmeta': None, 'groups': [], 'connections': [], 'order': None, 'units': [],
        'components': [{'name': 'cell', 'variables': [
            v('T_ref', 'kelvin', '310.15'), v('T_set', 'kelvin', '310.1504'), v('offset', 'kelvin'),
            v('k1', 'dimensionless'), v('k2', 'dimensionless'), v('dk', 'dimensionless'), v('F', 'dimensionless')],
            'maths': [[{'lhs': ['var', 'offset'], 'rhs': ['-', ['var', 'T_set'], ['var', 'T_ref']]}],
                      [{'lhs': ['var', 'k1'], 'rhs': n('0.1234567', 'dimensionless')}],
                      [{'lhs': ['var', 'k2'], 'rhs': n('0.1234568', 'dimensionless')}],
                      [{'lhs': ['var', 'dk'], 'rhs': ['-', ['var', 'k2'], ['var', 'k1']]}],
                      [{'lhs': ['var', 'F'], 'rhs': ['-', n('96485.3415', 'dimensionless'),
                                                     n('96485.34', 'dimensionless')]}]]}],
        'meta': {'signals': []}}, 'corpus'))
    return out


# ---------------------------------------------------------------------------------------------- implementation
def _leaves(expr):
    """names of variable / derivative leaves of a sympy expression (derivatives are opaque)"""
    from cellmlmanip.model import Variable
    out = []

    def go(e):
        if e.is_Derivative:
            out.append('d(%s)/d(%s)' % (e.args[0].name, e.args[1][0].name))
        elif isinstance(e, Variable):
            out.append(e.name)
        else:
            for a in e.args:
                go(a)
    go(expr)
    return sorted(set(out))


def _lhs_name(lhs):
    if lhs.is_Derivative:
        return 'd(%s)/d(%s)' % (lhs.args[0].name, lhs.args[1][0].name)
    return lhs.name


class EvalError(Exception):
    pass


def evaluate_flat(model, eqs, free_numeric):
    """Numeric value (exact Fraction arithmetic on the binary64 numbers present) of every defined variable and every
    ODE right-hand side of the equations `eqs` (sympy.Eq), states at their initial values, undefined variables from
    free_numeric(name)."""
    import sympy
    from cellmlmanip.model import Quantity, Variable
    vdef, odef = {}, {}
    for eq in eqs:
        if eq.lhs.is_Derivative:
            odef[eq.lhs.args[0]] = eq
        else:
            vdef[eq.lhs] = eq
    val, dval, active = {}, {}, set()

    def ev(e):
        if isinstance(e, Quantity):
            return Fraction(float(e))
        if isinstance(e, Variable):
            return var(e)
        if e.is_Derivative:
            x = e.args[0]
            if x not in odef:
                raise EvalError('derivative of %s has no ODE' % x)
            return deriv(x)
        if e.is_Add:
            return sum((ev(a) for a in e.args), Fraction(0))
        if e.is_Mul:
            r = Fraction(1)
            for a in e.args:
                r *= ev(a)
            return r
        if e.is_Pow:
            b, x = ev(e.args[0]), ev(e.args[1])
            if x.denominator != 1:
                raise EvalError('non-integer power')
            if b == 0 and x < 0:
                raise EvalError('division by zero')
            return b ** int(x)
        if isinstance(e, sympy.Abs):
            # SymPy rewrites (x**2)**q as Abs(x)**(2*q) for real x and a symbolic (Quantity) exponent q
            return abs(ev(e.args[0]))
        if e.is_Rational:
            return Fraction(int(e.p), int(e.q))
        if e.is_Float:
            return Fraction(float(e))
        raise EvalError('unexpected node %s' % e.func)

    def var(v):
        if v in val:
            return val[v]
        if v in odef:
            if v.initial_value is None:
                raise EvalError('state %s has no initial value' % v)
            val[v] = Fraction(v.initial_value)
        elif v in vdef:
            if v in active:
                raise EvalError('loop through %s' % v)
            active.add(v)
            val[v] = ev(vdef[v].rhs)
            active.discard(v)
        else:
            if v.initial_value is not None:
                raise EvalError('non-state %s kept an initial value' % v)
            val[v] = free_numeric(v.name)
        return val[v]

    def deriv(x):
        if x not in dval:
            if ('d', x) in active:
                raise EvalError('loop through derivative of %s' % x)
            active.add(('d', x))
            dval[x] = ev(odef[x].rhs)
            active.discard(('d', x))
        return dval[x]
    out_v = {v.name: var(v) for v in vdef}
    out_d = {x.name: deriv(x) for x in odef}
    return out_v, out_d


def impl(case):
    import cellmlmanip
    logging.disable(logging.CRITICAL)
    doc = case['doc']
    tmp = tempfile.mkdtemp(prefix='c01_')
    try:
        path = os.path.join(tmp, 'doc.cellml')
        with open(path, 'w') as f:
            f.write(D.to_xml(doc))
        try:
            model = cellmlmanip.load_model(path)
        except Exception as e:
            return {'outcome': 'err:' + type(e).__name__, 'msg': str(e)[:200]}
    finally:
        shutil.rmtree(tmp, ignore_errors=True)
    obs = {'outcome': 'ok'}
    obs['eqs'] = sorted([_lhs_name(eq.lhs), _leaves(eq.rhs)] for eq in model.equations)
    obs['vars'] = sorted([v.name, None if v.initial_value is None else repr(float(v.initial_value)), v.cmeta_id]
                         for v in model.variables())
    # numeric evaluation after the unit-fix pass
    try:
        scale = D.unit_scales(doc)
        unit_of = {c['name'] + '$' + v['name']: v['units'] for c in doc['components'] for v in c['variables']}
        fixed = [model.units.convert_expression_recursively(eq, None) for eq in model.equations]
        vals, dvals = evaluate_flat(model, fixed, lambda name: D.FREE_SI / scale(unit_of[name])[0])
        obs['values'] = {k: str(v) for k, v in vals.items()}
        obs['derivs'] = {k: str(v) for k, v in dvals.items()}
        obs['ode_time'] = {eq.lhs.args[0].name: eq.lhs.args[1][0].name for eq in model.equations if eq.lhs.is_Derivative}
    except EvalError as e:
        obs['values'] = None
        obs['eval_error'] = str(e)
    except Exception as e:
        obs['values'] = None
        obs['eval_error'] = 'unit-fix:%s: %s' % (type(e).__name__, str(e)[:160])
    return obs


# ---------------------------------------------------------------------------------------------- property oracle
def _close(a, b, bound):
    return abs(a - b) <= TOL * max(abs(a), abs(b), bound)


def physical_check(doc, obs):
    """The property, on the implementation's observation: every defined flat variable has the physical value the
    document gives it. Returns list of failures."""
    fails = []
    try:
        ref = D.reference_values(doc)
    except D.DocError:
        return fails           # no reference meaning (shrunk or mutated document): nothing to state
    if obs['outcome'] != 'ok':
        if doc.get('meta', {}).get('perturbed'):
            return fails       # validity unknown: refusing is allowed
        if not (doc.get('meta', {}).get('multi_cmeta') and obs['outcome'] == 'err:ValueError'):
            fails.append({'key': 'raises-on-valid-document:' + obs['outcome'][4:],
                          'detail': 'load_model raised %s (%s) on a valid document' % (obs['outcome'], obs.get('msg'))})
        return fails
    if obs.get('values') is None:
        err = obs.get('eval_error', '')
        if err.startswith('unit-fix:'):
            return fails       # the unit-fix pass refused the expression: C04/C05's business, no value to compare
        fails.append({'key': 'flat-model-not-evaluable', 'detail': err})
        return fails
    scale = ref['scale']
    decl = {c['name'] + '$' + v['name']: (c['name'], v['name']) for c in doc['components'] for v in c['variables']}
    units = {c['name'] + '$' + v['name']: v['units'] for c in doc['components'] for v in c['variables']}
    for name, text in obs['values'].items():
        key = decl.get(name)
        if key is None:
            fails.append({'key': 'unknown-variable', 'detail': name})
            continue
        got = Fraction(text) * scale(units[name])[0]
        want, bound = ref['vars'][key], ref['bound'][key]
        if not _close(got, want, bound):
            fails.append({'key': 'wrong-physical-value',
                          'detail': '%s: flat model gives %s SI, the document gives %s SI' % (name, float(got), float(want))})
    for name, text in obs['derivs'].items():
        key = decl.get(name)
        tname = obs['ode_time'][name]
        if key is None or key not in ref['derivs'] or tname not in units:
            fails.append({'key': 'ode-for-non-state', 'detail': name})
            continue
        got = Fraction(text) * scale(units[name])[0] / scale(units[tname])[0]
        want, bound = ref['derivs'][key], ref['dbound'][key]
        if not _close(got, want, bound):
            fails.append({'key': 'wrong-physical-derivative',
                          'detail': 'd %s/dt: flat model gives %s SI, the document gives %s SI' % (name, float(got), float(want))})
    # every variable the document defines must be reachable: its class has a defined representative in the flat model
    sem = ref['sem']
    defined_cls = {sem['find'](decl[n]) for n in list(obs['values']) + list(obs['derivs']) if n in decl}
    for k_ in list(sem['defs']) + list(sem['odes']) + [k for k in sem['init'] if k not in sem['odes']]:
        if k_ not in defined_cls:
            fails.append({'key': 'definition-lost', 'detail': 'no flat variable carries the definition of %s' % (k_,)})
    # variables used on right-hand sides must be defined, states, or free in the document
    flat_defined = set(obs['values']) | set(obs['derivs'])
    for lhs, leaves in obs['eqs']:
        for leaf in leaves:
            if leaf.startswith('d('):
                continue
            if leaf not in flat_defined and decl.get(leaf) not in ref['free']:
                fails.append({'key': 'used-but-undefined', 'detail': '%s on the right-hand side of %s' % (leaf, lhs)})
    return fails


def oracle(case, obs):
    return physical_check(case['doc'], obs)[:6]


def shrink(violation):
    case = violation['case']
    keys = {f['key'] for f in violation['failures']}

    def still(doc):
        o = impl({'doc': doc})
        return bool(keys & {f['key'] for f in physical_check(doc, o)})
    small = D.shrink(case['doc'], still)
    c2 = dict(case, doc=small)
    o2 = impl(c2)
    return {'case': c2, 'failures': physical_check(small, o2)[:6], 'obs': o2}


# ---------------------------------------------------------------------------------------------- model
def expr_sx(e):
    op = e[0]
    if op == 'num':
        return ['num', D.num_value(e[1]), Str(e[2])]
    if op == 'var':
        return ['var', Str(e[1])]
    if op == 'diff':
        return ['diff', Str(e[1]), Str(e[2])]
    if op in ('+', '*'):
        out = expr_sx(e[1])
        for a in e[2:]:
            out = ['add' if op == '+' else 'mul', out, expr_sx(a)]
        return out
    if op == '-':
        return ['sub', expr_sx(e[1]), expr_sx(e[2])]
    if op == '/':
        return ['div', expr_sx(e[1]), expr_sx(e[2])]
    if op == 'neg':
        return ['neg', expr_sx(e[1])]
    if op == 'pow':
        return ['pow', expr_sx(e[1]), e[2]]
    raise ValueError(op)


def sorted_units(doc):
    """unit definitions in dependency order (the unit work list is C03's business; the C01 model takes them sorted)"""
    defs = {u['name']: u for u in doc['units']}
    out, seen = [], set()

    def visit(n, stack=()):
        if n in seen or n not in defs or n in stack:
            return
        for e in defs[n].get('elems', []):
            visit(e['units'], stack + (n,))
        seen.add(n)
        out.append(defs[n])
    for u in doc['units']:
        visit(u['name'])
    return out


def iface(x):
    return {'in': 'in', 'out': 'out'}.get(x, 'none')


def doc_sx(doc):
    import unitlib as U
    units = []
    for u in sorted_units(doc):
        if u.get('base'):
            units.append(['base', 0, Str(u['name'])])
        else:
            units.append(['def', 0, Str(u['name']), [U.elem_sx(e) for e in u['elems']]])
    by = {'units': doc['units'], 'component': doc['components'], 'group': doc['groups'], 'connection': doc['connections']}
    order = doc.get('order') or ([['component', i] for i in range(len(doc['components']))] +
                                 [['group', i] for i in range(len(doc['groups']))] +
                                 [['connection', i] for i in range(len(doc['connections']))])
    comps, edges, conns = [], [], []
    for kind, i in order:
        x = by[kind][i]
        if kind == 'component':
            vs = [[Str(v['name']), Str(v['units']), iface(v['pub']), iface(v['priv']),
                   ['some', D.num_value(v['init'])] if v.get('init') is not None else 'none',
                   ['some', Str(v['cmeta'])] if v.get('cmeta') else 'none'] for v in x['variables']]
            eqs = []
            for m in x['maths']:
                for eq in m:
                    eqs.append([expr_sx(eq['lhs']), expr_sx(eq['rhs'])])
            comps.append([Str(x['name']), ['vars'] + vs, ['eqs'] + eqs])
        elif kind == 'group' and x['relationship'] == 'encapsulation':
            def walk(refs, par):
                for r in refs:
                    edges.append([['some', Str(par)] if par is not None else 'none', Str(r['component'])])
                    walk(r['children'], r['component'])
            walk(x['refs'], None)
        elif kind == 'connection':
            for v1, v2 in x['vars']:
                conns.append([Str(x['c1']), Str(v1), Str(x['c2']), Str(v2)])
    return [['units'] + units, ['comps'] + comps, ['encaps'] + edges, ['conns'] + conns]


def requests(case, obs):
    return [sx(['C01', 'load'] + doc_sx(case['doc']) + [['free', D.FREE_SI]])]


def compare(case, obs, replies):
    rep = replies[0]
    if not isinstance(rep, list) or not rep:
        return 'model reply malformed: %r' % (rep,)
    if rep[0] == 'err':
        if obs['outcome'] == 'ok':
            return 'model refuses the document (%s), implementation loads it' % (rep[1:],)
        if obs['outcome'] != 'err:' + rep[1]:
            return 'model raises %s (%s), implementation %s (%s)' % (rep[1], rep[2:], obs['outcome'], obs.get('msg'))
        return None
    if rep[0] != 'ok':
        return 'model reply malformed: %r' % (rep,)
    if obs['outcome'] != 'ok':
        return 'model loads the document, implementation raises %s (%s)' % (obs['outcome'], obs.get('msg'))
    parts = {p[0]: p[1:] for p in rep[1:]}
    meqs = {}
    for l, leaves in parts['eqs']:
        if str(l) in meqs:
            return 'model defines %s twice' % l
        meqs[str(l)] = [str(x) for x in leaves]
    ieqs = {l: ls for l, ls in obs['eqs']}
    if len(ieqs) != len(obs['eqs']) or set(meqs) != set(ieqs):
        return 'equations differ: left-hand sides of model %s, of implementation %s' % (
            sorted(set(meqs) - set(ieqs)), sorted(set(ieqs) - set(meqs)) or sorted(l for l, _ in obs['eqs']))
    for l, ls in meqs.items():
        extra = set(ieqs[l]) - set(ls)
        # SymPy cancels repeated operands (x - x, x / x, and whatever a resulting 0 multiplies): leaves may only be
        # missing when some leaf occurs at least twice; the values are compared below in any case
        missing = set(ls) - set(ieqs[l]) if all(ls.count(x) < 2 for x in ls) else []
        if extra or missing:
            return 'equation for %s: leaves of model %s, of implementation %s' % (l, sorted(set(ls)), ieqs[l])
    mvars = sorted([str(n), None if i == 'none' else i[1], None if c == 'none' else str(c[1])] for n, i, c in parts['vars'])
    ivars = [[n, None if i is None else str(Fraction(float(i))), c] for n, i, c in obs['vars']]
    if mvars != ivars:
        a = [e for e in mvars if e not in ivars]
        b = [e for e in ivars if e not in mvars]
        return 'variables differ (name, initial value, cmeta id): model %s, implementation %s' % (a[:3], b[:3])
    if obs.get('values') is None:
        return None
    doc = case['doc']
    try:
        ref = D.reference_values(doc)
    except D.DocError:
        return None
    scale = ref['scale']
    decl = {c['name'] + '$' + v['name']: (c['name'], v['name']) for c in doc['components'] for v in c['variables']}
    units = {c['name'] + '$' + v['name']: v['units'] for c in doc['components'] for v in c['variables']}
    mvals = {str(n): Fraction(v) for n, v in parts['values']}
    mder = {str(n): Fraction(v) for n, v in parts['derivs']}
    if set(mvals) != set(obs['values']) or set(mder) != set(obs['derivs']):
        return 'defined variables differ: model %s / %s, implementation %s / %s' % (
            sorted(mvals), sorted(mder), sorted(obs['values']), sorted(obs['derivs']))
    for n, v in mvals.items():
        got = Fraction(obs['values'][n]) * scale(units[n])[0]
        if not _close(got, v, ref['bound'][decl[n]]):
            return 'physical value of %s: model %s, implementation %s' % (n, float(v), float(got))
    for n, v in mder.items():
        t = obs['ode_time'][n]
        got = Fraction(obs['derivs'][n]) * scale(units[n])[0] / scale(units[t])[0]
        if not _close(got, v, ref['dbound'][decl[n]]):
            return 'physical derivative of %s: model %s, implementation %s' % (n, float(v), float(got))
    return None


def nontrivial(case, obs):
    doc = case['doc']
    if obs['outcome'] != 'ok' or not doc['connections']:
        return False
    units = {(c['name'], v['name']): v['units'] for c in doc['components'] for v in c['variables']}
    return any(units.get((cn['c1'], a)) != units.get((cn['c2'], b)) for cn in doc['connections'] for a, b in cn['vars'])


def tag(case, obs):
    doc = case['doc']
    hops = max([s['hops'] for s in doc.get('meta', {}).get('signals', [])] or [0])
    ev = 'vals' if obs.get('values') is not None else ('noval' if obs['outcome'] == 'ok' else '')
    if case.get('kind') == 'perturbed':
        return 'perturbed %s %s %s' % (case.get('what'), obs['outcome'], ev)
    return '%s %s hops=%d %s' % (case.get('kind', '?'), obs['outcome'], hops, ev)


MANIFEST = {
    'technique': 'Lean 4 theorems over a model of the CellML loader (connection direction, the _add_connections work '
                 'list as a total function, symbol resolution, conversion equations, transform_constants) + '
                 'differential correspondence on generated documents + an independent reference evaluator',
    'text': ('Proved in Lean for every document (lean/Cellml/Props/C01.lean; any number of components, nesting depth, '
             'chain length; standard axioms only): connect_terminates (the work list is a total function: well-founded '
             'on (|deque|, |deque|+1-unchanged_loop_count)); connect_forest (on success the mapping target->source is a '
             'function whose graph is exactly the connections, acyclic, every chain ends at a variable with no `in` '
             'interface, roots = non-targets, assigned_to lies on the chain; the while loop of symbol_generator computes '
             'the root); direction_swap + directAll_swap (component_1/2 order irrelevant for every connection between declared '
             'variables, accepted or refused, after the two C17 repairs of _determine_connection_direction; '
             'direction_nonadjacent_refused), connect_perm / conns_order_irrelevant '
             '(roots independent of connection order); connect_ok_iff_resolvable (the work list succeeds exactly on the '
             'connection sets described by the order-free predicate Resolvable: unique targets that are not sources, '
             'every source fed from a variable without `in` interface, convertible units, at most one cmeta id per '
             'assigned_to group) with corollaries connect_perm_outcome (success/failure is the same for every '
             'permutation of the connections; the exception class may differ) and connect_perm_total (one order '
             'resolves => every order resolves, same roots); eval_rename (substitution lemma); '
             'load_sound / load_sound_numeric / load_complete: with physical (SI) valuations, every solution of the flat '
             'model read through root solves the document (all component equations, all connection equalities, constants) '
             'and every solution of the document solves the flat model, conversion equations included (their factor with '
             'unit target/source is physically 1). Non-vacuity: a 3-component relay mV -> volt -> mV loaded and solved '
             'inside Lean; refused sets (two sources, unfed relay) as witnesses of the other side. Tie: generated documents are written to disk, '
             'loaded with cellmlmanip.load_model and compared with the compiled model: outcome class, equations '
             '(left-hand side and leaf names), variables (initial value, cmeta id after the moves), physical value of every '
             'defined variable and derivative after the unit-fix pass. Search oracle: a reference evaluator of the '
             'DOCUMENT (union-find over connections, exact Fractions) against the numeric evaluation of the loaded model.'),
    'note': ('Trusted: Lean kernel; propext, Classical.choice, Quot.sound; the correspondence harness and docgen.py. '
             'lxml/RELAX NG, the MathML transpiler (C02) and the unit-fix pass (C05) are exercised, not modelled here. '
             'Validity hypothesis of load_sound: initial values only on variables without an `in` interface (enforced by '
             'the bundled schema). Values are rationals; scales with non-integer exponents are covered by the abstract '
             '`den`, the executable instance is exact for integer exponents.'),
}
