import Cellml.Generated.Code.ConnDir
import Mathlib.Tactic.SplitIfs

/-! # Tie: `Parser._determine_connection_direction` (generated from the source) = `Load.direction` (hand model) -/

namespace Cellml.Tie
open Load Cellml.Gen

/-- For every encapsulation map, variable table and connection, the definition generated from parser.py computes
    the hand-written model `Load.direction` (identities of source and target; error class). -/
theorem connDir_tie (par : ParentMap) (vt : VarTable) (c : Conn) :
    (ConnDir.determineConnectionDirection (loaderView par vt) c.c1 c.v1 c.c2 c.v2).map (fun p => (p.1.1, p.2.1))
      = errClass Err.className (direction par vt c) := by
  unfold ConnDir.determineConnectionDirection direction loaderView directionPC
  simp only [Conn.end1, Conn.end2]
  cases h1 : vt.lookup (c.c1, c.v1) <;> cases h2 : vt.lookup (c.c2, c.v2) <;>
    simp [bind, Except.bind, errClass, Err.className, Except.map, pure, Except.pure, throw, throwThe,
      MonadExceptOf.throw]
  by_cases hs : List.lookup c.c1 par = List.lookup c.c2 par <;>
    by_cases hp1 : List.lookup c.c2 par = some c.c1 <;>
    by_cases hp2 : List.lookup c.c1 par = some c.c2 <;>
    simp [hs, hp1, hp2, eq_comm] <;> split_ifs <;> simp_all

end Cellml.Tie
