"""Scratch probe: Transpiler over every operator x arity 0..4 with numeric operands, against a reference MathML interpreter (C02)."""
import itertools, collections, math, sys, logging
import sympy as sp, mpmath as mp
from cellmlmanip.parser import Transpiler, _SIMPLE_MATHML_TO_SYMPY_CLASSES as TABLE
logging.disable(logging.CRITICAL)
T = Transpiler(); finds = collections.defaultdict(list); stats = collections.Counter()
M = lambda s: '<math xmlns="http://www.w3.org/1998/Math/MathML">%s</math>' % s
def cn(v): return '<cn>%r</cn>' % v
VALS = [0.5, -2.0, 1.5, 3.0, 0.0, -0.75, 2.0]
A = mp.mpf
trig = {'sin': mp.sin, 'cos': mp.cos, 'tan': mp.tan, 'sec': mp.sec, 'csc': mp.csc, 'cot': mp.cot, 'sinh': mp.sinh, 'cosh': mp.cosh, 'tanh': mp.tanh, 'sech': mp.sech, 'csch': mp.csch, 'coth': mp.coth,
        'arcsin': mp.asin, 'arccos': mp.acos, 'arctan': mp.atan, 'arcsec': mp.asec, 'arccsc': mp.acsc, 'arccot': mp.acot, 'arcsinh': mp.asinh, 'arccosh': mp.acosh, 'arctanh': mp.atanh,
        'arcsech': mp.asech, 'arccsch': mp.acsch, 'arccoth': mp.acoth}
def trunc_rem(a, b): q = int(a / b); return a - b * q      # MathML: remainder of the quotient rounded toward zero
REF = {  # tag -> (allowed arities, fn(args))
    'plus': (range(0, 5), lambda *a: sum(a)), 'times': (range(0, 5), lambda *a: math.prod(a)), 'minus': ((1, 2), lambda *a: -a[0] if len(a) == 1 else a[0] - a[1]),
    'divide': ((2,), lambda a, b: a / b), 'power': ((2,), lambda a, b: mp.power(a, b)), 'abs': ((1,), abs), 'exp': ((1,), mp.exp), 'ln': ((1,), mp.log),
    'floor': ((1,), mp.floor), 'ceiling': ((1,), mp.ceil), 'rem': ((2,), trunc_rem), 'max': (range(1, 5), lambda *a: max(a)), 'min': (range(1, 5), lambda *a: min(a)),
}
for k, f in trig.items(): REF[k] = ((1,), f)
REL = {'eq': lambda a, b: a == b, 'neq': lambda a, b: a != b, 'gt': lambda a, b: a > b, 'lt': lambda a, b: a < b, 'geq': lambda a, b: a >= b, 'leq': lambda a, b: a <= b}
CONST = {'pi': mp.pi, 'exponentiale': mp.e, 'true': True, 'false': False, 'infinity': mp.inf, 'notanumber': mp.nan}
def run(xml):
    try: r = T.parse_string(M(xml))[0]; return ('ok', r)
    except Exception as ex: return ('exc', type(ex).__name__ + ': ' + str(ex)[:50])
def num(r):
    if r in (sp.true, sp.false): return bool(r)
    if isinstance(r, sp.logic.boolalg.Boolean): return bool(r)
    if not isinstance(r, sp.Basic): return ('NOT-AN-EXPRESSION', repr(r))
    return complex(sp.N(r, 25))
def close(a, b):
    if isinstance(a, bool) or isinstance(b, bool): return a is b or a == b and isinstance(a, bool) and isinstance(b, bool)
    a = complex(a); b = complex(b)
    if a != a and b != b: return True
    return abs(a - b) <= 1e-12 * max(1, abs(b))
for tag in sorted(TABLE):
    if tag in CONST:
        kind, r = run('<%s/>' % tag); stats['const'] += 1
        if kind != 'ok' or not close(num(r), CONST[tag]) and tag not in ('notanumber',): finds['constant wrong'].append((tag, r))
        continue
    for n in range(0, 5):
        for args in ([()] if n == 0 else itertools.islice(itertools.product(VALS, repeat=n), 0, None, max(1, len(VALS)**n // 40))):
            if tag in ('and', 'or', 'xor', 'not'):
                bools = [a > 0 for a in args]; xml = '<apply><%s/>%s</apply>' % (tag, ''.join('<true/>' if b else '<false/>' for b in bools))
                allowed = (1,) if tag == 'not' else range(0, 5)
                exp = (not bools[0]) if tag == 'not' and n == 1 else (all(bools) if tag == 'and' else any(bools) if tag == 'or' else (sum(bools) % 2 == 1)) if n in allowed else None
            elif tag in REL:
                xml = '<apply><%s/>%s</apply>' % (tag, ''.join(cn(a) for a in args))
                allowed = (2,) if tag == 'neq' else range(2, 5)
                exp = all(REL[tag](a, b) for a, b in zip(args, args[1:])) if n in allowed else None
            else:
                xml = '<apply><%s/>%s</apply>' % (tag, ''.join(cn(a) for a in args))
                allowed, f = REF[tag]
                exp = None
                if n in allowed:
                    try: exp = f(*[A(a) for a in args])
                    except (ZeroDivisionError, ValueError): exp = 'undefined'
            kind, r = run(xml); stats['cases'] += 1
            if n not in allowed:
                if kind == 'ok': finds['WRONG ARITY ACCEPTED'].append((tag, n, str(r)[:40])); 
                continue
            if exp == 'undefined': continue
            if kind == 'exc': finds['valid tree rejected'].append((tag, args, r)); continue
            try: got = num(r)
            except Exception as ex: stats['num-exc'] += 1; continue
            if isinstance(got, tuple): finds['NOT AN EXPRESSION'].append((tag, n, got[1])); continue
            if isinstance(exp, bool):
                if got is not exp and got != exp: finds['WRONG TRUTH VALUE'].append((tag, args, got, exp))
            else:
                e = complex(exp)
                if e != e or abs(e) == float('inf'): continue
                if not close(got, e): finds['WRONG VALUE'].append((tag, args, got, e))
# qualifiers
for base in (2.0, 10.0, 0.5):
    for xv in (8.0, 0.25, 3.0):
        for xml, exp, name in [('<apply><log/><logbase>%s</logbase>%s</apply>' % (cn(base), cn(xv)), mp.log(xv, base), 'log/logbase'),
                               ('<apply><root/><degree>%s</degree>%s</apply>' % (cn(base), cn(xv)), mp.root(xv, 1) ** (1 / A(base)), 'root/degree')]:
            kind, r = run(xml); stats['qual'] += 1
            if kind != 'ok' or not close(num(r), exp): finds['qualifier wrong ' + name].append((base, xv, r, exp))
for xv in (8.0, 0.25): 
    kind, r = run('<apply><log/>%s</apply>' % cn(xv)); 
    if not close(num(r), mp.log10(xv)): finds['log default base'].append((xv, r))
    kind, r = run('<apply><root/>%s</apply>' % cn(xv)); 
    if not close(num(r), mp.sqrt(xv)): finds['root default degree'].append((xv, r))
print(dict(stats))
for k, v in finds.items():
    print('##', k, len(v)); seen = set()
    for it in v:
        if it[0] in seen: continue
        seen.add(it[0]); print('     ', it)
print('accepted wrong arities with n>0:', sorted(set((t, n) for t, n, _ in finds['WRONG ARITY ACCEPTED'] if n > 0)))
