/-! Spike: printer as layout tree + Python grammar predicate, cut down to  atom, neg, add, mul, pow. -/
inductive E where
  | sym (n : Nat) | neg (a : E) | add (a b : E) | mul (a b : E) | pow (a b : E)
deriving Repr, DecidableEq

inductive Doc where
  | atom (n : Nat) | paren (d : Doc) | neg (d : Doc)
  | add (a b : Doc) | mul (a b : Doc) | pow (a b : Doc)
deriving Repr, DecidableEq

def prec : E → Nat
  | .sym _ => 1000 | .neg _ => 40 | .add _ _ => 40 | .mul _ _ => 50 | .pow _ _ => 60

/-- `_bracket`: parentheses iff prec(expr) < parent; takes the already printed child -/
def bracket (parent : Nat) (e : E) (printed : Doc) : Doc :=
  if prec e < parent then .paren printed else printed

/-- printer; `fixed = false` is the rule in the repo today (base of `**` bracketed only if strictly
    looser), `true` the repaired one -/
def pr (fixed : Bool) : E → Doc
  | .sym n => .atom n
  | .neg a => .neg (bracket 56 a (pr fixed a))
  | .add a b => .add (bracket 40 a (pr fixed a)) (bracket 41 b (pr fixed b))
  | .mul a b => .mul (bracket 50 a (pr fixed a)) (bracket 51 b (pr fixed b))
  | .pow a b => .pow (bracket (if fixed then 61 else 60) a (pr fixed a)) (bracket 60 b (pr fixed b))

def level : Doc → Nat
  | .atom _ | .paren _ => 100 | .pow _ _ => 60 | .neg _ => 55 | .mul _ _ => 50 | .add _ _ => 40

def PyOK : Doc → Bool
  | .atom _ => true
  | .paren d => PyOK d
  | .neg d => PyOK d && level d ≥ 55
  | .add a b => PyOK a && PyOK b && level a ≥ 40 && level b ≥ 50
  | .mul a b => PyOK a && PyOK b && level a ≥ 50 && level b ≥ 55
  | .pow a b => PyOK a && PyOK b && level a ≥ 100 && level b ≥ 55

theorem today_not_ok : PyOK (pr false (.pow (.pow (.sym 0) (.sym 1)) (.sym 2))) = false := by decide

theorem level_pr (e : E) : level (pr true e) = match e with
    | .sym _ => 100 | .neg _ => 55 | .add _ _ => 40 | .mul _ _ => 50 | .pow _ _ => 60 := by
  cases e <;> simp [pr, level]

theorem level_bracket (parent : Nat) (e : E) :
    level (bracket parent e (pr true e)) = if prec e < parent then 100 else level (pr true e) := by
  unfold bracket; split <;> simp [level]

theorem ok_bracket (parent : Nat) (e : E) (h : PyOK (pr true e) = true) :
    PyOK (bracket parent e (pr true e)) = true := by
  unfold bracket; split <;> simp [PyOK, h]

theorem pr_ok (e : E) : PyOK (pr true e) = true := by
  induction e with
  | sym n => simp [pr, PyOK]
  | neg a ih =>
      simp only [pr, PyOK, ok_bracket _ _ ih, level_bracket, Bool.true_and, decide_eq_true_eq]
      cases a <;> simp [prec, level_pr]
  | add a b iha ihb =>
      simp only [pr, PyOK, ok_bracket _ _ iha, ok_bracket _ _ ihb, level_bracket, Bool.true_and,
        Bool.and_eq_true, decide_eq_true_eq]
      constructor
      · cases a <;> simp [prec, level_pr]
      · cases b <;> simp [prec, level_pr]
  | mul a b iha ihb =>
      simp only [pr, PyOK, ok_bracket _ _ iha, ok_bracket _ _ ihb, level_bracket, Bool.true_and,
        Bool.and_eq_true, decide_eq_true_eq]
      constructor
      · cases a <;> simp [prec, level_pr]
      · cases b <;> simp [prec, level_pr]
  | pow a b iha ihb =>
      simp only [pr, PyOK, ok_bracket _ _ iha, ok_bracket _ _ ihb, level_bracket, Bool.true_and,
        Bool.and_eq_true, decide_eq_true_eq]
      constructor
      · cases a <;> simp [prec, level_pr]
      · cases b <;> simp [prec, level_pr]

#print axioms pr_ok
#print axioms today_not_ok
