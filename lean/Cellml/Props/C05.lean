/-! Property theorems for C05 (not built yet). -/
