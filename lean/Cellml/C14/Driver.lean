import Cellml.Basic.Sexp
import Cellml.C14.Pipeline

/-! Channel C14 of the model driver.

    * `(C14 "text")` / `(C14 plain "text")`           → `(bits 0x…)` | `(err)`      bits of the double nearest to the text
    * `(C14 enot "mantissa" "exponent")`              → `(bits 0x…)` | `(err)`      e-notation: one parse of m ++ "e" ++ %d
    * `(C14 lit (plain "t") | (enot "m" "e") | (init "t")  (emitted "t1" …))`
          → `(ok (source 0x…) (quantity 0x…) (getvalue 0x…) (stripped 0x…) (emitted 0x…|err …))` | `(err)`
    * `(C14 prec dps)`                                → `(prec n)`                  sympy's dps_to_prec
    * `(C14 value 0x…)`                               → `(value p/q)`               exact rational of a finite pattern
    * `(C14 twostep "mantissa" exponent)`             → `(bits 0x…)`                float(m) * 10**e (the contrast)
    * `(C14 evalf fp 0x…)`                            → `(bits 0x…)`                the evalf stage at another precision -/
namespace C14
open Sexp

def bitsS (b : Nat) : Sexp := .atom (hexOf b)

def optBits : Option Nat → Sexp
  | some b => .list [.atom "bits", bitsS b]
  | none => .list [.atom "err"]

def hexVal (c : Char) : Option Nat :=
  if c.isDigit then some (c.toNat - 48)
  else if 'a' ≤ c ∧ c ≤ 'f' then some (c.toNat - 87)
  else if 'A' ≤ c ∧ c ≤ 'F' then some (c.toNat - 55)
  else none

def parseHex (s : String) : Option Nat :=
  match s.toList with
  | '0' :: 'x' :: ds =>
      if ds.isEmpty then none
      else ds.foldl (fun acc c => match acc, hexVal c with
                                   | some a, some v => some (16 * a + v)
                                   | _, _ => none) (some 0)
  | _ => none

def source? : Sexp → Option Source
  | .list [.atom "plain", .str t] => some (.plain t.toList)
  | .list [.atom "enot", .str m, .str e] => some (.enotation m.toList e.toList)
  | .list [.atom "init", .str t] => some (.initial t.toList)
  | _ => none

def emittedBits : Sexp → Sexp
  | .str t => match decToBits t with
              | some b => bitsS b
              | none => .atom "err"
  | _ => .atom "err"

def handle (args : List Sexp) : Sexp :=
  match args with
  | [.str t] => optBits (cnPlain t.toList)
  | [.atom "plain", .str t] => optBits (cnPlain t.toList)
  | [.atom "enot", .str m, .str e] => optBits (cnENotation m.toList e.toList)
  | [.atom "lit", src, .list (.atom "emitted" :: ts)] =>
      match source? src with
      | none => .atom "bad-request"
      | some s =>
        match sourceBits s, pipeline s with
        | some b, some o =>
            .list [.atom "ok", .list [.atom "source", bitsS b], .list [.atom "quantity", bitsS o.quantity],
                   .list [.atom "getvalue", bitsS o.getValue], .list [.atom "stripped", bitsS o.stripped],
                   .list (.atom "emitted" :: ts.map emittedBits)]
        | _, _ => .list [.atom "err"]
  | [.atom "prec", d] =>
      match nat? d with
      | some n => .list [.atom "prec", ofNat (dpsToPrec n)]
      | none => .atom "bad-request"
  | [.atom "value", h] =>
      match (atomOf? h).bind parseHex with
      | some b => if isFiniteBits b then .list [.atom "value", ofRat (bitsToRat b)] else .list [.atom "nonfinite"]
      | none => .atom "bad-request"
  | [.atom "twostep", .str m, e] =>
      match nat? e with
      | some n => optBits (twoStep m.toList n)
      | none => .atom "bad-request"
  | [.atom "evalf", fp, h] =>
      match nat? fp, (atomOf? h).bind parseHex with
      | some p, some b => .list [.atom "bits", bitsS (evalfStage p b)]
      | _, _ => .atom "bad-request"
  | _ => .atom "bad-request"

end C14
