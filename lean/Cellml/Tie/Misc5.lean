import Cellml.Generated.Code.Misc5
import Cellml.Tie.LoaderView
import Cellml.Tie.CmetaView
import Cellml.Tie.NumPipeView
import Mathlib.Tactic.SplitIfs
/-! # Tie theorems of the `Misc5` group (harness/code_specs/misc5.py)

    Three pieces of decision logic that other groups bind as leaves, tied to those leaves. -/

namespace Cellml.Tie.PMisc5
open Cellml.Tie Cellml.Gen Load

/-! ## 1. `_Component.set_parent / add_encapsulated / add_sibling` against the leaves of loaderrel.py -/

/-- the `_Component` object of name `c` that the loader state `st` stands for. `RelState` has no sibling sets
    (`_Component.siblings` is read nowhere but in `add_sibling`'s own assert): they are a parameter here. -/
def compOf (st : RelState) (sib : List String) (c : String) : Component :=
  { name := c, parent := st.par.lookup c, siblings := sib,
    encapsulated := (st.enc.filter (fun e => e.1 == c)).map (·.2) }

/-- `self.components[c].set_parent(p)` on an existing component: the leaf `Tie.setParent` does to component `c` of the
    loader state exactly what the generated method does to the component record, result and exception class -
    PROVIDED the present parent is not the empty string (python: `if self.parent:` is false for `''`, the parent is
    silently overwritten; the leaf and `Load.buildParents` raise ValueError for every present parent). -/
theorem setParent_tie (self : RelView) (st : RelState) (sib : List String) (c : String) (p : Option String)
    (hc : self.components.contains c = true) (hdom : st.par.lookup c ≠ some "") :
    (Tie.setParent self st c p).map (fun st' => compOf st' sib c) = Misc5.setParent (compOf st sib c) p := by
  unfold Tie.setParent Misc5.setParent compOf
  simp only [hc, Bool.not_true, Bool.false_eq_true, if_false, bind, Except.bind, pure, Except.pure, throw, throwThe,
    MonadExceptOf.throw, Py.truthy]
  cases h : st.par.lookup c with
  | none => cases p <;> simp [Except.map, h, List.lookup]
  | some q =>
    have hq : q ≠ "" := by intro e; exact hdom (by rw [h, e])
    simp [Except.map, hq]

/-- outside the domain of `setParent_tie`: the generated method overwrites an empty-string parent, the leaf raises -/
theorem setParent_emptyParent (self : RelView) (st : RelState) (sib : List String) (c : String) (p : Option String)
    (hc : self.components.contains c = true) (h : st.par.lookup c = some "") :
    Tie.setParent self st c p = .error ⟨"ValueError"⟩ ∧
    Misc5.setParent (compOf st sib c) p = .ok { compOf st sib c with parent := p } := by
  unfold Tie.setParent Misc5.setParent compOf
  simp only [hc, Bool.not_true, Bool.false_eq_true, if_false]
  simp [h, bind, Except.bind, pure, Except.pure, Py.truthy]

/-- the subscript `self.components[c]` of the call site (not part of the method): KeyError -/
theorem setParent_keyError (self : RelView) (st : RelState) (c : String) (p : Option String)
    (hc : self.components.contains c = false) : Tie.setParent self st c p = .error ⟨"KeyError"⟩ := by
  simp only [Tie.setParent, hc, Bool.not_false, if_true]

/-- frame: the leaf changes no other component -/
theorem setParent_frame (self : RelView) (st st' : RelState) (sib : List String) (c c' : String) (p : Option String)
    (h : Tie.setParent self st c p = .ok st') (hne : c' ≠ c) : compOf st' sib c' = compOf st sib c' := by
  unfold Tie.setParent at h
  split_ifs at h
  cases p with
  | none => simp only [Except.ok.injEq] at h; rw [← h]
  | some q =>
    simp only [Except.ok.injEq] at h; rw [← h]
    have : (c' == c) = false := by simpa using hne
    simp [compOf, List.lookup, this]

/-- `self.components[p].add_encapsulated(c)` (`p` a component name): leaf = generated method on component `p`,
    for all arguments -/
theorem addEncapsulated_tie (self : RelView) (st : RelState) (sib : List String) (p c : String)
    (hp : self.components.contains p = true) :
    (Tie.addEncapsulated self st (some p) c).map (fun st' => compOf st' sib p)
      = Misc5.addEncapsulated (compOf st sib p) c := by
  unfold Tie.addEncapsulated Misc5.addEncapsulated compOf
  simp only [hp, Bool.not_true, Bool.false_eq_true, if_false, bind, Except.bind, pure, Except.pure, throw, throwThe,
    MonadExceptOf.throw, Py.isIn]
  have hmem : (p, c) ∈ st.enc ↔ c ∈ (st.enc.filter (fun e => e.1 == p)).map (·.2) := by
    simp only [List.mem_map, List.mem_filter, beq_iff_eq]
    constructor
    · intro h; exact ⟨(p, c), ⟨h, rfl⟩, rfl⟩
    · rintro ⟨⟨a, b⟩, ⟨h, ha⟩, hb⟩
      simp only at ha hb; subst ha; subst hb; exact h
  by_cases hm : (p, c) ∈ st.enc
  · have hm' := hmem.mp hm
    simp [Except.map, hm, hm']
  · have hm' := fun h => hm (hmem.mpr h)
    simp [Except.map, hm, hm']

/-- `self.components[None]` (python never gets here: the call is guarded by `if parent_component:`) and an unknown
    parent: KeyError of the subscript -/
theorem addEncapsulated_keyError (self : RelView) (st : RelState) (p : Option String) (c : String)
    (hp : ∀ q, p = some q → self.components.contains q = false) :
    Tie.addEncapsulated self st p c = .error ⟨"KeyError"⟩ := by
  cases p with
  | none => rfl
  | some q =>
    have h := hp q rfl
    simp only [Tie.addEncapsulated, h, Bool.not_false, if_true]

theorem addEncapsulated_frame (self : RelView) (st st' : RelState) (sib : List String) (p : Option String)
    (c c' : String) (h : Tie.addEncapsulated self st p c = .ok st') (hne : some c' ≠ p) :
    compOf st' sib c' = compOf st sib c' := by
  unfold Tie.addEncapsulated at h
  cases p with
  | none => simp at h
  | some q =>
    simp only at h
    split_ifs at h
    simp only [Except.ok.injEq] at h; rw [← h]
    have : (q == c') = false := by
      simp only [beq_eq_false_iff_ne, ne_eq]; intro e; exact hne (by rw [e])
    simp [compOf, this]

/-- `self.components[a].add_sibling(b)`: the leaf `noteSibling` is the identity on the loader state. The generated
    method agrees with it on what the loader state records (parent, encapsulated set) and only grows `siblings` -
    PROVIDED `b` is not yet a sibling; otherwise python raises AssertionError, which the leaf does not model. -/
theorem addSibling_tie (st : RelState) (sib : List String) (a b : String) (hdom : b ∉ sib) :
    Misc5.addSibling (compOf st sib a) b = .ok (compOf (noteSibling st a b) (b :: sib) a) := by
  simp [Misc5.addSibling, compOf, noteSibling, Py.isIn, hdom, bind, Except.bind, pure, Except.pure]

/-- outside the domain of `addSibling_tie` -/
theorem addSibling_assert (st : RelState) (sib : List String) (a b : String) (h : b ∈ sib) :
    Misc5.addSibling (compOf st sib a) b = .error ⟨"AssertionError"⟩ := by
  simp [Misc5.addSibling, compOf, Py.isIn, h, bind, Except.bind, throw, throwThe, MonadExceptOf.throw]

/-! ## 2. `Model.get_display_name` against the hand model's `Model.displayNames` and the leaf `PCmeta.displayName` -/

section DisplayName
open Model

/-- `exclude_terms is None or term not in exclude_terms` -/
def accept (ex : Excl) (t : String) : Bool := ex.isNone || !(ex.val.getD []).contains t

/-- what `get_display_name` returns, read off the view: the LAST term (python walks `reversed(terms)`) that is not
    excluded; else the cmeta id unless it is `None` or `''`; else the name with `$` replaced -/
def displayNameSpec (self : NameView) (v : Nat) (ns : Option String) (ex : Excl) : String :=
  match (self.terms v ns).reverse.find? (accept ex) with
  | some t => t
  | none =>
    match self.cmetaId v with
    | some c => if c = "" then (self.name v).replace "$" "__" else c
    | none => (self.name v).replace "$" "__"

theorem firstLoop (P : String → Bool) : ∀ l : List String,
    forIn (m := Except PyErr) l ((none : Option PyOptStr), ())
      (fun term __s => if P term = true then Except.ok (ForInStep.done (some (PyOptStr.mk (some term)), ()))
        else Except.ok (ForInStep.yield (none, ())))
    = .ok ((l.find? P).map (fun t => PyOptStr.mk (some t)), ()) := by
  intro l
  induction l with
  | nil => rfl
  | cons x l ih =>
    rw [List.forIn_cons]
    by_cases h : P x = true
    · simp [h, bind, Except.bind, pure, Except.pure]
    · have h' : P x = false := by simpa using h
      simp only [h', Bool.false_eq_true, if_false, bind, Except.bind]
      rw [ih]; simp [List.find?_cons, h']

/-- the generated `get_display_name` never raises and returns a `str` (never `None`): the name `displayNameSpec`
    reads off, for ALL arguments (any term order, any `exclude_terms`) -/
theorem getDisplayName_spec (self : NameView) (v : Nat) (ns : Option String) (ex : Excl) :
    Misc5.getDisplayName self v ns ex = .ok ⟨some (displayNameSpec self v ns ex)⟩ := by
  unfold Misc5.getDisplayName Misc5.hasOntologyAnnotation displayNameSpec
  simp only [bind, Except.bind, pure, Except.pure, Py.truthy_bool]
  have hfb : (if Py.truthy (PyOptStr.mk (self.cmetaId v)) = true then PyOptStr.mk (self.cmetaId v)
        else PyOptStr.mk (some ((self.name v).replace "$" "__")))
      = PyOptStr.mk (some (match self.cmetaId v with
          | some c => if c = "" then (self.name v).replace "$" "__" else c
          | none => (self.name v).replace "$" "__")) := by
    cases hc : self.cmetaId v with
    | none => simp [Py.truthy]
    | some c => by_cases h : c = "" <;> simp [Py.truthy, h]
  rw [hfb]
  have hl := firstLoop (fun term => ex.isNone || !Py.isIn term (ex.val.getD [])) (self.terms v ns).reverse
  by_cases hne : ((self.terms v ns).length != 0) = true
  · simp only [hne, if_true]
    rw [hl]
    have : (fun term => ex.isNone || !Py.isIn term (ex.val.getD [])) = accept ex := by
      funext t; simp [accept, Py.isIn]
    rw [this]
    cases (self.terms v ns).reverse.find? (accept ex) <;> simp
  · have : self.terms v ns = [] := by
      cases h : self.terms v ns with
      | nil => rfl
      | cons a l => simp [h] at hne
    simp [this]

/-- the view of the C13 hand model's state -/
def nameView (a : AState) : NameView where
  terms := fun v ns => termsOf a v ns
  cmetaId := fun v => cmetaOf a.m v
  name := fun v => nameOfVar a.m v

theorem find_true_reverse (l : List String) (ex : Excl) (h : ex.val = none) :
    l.reverse.find? (accept ex) = l.getLast? := by
  have : accept ex = fun _ => true := by funext t; simp [accept, Excl.isNone, h]
  rw [this, ← List.head?_reverse]
  cases l.reverse <;> simp

/-- With no excluded terms, for ANY order in which rdflib yields the annotation triples (a view whose term list has
    the same members as the model's `termsOf`), the generated function returns a MEMBER of the model's list of
    admissible names `Model.displayNames`. Domain: the cmeta id is not the empty string (python's `if var.cmeta_id`
    is false for `''` and the name is returned; the model returns `''`). -/
theorem getDisplayName_mem (a : AState) (self : NameView) (v : Nat) (ns : Option String)
    (hterms : ∀ t, t ∈ self.terms v ns ↔ t ∈ termsOf a v ns)
    (hc : self.cmetaId v = cmetaOf a.m v) (hn : self.name v = nameOfVar a.m v)
    (hdom : cmetaOf a.m v ≠ some "") :
    ∃ s, Misc5.getDisplayName self v ns ⟨none⟩ = .ok ⟨some s⟩ ∧ s ∈ displayNames a v ns := by
  refine ⟨_, getDisplayName_spec self v ns ⟨none⟩, ?_⟩
  unfold displayNameSpec displayNames
  rw [find_true_reverse _ _ rfl]
  cases hm : termsOf a v ns with
  | nil =>
    have : self.terms v ns = [] := by
      cases h : self.terms v ns with
      | nil => rfl
      | cons x l => have := (hterms x).mp (by simp [h]); simp [hm] at this
    rw [this, hc, hn]
    cases hcm : cmetaOf a.m v with
    | none => simp
    | some c =>
      have : c ≠ "" := by intro e; exact hdom (by rw [hcm, e])
      simp [this]
  | cons x l =>
    cases hl : (self.terms v ns).getLast? with
    | none =>
      have : self.terms v ns = [] := by simpa using hl
      have := (hterms x).mpr (by simp [hm])
      simp_all
    | some t =>
      have : t ∈ self.terms v ns := List.mem_of_getLast? hl
      simpa [hm] using (hterms t).mp this

/-- In the model's own order of the terms the answer is the LAST admissible name - which is exactly the leaf
    `PCmeta.displayName` that cmeta.py binds `self.get_display_name(variable)` to inside `add_cmeta_id` (default
    arguments: no ontology, nothing excluded). Same domain as above. -/
theorem getDisplayName_leaf (a : AState) (v : Nat) (hdom : cmetaOf a.m v ≠ some "") :
    ∃ s, Misc5.getDisplayName (nameView a) v none ⟨none⟩ = .ok ⟨some s⟩ ∧ PCmeta.displayName v a = (.ok s, a) := by
  refine ⟨_, getDisplayName_spec (nameView a) v none ⟨none⟩, ?_⟩
  unfold displayNameSpec PCmeta.displayName displayNames nameView
  simp only [PCmeta.PyM.rd]
  rw [find_true_reverse _ _ rfl]
  cases hm : termsOf a v none with
  | nil =>
    cases hcm : cmetaOf a.m v with
    | none => simp [hm, hcm]
    | some c =>
      have : c ≠ "" := by intro e; exact hdom (by rw [hcm, e])
      simp [hm, hcm, this]
  | cons x l =>
    simp only [hm, List.getLastD_eq_getLast?]
    cases h : (x :: l).getLast? with
    | none => simp at h
    | some t => simp

/-- no annotation: the single admissible name (what `Model.addCmetaId` of `Model/State.lean` uses when the variable
    has no cmeta id: the name with `$` replaced) -/
theorem getDisplayName_noAnnotation (a : AState) (v : Nat) (ns : Option String) (ex : Excl)
    (h : termsOf a v ns = []) (hc : cmetaOf a.m v = none) :
    Misc5.getDisplayName (nameView a) v ns ex = .ok ⟨some ((nameOfVar a.m v).replace "$" "__")⟩ := by
  rw [getDisplayName_spec]
  simp [displayNameSpec, nameView, h, hc]

end DisplayName

/-! ## 3. `Model.find_variables_and_derivatives` -/

section FindRefs

mutual
/-- the Variable and Derivative objects of an expression: the expression itself when it is one (a Derivative is NOT
    descended into), else those of its arguments, left to right -/
def refsT : ETree → List ETree
  | .node d v i args => if d || v then [.node d v i args] else refsL args
/-- the same for a sequence of expressions (python returns a set: order and repetitions carry no meaning) -/
def refsL : List ETree → List ETree
  | [] => []
  | t :: ts => refsT t ++ refsL ts
end

mutual
def depthT : ETree → Nat
  | .node _ _ _ args => depthL args + 1
def depthL : List ETree → Nat
  | [] => 0
  | t :: ts => max (depthT t) (depthL ts)
end

theorem refsT_eq (t : ETree) : refsT t = if t.is_Derivative || t.isVariable then [t] else refsL t.args := by
  cases t; simp [refsT, ETree.is_Derivative, ETree.isVariable, ETree.args]

theorem depthT_eq (t : ETree) : depthT t = depthL t.args + 1 := by
  cases t; simp [depthT, ETree.args]

theorem ok_bind {α β : Type} (a : α) (f : α → Except PyErr β) : Except.bind (Except.ok a) f = f a := rfl

/-- the generated `for` loop, for any `rec` that is right on the arguments of the members that are descended into -/
theorem findLoop (rec : List ETree → Except PyErr (List ETree)) : ∀ (l : List ETree) (acc : List ETree),
    (∀ t ∈ l, (t.is_Derivative || t.isVariable) = false → rec t.args = .ok (refsL t.args)) →
    (forIn (m := Except PyErr) l acc (fun expr r =>
      if (Py.truthy expr.is_Derivative || Py.truthy expr.isVariable) = true then
        Except.ok (ForInStep.yield (r ++ [expr]))
      else (rec expr.args).bind (fun x => Except.ok (ForInStep.yield (r ++ x))))) = .ok (acc ++ refsL l) := by
  intro l
  induction l with
  | nil => intro acc _; simp [refsL, pure, Except.pure]
  | cons t ts ih =>
    intro acc h
    rw [List.forIn_cons]
    have ih' := fun acc => ih acc (fun t' ht' => h t' (List.mem_cons_of_mem _ ht'))
    simp only [Py.truthy_bool, bind] at ih' ⊢
    by_cases hb : (t.is_Derivative || t.isVariable) = true
    · rw [if_pos hb, ok_bind]
      simp only []
      rw [ih' (acc ++ [t])]
      simp [refsL, refsT_eq, hb]
    · have hb' : (t.is_Derivative || t.isVariable) = false := by simpa using hb
      have hr := h t (List.mem_cons_self) hb'
      rw [if_neg hb, hr, ok_bind, ok_bind]
      simp only []
      rw [ih' (acc ++ refsL t.args)]
      simp [refsL, refsT_eq, hb']

/-- the body of the python function, given a `rec` that is right one level down, returns `refsL` -/
theorem find_step (rec : List ETree → Except PyErr (List ETree)) (l : List ETree)
    (h : ∀ t ∈ l, (t.is_Derivative || t.isVariable) = false → rec t.args = .ok (refsL t.args)) :
    Misc5.findVariablesAndDerivatives rec l = .ok (refsL l) := by
  unfold Misc5.findVariablesAndDerivatives
  simp only [bind, pure, Except.pure]
  rw [findLoop rec l [] h]
  simp [Except.bind]

/-- OPEN RECURSION closed, 1: `refsL` is a fixpoint of the generated functional -/
theorem find_fix (l : List ETree) :
    Misc5.findVariablesAndDerivatives (fun xs => .ok (refsL xs)) l = .ok (refsL l) :=
  find_step _ l (fun _ _ _ => rfl)

/-- the python recursion, `n` calls deep (python: RecursionError) -/
def findFuel : Nat → List ETree → Except PyErr (List ETree)
  | 0 => fun _ => .error ⟨"RecursionError"⟩
  | n + 1 => Misc5.findVariablesAndDerivatives (findFuel n)

theorem mem_depth : ∀ (l : List ETree) (t : ETree), t ∈ l → depthT t ≤ depthL l := by
  intro l
  induction l with
  | nil => intro t h; simp at h
  | cons x xs ih =>
    intro t h
    rw [List.mem_cons] at h
    simp only [depthL]
    cases h with
    | inl h => subst h; exact Nat.le_max_left _ _
    | inr h => exact Nat.le_trans (ih t h) (Nat.le_max_right _ _)

/-- OPEN RECURSION closed, 2: on every finite tree the python function, run with enough stack, returns exactly the
    Variable and Derivative objects `refsL` lists (derivatives not descended into) -/
theorem find_closed : ∀ (n : Nat) (l : List ETree), depthL l ≤ n → findFuel (n + 1) l = .ok (refsL l) := by
  intro n
  induction n with
  | zero =>
    intro l h
    refine find_step _ l (fun t ht _ => ?_)
    have := mem_depth l t ht
    rw [depthT_eq] at this; omega
  | succ m ih =>
    intro l h
    refine find_step _ l (fun t ht _ => ?_)
    have := mem_depth l t ht
    rw [depthT_eq] at this
    exact ih t.args (by omega)

mutual
/-- everything returned is a Variable or a Derivative -/
theorem refsT_flags : ∀ (t x : ETree), x ∈ refsT t → (x.is_Derivative || x.isVariable) = true
  | .node d v i args, x, h => by
    unfold refsT at h
    by_cases hb : (d || v) = true
    · simp only [hb, if_true, List.mem_singleton] at h
      subst h; simpa [ETree.is_Derivative, ETree.isVariable] using hb
    · simp only [hb, Bool.false_eq_true, if_false] at h
      exact refsL_flags args x h
theorem refsL_flags : ∀ (l : List ETree) (x : ETree), x ∈ refsL l → (x.is_Derivative || x.isVariable) = true
  | [], x, h => by simp [refsL] at h
  | t :: ts, x, h => by
    simp only [refsL, List.mem_append] at h
    cases h with
    | inl h => exact refsT_flags t x h
    | inr h => exact refsL_flags ts x h
end

/-! ### the leaves that stand for `find_variables_and_derivatives([rhs])`

    * graphbuild.py / graphnum.py: `self.refsOf equation` / `self.refsOfRhs rhs` are `Eqn.refs` / `Eqn.refsNum`, INPUTS of the
      C09 model (observed from sympy): no definition to tie against; what the property assumes of them is the
      docstring of `Eqn.refs`, which `refsL` makes precise.
    * numpipe.py: `PNumPipe.varRefs rhs` reads the flat leaf list of an `NExpr`, in which a Derivative IS one leaf. -/

open PNumPipe in
/-- an `NLeaf` as an expression object: a Derivative has the state variable among its `args` -/
def leafTree : NLeaf → ETree
  | .var v => .node false true v []
  | .deriv v => .node true false v [.node false true v []]
  | .qty _ => .node false false 0 []
  | .num _ => .node false false 0 []

open PNumPipe in
/-- an `NExpr` as an expression object (shape 0 with one leaf: the expression IS that leaf) -/
def treeOf : NExpr → ETree
  | ⟨0, [l]⟩ => leafTree l
  | ⟨s, ls⟩ => .node false false s (ls.map leafTree)

open PNumPipe in
theorem refsL_leaves : ∀ ls : List NLeaf, (refsL (ls.map leafTree)).map ETree.id
    = ls.filterMap fun l => match l with | .var v => some v | .deriv v => some v | _ => none := by
  intro ls
  induction ls with
  | nil => simp [refsL]
  | cons l ls ih =>
    simp only [List.map_cons, refsL, List.map_append, ih]
    cases l <;> simp [leafTree, refsT, refsL, ETree.id]

open PNumPipe in
theorem depth_leaves : ∀ ls : List NLeaf, depthL (ls.map leafTree) ≤ 2 := by
  intro ls
  induction ls with
  | nil => simp [depthL]
  | cons l ls ih =>
    simp only [List.map_cons, depthL]
    cases l <;> simp [leafTree, depthT, depthL] <;> omega

open PNumPipe in
theorem varRefs_leaf (l : NLeaf) : ∃ r, findFuel 4 [leafTree l] = .ok r ∧ r.map ETree.id = varRefs ⟨0, [l]⟩ := by
  refine ⟨_, find_closed 3 _ ?_, ?_⟩
  · have := depth_leaves [l]; simp only [List.map_cons, List.map_nil] at this; omega
  · exact refsL_leaves [l]

open PNumPipe in
theorem varRefs_node (s : Nat) (ls : List NLeaf) :
    ∃ r, findFuel 4 [.node false false s (ls.map leafTree)] = .ok r ∧ r.map ETree.id = varRefs ⟨s, ls⟩ := by
  refine ⟨_, find_closed 3 _ ?_, ?_⟩
  · have := depth_leaves ls; simp only [depthL, depthT, Nat.max_zero]; omega
  · simp only [refsL, refsT, Bool.or_false, Bool.false_eq_true, if_false, List.append_nil]
    exact refsL_leaves ls

open PNumPipe in
/-- the leaf `varRefs` of numpipe.py = the generated function (recursion closed by `findFuel`) on the expression
    object, as lists of identities: the variable INSIDE a Derivative leaf is not reported -/
theorem varRefs_tie (e : NExpr) : ∃ r, findFuel 4 [treeOf e] = .ok r ∧ r.map ETree.id = varRefs e := by
  obtain ⟨s, ls⟩ := e
  unfold treeOf
  split
  · rename_i l heq; cases heq; exact varRefs_leaf l
  · rename_i s' ls' _ heq; cases heq; exact varRefs_node _ _

end FindRefs

end Cellml.Tie.PMisc5
