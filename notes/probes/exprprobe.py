"""Scratch probe: random expressions vs a physical-value oracle for evaluate_units / convert_expression_recursively."""
import random, math, sys, collections, logging
import sympy as sp
from cellmlmanip.model import Model, Quantity, Variable
from cellmlmanip import units as U
logging.disable(logging.CRITICAL)
seed = int(sys.argv[1]) if len(sys.argv) > 1 else 0
N = int(sys.argv[2]) if len(sys.argv) > 2 else 500
rng = random.Random(seed)
m = Model('m'); s = m.units
# family: name -> (expr, scale, dims(L,T,V))
FAM = {'metre': (None, 1.0, (1,0,0)), 'mm': ('metre/1000', 1e-3, (1,0,0)), 'km': ('metre*1000', 1e3, (1,0,0)),
       'second': (None, 1.0, (0,1,0)), 'ms': ('second/1000', 1e-3, (0,1,0)),
       'volt': (None, 1.0, (0,0,1)), 'mV': ('volt/1000', 1e-3, (0,0,1)),
       'dimensionless': (None, 1.0, (0,0,0)), 'pct': ('dimensionless/100', 1e-2, (0,0,0)),
       'm_per_s': ('metre/second', 1.0, (1,-1,0)), 'mm_per_ms': ('mm/ms', 1.0, (1,-1,0)), 'km_per_s': ('km/second', 1e3, (1,-1,0)),
       'm2': ('metre**2', 1.0, (2,0,0)), 'mm2': ('mm**2', 1e-6, (2,0,0))}
UN = {}
for n,(ex,sc,d) in FAM.items():
    UN[n] = s.get_unit(n) if ex is None else s.add_unit(n, ex)
def info(unit):  # (scale, dims) of any pint unit by oracle-independent means: from our own table via base expansion
    f, b = s._registry.get_base_units(unit)
    d = dict(b._units) if hasattr(b, '_units') else {}
    return float(f), d
VARS = {}; VAL = {}
for n in FAM:
    for k in range(2):
        v = m.add_variable('%s_%d' % (n, k), UN[n]); VARS.setdefault(n, []).append(v); VAL[v] = rng.choice([0.5, 1.5, 2.0, 3.0, -1.25, 7.0])
def byDim(d): return [n for n,(_,_,dd) in FAM.items() if dd == d]
def leaf(d):
    n = rng.choice(byDim(d))
    if rng.random() < 0.5: return rng.choice(VARS[n])
    return m.create_quantity(rng.choice([1.0, 2.0, 0.5, 3.0, 10.0, -2.0]), UN[n])
DIMS = sorted(set(dd for _,_,dd in FAM.values()))
def gen(d, depth, bad=0.0):
    if depth == 0 or rng.random() < 0.25:
        if rng.random() < bad: d = rng.choice(DIMS)
        return leaf(d)
    r = rng.random()
    if r < 0.30: return sp.Add(gen(d, depth-1, bad), gen(d, depth-1, bad), evaluate=True)
    if r < 0.50:
        # product: split dims
        d1 = rng.choice(DIMS); d2 = tuple(a-b for a,b in zip(d, d1))
        if d2 in DIMS: return gen(d1, depth-1, bad) * gen(d2, depth-1, bad)
        return gen(d, depth-1, bad) * gen((0,0,0), depth-1, bad)
    if r < 0.58:
        d1 = rng.choice(DIMS); d2 = tuple(b-a for a,b in zip(d, d1))   # quotient: d = d1 - d2 -> d2 = d1 - d
        d2 = tuple(a-b for a,b in zip(d1, d))
        if d2 in DIMS: return gen(d1, depth-1, bad) / gen(d2, depth-1, bad)
        return gen(d, depth-1, bad) / gen((0,0,0), depth-1, bad)
    if r < 0.64 and d == (2,0,0): return gen((1,0,0), depth-1, bad)**2
    if r < 0.64 and d == (1,0,0): return sp.sqrt(gen((2,0,0), depth-1, bad)) if rng.random()<0.5 else gen((2,0,0), depth-1, bad)**m.create_quantity(0.5, UN['dimensionless'])
    if r < 0.70: return -gen(d, depth-1, bad)
    if r < 0.76: return sp.Abs(gen(d, depth-1, bad))
    if r < 0.86 and d == (0,0,0): return rng.choice([sp.exp, sp.sin, sp.tanh, sp.log])(gen((0,0,0), depth-1, bad))
    if r < 0.95:
        cd = rng.choice(DIMS)
        c = rng.choice([sp.Lt, sp.Ge, sp.Gt])(gen(cd, max(depth-2,0), bad), gen(cd, max(depth-2,0), bad))
        if rng.random() < 0.3: c = sp.And(c, sp.Le(gen((0,0,0), 0, bad), gen((0,0,0), 0, bad)))
        if c in (sp.true, sp.false): return gen(d, depth-1, bad)
        return sp.Piecewise((gen(d, depth-1, bad), c), (gen(d, depth-1, bad), True))
    if d == (1,-1,0): return sp.Derivative(rng.choice(VARS[rng.choice(byDim((1,0,0)))]), rng.choice(VARS[rng.choice(byDim((0,1,0)))]))
    return leaf(d)
class Clash(Exception): pass
def phys(e):
    """physical value: (SI value, dims) ; raises Clash on dimension clash; bool for conditions"""
    if isinstance(e, Quantity): sc, d = info(e.units); return float(e)*sc, d
    if isinstance(e, Variable): sc, d = info(e.units); return VAL[e]*sc, d
    if e.is_Derivative:
        (a, da), (b, db) = phys(e.args[0]), phys(e.args[1][0]); return 0.37*info(e.args[0].units)[0]/info(e.args[1][0].units)[0], dsub(da, db)
    if e.is_Number or e in (sp.pi, sp.E): return float(e), {}
    if e.is_Add:
        vs = [phys(a) for a in e.args]
        if any(nz(v[1]) != nz(vs[0][1]) for v in vs): raise Clash('add')
        return sum(v[0] for v in vs), vs[0][1]
    if e.is_Mul:
        val, d = 1.0, {}
        for a in e.args: v, dd = phys(a); val *= v; d = dadd(d, dd)
        return val, d
    if e.is_Pow:
        b, db = phys(e.args[0]); x, dx = phys(e.args[1])
        if nz(dx): raise Clash('pow exponent')
        return b**x, {k: v*x for k,v in db.items()}
    if e.func == sp.Abs: v, d = phys(e.args[0]); return abs(v), d
    if e.is_Piecewise:
        out = None; dims = None
        for ex, c in e.args:
            v, d = phys(ex); dims = d if dims is None else dims
            if nz(d) != nz(dims): raise Clash('pieces')
            cv = cond(c)
            if out is None and cv: out = v
        return out, dims
    if e.is_Function:
        v, d = phys(e.args[0])
        if nz(d): raise Clash('fn arg')
        return float(e.func(v)), {}
    raise NotImplementedError(str(e.func))
def cond(c):
    if c == sp.true: return True
    if c == sp.false: return False
    if isinstance(c, sp.And): return all(cond(a) for a in c.args)
    if isinstance(c, sp.Or): return any(cond(a) for a in c.args)
    if isinstance(c, sp.Not): return not cond(c.args[0])
    if not c.is_Relational: raise NotImplementedError(str(c.func))
    (a, da), (b, db) = phys(c.args[0]), phys(c.args[1])
    if nz(da) != nz(db): raise Clash('rel')
    return {'<': a < b, '<=': a <= b, '>': a > b, '>=': a >= b, '==': a == b, '!=': a != b}[c.rel_op]
def nz(d): return {k: v for k, v in d.items() if abs(v) > 1e-12}
def dadd(a, b): r = dict(a); [r.__setitem__(k, r.get(k,0)+v) for k,v in b.items()]; return r
def dsub(a, b): r = dict(a); [r.__setitem__(k, r.get(k,0)-v) for k,v in b.items()]; return r
def num(e):
    """plain-number evaluation (what generated code computes)"""
    sub = {q: sp.Float(float(q)) for q in e.atoms(Quantity)}
    sub.update({v: sp.Float(VAL[v]) for v in e.atoms(Variable)})
    sub.update({d: sp.Float(0.37) for d in e.atoms(sp.Derivative)})
    r = e.xreplace({d: sp.Float(0.37) for d in e.atoms(sp.Derivative)}).xreplace(sub)
    return complex(sp.N(r))
def close(a, b): return abs(a-b) <= 1e-9*max(1.0, abs(a), abs(b))
stats = collections.Counter(); finds = collections.defaultdict(list)
for case in range(N):
    d = rng.choice(DIMS); bad = 0.15 if rng.random() < 0.3 else 0.0
    try: e = gen(d, rng.choice([1,2,3,4]), bad)
    except Exception as ex: stats['gen-exc:'+type(ex).__name__] += 1; continue
    if not isinstance(e, sp.Basic) or e.is_Number: stats['trivial'] += 1; continue
    try: pv = phys(e); clash = None
    except Clash as c: pv = None; clash = str(c)
    except (ZeroDivisionError, OverflowError, ValueError, TypeError, NotImplementedError) as ex: stats['oracle-exc'] += 1; continue
    if pv is not None and (pv[0] is None or isinstance(pv[0], complex) or pv[0] != pv[0]): stats['oracle-nan'] += 1; continue
    # ---- C04
    try: u = s.evaluate_units(e); r4 = ('unit', u)
    except U.UnitError as ex: r4 = ('UnitError', type(ex).__name__)
    except Exception as ex: r4 = ('OTHER', type(ex).__name__)
    stats['C04:'+r4[0]] += 1
    if r4[0] == 'OTHER': finds['C04 non-UnitError '+r4[1]].append(e)
    if r4[0] == 'unit':
        if pv is None and clash not in ('rel',): finds['C04 unit returned for dimension clash ('+clash+')'].append(e)
        elif pv is not None:
            sc, dd = info(r4[1])
            if nz(dd) != nz(pv[1]): finds['C04 wrong dims'].append(e)
            else:
                try:
                    nv = num(e)
                    if not close(nv*sc, pv[0]): stats['C04 unit ok but numerically inconsistent (allowed only if conditions/fn args scaled)'] += 1; finds['C04 unit for non-strict expr'].append(e)
                except Exception: pass
    # ---- C05
    tgts = [None]
    if pv is not None:
        same = [n for n,(_,_,dd) in FAM.items() if nz(dict(zip(['[length]','[time]','x'], dd))) is not None and nz(info(UN[n])[1]) == nz(pv[1])]
        if same: tgts.append(UN[rng.choice(same)])
    tgts.append(UN[rng.choice(list(FAM))])
    for t in tgts:
        try: r = s.convert_expression_recursively(e, t); r5 = 'ok'
        except U.UnitError as ex: r5 = 'UnitError'
        except Exception as ex: r5 = 'OTHER:'+type(ex).__name__
        stats['C05:'+r5] += 1
        if r5.startswith('OTHER'): finds['C05 '+r5].append((e, t))
        if r5 == 'UnitError' and pv is not None and t is not None and nz(info(t)[1]) == nz(pv[1]): stats['C05 raised on valid expr+compatible target'] += 1
        if r5 == 'UnitError' and pv is not None and t is None: stats['C05 raised on valid expr, no target'] += 1; finds['C05 raised on dimensionally valid expr (target None)'].append((e,t))
        if r5 == 'ok':
            if pv is None: finds['C05 returned for dimension clash ('+clash+')'].append((e, t)); continue
            try: ru = s.evaluate_units(r); sc, dd = info(ru)
            except Exception as ex: finds['C05 result fails strict inference: '+type(ex).__name__].append((e, t, r)); continue
            if t is not None and not s.is_equivalent(ru, t): finds['C05 result unit not equivalent to target'].append((e, t, r))
            if nz(dd) != nz(pv[1]): finds['C05 result wrong dims'].append((e,t,r)); continue
            try:
                if not close(num(r)*sc, pv[0]): finds['C05 VALUE CHANGED'].append((e, t, r, num(r)*sc, pv[0]))
            except Exception as ex: stats['C05 num-exc'] += 1
print(dict(stats))
for k, v in finds.items():
    print('##', k, len(v)); 
    for x in sorted(v, key=lambda z: len(str(z)))[:3]: print('     ', x)
def show(e):
    return str(e) + '   WHERE ' + ', '.join(sorted('%s:[%s]' % (a, s.format(a.units)) for a in e.atoms(Quantity, Variable)))
for k in ('C05 VALUE CHANGED',):
    for x in sorted(finds.get(k, []), key=lambda z: len(str(z)))[:3]:
        print('ORIG ', show(x[0])); print('TGT  ', x[1]); print('RES  ', show(x[2])); print('num*scale', x[3], 'phys', x[4])
        print('units of result', s.format(s.evaluate_units(x[2])), s.format(s.evaluate_units(x[2]), True))
