import Cellml.C06.Spec3

/-! C06, structural part (core Lean only): the loop over the ODEs in `convert_variable(time, …, INPUT)`. -/

namespace Model.CV
open Model

-- ================================================================================================ lists, dicts
theorem nodup_filterMap {α β : Type} (f : α → Option β) (hf : ∀ a a' b, f a = some b → f a' = some b → a = a') :
    ∀ {l : List α}, l.Nodup → (l.filterMap f).Nodup
  | [], _ => List.nodup_nil
  | a :: l, h => by
    have h' := List.nodup_cons.mp h
    cases hfa : f a with
    | none => rw [List.filterMap_cons_none hfa]; exact nodup_filterMap f hf h'.2
    | some b =>
      rw [List.filterMap_cons_some hfa]
      refine List.nodup_cons.mpr ⟨?_, nodup_filterMap f hf h'.2⟩
      intro hb
      obtain ⟨a', ha', hfa'⟩ := List.mem_filterMap.mp hb
      exact h'.1 (hf a a' b hfa hfa' ▸ ha')

section
variable {α β : Type} [BEq α] [LawfulBEq α] [DecidableEq α]

theorem lookup_insertKey (k k' : α) (w : β) (l : List (α × β)) :
    (insertKey k w l).lookup k' = if k' = k then some w else l.lookup k' := by
  induction l with
  | nil =>
    by_cases h : k' = k
    · subst h; simp [insertKey]
    · have : (k' == k) = false := by simpa using h
      simp [insertKey, List.lookup, this, h]
  | cons p l ih =>
    obtain ⟨k0, v0⟩ := p
    by_cases h0 : k0 = k
    · subst h0
      simp only [insertKey, if_true]
      by_cases h : k' = k0
      · subst h; simp
      · have : (k' == k0) = false := by simpa using h
        simp [List.lookup_cons, this, h]
    · simp only [insertKey, h0, if_false]
      by_cases h : k' = k0
      · subst h
        have : ¬ k' = k := h0
        simp [this]
      · have : (k' == k0) = false := by simpa using h
        simp only [List.lookup_cons, this, ih]

theorem hasKey_insertKey (k k' : α) (w : β) (l : List (α × β)) :
    hasKey k' (insertKey k w l) = (hasKey k' l || decide (k' = k)) := by
  rw [← lookup_isSome_iff_hasKey, ← lookup_isSome_iff_hasKey, lookup_insertKey]
  by_cases h : k' = k
  · simp [h]
  · simp [h]

omit [BEq α] [LawfulBEq α] in
theorem mem_insertKey_weak (k : α) (w : β) (l : List (α × β)) (p : α × β) (hp : p ∈ insertKey k w l) :
    p = (k, w) ∨ p ∈ l := by
  induction l with
  | nil => simp [insertKey] at hp; exact Or.inl hp
  | cons q l ih =>
    obtain ⟨k0, v0⟩ := q
    by_cases h0 : k0 = k
    · simp only [insertKey, h0, if_true, List.mem_cons] at hp
      rcases hp with hp | hp
      · exact Or.inl hp
      · exact Or.inr (List.mem_cons_of_mem _ hp)
    · simp only [insertKey, h0, if_false, List.mem_cons] at hp
      rcases hp with hp | hp
      · exact Or.inr (hp ▸ List.mem_cons_self ..)
      · exact (ih hp).elim Or.inl (fun h => Or.inr (List.mem_cons_of_mem _ h))
end

-- ================================================================================================ the sorted ODEs
theorem mem_sortedOdes {s : CState} (h : Inv0 s) (ode : CEqn) :
    ode ∈ sortedOdes s ↔ ode ∈ s.equations ∧ ∃ x t, ode.lhs = .deriv x t := by
  unfold sortedOdes
  rw [List.mem_filterMap]
  constructor
  · rintro ⟨x, _, hlk⟩
    obtain ⟨h1, t, h2⟩ := (h.lookup_odeDef x ode).mp hlk
    exact ⟨h1, x, t, h2⟩
  · rintro ⟨h1, x, t, h2⟩
    refine ⟨x, ?_, (h.lookup_odeDef x ode).mpr ⟨h1, t, h2⟩⟩
    apply (sortByKey_perm id _).mem_iff.mpr
    exact List.mem_map.mpr ⟨(x, ode), (h.od x ode).mpr ⟨h1, t, h2⟩, rfl⟩

theorem nodup_sortedOdes {s : CState} (h : Inv0 s) : (sortedOdes s).Nodup := by
  unfold sortedOdes
  apply nodup_filterMap
  · intro a a' b ha ha'
    obtain ⟨_, t, h2⟩ := (h.lookup_odeDef a b).mp ha
    obtain ⟨_, t', h2'⟩ := (h.lookup_odeDef a' b).mp ha'
    rw [h2] at h2'; cases h2'; rfl
  · exact ((sortByKey_perm id _).nodup_iff).mpr h.odKeys

-- ================================================================================================ one turn
/-- what holds before each turn of the loop: `L` is what is still to be processed -/
structure LoopInv (v nv : Nat) (st : CState) (rep : Rep) (L : List CEqn) : Prop where
  inv : Inv0 st
  cross : Cross st.equations
  vlt : v < nv
  nvlt : nv < st.vars.length
  inL : ∀ ode ∈ L, ode ∈ st.equations ∧ ∃ x, ode.lhs = .deriv x v ∧ x < nv
  nodup : L.Nodup
  odes : ∀ e ∈ st.equations, ∀ x t, e.lhs = .deriv x t → (t = nv ∧ x < nv) ∨ e ∈ L
  noLhs : ∀ e ∈ st.equations, NoLhs rep e
  repKeys : ∀ p ∈ rep, p.1.2 < nv ∧ p.2 < st.vars.length

theorem freeStep_eq (v nv : Nat) (cfq : X) (st : CState) (rep : Rep) (ode : CEqn) (x : Nat)
    (hl : ode.lhs = .deriv x v) :
    freeStep v nv cfq (st, rep) ode =
      ((convertFreeDeriv st ode nv cfq).1,
       (convertFreeDeriv st ode nv cfq).2.foldl (fun m p => insertKey p.1 p.2 m) rep) := by
  simp only [freeStep, hl, if_true]

/-- one turn of the loop -/
theorem freeStep_spec {v nv : Nat} {st : CState} {rep : Rep} {ode : CEqn} {L : List CEqn} (cfq : X)
    (hq : cfq.vars = []) (J : LoopInv v nv st rep (ode :: L)) (x : Nat) (hl : ode.lhs = .deriv x v)
    (hxnv : x < nv) :
    (freeStep v nv cfq (st, rep) ode).2 = insertKey (x, v) st.vars.length rep ∧
    (freeStep v nv cfq (st, rep) ode).1.equations =
      st.equations.erase ode ++ [⟨.var st.vars.length, ode.rhs⟩, ⟨.deriv x nv, .div (.var st.vars.length) cfq⟩] ∧
    (freeStep v nv cfq (st, rep) ode).1.vars.length = st.vars.length + 1 ∧
    LoopInv v nv (freeStep v nv cfq (st, rep) ode).1 (freeStep v nv cfq (st, rep) ode).2 L := by
  have ho : ode ∈ st.equations := (J.inL ode (List.mem_cons_self ..)).1
  obtain ⟨f1, f2, f3, f4⟩ := convertFreeDeriv_spec J.inv J.cross ode nv cfq hq x v ho hl J.nvlt
  rw [freeStep_eq v nv cfq st rep ode x hl, f1]
  simp only [List.foldl_cons, List.foldl_nil]
  have hxlt : x < st.vars.length := by
    have := J.inv.defKey_lt ho; rwa [defKey_deriv hl] at this
  have hmem : ∀ e, e ∈ (convertFreeDeriv st ode nv cfq).1.equations →
      (e ∈ st.equations.erase ode) ∨ e = ⟨.var st.vars.length, ode.rhs⟩ ∨
      e = ⟨.deriv x nv, .div (.var st.vars.length) cfq⟩ := by
    intro e he; rw [f2] at he; simpa using he
  have hodeL : ode ∉ L := (List.nodup_cons.mp J.nodup).1
  refine ⟨trivial, f2, f3, ?_⟩
  refine { inv := f4, cross := ?_, vlt := J.vlt, nvlt := by rw [f3]; have := J.nvlt; omega, inL := ?_,
           nodup := (List.nodup_cons.mp J.nodup).2, odes := ?_, noLhs := ?_, repKeys := ?_ }
  · -- Cross
    intro e₁ h₁ e₂ h₂ a y t' ha hy hay
    subst hay
    rcases hmem e₂ h₂ with h2 | h2 | h2
    · have hm2 := List.mem_of_mem_erase h2
      have halt := J.inv.defKey_lt hm2
      rw [defKey_deriv hy] at halt
      rcases hmem e₁ h₁ with h1 | h1 | h1
      · exact J.cross e₁ (List.mem_of_mem_erase h1) e₂ hm2 a a t' ha hy rfl
      · rw [h1] at ha; injection ha with ha; omega
      · rw [h1] at ha; cases ha
    · rw [h2] at hy; cases hy
    · rw [h2] at hy; cases hy
      rcases hmem e₁ h₁ with h1 | h1 | h1
      · exact J.cross e₁ (List.mem_of_mem_erase h1) ode ho x x v ha hl rfl
      · rw [h1] at ha; injection ha with ha; omega
      · rw [h1] at ha; cases ha
  · -- the rest is still there
    intro o ho'
    have hne : o ≠ ode := fun hh => hodeL (hh ▸ ho')
    obtain ⟨h1, h2⟩ := J.inL o (List.mem_cons_of_mem _ ho')
    refine ⟨?_, h2⟩
    rw [f2]; exact List.mem_append_left _ ((List.mem_erase_of_ne hne).mpr h1)
  · -- ODEs
    intro e he y t' hy
    rcases hmem e he with h | h | h
    · have hne := (J.inv.nodup.mem_erase_iff.mp h).1
      rcases J.odes e (List.mem_of_mem_erase h) y t' hy with h' | h'
      · exact Or.inl h'
      · rcases List.mem_cons.mp h' with h' | h'
        · exact absurd h' hne
        · exact Or.inr h'
    · rw [h] at hy; cases hy
    · rw [h] at hy; cases hy
      exact Or.inl ⟨rfl, hxnv⟩
  · -- no left-hand side is a replaced derivative
    intro e he y t' hy
    rw [hasKey_insertKey]
    have hne : (y, t') ≠ (x, v) := by
      intro hh; cases hh
      rcases hmem e he with h | h | h
      · exact (J.inv.nodup.mem_erase_iff.mp h).1
          (J.inv.key_inj (List.mem_of_mem_erase h) ho (by rw [keyKind_deriv hy, keyKind_deriv hl]))
      · rw [h] at hy; cases hy
      · rw [h] at hy; cases hy; have := J.vlt; omega
    have hold : hasKey (y, t') rep = false := by
      rcases hmem e he with h | h | h
      · exact J.noLhs e (List.mem_of_mem_erase h) y t' hy
      · rw [h] at hy; cases hy
      · rw [h] at hy; cases hy
        cases hk : hasKey (x, nv) rep with
        | false => rfl
        | true =>
          obtain ⟨w, hw⟩ := (hasKey_iff _ _).mp hk
          have := (J.repKeys _ hw).1
          simp at this
    simp [hold, hne]
  · intro p hp
    rcases mem_insertKey_weak _ _ _ _ hp with h | h
    · rw [h]; simp only [f3]; have := J.vlt; omega
    · have := J.repKeys p h; rw [f3]; omega

end Model.CV
