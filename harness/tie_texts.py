"""Per-property description of the SOURCE TIE built with the code translator (harness/translate_code.py, specs in
harness/code_specs/, theorems in lean/Cellml/Tie/). Appended to the level text of MANIFEST.json by tools/gen_manifest.py."""

COMMON = (' SOURCE TIE (code translator): on every run the bodies of the functions named below are re-translated from the '
          'text of /repo into Lean definitions (lean/Cellml/Generated/Code/*.lean: control flow, order of guards, comparisons, '
          'constants, operands and exception classes come from the source; only leaves - attribute paths and calls into '
          'pint / sympy / networkx / rdflib - are bound to accessors of the hand model by the pattern tables of '
          'harness/code_specs/), and lean/Cellml/Tie/*.lean proves for ALL arguments that each generated definition equals the '
          'hand-model function the property theorems are about, results and exception classes alike; so a semantic edit '
          'of a tied function breaks a proof obligation (or the translation) and the check goes to its failing-input '
          'search. The headline property theorems are moreover RESTATED OVER THE GENERATED DEFINITIONS (loops closed over '
          'the generated body with the model\'s termination measure, open recursions closed by well-founded recursion) and '
          'proved as corollaries through the ties in lean/Cellml/Props/<id>Gen.lean; where a tie has a domain hypothesis the '
          'restated theorem carries it explicitly (notes/reports/TIE2_*.md list which are implied by the property\'s own '
          'hypotheses). ')

TIE = {
    'C01': 'Tied: Parser._determine_connection_direction = Load.direction (connDir_tie); the body of the while loop of '
           '_add_connections = one unfolding of Load.connectLoop, and connectLoop_cons: the model loop IS the while loop over '
           'the generated body; transform_constants = Load.checkConstants / constsOf (transformConstants_tie); the '
           'symbol_generator closure of _add_maths with its resolution loop = Load.rootOf / resolve (symbolGenerator_tie, '
           'whileUpTo_resolve); _handle_component_ref (open recursion: the model is the fixpoint of the generated '
           'functional), _add_relationships = Load.buildParents; _add_components = Load.checkComps / varTable; Parser.parse = '
           'C17.loadFull stage by stage (parse_tie). Not tied: _add_variables and add_sibling (leaves), the Transpiler part '
           'of _add_maths (see C02). The unit-fix pass the statement relies on (convert_expression_recursively, '
           'get_conversion_factor) is under the ties of C05 / C07, which this check builds and audits too.',
    'C02': 'Tied (lean/Cellml/Tie/Transpile.lean, 51 theorems): the six wrapped callbacks minus / divide / power / root / log / '
           'diff with python\'s positional binding of operands (wrappedMinus_tie … wrappedDiff_tie, wrapped_params), '
           '_wrapper_relational = callRel (chaining and the boolean-operand checks), _is_bool, the container handlers '
           '_apply/_piecewise/_piece/_otherwise/_degree/_bvar/_logbase = assemble (for every self.transpile), '
           'transpile_container_tie, _cn_handler = C02.cnHandler for every type / text / children, _simple_operator_handler. '
           'Not tied: that each _x_handler returns its closure; _ci_handler and __init__ (leaves / the generated table).',
    'C03': 'Tied (Tie/UnitDefs*.lean): Parser._make_pint_unit_definition = the canonical tree whose pint value is '
           'Units.elemMeaning / defMeaning, offset test `float(offset) != 0` with its short circuit, float() as a raising leaf = Units.offsetRejected (offset_cond, makeDef_tie, elemExpr_den, makeDefStr_tie for '
           'the actual string); Parser._add_units: set-up = Units.addBases + queue (addUnitsSetup_tie), loop body = one step of '
           'Units.loop incl. re-queue, counter, ValueError on cycles (addUnitsBody_tie, loop_cons, addUnits_tie). Not tied: '
           'that pint parses the rendered string back into the tree.',
    'C04': 'Tied (Tie/Infer*.lean): UnitCalculator._is_dimensionless, _check_unit_of_quantities_equal (incl. the iter / next / '
           'all protocol) and UnitCalculator.traverse with open recursion: child collection for Piecewise / Derivative / '
           'other and the whole dispatch chain = Infer.traverse for every node kind (traverse_tie_nary; n-ary Add / Mul / '
           'Piecewise chains of any length, fnN = Max / Min / Mod via left_spine), on inDomainN (excludes oo, nan; for fnN '
           'the operand-failure marker case fnN_disagreement and for And / Or with 3+ operands and_disagreement, where model '
           'and code raise different UnitError subclasses - both proved as theorems; tie_and_class: both sides reject). '
           'Props/C04Gen.lean: genTraverse (closed by well-founded recursion) = the model, infer_sound_gen, '
           'infer_consistent_gen, infer_complete_err_gen, infer_error_trichotomy_gen.',
    'C05': 'Tied (Tie/Convert*.lean): the nested maybe_convert_expr = Convert.maybeConv, maybe_convert_child, one level of '
           'UnitCalculator.convert_expression_recursively = Convert.convert with the model answering the recursive calls '
           '(convert_tie, one lemma per constructor, Piecewise chains of any length by induction), and the two UnitStore '
           'wrappers; n-ary Add / Mul / And / Or / Max / Min over the flat operand list (Tie/ConvertN.lean: add_loop, mul_loop, '
           'and_loop, or_loop, fn_loop). Props/C05Gen.lean: convGen (closed generated function) = the model, '
           'gen_convert_value / _preserves / _target / _identity / _rejects.',
    'C06': 'Tied (Tie/ConvertVar*.lean): convert_variable (driver) and _convert_variable_instance, '
           '_remove_ode_and_assign_rhs_to_new_variable, _convert_state_variable_deriv, _convert_free_variable_deriv, '
           '_replace_references_to_derivatives, _get_unique_name = Model/ConvertVar.lean (convertVariable_tie, '
           'convertVariable_tie_wf: on WF models the generated code returns exactly the model\'s state and raises nothing; '
           'sortedOdes_eq ties the sort by order_added). After a python raise only "the model\'s flag is up" is tied.',
    'C07': 'Tied (Tie/Units*.lean): UnitStore._prefix_name, _prefix_expression + the word substitution, is_defined, get_unit, '
           'add_base_unit, add_unit (both branches; domain: definition text built, no dimensionless x dimensional mix), '
           'is_equivalent, convert, get_conversion_factor, format (isEquivalent_tie, convert_tie_C07, '
           'getConversionFactor_tie_C07, addUnit_tie …). pint itself is the mini-pint of the model.',
    'C08': 'Tied (Tie/ModelState.lean, state-passing monad so that the state AFTER A RAISE is part of every statement): '
           'add_equation (order of validation and mutation, both check_duplicates values), _check_duplicate_definitions, '
           'remove_equation (incl. "list changed, then KeyError"), add_variable, remove_variable, _invalidate_cache, '
           'get_definition, is_state = Model.step / addEquationCore / removeEquation / addVariable / removeVariable '
           '(addEquation_tie, step_addEquation_tie, removeEquation_tie, addVariable_tie_of_inv, removeVariable_tie_of_inv).',
    'C09': 'Tied (Tie/Graph*.lean): the Model.graph property = C09.buildGraph for every equation system and every leftover '
           'Variable.type (graph_tie, graph_independent; the references of an equation are walked sorted by str, so the node and '
           'edge LISTS do not depend on set iteration order: graph_set_order_irrelevant), graph_with_sympy_numbers = C09.stripGraph (graphNum_tie, no hypothesis: '
           'code and model prune only equations that contain a Quantity, Eqn.hasQ), get_equations_for = C09.getEquationsFor incl. order and '
           'error classes (getEquationsFor_tie), and their composition. networkx / sympy calls are leaves.',
    'C10': 'Tied (Tie/Roles*.lean): get_state_variables, get_free_variable, get_derivatives, get_derived_quantities, '
           'is_constant = Model/Roles.lean; get_value / _get_value with the memo as explicit state and the nested '
           'expand_derivatives (open recursion) = getValueAux / Model.getValue (getValue_tie, getValueRec_tie). Domain: '
           'arithmetic right-hand sides (opqFree), states with initial values.',
    'C11': 'Tied (Tie/Printer*.lean; python builds strings, the model layout trees, every statement is "if the children print '
           'as flatten of their model tree, the method returns flatten of the parent\'s model tree"): EVERY method of '
           'printer.py - _bracket, _bracket_args, _print_And/Or, _print_Function, _print_Pow / _print_ordinary_pow, '
           '_print_Relational, _print_ternary / _print_Piecewise, _print_Add, _print_Mul completely (sign extraction, '
           'classification loop, string assembly with the pow_brackets fix-up: printMul_tie), number / symbol / constant / '
           'Derivative / bool printers, emptyPrinter, doprint\'s trig rewriting. The recursion is closed '
           '(Tie/PrinterClosed.lean: gprint_pr, doprint_closed, by induction on the height) and Props/C11Gen.lean restates '
           'print_groups, print_means, print_rejects for the GENERATED printer (gen_print_groups, gen_print_means, '
           'gen_doprint_means, gen_print_rejects), in both directions (a model ValueError makes the generated printer raise '
           'ValueError). Domain: C11.wf, products have at least two factors, no symbol name starts with "-". Reverting any of '
           'the three printer fix: commits breaks the build. Trusted leaves: sympy precedence, as_coeff_Mul / _keep_coeff / '
           'make_args, the MRO dispatch table.',
    'C12': 'Tied (Tie/Sing*.lean): _generate_piecewise = C12.generate (swap, both comparisons, interpolation formula), '
           '_remove_singularities = C12.removeSing, remove_fixable_singularities = C12.traverse (never raises; the unit hung on '
           'every re-created quantity is a unit of the model\'s store: C18 creation site), _fix_expr_parts completely '
           '(fixExprParts_tie incl. the Add branch: sameSp_py, mergeAll_flat; one hypothesis: a product has at least two '
           'factors, which SymPy guarantees), the helpers _is_negative_power, _solve_real, the singular-point comparison and the '
           'top-candidate loop of _get_singularity (onTopLoop_tie). Of _get_singularity the numerator / denominator partition, the '
           'orientation loop, the fp2 loop body and the recording loop remain leaves (every tie quantifies over the detector).',
    'C13': 'Tied (Tie/Cmeta*.lean): has_cmeta_id, get_variable_by_cmeta_id (every argument kind), get_variables_by_rdf, '
           'get_variable_by_ontology_term = Model.hasCmetaId / getVariableByCmetaId / byRdf / byTerm; the mutating '
           'transfer_cmeta_id, add_cmeta_id (with its uniqueness loop), add_variable, remove_variable in a state-passing monad '
           '= Model.astep, equating the state left behind also at a raise (transferCmetaId_tie, addCmetaId_tie, '
           'removeVariable_tie); plus the annotation move inside the _add_connections loop body (connLoop_body_tie).',
    'C14': 'Tied (Tie/Transpile.lean): a text-level translation of Transpiler._cn_handler = C14.cnPlain / cnENotation / '
           'sourceBits: the format string \'%se%d\' flows from the source and there is exactly one float() of the '
           'concatenated text (cnHandlerText_plain_tie, cnHandlerText_enotation_tie, cn_sourceBits_tie). The check also builds '
           'the Units ties: get_conversion_factor\'s "within isclose of 1 => exactly 1" rule decides whether a number passing a '
           'unit conversion between equal units stays bit-identical.',
    'C15': 'Tied: transform_constants iterates the ordered variable list (transformConstants_tie breaks on set()), the '
           '_add_connections loop body (connLoop_body_tie), Model.graph built independently of leftover types and of the '
           'order in which the variable list is visited (graph_independent), and - the references of an equation being walked '
           'as sorted(..., key=str) in the source - of the order in which the reference sets are handed out '
           '(graph_set_order_irrelevant; graph_tie breaks when the sorted() is removed).',
    'C16': 'Tied (Tie/UnitsInit.lean, Tie/Units.lean): UnitStore.__init__ = Units.Wire.World.newStore (id from the process-wide '
           'counter, prefix text, own or shared registry, initial known names: init_tie, init_prefix), _prefix_name / '
           '_prefix_expression = Units.prefixName / mangle, is_defined, get_unit, format = Iso.formatName. MODEL-LEVEL HALF '
           '(new: lean/Cellml/Iso/Process.lean, Props/C16Process.lean, 52 theorems): a model of the whole process state - '
           'every piece of state that outlives a call and is not owned by one instance was inventoried from the source '
           '(UnitStore._next_id, _singularity_fixes.ONE, the two lru_caches, the MathML handler table, the one mutable default '
           'argument) - with inv_reachable, frame_model / frame_model_run (an operation not acting on model j leaves its '
           'variables, equations, the unit of every quantity, cmeta ids and its cached analysis answers unchanged, for every '
           'finite interleaving, separate and shared registries), cache_key_sound (keys of different models differ: their V '
           'differ), one_not_mutated; Tie/Iso2.lean ties the cache KEYS to the def lines and call sites of the two cached '
           'functions (dropping V from a key breaks the build), Model.__init__ (every container is per instance), '
           'create_quantity, Quantity.__new__ / Variable.__new__, _float_dummies.',
    'C17': 'Tied: Parser.parse = C17.loadFull stage by stage (parse_tie), _determine_connection_direction, the '
           '_add_connections loop (terminates or raises exactly as Load.connectLoop), _add_relationships / '
           '_handle_component_ref, _add_components (reactions, component units), _add_units / _make_pint_unit_definition '
           '(offset, cycles, dangling), Model.add_equation (left-hand side checks, duplicate definitions).',
    'C18': 'Tied (Tie/SingTrav.lean): remove_fixable_singularities re-creates every quantity with a unit of the model\'s own '
           'store (removeFixable_tie, singQuantity_ofStore).',
    'C19': 'Tied (Tie/Units.lean, Tie/ConvertVarSym.lean): UnitStore.convert and get_conversion_factor with a rule list = '
           'Units.convertQ / conversionFactorR (convert_tie, getConversionFactor_tie); convert_variable run on symbolic '
           'factors = Units.convertVariable (convertVariable_sym_tie: factor 1 returns the original, unit errors, TypeError for '
           'symbolic factor + INPUT + initial value, the list and order of the five equation shapes).',
}
