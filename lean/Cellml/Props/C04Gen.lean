import Cellml.Tie.InferNary
import Cellml.Props.C04

set_option linter.unusedSimpArgs false
set_option linter.unusedVariables false
set_option linter.constructorNameAsVariable false

/-! # C04 for the GENERATED `UnitCalculator.traverse`, closed by recursion

    `Props/C04.lean` states the property about the hand model `Infer.traverse`; `Tie/Infer.lean` + `Tie/InferNary.lean`
    show that the hand model is a fixpoint of the functional `Gen.Infer.traverse self rec` that the code translator
    writes from the source text of units.py. Here the recursion is closed on the generated side:

    * `genTraverse reg Γ e` is the generated body run on `e` with `self.traverse(x)` answered by `genTraverse` itself
      on every strictly smaller expression `x` (well-founded recursion on the size `sz` of the model's expression type;
      the generated body only ever asks for operands of `e`, `kids_hdom`);
    * `genTraverse_eq`: on the hereditary tie domain `hdom` (every node of `e` that `traverse` visits is in the node
      domain `inDomainN` of the tie) it returns what the hand model returns - same quantity, same exception class;
    * the headline theorems of C04 (`infer_sound`, `infer_consistent`, `infer_complete_err`,
      `infer_error_trichotomy`) restated for `genTraverse`. -/

namespace Cellml.Props.C04Gen
open Units PMap Spec Infer Cellml.Tie Cellml.Tie.PInfer Cellml.Props.C04

/-- size of an expression (a `deriv` counts its two variables) -/
def sz : E → Nat
  | .add a b | .mul a b | .pow a b | .fnN _ a b | .rel _ a b | .and a b | .or a b => sz a + sz b + 1
  | .abs a | .floor a | .ceil a | .fn1 _ a | .not a => sz a + 1
  | .ite c t el => sz c + sz t + sz el + 1
  | .deriv _ _ => 2
  | _ => 1

/-- **The generated `traverse`, closed.** The body generated from units.py, its recursive calls answered by the
    function itself (on smaller expressions - the only ones it is asked for; anything else would be a
    `RecursionError`, which `genTraverse_eq` shows never happens on the domain). -/
def genTraverse (reg : Registry) (Γ : VarEnv) (e : E) : Except PyErr Q :=
  Cellml.Gen.Infer.traverse (TravView.mk reg Γ)
    (fun o => match o with
      | .ex x => if h : sz x < sz e then genTraverse reg Γ x else .error ⟨"RecursionError"⟩
      | .tup _ => .error ⟨"AttributeError"⟩)
    (.ex e)
termination_by sz e

/-- **Hereditary domain**: every node that `traverse` visits (all but the conditions of a Piecewise, which it
    ignores) is in the node domain of the tie. -/
def hdom (reg : Registry) (Γ : VarEnv) : E → Bool
  | .add a b => hdom reg Γ a && hdom reg Γ b
  | .mul a b => hdom reg Γ a && hdom reg Γ b
  | .pow b x => hdom reg Γ b && hdom reg Γ x
  | .abs a => hdom reg Γ a
  | .floor a => hdom reg Γ a
  | .ceil a => hdom reg Γ a
  | .not a => hdom reg Γ a
  | .fn1 f a => inDomainN reg Γ (.fn1 f a) && hdom reg Γ a
  | .fnN f a b => inDomainN reg Γ (.fnN f a b) && hdom reg Γ a && hdom reg Γ b
  | .ite c t el => inDomainN reg Γ (.ite c t el) && hdom reg Γ t && (el == .undef || hdom reg Γ el)
  | .deriv v t => Γ[v]?.isSome && Γ[t]?.isSome
  | .rel _ a b => hdom reg Γ a && hdom reg Γ b
  | .and a b => inDomainN reg Γ (.and a b) && hdom reg Γ a && hdom reg Γ b
  | .or a b => inDomainN reg Γ (.or a b) && hdom reg Γ a && hdom reg Γ b
  | e => inDomainN reg Γ e

section
variable (reg : Registry) (Γ : VarEnv)

theorem hdom_node (e : E) (h : hdom reg Γ e = true) : inDomainN reg Γ e = true := by
  cases e <;> simp_all [hdom, inDomainN]

/-! the operands along a flat spine are smaller and in the domain -/

theorem addArgs_hdom (e : E) (h : hdom reg Γ e = true) :
    ∀ x ∈ Sym.addArgs e, hdom reg Γ x = true ∧ sz x ≤ sz e := by
  induction e with
  | add a b iha _ =>
    simp only [hdom, Bool.and_eq_true] at h
    intro x hx
    simp only [Sym.addArgs, List.mem_append, List.mem_singleton] at hx
    rcases hx with hx | rfl
    · obtain ⟨h1, h2⟩ := iha h.1 x hx; exact ⟨h1, by simp only [sz]; omega⟩
    · exact ⟨h.2, by simp only [sz]; omega⟩
  | _ => intro x hx; simp only [Sym.addArgs, List.mem_singleton] at hx; subst hx; exact ⟨h, Nat.le_refl _⟩

theorem mulArgs_hdom (e : E) (h : hdom reg Γ e = true) :
    ∀ x ∈ Sym.mulArgs e, hdom reg Γ x = true ∧ sz x ≤ sz e := by
  induction e with
  | mul a b iha _ =>
    simp only [hdom, Bool.and_eq_true] at h
    intro x hx
    simp only [Sym.mulArgs, List.mem_append, List.mem_singleton] at hx
    rcases hx with hx | rfl
    · obtain ⟨h1, h2⟩ := iha h.1 x hx; exact ⟨h1, by simp only [sz]; omega⟩
    · exact ⟨h.2, by simp only [sz]; omega⟩
  | _ => intro x hx; simp only [Sym.mulArgs, List.mem_singleton] at hx; subst hx; exact ⟨h, Nat.le_refl _⟩

theorem andArgs_hdom (e : E) (h : hdom reg Γ e = true) :
    ∀ x ∈ Sym.andArgs e, hdom reg Γ x = true ∧ sz x ≤ sz e := by
  induction e with
  | and a b iha _ =>
    simp only [hdom, Bool.and_eq_true] at h
    intro x hx
    simp only [Sym.andArgs, List.mem_append, List.mem_singleton] at hx
    rcases hx with hx | rfl
    · obtain ⟨h1, h2⟩ := iha h.1.2 x hx; exact ⟨h1, by simp only [sz]; omega⟩
    · exact ⟨h.2, by simp only [sz]; omega⟩
  | _ => intro x hx; simp only [Sym.andArgs, List.mem_singleton] at hx; subst hx; exact ⟨h, Nat.le_refl _⟩

theorem orArgs_hdom (e : E) (h : hdom reg Γ e = true) :
    ∀ x ∈ Sym.orArgs e, hdom reg Γ x = true ∧ sz x ≤ sz e := by
  induction e with
  | or a b iha _ =>
    simp only [hdom, Bool.and_eq_true] at h
    intro x hx
    simp only [Sym.orArgs, List.mem_append, List.mem_singleton] at hx
    rcases hx with hx | rfl
    · obtain ⟨h1, h2⟩ := iha h.1.2 x hx; exact ⟨h1, by simp only [sz]; omega⟩
    · exact ⟨h.2, by simp only [sz]; omega⟩
  | _ => intro x hx; simp only [Sym.orArgs, List.mem_singleton] at hx; subst hx; exact ⟨h, Nat.le_refl _⟩

theorem fnArgs_hdom (f : String) (e : E) (h : hdom reg Γ e = true) :
    ∀ x ∈ Sym.fnArgs f e, hdom reg Γ x = true ∧ sz x ≤ sz e := by
  induction e with
  | fnN g a b iha _ =>
    intro x hx
    by_cases hfg : f = g
    · subst hfg
      simp only [hdom, Bool.and_eq_true] at h
      simp only [Sym.fnArgs, if_true, List.mem_append, List.mem_singleton] at hx
      rcases hx with hx | rfl
      · obtain ⟨h1, h2⟩ := iha h.1.2 x hx; exact ⟨h1, by simp only [sz]; omega⟩
      · exact ⟨h.2, by simp only [sz]; omega⟩
    · simp only [Sym.fnArgs, hfg, if_false, List.mem_singleton] at hx
      subst hx; exact ⟨h, Nat.le_refl _⟩
  | _ => intro x hx; simp only [Sym.fnArgs, List.mem_singleton] at hx; subst hx; exact ⟨h, Nat.le_refl _⟩

theorem chain_hdom (e : E) (h : e = .undef ∨ hdom reg Γ e = true) :
    ∀ x ∈ chainExprs e, hdom reg Γ x = true ∧ sz x < sz e := by
  induction e with
  | ite c t el _ _ ihel =>
    rcases h with h | h
    · cases h
    · simp only [hdom, Bool.and_eq_true, Bool.or_eq_true, beq_iff_eq] at h
      intro x hx
      simp only [chainExprs, List.mem_cons] at hx
      rcases hx with rfl | hx
      · exact ⟨h.1.2, by simp only [sz]; omega⟩
      · obtain ⟨h1, h2⟩ := ihel h.2 x hx; exact ⟨h1, by simp only [sz]; omega⟩
  | _ => intro x hx; simp [chainExprs] at hx

/-- the generated body asks `self.traverse` only for strictly smaller expressions, all of them in the domain -/
theorem kids_hdom (e : E) (h : hdom reg Γ e = true) :
    ∀ x ∈ kids e, hdom reg Γ x = true ∧ sz x < sz e := by
  cases e
  case add a b =>
    intro x hx
    obtain ⟨h1, h2⟩ := addArgs_hdom reg Γ _ h x hx
    simp only [hdom, Bool.and_eq_true] at h
    simp only [kids, Sym.addArgs, List.mem_append, List.mem_singleton] at hx
    rcases hx with hx | rfl
    · obtain ⟨_, h3⟩ := addArgs_hdom reg Γ _ h.1 x hx; exact ⟨h1, by simp only [sz]; omega⟩
    · exact ⟨h1, by simp only [sz]; omega⟩
  case mul a b =>
    intro x hx
    obtain ⟨h1, h2⟩ := mulArgs_hdom reg Γ _ h x hx
    simp only [hdom, Bool.and_eq_true] at h
    simp only [kids, Sym.mulArgs, List.mem_append, List.mem_singleton] at hx
    rcases hx with hx | rfl
    · obtain ⟨_, h3⟩ := mulArgs_hdom reg Γ _ h.1 x hx; exact ⟨h1, by simp only [sz]; omega⟩
    · exact ⟨h1, by simp only [sz]; omega⟩
  case and a b =>
    intro x hx
    obtain ⟨h1, h2⟩ := andArgs_hdom reg Γ _ h x hx
    simp only [hdom, Bool.and_eq_true] at h
    simp only [kids, Sym.andArgs, List.mem_append, List.mem_singleton] at hx
    rcases hx with hx | rfl
    · obtain ⟨_, h3⟩ := andArgs_hdom reg Γ _ h.1.2 x hx; exact ⟨h1, by simp only [sz]; omega⟩
    · exact ⟨h1, by simp only [sz]; omega⟩
  case or a b =>
    intro x hx
    obtain ⟨h1, h2⟩ := orArgs_hdom reg Γ _ h x hx
    simp only [hdom, Bool.and_eq_true] at h
    simp only [kids, Sym.orArgs, List.mem_append, List.mem_singleton] at hx
    rcases hx with hx | rfl
    · obtain ⟨_, h3⟩ := orArgs_hdom reg Γ _ h.1.2 x hx; exact ⟨h1, by simp only [sz]; omega⟩
    · exact ⟨h1, by simp only [sz]; omega⟩
  case fnN f a b =>
    intro x hx
    obtain ⟨h1, h2⟩ := fnArgs_hdom reg Γ f _ h x hx
    simp only [hdom, Bool.and_eq_true] at h
    simp only [kids, Sym.fnArgs, if_true, List.mem_append, List.mem_singleton] at hx
    rcases hx with hx | rfl
    · obtain ⟨_, h3⟩ := fnArgs_hdom reg Γ f _ h.1.2 x hx; exact ⟨h1, by simp only [sz]; omega⟩
    · exact ⟨h1, by simp only [sz]; omega⟩
  case ite c t el => exact chain_hdom reg Γ _ (Or.inr h)
  case deriv v t =>
    simp only [hdom, Bool.and_eq_true] at h
    intro x hx
    simp only [kids, List.mem_cons, List.mem_nil_iff, or_false] at hx
    rcases hx with rfl | rfl <;> simp [hdom, inDomainN, sz, h.1, h.2]
  all_goals
    intro x hx
    first
      | (simp [kids] at hx; done)
      | (simp only [kids, List.mem_cons, List.mem_nil_iff, or_false] at hx
         simp only [hdom, Bool.and_eq_true] at h
         first
           | (rcases hx with rfl | rfl <;> simp only [sz] <;>
               (first | exact ⟨h.1, by omega⟩ | exact ⟨h.2, by omega⟩))
           | (subst hx; simp only [sz]; first | exact ⟨h, by omega⟩ | exact ⟨h.2, by omega⟩))

theorem genTraverse_unfold (e : E) :
    genTraverse reg Γ e =
      Cellml.Gen.Infer.traverse (TravView.mk reg Γ)
        (fun o => match o with
          | .ex x => if sz x < sz e then genTraverse reg Γ x else .error ⟨"RecursionError"⟩
          | .tup _ => .error ⟨"AttributeError"⟩)
        (.ex e) := by
  rw [genTraverse]
  first
    | rfl
    | (congr 1; funext o; cases o <;> simp [dite_eq_ite])

/-- **The closed generated `traverse` is the hand model**, on the hereditary tie domain: the same quantity, or an
    exception of the same class. -/
theorem genTraverse_eq (e : E) (h : hdom reg Γ e = true) :
    genTraverse reg Γ e = liftE (traverse reg Γ e) := by
  suffices H : ∀ n, ∀ e, sz e < n → hdom reg Γ e = true → genTraverse reg Γ e = liftE (traverse reg Γ e) from
    H (sz e + 1) e (Nat.lt_succ_self _) h
  intro n
  induction n with
  | zero => intro e he; cases he
  | succ n ih =>
    intro e he hd
    rw [genTraverse_unfold, ← traverse_tie_nary reg Γ e (hdom_node reg Γ e hd)]
    apply gen_congr
    intro x hx
    obtain ⟨h1, h2⟩ := kids_hdom reg Γ e hd x hx
    simp only [h2, if_true, modelRec]
    exact ih x (by omega) h1

theorem liftE_ok {α} (x : Except UnitErr α) (r : α) (h : (liftE x : Except PyErr α) = .ok r) : x = .ok r := by
  cases x with
  | ok a => simp only [liftE, errClass, Except.ok.injEq] at h; rw [h]
  | error e => cases h

theorem liftE_error {α} (x : Except UnitErr α) (c : PyErr) (h : (liftE x : Except PyErr α) = .error c) :
    ∃ err, x = .error err ∧ c = ⟨errName err⟩ := by
  cases x with
  | ok a => cases h
  | error e => simp only [liftE, errClass, Except.error.injEq] at h; exact ⟨e, rfl, h.symm⟩

/-! ## the headline theorems of C04, for the generated function -/

/-- `infer_sound` for the generated `traverse` -/
theorem infer_sound_gen (e : E) (hd : hdom reg Γ e = true) (hs : SimpleExps e = true) (r : M × Container)
    (h : genTraverse reg Γ e = .ok r) : ∃ su, specUnit reg Γ e = some su ∧ sem reg r.2 ≃₂ su := by
  rw [genTraverse_eq reg Γ e hd] at h
  exact infer_sound reg Γ e hs r (liftE_ok _ _ h)

/-- `infer_consistent` for the generated `traverse` -/
theorem infer_consistent_gen (e : E) (hd : hdom reg Γ e = true) (hs : SimpleExps e = true) (r : M × Container)
    (h : genTraverse reg Γ e = .ok r) : ∃ su, HasUnit reg Γ e su ∧ sem reg r.2 ≃₂ su := by
  rw [genTraverse_eq reg Γ e hd] at h
  exact infer_consistent reg Γ e hs r (liftE_ok _ _ h)

/-- `infer_complete_err` for the generated `traverse`: no unit under the CellML rules - an exception -/
theorem infer_complete_err_gen (e : E) (hd : hdom reg Γ e = true) (hs : SimpleExps e = true)
    (hno : ∀ su, ¬ HasUnit reg Γ e su) : ∃ c, genTraverse reg Γ e = .error c := by
  obtain ⟨err, he⟩ := infer_complete_err reg Γ e hs hno
  exact ⟨⟨errName err⟩, by rw [genTraverse_eq reg Γ e hd, he]; rfl⟩

/-- `infer_error_trichotomy` for the generated `traverse`: the exception class is that of a `UnitError` subclass, or
    of a python exception of a magnitude operation occurring in `e`, or the model's `unsupported` for a node outside
    the exactly modelled fragment -/
theorem infer_error_trichotomy_gen (e : E) (hd : hdom reg Γ e = true) (c : PyErr)
    (h : genTraverse reg Γ e = .error c) :
    ∃ err, c = ⟨errName err⟩ ∧
      (isUnitError err = true ∨ (∃ w, err = .otherException w ∧ w ∈ pyErrors e) ∨
        (∃ w, err = .unsupported w ∧ outside Γ e = true)) := by
  rw [genTraverse_eq reg Γ e hd] at h
  obtain ⟨err, he, hc⟩ := liftE_error _ _ h
  exact ⟨err, hc, infer_error_trichotomy reg Γ e err he⟩

end
end Cellml.Props.C04Gen
