import Cellml.Basic.PMap

/-! Canonical forms are unique: two maps with the same meaning have the same `norm`. Hence the executable test
    `PMap.beq` decides semantic equality *exactly* (soundness is in PMap.lean; this file adds completeness). -/

class LawfulKeyLt (κ : Type) [KeyLt κ] : Prop where
  irrefl : ∀ a : κ, KeyLt.ltb a a = false
  trans : ∀ a b c : κ, KeyLt.ltb a b = true → KeyLt.ltb b c = true → KeyLt.ltb a c = true
  tri : ∀ a b : κ, KeyLt.ltb a b = false → a ≠ b → KeyLt.ltb b a = true

instance : LawfulKeyLt Nat where
  irrefl a := by simp [KeyLt.ltb]
  trans a b c := by simp only [KeyLt.ltb, decide_eq_true_eq]; omega
  tri a b := by simp only [KeyLt.ltb, decide_eq_false_iff_not, decide_eq_true_eq]; omega

instance : LawfulKeyLt String where
  irrefl a := by simp [KeyLt.ltb, String.lt_irrefl]
  trans a b c := by simp only [KeyLt.ltb, decide_eq_true_eq]; exact String.lt_trans
  tri a b := by
    simp only [KeyLt.ltb, decide_eq_false_iff_not, decide_eq_true_eq]
    intro h hne
    rcases Std.lt_trichotomy a b with h' | h' | h'
    · exact absurd h' h
    · exact absurd h' hne
    · exact h'

namespace PMap
variable {κ : Type} [DecidableEq κ] [KeyLt κ] [LawfulKeyLt κ]

/-- every key of `m` is strictly above `k` -/
def Above (k : κ) (m : PMap κ) : Prop := ∀ x ∈ m, KeyLt.ltb k x.1 = true

/-- canonical: strictly ascending keys, no zero exponents -/
inductive Canon : PMap κ → Prop where
  | nil : Canon []
  | cons (k : κ) (e : Rat) (t : PMap κ) : e ≠ 0 → Above k t → Canon t → Canon ((k, e) :: t)

theorem get_of_above {k : κ} {m : PMap κ} (h : Above k m) : get m k = 0 := by
  induction m with
  | nil => rfl
  | cons hd tl ih =>
      obtain ⟨k', e⟩ := hd
      have hk : KeyLt.ltb k k' = true := h (k', e) (by simp)
      have hne : k' ≠ k := by
        intro heq; subst heq; rw [LawfulKeyLt.irrefl] at hk; cases hk
      have := ih (fun x hx => h x (by simp [hx]))
      simp only [get_cons, hne, if_false, this]; grind

theorem get_of_above_lt {k k₀ : κ} {m : PMap κ} (h : Above k m) (hlt : KeyLt.ltb k₀ k = true) : get m k₀ = 0 := by
  apply get_of_above
  intro x hx
  exact LawfulKeyLt.trans _ _ _ hlt (h x hx)

theorem Above.mono {k k' : κ} {m : PMap κ} (h : Above k m) (hlt : KeyLt.ltb k' k = true) : Above k' m :=
  fun x hx => LawfulKeyLt.trans _ _ _ hlt (h x hx)

theorem above_ins {k₀ k : κ} {e : Rat} {m : PMap κ} (hm : Above k₀ m) (hk : KeyLt.ltb k₀ k = true) :
    Above k₀ (ins k e m) := by
  induction m with
  | nil =>
      unfold ins; split
      · intro x hx; cases hx
      · intro x hx; simp only [List.mem_singleton] at hx; subst hx; exact hk
  | cons hd tl ih =>
      obtain ⟨k', f⟩ := hd
      have htl : Above k₀ tl := fun x hx => hm x (by simp [hx])
      have hk' : KeyLt.ltb k₀ k' = true := hm (k', f) (by simp)
      unfold ins
      split
      · split
        · exact hm
        · intro x hx
          simp only [List.mem_cons] at hx
          rcases hx with rfl | rfl | hx
          · exact hk
          · exact hk'
          · exact htl x hx
      · split
        · split
          · exact htl
          · intro x hx
            simp only [List.mem_cons] at hx
            rcases hx with rfl | hx
            · exact hk'
            · exact htl x hx
        · intro x hx
          simp only [List.mem_cons] at hx
          rcases hx with rfl | hx
          · exact hk'
          · exact ih htl x hx

theorem canon_ins (k : κ) (e : Rat) {m : PMap κ} (hm : Canon m) : Canon (ins k e m) := by
  induction hm with
  | nil =>
      unfold ins; split
      · exact Canon.nil
      · rename_i he; exact Canon.cons k e [] he (fun x hx => by cases hx) Canon.nil
  | cons k' f t hf habove ht ih =>
      unfold ins
      split
      · rename_i hlt
        split
        · exact Canon.cons k' f t hf habove ht
        · rename_i he
          refine Canon.cons k e _ he ?_ (Canon.cons k' f t hf habove ht)
          intro x hx
          simp only [List.mem_cons] at hx
          rcases hx with rfl | hx
          · exact hlt
          · exact LawfulKeyLt.trans _ _ _ hlt (habove x hx)
      · rename_i hnlt
        split
        · rename_i heq; subst heq
          split
          · exact ht
          · rename_i hne; exact Canon.cons k (e + f) t hne habove ht
        · rename_i hne
          have hgt : KeyLt.ltb k' k = true := LawfulKeyLt.tri k k' (by simpa using hnlt) hne
          exact Canon.cons k' f _ hf (above_ins habove hgt) ih

theorem canon_norm (m : PMap κ) : Canon (norm m) := by
  induction m with
  | nil => exact Canon.nil
  | cons hd tl ih => obtain ⟨k, e⟩ := hd; exact canon_ins k e ih

/-- canonical forms with the same meaning are equal -/
theorem canon_unique {a b : PMap κ} (ha : Canon a) (hb : Canon b) (h : a ≃ b) : a = b := by
  induction ha generalizing b with
  | nil =>
      cases hb with
      | nil => rfl
      | cons k e t he habove _ =>
          have := h k
          simp only [get_nil, get_cons, if_true, get_of_above habove] at this
          exact absurd (by grind) he
  | cons k e t he habove ht ih =>
      cases hb with
      | nil =>
          have := h k
          simp only [get_nil, get_cons, if_true, get_of_above habove] at this
          exact absurd (by grind) he
      | cons k' f t' hf habove' ht' =>
          have hkk : k = k' := by
            by_cases h1 : KeyLt.ltb k k' = true
            · -- k below every key of b: get b k = 0 but get a k = e
              have hb0 : get ((k', f) :: t') k = 0 :=
                get_of_above (fun x hx => by
                  simp only [List.mem_cons] at hx
                  rcases hx with rfl | hx
                  · exact h1
                  · exact LawfulKeyLt.trans _ _ _ h1 (habove' x hx))
              have := h k
              rw [hb0] at this
              simp only [get_cons, if_true, get_of_above habove] at this
              exact absurd (by grind) he
            · by_cases h2 : k = k'
              · exact h2
              · have h3 : KeyLt.ltb k' k = true := LawfulKeyLt.tri k k' (by simpa using h1) h2
                have ha0 : get ((k, e) :: t) k' = 0 :=
                  get_of_above (fun x hx => by
                    simp only [List.mem_cons] at hx
                    rcases hx with rfl | hx
                    · exact h3
                    · exact LawfulKeyLt.trans _ _ _ h3 (habove x hx))
                have := h k'
                rw [ha0] at this
                simp only [get_cons, if_true, get_of_above habove'] at this
                exact absurd (by grind) hf
          subst hkk
          have hef : e = f := by
            have := h k
            simp only [get_cons, if_true, get_of_above habove, get_of_above habove'] at this
            grind
          subst hef
          have htt : t ≃ t' := by
            intro p
            have := h p
            simp only [get_cons] at this
            grind
          rw [ih ht' htt]

/-- completeness of the executable test: equal meaning ⇒ equal canonical form -/
theorem norm_eq_of_equiv {a b : PMap κ} (h : a ≃ b) : norm a = norm b :=
  canon_unique (canon_norm a) (canon_norm b) ((norm_equiv a).trans (h.trans (norm_equiv b).symm))

theorem norm_eq_iff_equiv {a b : PMap κ} : norm a = norm b ↔ a ≃ b :=
  ⟨equiv_of_norm_eq, norm_eq_of_equiv⟩

theorem beq_iff_equiv {a b : PMap κ} : beq a b = true ↔ a ≃ b := by
  simp only [beq, decide_eq_true_eq]; exact norm_eq_iff_equiv

theorem norm_eq_nil_of_zero (m : PMap κ) (h : ∀ k, get m k = 0) : norm m = [] := by
  have : m ≃ ([] : PMap κ) := fun k => by simp only [h k, get_nil]
  simpa [norm] using norm_eq_of_equiv this

theorem norm_idem (m : PMap κ) : norm (norm m) = norm m := norm_eq_of_equiv (norm_equiv m)

end PMap
