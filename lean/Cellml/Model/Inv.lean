import Cellml.Model.State

/-! # What "coherent" means for the model state: the invariant, the content of a model, the freshly built model with
      the same content, and everything a caller can observe. Definitions only (core Lean); the proofs are in
      `Cellml/C08/Lemmas.lean`, the property theorems in `Cellml/Props/C08.lean`. -/

namespace Model

/-- `_var_definition_map` as it follows from the equation list -/
def deriveVarDef (eqs : List Eqn) : List (Nat × Eqn) :=
  eqs.filterMap (fun e => match e.lhs with | .var v => some (v, e) | _ => none)

/-- `_ode_definition_map` as it follows from the equation list -/
def deriveOdeDef (eqs : List Eqn) : List (Nat × Eqn) :=
  eqs.filterMap (fun e => match e.lhs with | .deriv s _ _ => some (s, e) | _ => none)

/-- the three views of the equation set agree; no variable has two definitions -/
structure EqInvOn (eqs : List Eqn) (vd od : List (Nat × Eqn)) : Prop where
  varDef : vd = deriveVarDef eqs
  odeDef : od = deriveOdeDef eqs
  nodup : (eqs.filterMap defKey).Nodup
  lhsOk : ∀ e ∈ eqs, e.lhs ≠ .other
  orderOk : ∀ e ∈ eqs, ∀ st t o, e.lhs = .deriv st t o → o ≤ 1

def EqInv (s : MState) : Prop := EqInvOn s.equations s.varDef s.odeDef

/-- every `type` field a graph build would reset holds what that build would write -/
def TypesSettled (s : MState) : Prop :=
  ∀ i v, s.heap[i]? = some v → i ∈ relevant s.live s.equations → v.type = tyOf (typeMap s.equations) i

/-- a cached graph is the graph of the current content -/
structure CacheInv (s : MState) : Prop where
  graph : ∀ g, s.graph = some g → buildGraph (names s) s.equations = .ok g ∧ TypesSettled s
  graphNum : ∀ g, s.graphNum = some g → ∃ g0, s.graph = some g0 ∧ g = numGraph g0

/-- the name and cmeta registries match the variable list; `order_added` increases in order of introduction -/
structure RegInvOn (modelCmeta : Option String) (len : Nat) (name : Nat → String) (cmeta : Nat → Option String)
    (order : Nat → Nat) (live : List Nat) (cmetaMap : List (String × Nat)) (nextOrder : Nat) : Prop where
  liveNodup : live.Nodup
  liveBound : ∀ i ∈ live, i < len
  namesNodup : (live.map name).Nodup
  cmetaIff : ∀ c i, (c, i) ∈ cmetaMap ↔ (i ∈ live ∧ cmeta i = some c)
  cmetaKeys : (cmetaMap.map (·.1)).Nodup
  cmetaModel : ∀ i ∈ live, ∀ c, cmeta i = some c → modelCmeta ≠ some c
  orderInc : (live.map order).Pairwise (· < ·)
  orderBound : ∀ i ∈ live, order i < nextOrder

def RegInv (s : MState) : Prop :=
  RegInvOn s.modelCmeta s.heap.length (nameOfVar s) (cmetaOf s) (orderOf s) s.live s.cmetaMap s.nextOrder

structure Inv (s : MState) : Prop where
  eq : EqInv s
  cache : CacheInv s
  reg : RegInv s

-- ------------------------------------------------------------------------------------------------ content / fresh
/-- what a model holds: its variables (the objects, without the `type` a graph build may have left on them) and its
    equations -/
structure Content where
  modelCmeta : Option String
  heap : List Var
  live : List Nat
  equations : List Eqn
  nextOrder : Nat

def content (s : MState) : Content :=
  ⟨s.modelCmeta, s.heap.map (fun v => { v with type := none }), s.live, s.equations, s.nextOrder⟩

/-- the model a caller gets by building one from scratch with this content: registries and definition maps filled
    from the variables and equations, nothing cached, no `type` written yet -/
def fresh (c : Content) : MState :=
  { modelCmeta := c.modelCmeta, heap := c.heap, live := c.live,
    cmetaMap := c.live.filterMap (fun i => ((c.heap[i]?).bind (·.cmeta)).map (fun k => (k, i))),
    equations := c.equations, varDef := deriveVarDef c.equations, odeDef := deriveOdeDef c.equations,
    graph := none, graphNum := none, nextOrder := c.nextOrder }

-- ------------------------------------------------------------------------------------------------ observables
def initOf (s : MState) (i : Nat) : Option Rat := (s.heap[i]?).bind (·.init)

/-- every answer the public queries give -/
structure Obs where
  vars : List (Nat × String × Option String × Option Rat)   -- `variables()` in order, with name, cmeta id, initial value
  equations : List Eqn                                      -- `equations`
  definition : Nat → Option Eqn                             -- `get_definition`
  states : List Nat                                         -- `get_state_variables()`
  stateKeys : List Nat                                      -- `get_state_variables(sort=False)`
  free : Option Nat                                         -- `get_free_variable()` (none: ValueError)
  cmetaLookup : String → Option Nat                         -- `get_variable_by_cmeta_id` (none: KeyError)
  hasCmeta : String → Bool                                  -- `has_cmeta_id`
  graph : Except GErr Graph                                 -- `graph`
  graphNum : Except GErr Graph                              -- `graph_with_sympy_numbers`
  types : List (Nat × Option VType)                         -- `.type` of the model's variables once `graph` was read

def obs (s : MState) : Obs :=
  { vars := s.live.map (fun i => (i, nameOfVar s i, cmetaOf s i, initOf s i)),
    equations := s.equations,
    definition := getDefinition s,
    states := getStateVariables s,
    stateKeys := stateKeys s,
    free := getFreeVariable s,
    cmetaLookup := getVariableByCmetaId s,
    hasCmeta := hasCmetaId s,
    graph := (queryGraph s).2,
    graphNum := (queryGraphNum s).2,
    types := (relevant s.live s.equations).map (fun i => (i, typeOf (queryGraph s).1 i)) }

end Model
