"""C05 — converting an expression to other units preserves its physical value."""
import json
from fractions import Fraction

import mpmath

import exprlib as X
import unitlib as U
from common import sx, rng_for
from props.c04 import tree_sx, UNIT_ERRORS, heads, magnitude_trigger

ID = 'C05'
LEAN_MODULES = ['Cellml.Props.C05', 'Cellml.Tie.ConvertCases', 'Cellml.Tie.ConvertPw', 'Cellml.Tie.Convert', 'Cellml.Tie.ConvertN', 'Cellml.Props.C05Gen']
N = {'quick': 50, 'thorough': 1200}
PER_CTX = 24
RULE = ('random unit families (clusters of equal dimension, different scale) with 4-7 variables; per family %d '
        'type-directed expressions to depth 5 (sum, product, numeric power, abs/floor/ceil, exp/log/trig, piecewise with '
        'relational/and/or conditions, derivative, numbers) and single-leaf dimension mutations of them, each with a '
        'target: none / its own unit / an equivalent spelling / same dimension other scale / wrong dimension; through '
        'UnitStore.convert_expression_recursively; non-trivial = the result differs from the input (a conversion '
        'happened) or an error was raised' % PER_CTX)
TRUSTED = ['Lean 4.33 kernel', 'axioms: propext, Classical.choice, Quot.sound',
           'correspondence harness (exprlib.py, c05.py)', 'pint 0.18 and sympy canonicalisation are modelled, not verified']
ASSUMPTIONS = ['values are compared at 3 rational sample points per expression with mpmath at 40 digits, rel 1e-9; points '
               'near a discontinuity (floor/ceil steps, equal comparands) are skipped',
               'radian-family units are not generated (known finding of C07)']
FINGERPRINT = {'cellmlmanip/units.py': ['UnitCalculator.convert_expression_recursively',
                                       'UnitStore.convert_expression_recursively', 'UnitStore.evaluate_units_and_fix',
                                       'UnitStore.get_conversion_factor', 'UnitCalculator.traverse']}


def gen(rng, n, tier):
    for k in range(n):
        ctx = X.gen_context(rng)
        yield {'ctx': ctx, 'seed': rng.randrange(1 << 30), 'n': PER_CTX}


def corpus():
    """exponents that themselves need a unit conversion, with values whose float arithmetic is exact"""
    fam = {'stores': [None], 'defs': [
        {'kind': 'def', 'store': 0, 'name': 'ms', 'elems': [{'units': 'second', 'prefix': 'milli'}]},
        {'kind': 'def', 'store': 0, 'name': 'cm', 'elems': [{'units': 'metre', 'prefix': 'centi'}]},
        {'kind': 'def', 'store': 0, 'name': 'm2', 'elems': [{'units': 'metre', 'exponent': '2'}]},
        {'kind': 'def', 'store': 0, 'name': 'pct', 'elems': [{'units': 'dimensionless', 'multiplier': '0.01'}]},
        {'kind': 'def', 'store': 0, 'name': 'pct2', 'elems': [{'units': 'pct', 'exponent': '2'}]}]}
    u = lambda n: [[0, n, '1']]
    ctx = {'family': fam, 'units': [u('ms'), u('cm'), u('m2'), u('pct'), u('second'), u('metre'), u('dimensionless')],
           'vars': [{'name': 'x', 'unit': u('cm'), 'init': None}, {'name': 'p', 'unit': u('pct'), 'init': None},
                    {'name': 'd', 'unit': u('dimensionless'), 'init': None}]}
    two = ['mul', ['qty', '4', u('second')], ['pow', ['qty', '2000', u('ms')], ['int', -1]]]
    jobs = [[['pow', ['var', 0], two], u('m2')], [['pow', ['var', 0], two], None],
            [['pow', ['var', 1], two], u('dimensionless')], [['pow', ['var', 1], two], u('pct2')],
            [['add', ['var', 1], ['fn1', 'exp', ['var', 2]]], u('dimensionless')],
            [['add', ['var', 1], ['fn1', 'exp', ['var', 2]]], None],
            [['rel', 'Eq', ['var', 1], ['fn1', 'exp', ['var', 2]]], None],
            [['pw', [[['var', 1], ['rel', 'Lt', ['var', 2], ['int', 1]]], [['fn1', 'cos', ['var', 2]], 'tt']]], None],
            [['add', ['var', 1], ['int', 2]], u('pct')]]
    return [{'ctx': ctx, 'explicit': jobs}]


def jobs_of(case):
    """Deterministically regenerate (ast, target unit-expr or None) pairs."""
    ctx = case['ctx']
    sem = U.oracle_family(ctx['family'], ['ok'] * len(ctx['family']['defs']))
    if 'explicit' in case:
        return [(a, t) for a, t in case['explicit']], sem
    rng = rng_for(case.get('seed', 0), 'jobs')
    g = X.Gen(rng, ctx, sem)
    out = []
    for i in range(case['n']):
        d = rng.choice(list(g.by_dim))
        a = g.expr(d, rng.choice([1, 2, 2, 3, 3, 4, 5]))
        if rng.random() < 0.25:
            b = X.mutate_leaf(rng, json.loads(json.dumps(a)), g)
            a = b if b is not None else a
        k = rng.random()
        same_dim = g.by_dim.get(d, [])
        if k < 0.3 or not same_dim:
            t = None
        elif k < 0.85:
            t = rng.choice(same_dim)
        else:
            other = [u for dd, us in g.by_dim.items() if dd != d for u in us]
            t = rng.choice(other) if other else None
        out.append((a, t))
        if rng.random() < 0.15:
            out.append((['rel', 'Eq', ['var', rng.randrange(len(ctx['vars']))], a], None))   # an assignment equation
    return out, sem


def impl(case):
    import sympy
    from sympy.core.cache import clear_cache
    ctx = case['ctx']
    w = X.World(ctx)
    if any(o != 'ok' for o in w.outcomes):
        return {'skip': 'family rejected: %s' % w.outcomes}
    jobs, _ = jobs_of(case)
    res = []
    for a, t in jobs:
        try:
            e = w.build(a)
        except Exception as ex:
            res.append({'build': 'err:' + type(ex).__name__})
            continue
        try:
            tree = X.to_json(w.ser(e))
        except ValueError as ex:
            res.append({'build': 'skip:' + str(ex)})
            continue
        if any(k in json.dumps(tree) for k in ('ImaginaryUnit', 'ComplexInfinity', 'NegativeInfinity', '"oo"', '"nan"')):
            res.append({'build': 'skip:complex'})
            continue
        tu = None if t is None else w.unit(t)
        clear_cache()   # makes `expr.func(*args)` return a NEW object, so object identity is observable
        try:
            r = w.store.convert_expression_recursively(e, tu)
        except Exception as ex:
            res.append({'tree': tree, 'target': t, 'out': ['err', type(ex).__name__]})
            continue
        try:
            rtree = X.to_json(w.ser(r))
        except Exception as ex:
            res.append({'tree': tree, 'target': t, 'out': ['err', 'unserialisable:' + type(ex).__name__]})
            continue
        try:
            if isinstance(r, sympy.Eq) and isinstance(e, sympy.Eq):
                ul, ur = w.store.evaluate_units(r.lhs), w.store.evaluate_units(r.rhs)
                strict = ['ok', w.store.format(ul, base_units=True), bool(w.store.is_equivalent(ul, ur))]
            else:
                u = w.store.evaluate_units(r)
                strict = ['ok', w.store.format(u, base_units=True),
                          None if tu is None else bool(w.store.is_equivalent(u, tu))]
        except Exception as ex:
            strict = ['err', type(ex).__name__]
        res.append({'tree': tree, 'target': t, 'out': ['ok', rtree, r is e, strict]})
    return {'results': res}


def requests(case, obs):
    if 'skip' in obs:
        return []
    ctx = case['ctx']
    stores, defs = U.family_sx(ctx['family'])
    js = []
    for r in obs['results']:
        if 'tree' in r:
            js.append([tree_sx(r['tree']), 'none' if r['target'] is None else U.unit_sx([tuple(x) for x in r['target']])])
    if not js:
        return []
    return [sx(['C05', stores, defs, X.vars_sx(ctx), ['jobs'] + js])]


def model_tree(m):
    """parsed S-expression of the model's result expression -> the JSON tree format of exprlib"""
    if isinstance(m, list):
        h = m[0]
        if h == 'qty':
            return ['qty', str(Fraction(m[1])), [[0, str(n), str(Fraction(e))] for n, e in m[2]]]
        if h == 'cf':
            return ['cf', [[str(p), str(Fraction(e))] for p, e in m[1]], [[0, str(n), str(Fraction(e))] for n, e in m[2]]]
        if h in ('int', 'var'):
            return [h, int(m[1])]
        if h in ('rat', 'flt'):
            return [h, str(Fraction(m[1]))]
        if h == 'deriv':
            return ['deriv', int(m[1]), int(m[2])]
        if h in ('fn1', 'fnN', 'rel', 'other'):
            return [h, str(m[1])] + [model_tree(x) for x in m[2:]]
        return [h] + [model_tree(x) for x in m[1:]]
    return str(m)


class QualPhys(X.Phys):
    """the model's trees carry registry-qualified unit names (store0_mV): strip the prefix"""
    def usem(self, uexpr):
        import re
        out = []
        for s, n, e in uexpr:
            n = re.sub(r'^store\d+_', '', str(n))
            out.append((0, n, str(e)))
        return U.sem_of(self.sem, out)


def compare(case, obs, replies):
    rep = replies[0]
    if not isinstance(rep, list) or len(rep) != 2:
        return 'model reply malformed: %r' % (rep,)
    if any(d != 'ok' for d in rep[0][1:]):
        return None
    ctx = case['ctx']
    sem = U.oracle_family(ctx['family'], ['ok'] * len(ctx['family']['defs']))
    ph = QualPhys(ctx, sem)
    rs = [r for r in obs['results'] if 'tree' in r]
    envs = X.sample_env(rng_for(case.get('seed', 0), 'env'), ctx, 3)
    for r, m in zip(rs, rep[1][1:]):
        o = r['out']
        where = 'expr %s -> %s' % (json.dumps(r['tree'])[:500], r['target'])
        if isinstance(m, list) and m[0] == 'unsupported':
            continue
        if m in ('bad-job', 'bad-expr'):
            return 'model cannot parse %s' % where
        if o[0] == 'err' and o[1] not in UNIT_ERRORS and magnitude_trigger(r['tree'], o[1]):
            continue   # Python arithmetic on magnitudes: see c04.compare
        if m[0] == 'err':
            if o[0] != 'err' or o[1] != m[1].replace('Other:', ''):
                return '%s: model %s, implementation %s' % (where, m, o[:2])
            continue
        if o[0] != 'ok':
            return '%s: model ok, implementation %s' % (where, o)
        md = {x[0]: x[1:] for x in m[1:]}
        # identity of the returned object
        if (md['same'][0] == 'true') != o[2]:
            return '%s: model same-object=%s, implementation `result is expr`=%s' % (where, md['same'][0], o[2])
        # strict inference of the result
        ms = md['strict'][0]
        if isinstance(ms, list) and ms[0] == 'unsupported':
            pass
        elif o[3][0] == 'err' and o[3][1] not in UNIT_ERRORS and magnitude_trigger(o[1], o[3][1]):
            pass   # Python arithmetic on an untracked magnitude (known findings of C04) pre-empts the model's verdict
        elif ms[0] == 'err' and ms[1].startswith('Other:'):
            pass   # the model's approximate magnitude tracking predicts a Python exception: inconclusive
        elif ms[0] == 'err':
            if o[3][0] != 'err' or o[3][1] != ms[1].replace('Other:', ''):
                return '%s: strict inference of the result: model %s, implementation %s' % (where, ms, o[3])
        else:
            if o[3][0] != 'ok' and not (o[3][1] not in UNIT_ERRORS and magnitude_trigger(o[1], o[3][1])):
                return '%s: strict inference of the result: model ok, implementation %s' % (where, o[3])
        # value of the result as plain numbers
        mt = model_tree(md['expr'][0])
        for rho in envs:
            try:
                a = ph.plain(mt, rho)
                b = ph.plain(o[1], rho)
            except (X.Unsupported, ZeroDivisionError, OverflowError, KeyError, X.Inconsistent):
                continue
            if isinstance(a, bool) or isinstance(b, bool):
                if a != b:
                    return '%s: result truth value differs: model %s, implementation %s' % (where, a, b)
            elif not near(a, b, absolute=mpmath.mpf(10) ** -11 * leaf_size(o[1], rho) ** 2):
                return '%s: result value differs: model %s, implementation %s' % (where, mpmath.nstr(a, 15), mpmath.nstr(b, 15))
    return None


def oracle(case, obs):
    if 'skip' in obs:
        return []
    ctx = case['ctx']
    sem = U.oracle_family(ctx['family'], ['ok'] * len(ctx['family']['defs']))
    ph = X.Phys(ctx, sem)
    envs = X.sample_env(rng_for(case.get('seed', 0), 'env'), ctx, 3)
    fails = []
    for r in obs['results']:
        if 'tree' not in r:
            continue
        t, o, tgt = r['tree'], r['out'], r['target']
        is_eq = isinstance(t, list) and t[0] == 'rel' and t[1] == 'Eq'
        # what the original means
        phys_ok, dims = True, None
        vals = []
        for rho in envs:
            try:
                if is_eq:
                    l, r_ = ph.phys(t[2], rho), ph.phys(t[3], rho)
                    if l[1] != r_[1]:
                        raise X.Inconsistent('sides of different dimensions')
                    vals.append((rho, None, l[1]))
                else:
                    v, d = ph.phys(t, rho)
                    vals.append((rho, v, d))
                    dims = d
            except X.Inconsistent:
                phys_ok = False
                break
            except (X.Unsupported, ZeroDivisionError, OverflowError, KeyError, ValueError):
                continue
        tsem = None if tgt is None else U.sem_of(sem, [tuple(x) for x in tgt])
        if o[0] == 'err':
            if o[1] not in UNIT_ERRORS:
                fails.append({'key': 'non-UnitError:' + o[1] + ('' if magnitude_trigger(t, o[1]) else ':unexplained'),
                              'detail': '%s -> %s raised %s' % (json.dumps(t)[:300], tgt, o[1])})
            continue
        if not phys_ok:
            fails.append({'key': 'converted-invalid', 'detail': '%s is dimensionally invalid but a result was returned'
                          % json.dumps(t)[:400]})
            continue
        if tsem is not None and dims is not None and U.physical_dims(dims) != U.physical_dims(tsem.dims):
            fails.append({'key': 'converted-to-wrong-dimension',
                          'detail': '%s converted to %s of another dimension' % (json.dumps(t)[:300], tgt)})
            continue
        rtree, same, strict = o[1], o[2], o[3]
        # (b) strict inference of the result (Max/Min and bare truth values are outside the property's operator list)
        if 'fnN' in heads(t) or t in ('tt', 'ff') or (isinstance(t, list) and t[0] in ('and', 'or', 'not') or
                                                      (isinstance(t, list) and t[0] == 'rel' and not is_eq)):
            continue
        if strict[0] == 'err':
            if strict[1] in UNIT_ERRORS:
                key = 'result-fails-strict-inference'
                if has_bool_cond(t):
                    key += ':boolean-condition'
                fails.append({'key': key, 'detail': '%s -> %s: evaluate_units(result) raised %s; result %s'
                              % (json.dumps(t)[:300], tgt, strict[1], json.dumps(rtree)[:300])})
            elif not magnitude_trigger(rtree, strict[1]):
                fails.append({'key': 'non-UnitError:' + strict[1] + ':unexplained',
                              'detail': 'evaluate_units(result) raised %s for %s' % (strict[1], json.dumps(rtree)[:300])})
        elif strict[2] is False and tsem is not None and not is_eq:
            # judge equivalence ourselves from the base-unit expansion: is_equivalent() is exact on float exponents, and a
            # non-dyadic exponent (2.54 * (1/2.54)) leaves float noise that is outside the exact model
            import re
            f, dd = U.parse_base_format(strict[1])
            wantd = {re.sub(r'^\[\d+:(.*)\]$', r'\1', U.PINT_BASE.get(k, k)): v for k, v in tsem.dims.items()}
            if not U.close(f, tsem.scale, 1e-9) or not U.dims_close(dd, wantd):
                fails.append({'key': 'result-not-in-target-unit', 'detail': '%s -> %s: result is in %s'
                              % (json.dumps(t)[:300], tgt, strict[1])})
        elif strict[2] is False and is_eq:
            fails.append({'key': 'equation-sides-not-equivalent', 'detail': '%s: after conversion the two sides are in '
                          'different units (%s)' % (json.dumps(t)[:300], strict[1])})
        # (a) value
        if not is_eq and strict[0] == 'ok':
            rscale = tsem.scale if tsem is not None else mpmath.mpf(U.parse_base_format(strict[1])[0])
            for rho, v, d in vals:
                try:
                    got = ph.plain(rtree, rho)
                except (X.Unsupported, ZeroDivisionError, OverflowError, KeyError, X.Inconsistent):
                    continue
                if not near(got * rscale, v * 1, absolute=mpmath.mpf(10) ** -11 * leaf_size(rtree, rho) ** 2 * rscale):
                    key = 'value-changed'
                    h = heads(t)
                    if 'floor' in h or 'ceil' in h:
                        key += ':floor-ceil'
                    elif has_bool_cond(t):
                        key += ':boolean-condition'
                    fails.append({'key': key, 'detail': '%s -> %s: physical value %s, result reads %s (x scale %s); result %s'
                                  % (json.dumps(t)[:300], tgt, mpmath.nstr(v, 12), mpmath.nstr(got * rscale, 12),
                                     mpmath.nstr(rscale, 6), json.dumps(rtree)[:300])})
                    break
        # (c) the very same object when no conversion is needed
        if not same and rtree == t:
            fails.append({'key': 'identity' + (':mul-explicit-target' if isinstance(t, list) and t[0] == 'mul' and tgt else ''),
                          'detail': '%s -> %s: nothing was converted but a different object was returned'
                          % (json.dumps(t)[:300], tgt)})
    return fails[:6]


def near(a, b, rel=1e-9, absolute=1e-20):
    a, b = mpmath.mpf(a), mpmath.mpf(b)
    return abs(a - b) <= rel * max(abs(a), abs(b)) or abs(a - b) <= absolute


def leaf_size(t, rho):
    """largest magnitude among the numeric leaves and variable values: sums may cancel to 0, and the float conversion
    factors then leave noise of this size times 1e-16"""
    m = mpmath.mpf(1)
    if isinstance(t, list) and t:
        if t[0] == 'qty':
            return max(m, abs(mpmath.mpf(Fraction(t[1]).numerator) / Fraction(t[1]).denominator))
        if t[0] == 'cf':
            return max(m, U.scale_value(['scale'] + t[1]))
        if t[0] == 'var':
            return max(m, abs(rho.get(t[1], 1)))
        for x in t[1:]:
            m = max(m, leaf_size(x, rho))
    return m


def has_bool_cond(t):
    """a piecewise condition that is an And/Or of relations (never recursed into by the converter)"""
    if isinstance(t, list) and t:
        if t[0] == 'ite' and isinstance(t[1], list) and t[1][0] in ('and', 'or', 'not'):
            return True
        if t[0] in ('qty', 'cf'):
            return False
        return any(has_bool_cond(x) for x in t[1:])
    return False


def nontrivial(case, obs):
    return 'results' in obs and sum(1 for r in obs['results'] if 'out' in r and
                                    (r['out'][0] == 'err' or r['out'][1] != r['tree'])) >= 5


def tag(case, obs):
    if 'skip' in obs:
        return 'family-rejected'
    k = {}
    for r in obs['results']:
        if 'out' in r:
            kk = ('converted' if r['out'][1] != r['tree'] else 'unchanged') if r['out'][0] == 'ok' else r['out'][1]
            k[kk] = k.get(kk, 0) + 1
    return ' '.join('%s=%d' % kv for kv in sorted(k.items()))


MANIFEST = {
    'technique': ('Lean 4 theorems by induction over one expression type with two semantics (plain arithmetic / physical '
                  'quantity) over an arbitrary ordered field + differential correspondence of the executable model'),
    'text': ('Proved in Lean for every registry, variable environment, expression (no bound on size or depth), target or '
             'none, and every valuation of variables and derivatives (lean/Cellml/Props/C05.lean, 62 theorems; helpers in '
             'Expr/Semantics.lean, Expr/ConvertLemmas.lean; standard axioms only). FULL STRENGTH: maybeConv_spec / '
             'maybeConv_value (what maybe_convert_expr returns; it preserves magnitude x SI scale and the dimension; '
             'UnitConversionError iff dimensions differ); convert_target (with a target the reported unit IS the target; '
             'relations, functions, And/Or/Not, numbers accept only dimensionless); (a) convert_value / convert_cond / '
             'convert_preserves: the result read as plain numbers in the reported unit is the physical quantity the '
             'original denotes, a converted condition has the truth value of the physical comparison - all operators '
             '(+, *, ** with the exponent evaluated by float(), abs, functions, Max/Min, Piecewise, relations, And/Or/Not, '
             'derivatives, numbers); (c) convert_identity: was_converted false <=> same object returned, and then the '
             'expression is unchanged (after the repair 9bfe738; pre-fix branch kept with its proved counterexample '
             'mulToday_not_identical); convert_ok_valid / convert_rejects: a successful conversion certifies that the '
             'expression denotes a physical quantity, so every dimensionally invalid expression (clash anywhere inside '
             'it, non-dimensionless function or exponent argument, unreachable target) raises; convert_error_class: only '
             'the five documented UnitError classes, pint UndefinedUnitError for unknown unit names, or the two '
             'unsupported situations. PARTIAL: (b) convert_strict_partial - strict inference (traverse) of the result '
             'succeeds with an is_equivalent unit or stops with a Python arithmetic exception on magnitudes, never a '
             'UnitError - for the fragment strictFrag (everything with a unit except oo/nan, exponents = products of '
             'numeric leaves) and units in a class on which factor one implies is_equivalent (instance dimClass: no '
             'dimensionless root unit, registry with distinct base dimensions - checked by decide for the built-in '
             'registry); for radian clause (b) is false in cellmlmanip (radian_not_strict, same root cause as the known '
             'finding of C07). floor/ceiling have no scale-independent meaning: excluded from (a), proved counterexample '
             'floor_value_changes (known finding, pinned by the repo tests). The model is tied to units.py by the seeded '
             'correspondence: random unit families and expressions through convert_expression_recursively, comparing '
             'outcome class, result tree, object identity, strict inference of the result and the value at sample '
             'points; an independent physical-value oracle searches for failing inputs.'),
    'note': ('Trusted: Lean kernel; propext, Classical.choice, Quot.sound; the correspondence harness; pint 0.18 and SymPy '
             'are modelled, not verified. The semantic parameters are HYPOTHESES of the theorems (fields of Sem.Interp), '
             'not axioms: phi (meaning of a scale) positive, multiplicative, invariant under equivalence; pw (rational '
             'power) covariant under positive rescaling, pw x n = x^n for integers; exp/log/sin... and Max/Min '
             'uninterpreted. Intended instance: the reals with real powers; a (degenerate) instance over Rat is exhibited '
             '(Sem.ratInterp). A Piecewise with no applicable piece is given the value 0 on both sides (SymPy: nan, '
             'absorbing under the factor). Floating-point rounding and the 1e-9 tolerance are outside the exact model.'),
}
