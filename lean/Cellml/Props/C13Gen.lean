import Cellml.Props.C13
import Cellml.Tie.Cmeta
import Cellml.Tie.CmetaQ
import Cellml.Tie.ModelState
import Cellml.Tie.ConnLoop

/-! # C13, stated about the GENERATED code

    `Props/C13.lean` proves its theorems about the hand model (`astep` / `arun`, the lookups `getVariableByCmetaId`,
    `byRdf`, `byTerm`, the loader loop `Load.connect`). Here the same statements are made about the definitions GENERATED
    from the python source (`Generated/Code/Cmeta.lean`, `CmetaQ.lean`, `ModelState.lean`, `ConnLoop.lean`) and proved
    as corollaries through the ties (`Tie/Cmeta.lean`, `Tie/CmetaQ.lean`, `Tie/ModelState.lean`, `Tie/ConnLoop.lean`).

    * `GAOp` / `genAStep` / `genARun`: a python call with all its arguments, run by the generated code.
    * `Dom`: the domain hypotheses of the ties that `AInv` does not give (variables handed to `remove_variable`,
      `add_cmeta_id`, `transfer_cmeta_id` are variables of the model; the `DerivShape` fits the order of the lhs).
    * `GAOp.hand`: the calls with no generated definition in the packages named in the task (`create_quantity`, graph /
      role queries, `rdf.add`, `convert_variable`, the loader's mover on the API model) — run by the hand model, NOT
      covered here. `Dom` restricts `hand` to exactly those.
    * `genConnectLoop`: the `while connections_to_process:` loop over the generated body, recursing on the hand model's
      termination measure. -/

namespace Cellml.Props.C13Gen
open Model
open Cellml.Tie (PyErr errClass)
open Cellml.Tie.PCmeta (UnitArg IdArg RdfArg ofOutcome mErrCls lErrCls ofLookup ofObj)
open Cellml.Tie.PModelState (DerivShape)
open Cellml.Gen

-- ================================================================================================ one call, histories
/-- one python call on a `Model` object with its RDF store, with all its arguments -/
inductive GAOp
  | addVariable (name : String) (units : UnitArg) (init : Option Rat) (pub priv cmeta : Option String)
  | removeVariable (v : Nat)
  | addCmetaId (v : Nat)
  | transferCmetaId (src dst : Nat)
  | addEquation (shape : DerivShape) (e : Eqn)
  | removeEquation (e : Eqn)
  | hand (op : AOp)

def GAOp.toAOp : GAOp → AOp
  | .addVariable n _ i _ _ c => .base (.addVariable n c i)
  | .removeVariable v => .base (.removeVariable v)
  | .addCmetaId v => .base (.addCmetaId v)
  | .transferCmetaId a b => .base (.transferCmetaId a b)
  | .addEquation _ e => .base (.addEquation e)
  | .removeEquation e => .base (.removeEquation e)
  | .hand op => op

/-- the calls that have no generated definition here -/
def isHand : AOp → Bool
  | .base (.addVariable _ _ _) => false
  | .base (.removeVariable _) => false
  | .base (.addCmetaId _) => false
  | .base (.transferCmetaId _ _) => false
  | .base (.addEquation _) => false
  | .base (.removeEquation _) => false
  | _ => true

/-- a step of the hand model as a python result -/
def pyStep (r : AState × Outcome) : Except PyErr Unit × AState := (ofOutcome r.2, r.1)

/-- **one API call, run by the generated code** -/
def genAStep (a : AState) : GAOp → Except PyErr Unit × AState
  | .addVariable n u i pu pr c => ((Cmeta.addVariable n u i pu pr c a).1.map (fun _ => ()), (Cmeta.addVariable n u i pu pr c a).2)
  | .removeVariable v => Cmeta.removeVariable v a
  | .addCmetaId v => Cmeta.addCmetaId v a
  | .transferCmetaId s d => Cmeta.transferCmetaId s d a
  | .addEquation sh e => (((ModelState.addEquation sh e true).run a.m).1, { a with m := ((ModelState.addEquation sh e true).run a.m).2 })
  | .removeEquation e => (((ModelState.removeEquation e).run a.m).1, { a with m := ((ModelState.removeEquation e).run a.m).2 })
  | .hand op => pyStep (astep a op)

def genARun (mc : Option String) (ops : List GAOp) : AState := ops.foldl (fun a g => (genAStep a g).2) (ainit mc)

def Dom (a : AState) : GAOp → Prop
  | .addVariable _ _ _ _ _ _ => True
  | .removeVariable v => isLive a.m v = true
  | .addCmetaId v => isLive a.m v = true
  | .transferCmetaId s d => isLive a.m s = true ∧ isLive a.m d = true
  | .addEquation sh e => ∀ st t o, e.lhs = .deriv st t o → sh.ok o
  | .removeEquation _ => True
  | .hand op => isHand op = true

def HistDomFrom : AState → List GAOp → Prop
  | _, [] => True
  | a, g :: r => Dom a g ∧ HistDomFrom (genAStep a g).2 r

def HistDom (mc : Option String) (ops : List GAOp) : Prop := HistDomFrom (ainit mc) ops

theorem outcome_eq (r : MState × Outcome) (h : r.2 ≠ .raised .cmetaFuel) :
    Cellml.Tie.PModelState.outcome () r = (ofOutcome r.2, r.1) := by
  obtain ⟨s, o⟩ := r
  cases o with
  | ok => rfl
  | raised e => cases e <;> first | rfl | exact absurd rfl h

theorem addEquationCore_noFuel (s : MState) (e : Eqn) (c : Bool) : (addEquationCore s e c).2 ≠ .raised .cmetaFuel := by
  unfold addEquationCore
  split
  · split
    · simp
    · split <;> simp
  · split <;> simp
  · simp

theorem removeEquation_noFuel (s : MState) (e : Eqn) : (removeEquation s e).2 ≠ .raised .cmetaFuel := by
  unfold removeEquation
  split
  · simp
  · split
    · split <;> simp
    · split <;> simp
    · simp

/-- **the generated code and the hand model make the same call** (outcome class and the whole annotated state, also at a
    raise) on every state satisfying the invariant, for every call in the domain of the ties -/
theorem genAStep_eq (a : AState) (h : AInv a) (g : GAOp) (hd : Dom a g) : genAStep a g = pyStep (astep a g.toAOp) := by
  cases g with
  | addVariable n u i pu pr c =>
    show (_, _) = _
    rw [Cellml.Tie.PCmeta.astep_addVariable a n u i pu pr c h.inv.reg.liveBound]
    simp only [pyStep, GAOp.toAOp]
    cases (astep a (.base (.addVariable n c i))).2 <;> rfl
  | removeVariable v => exact Cellml.Tie.PCmeta.astep_removeVariable a v hd h.inv.reg.namesNodup
  | addCmetaId v => exact Cellml.Tie.PCmeta.astep_addCmetaId a v hd
  | transferCmetaId s d =>
    exact Cellml.Tie.PCmeta.astep_transferCmetaId a s d hd.1 hd.2 (h.inv.reg.liveBound d (by simpa [isLive] using hd.2))
  | addEquation sh e =>
    show (_, _) = _
    rw [Cellml.Tie.PModelState.addEquation_tie a.m e true sh hd, outcome_eq _ (addEquationCore_noFuel a.m e true)]
    rfl
  | removeEquation e =>
    show (_, _) = _
    rw [Cellml.Tie.PModelState.removeEquation_tie a.m e, outcome_eq _ (removeEquation_noFuel a.m e)]
    rfl
  | hand op => rfl

theorem genARun_from (ops : List GAOp) : ∀ (a : AState), AInv a → HistDomFrom a ops →
    ops.foldl (fun a g => (genAStep a g).2) a = (ops.map GAOp.toAOp).foldl (fun a op => (astep a op).1) a := by
  induction ops with
  | nil => intro a _ _; rfl
  | cons g r ih =>
    intro a h hd
    simp only [List.foldl_cons, List.map_cons]
    have e : (genAStep a g).2 = (astep a g.toAOp).1 := by rw [genAStep_eq a h g hd.1]; rfl
    have hd2 := hd.2
    rw [e] at hd2 ⊢
    exact ih _ (ainv_step h g.toAOp) hd2

theorem genARun_eq (mc : Option String) (ops : List GAOp) (hd : HistDom mc ops) :
    genARun mc ops = arun mc (ops.map GAOp.toAOp) :=
  genARun_from ops (ainit mc) (ainv_init mc) hd

/-- `C13.ainv_reachable` for the generated code -/
theorem ainv_reachable (mc : Option String) (ops : List GAOp) (hd : HistDom mc ops) : AInv (genARun mc ops) := by
  rw [genARun_eq mc ops hd]; exact C13.ainv_reachable mc _

/-- `C13.bij_reachable` for the generated code: after every history of python calls run by the generated definitions,
    the cmeta ids and the live variables are in bijection -/
theorem bij_reachable (mc : Option String) (ops : List GAOp) (hd : HistDom mc ops) : Bij (genARun mc ops).m := by
  rw [genARun_eq mc ops hd]; exact C13.bij_reachable mc _

/-- … and the generated `has_cmeta_id` says so (`Bij.has_iff` through the generated query) -/
theorem hasCmetaId_reachable (mc : Option String) (ops : List GAOp) (hd : HistDom mc ops) (c : String) :
    CmetaQ.hasCmetaId (genARun mc ops) (some c) = .ok true ↔
      ((genARun mc ops).m.modelCmeta = some c ∨ ∃ i ∈ (genARun mc ops).m.live, cmetaOf (genARun mc ops).m i = some c) := by
  rw [Cellml.Tie.PCmeta.hasCmetaId_tie, ← (bij_reachable mc ops hd).has_iff c]
  constructor
  · intro h; injection h
  · intro h; rw [h]

-- ================================================================================================ lookups
theorem ofLookup_ok_iff (o : Option Nat) (v : Nat) : ofLookup o = .ok v ↔ o = some v := by
  cases o <;> simp [ofLookup]

theorem ofLookup_err_iff (o : Option Nat) : ofLookup o = .error ⟨"KeyError"⟩ ↔ o = none := by
  cases o <;> simp [ofLookup]

theorem errClass_ok_iff {ε α} (cls : ε → String) (x : Except ε α) (v : α) : errClass cls x = .ok v ↔ x = .ok v := by
  cases x <;> simp [errClass]

/-- `C13.lookup_id` for the generated `get_variable_by_cmeta_id`, called with a plain string … -/
theorem lookup_id (a : AState) (h : AInv a) (c : String) :
    CmetaQ.getVariableByCmetaId a (.str c) = ofLookup (carrierOf a.m c) ∧
    (∀ v, CmetaQ.getVariableByCmetaId a (.str c) = .ok v ↔ (v ∈ a.m.live ∧ cmetaOf a.m v = some c)) ∧
    (CmetaQ.getVariableByCmetaId a (.str c) = .error ⟨"KeyError"⟩ ↔ ∀ i ∈ a.m.live, cmetaOf a.m i ≠ some c) := by
  obtain ⟨h1, h2, h3⟩ := C13.lookup_id a h c
  rw [Cellml.Tie.PCmeta.getVariableByCmetaId_str]
  refine ⟨by rw [h1], fun v => ?_, ?_⟩
  · rw [ofLookup_ok_iff]; exact h2 v
  · rw [ofLookup_err_iff]; exact h3

/-- … and with the `URIRef('#' + c)` that `rdf.subjects` yields -/
theorem lookup_id_uri (a : AState) (h : AInv a) (c : String) :
    CmetaQ.getVariableByCmetaId a (.uriRef ("#" ++ c)) = ofLookup (carrierOf a.m c) ∧
    (∀ v, CmetaQ.getVariableByCmetaId a (.uriRef ("#" ++ c)) = .ok v ↔ (v ∈ a.m.live ∧ cmetaOf a.m v = some c)) ∧
    (CmetaQ.getVariableByCmetaId a (.uriRef ("#" ++ c)) = .error ⟨"KeyError"⟩ ↔ ∀ i ∈ a.m.live, cmetaOf a.m i ≠ some c) := by
  obtain ⟨h1, h2, h3⟩ := C13.lookup_id a h c
  rw [Cellml.Tie.PCmeta.getVariableByCmetaId_uri]
  refine ⟨by rw [h1], fun v => ?_, ?_⟩
  · rw [ofLookup_ok_iff]; exact h2 v
  · rw [ofLookup_err_iff]; exact h3

/-- `C13.lookup_rdf` for the generated `get_variables_by_rdf(predicate, object_)` (`sort=True`), predicate a URI node,
    object `None` or a node -/
theorem lookup_rdf (a : AState) (h : AInv a) (p : String) (o : Option RNode) :
    CmetaQ.getVariablesByRdf a (.node (.uri p)) (ofObj o) true = errClass lErrCls (byRdfSpec a p o) ∧
    (∀ vs, CmetaQ.getVariablesByRdf a (.node (.uri p)) (ofObj o) true = .ok vs →
      vs.length = (a.rdf.filter (tripleMatches p o)).length ∧
      (∀ v, v ∈ vs ↔ v ∈ a.m.live ∧ ∃ t ∈ a.rdf, tripleMatches p o t = true ∧ cmetaOf a.m v = some t.subj) ∧
      vs.Pairwise (fun x y => orderOf a.m x ≤ orderOf a.m y)) ∧
    (∀ e : PyErr, CmetaQ.getVariablesByRdf a (.node (.uri p)) (ofObj o) true = .error e ↔
      (e = ⟨"KeyError"⟩ ∧ ∃ t ∈ a.rdf, tripleMatches p o t = true ∧ ∀ i ∈ a.m.live, cmetaOf a.m i ≠ some t.subj)) := by
  obtain ⟨h1, h2, h3⟩ := C13.lookup_rdf a h p o
  rw [Cellml.Tie.PCmeta.getVariablesByRdf_tie]
  refine ⟨by rw [h1], fun vs hv => h2 vs ((errClass_ok_iff _ _ _).mp hv), fun e => ?_⟩
  constructor
  · intro he
    cases hb : byRdf a p o with
    | ok vs => rw [hb] at he; simp [errClass] at he
    | error e' =>
      obtain ⟨rfl, hex⟩ := (h3 e').mp hb
      rw [hb] at he
      simp only [errClass, lErrCls, Except.error.injEq] at he
      exact ⟨he.symm, hex⟩
  · rintro ⟨rfl, hex⟩
    rw [(h3 .keyError).mpr ⟨rfl, hex⟩]
    rfl

/-- the unsorted call returns the same variables in triple order (`getVariablesByRdf_unsorted`); for arbitrary
    arguments the generated function sees them only through `create_rdf_node` (`getVariablesByRdf_args`) -/
theorem lookup_rdf_args (a : AState) (p o : RdfArg) (s : Bool) :
    CmetaQ.getVariablesByRdf a p o s
      = CmetaQ.getVariablesByRdf a (Cellml.Tie.PCmeta.createRdfNode p) (Cellml.Tie.PCmeta.createRdfNode o) s :=
  Cellml.Tie.PCmeta.getVariablesByRdf_args a p o s

/-- `C13.lookup_term` for the generated `get_variable_by_ontology_term` -/
theorem lookup_term (a : AState) (h : AInv a) (term : RNode) :
    (∀ v, CmetaQ.getVariableByOntologyTerm a (.node term) = .ok v ↔
      ∃ c, a.rdf.filter (tripleMatches bqbiolIs (some term)) = [⟨c, bqbiolIs, term⟩] ∧ v ∈ a.m.live ∧
        cmetaOf a.m v = some c) ∧
    (a.rdf.filter (tripleMatches bqbiolIs (some term)) = [] →
      CmetaQ.getVariableByOntologyTerm a (.node term) = .error ⟨"KeyError"⟩) ∧
    (∀ v, CmetaQ.getVariableByOntologyTerm a (.node term) = .ok v → localName term.text ∈ termsOf a v none) := by
  obtain ⟨h1, h2, h3⟩ := C13.lookup_term a h term
  rw [Cellml.Tie.PCmeta.getVariableByOntologyTerm_tie]
  refine ⟨fun v => ?_, fun hf => ?_, fun v hv => h3 v ((errClass_ok_iff _ _ _).mp hv)⟩
  · rw [errClass_ok_iff]; exact h1 v
  · rw [h2 hf]; rfl

-- ================================================================================================ edits
/-- `C13.addCmetaId_fresh` for the generated `add_cmeta_id`: it returns; the id is the first free candidate — free as
    the generated `has_cmeta_id` sees it; afterwards the generated `get_variable_by_cmeta_id` finds `v` by it -/
theorem addCmetaId_fresh (a : AState) (h : AInv a) (v : Nat) (hv : v ∈ a.m.live) (hc : cmetaOf a.m v = none) :
    ∃ (c : String) (k : Nat), c = cand ((nameOfVar a.m v).replace "$" "__") k ∧
      (∀ j, j < k → CmetaQ.hasCmetaId a (some (cand ((nameOfVar a.m v).replace "$" "__") j)) = .ok true) ∧
      CmetaQ.hasCmetaId a (some c) = .ok false ∧ a.m.modelCmeta ≠ some c ∧ (∀ i ∈ a.m.live, cmetaOf a.m i ≠ some c) ∧
      (Cmeta.addCmetaId v a).1 = .ok () ∧
      (∀ i, cmetaOf (Cmeta.addCmetaId v a).2.m i = if i = v then some c else cmetaOf a.m i) ∧
      (Cmeta.addCmetaId v a).2.m.live = a.m.live ∧
      (Cmeta.addCmetaId v a).2.rdf = a.rdf ∧
      CmetaQ.getVariableByCmetaId (Cmeta.addCmetaId v a).2 (.str c) = .ok v := by
  have hl : isLive a.m v = true := by simpa [isLive] using hv
  obtain ⟨c, k, he, hall, hfree, hnm, hnl, hok, hcm, hlive, hlook⟩ := C13.addCmetaId_fresh a h v hv hc
  have ht := Cellml.Tie.PCmeta.astep_addCmetaId a v hl
  refine ⟨c, k, he, fun j hj => ?_, ?_, hnm, hnl, ?_, ?_, ?_, ?_, ?_⟩
  · rw [Cellml.Tie.PCmeta.hasCmetaId_tie, hall j hj]
  · rw [Cellml.Tie.PCmeta.hasCmetaId_tie, hfree]
  · rw [ht, hok]; rfl
  · rw [ht]; exact hcm
  · rw [ht]; exact hlive
  · rw [ht]; rfl
  · rw [ht, Cellml.Tie.PCmeta.getVariableByCmetaId_str]
    show ofLookup (getVariableByCmetaId (astep a (.base (.addCmetaId v))).1.m c) = _
    rw [hlook]; rfl

/-- `C13.transfer_moves` for the generated `transfer_cmeta_id` (and the generated lookups after it) -/
theorem transfer_moves (a : AState) (h : AInv a) (src dst : Nat) (hs : src ∈ a.m.live) (hd : dst ∈ a.m.live) :
    ((cmetaOf a.m src = none ∨ (cmetaOf a.m dst).isSome = true) →
      Cmeta.transferCmetaId src dst a = (.error ⟨"ValueError"⟩, a)) ∧
    (∀ c, cmetaOf a.m src = some c → cmetaOf a.m dst = none →
      (Cmeta.transferCmetaId src dst a).1 = .ok () ∧
      (∀ i, cmetaOf (Cmeta.transferCmetaId src dst a).2.m i =
        if i = src then none else if i = dst then some c else cmetaOf a.m i) ∧
      (Cmeta.transferCmetaId src dst a).2.m.live = a.m.live ∧
      (Cmeta.transferCmetaId src dst a).2.rdf = a.rdf ∧
      CmetaQ.getVariableByCmetaId (Cmeta.transferCmetaId src dst a).2 (.str c) = .ok dst ∧
      (∀ term, CmetaQ.getVariableByOntologyTerm a (.node term) = .ok src →
        CmetaQ.getVariableByOntologyTerm (Cmeta.transferCmetaId src dst a).2 (.node term) = .ok dst)) := by
  have hls : isLive a.m src = true := by simpa [isLive] using hs
  have hld : isLive a.m dst = true := by simpa [isLive] using hd
  have ht := Cellml.Tie.PCmeta.astep_transferCmetaId a src dst hls hld (h.inv.reg.liveBound dst hd)
  obtain ⟨m1, m2⟩ := C13.transfer_moves a h src dst hs hd
  constructor
  · intro hx
    rw [ht, m1 hx]; rfl
  · intro c hcs hcd
    obtain ⟨t1, t2, t3, t4, t5, t6⟩ := m2 c hcs hcd
    refine ⟨by rw [ht, t1]; rfl, by rw [ht]; exact t2, by rw [ht]; exact t3, by rw [ht]; exact t4, ?_, ?_⟩
    · rw [ht, Cellml.Tie.PCmeta.getVariableByCmetaId_str]
      show ofLookup (getVariableByCmetaId (astep a (.base (.transferCmetaId src dst))).1.m c) = _
      rw [t5]; rfl
    · intro term hterm
      rw [Cellml.Tie.PCmeta.getVariableByOntologyTerm_tie, errClass_ok_iff] at hterm
      rw [ht, Cellml.Tie.PCmeta.getVariableByOntologyTerm_tie, errClass_ok_iff]
      exact t6 term hterm

-- ================================================================================================ loading
/-- the termination measure of the hand model's `Load.connectLoop` decreases from `(dq, unch)` to `(dq', unch')` -/
def Decreases (dq' : List (Load.VRef × Load.VRef)) (unch' : Nat) (dq : List (Load.VRef × Load.VRef)) (unch : Nat) : Prop :=
  dq'.length < dq.length ∨ (dq'.length = dq.length ∧ dq'.length + 1 - unch' < dq.length + 1 - unch)

instance (dq' : List (Load.VRef × Load.VRef)) (unch' : Nat) (dq : List (Load.VRef × Load.VRef)) (unch : Nat) :
    Decidable (Decreases dq' unch' dq unch) := by unfold Decreases; infer_instance

/-- **the `while connections_to_process:` loop of `Parser._add_connections` over the GENERATED body**
    (`ConnLoop.addConnectionsBody`): stop on the empty deque, otherwise run the generated body and continue from the
    loop state it returns. The recursion is on the hand model's termination measure; a body that did not decrease it
    would be answered `NonTermination` (python: an endless loop) — `genConnectLoop_eq` shows this never happens. -/
def genConnectLoop (reg : Registry) (vt : Load.VarTable) (dq : List (Load.VRef × Load.VRef)) (unch : Nat)
    (st : Load.CState) : Except PyErr Load.CState :=
  match dq with
  | [] => .ok st
  | c :: rest =>
    match ConnLoop.addConnectionsBody (Cellml.Tie.connLoopView reg vt) (c :: rest) unch st with
    | .error e => .error e
    | .ok (dq', unch', st') =>
      if Decreases dq' unch' (c :: rest) unch then genConnectLoop reg vt dq' unch' st'
      else .error ⟨"NonTermination"⟩
termination_by (dq.length, dq.length + 1 - unch)
decreasing_by
  rename_i hdec
  rcases hdec with h | ⟨h1, h2⟩
  · exact Prod.Lex.left _ _ h
  · rw [h1] at h2 ⊢; exact Prod.Lex.right _ h2

/-- `_add_connections` after the directions are known, over the generated loop body -/
def genConnect (reg : Registry) (vt : Load.VarTable) (l : List (Load.VRef × Load.VRef)) : Except PyErr Load.CState :=
  genConnectLoop reg vt l 0 (Load.initState vt)

/-- the closed loop over the generated body IS the hand model's loop (result and exception class), from every loop state
    that satisfies the loop's own assertion `unchanged_loop_count <= len(connections_to_process)` -/
theorem genConnectLoop_eq (reg : Registry) (vt : Load.VarTable) (dq : List (Load.VRef × Load.VRef)) (unch : Nat)
    (h : unch ≤ dq.length) (st : Load.CState) :
    genConnectLoop reg vt dq unch st = errClass Load.Err.className (Load.connectLoop reg vt dq unch h st) := by
  fun_induction Load.connectLoop reg vt dq unch h st with
  | case1 unch st h _ => unfold genConnectLoop; rfl
  | case2 unch st c rest h e hstep _ =>
    unfold genConnectLoop
    rw [Cellml.Tie.connLoop_body_tie]
    simp [Cellml.Tie.modelIter, hstep, errClass]
  | case3 unch st c rest h hstep hlt _ ih =>
    unfold genConnectLoop
    rw [Cellml.Tie.connLoop_body_tie]
    simp only [Cellml.Tie.modelIter, hstep, if_pos hlt]
    have hdec : Decreases (rest ++ [c]) (unch + 1) (c :: rest) unch := by
      have e1 : (rest ++ [c]).length = rest.length + 1 := by simp
      have e2 : (c :: rest).length = rest.length + 1 := by simp
      have hlt' := hlt
      rw [e1] at hlt'
      unfold Decreases
      rw [e1, e2]
      omega
    rw [if_pos hdec]
    exact ih
  | case4 unch st c rest h hstep hlt _ =>
    unfold genConnectLoop
    rw [Cellml.Tie.connLoop_body_tie]
    simp only [Cellml.Tie.modelIter, hstep, if_neg hlt]
    rfl
  | case5 unch st c rest h st' hstep _ ih =>
    unfold genConnectLoop
    rw [Cellml.Tie.connLoop_body_tie]
    simp only [Cellml.Tie.modelIter, hstep]
    have hdec : Decreases rest 0 (c :: rest) unch := by left; simp
    rw [if_pos hdec]
    exact ih

theorem genConnect_eq (reg : Registry) (vt : Load.VarTable) (l : List (Load.VRef × Load.VRef)) :
    genConnect reg vt l = errClass Load.Err.className (Load.connect reg vt l) :=
  genConnectLoop_eq reg vt l 0 (Nat.zero_le _) (Load.initState vt)

/-- `C13.load_moves_id` for the loop over the generated body: for every document whose connections the generated loop
    resolves (`genConnect … = ok st`), the ids sit exactly on the homes of the variables they were written on -/
theorem load_moves_id {reg : Registry} {vt : Load.VarTable} {l : List (Load.VRef × Load.VRef)} {st : Load.CState}
    (h : genConnect reg vt l = .ok st) :
    (∀ w c, Load.cmetaOf st w = some c ↔ ∃ v0, Load.docId vt v0 = some c ∧ Load.home st v0 = w) ∧
    (∀ v0 c, Load.docId vt v0 = some c → Load.cmetaOf st (Load.home st v0) = some c) ∧
    (∀ v0, (st.asg v0 = none ∧ Load.home st v0 = v0) ∨
      (st.asg v0 = some (Load.home st v0) ∧ st.asg (Load.home st v0) = some (Load.home st v0) ∧
        ((Load.Src vt (Load.home st v0) ∧ Load.rootOf st v0 = Load.home st v0) ∨
          ∃ e ∈ st.convs, e.target = Load.home st v0))) := by
  rw [genConnect_eq, errClass_ok_iff] at h
  exact C13.load_moves_id h

/-- non-vacuity: the chain document of `Props/C13.lean` resolves under the generated loop, to the same state -/
theorem chain_genConnect : genConnect C13.chainUnits.1 C13.chainVt C13.chainDl = .ok C13.chainSt := by
  rw [genConnect_eq, C13.chain_connect]; rfl

end Cellml.Props.C13Gen
