import Cellml.Generated.Code.SingTrav
import Cellml.C12.Lemmas
import Mathlib.Tactic.SplitIfs

/-! # Tie: `remove_fixable_singularities` (generated from the source) = `C12.traverse` (hand model), and the units the
    re-unit step hangs on the quantities it creates = `C18.creatorRef .fixed _ .singQuantity` -/

namespace Cellml.Tie.Sing
open C12 C12.Expr Cellml.Gen

def keys (env : Env) : List String := env.map (·.1)

theorem envSet_fresh (env : Env) (k : String) (v : Expr) (h : k ∉ keys env) : envSet env k v = (k, v) :: env := by
  unfold envSet
  congr 1
  rw [List.filter_eq_self]
  intro a ha
  have : a.1 ≠ k := fun e => h (e ▸ List.mem_map_of_mem (f := (·.1)) ha)
  simpa using this

theorem envPop_cons (env : Env) (k : String) (v : Expr) (h : k ∉ keys env) : envPop ((k, v) :: env) k = env := by
  unfold envPop
  rw [List.filter_cons]
  simp only [bne_self_eq_false, Bool.false_eq_true, if_false]
  rw [List.filter_eq_self]
  intro a ha
  have : a.1 ≠ k := fun e => h (e ▸ List.mem_map_of_mem (f := (·.1)) ha)
  simpa using this

theorem envGet_cons (env : Env) (k : String) (v : Expr) : envGet ((k, v) :: env) k = v := by
  simp [envGet, lookup]

/-- the unit argument the source computes for a quantity, when `V` is a variable of the model (its `units` is a `Unit`
    of the model's store or of a store sharing its registry): `create_quantity` accepts it and hangs a unit of the store -/
theorem reunit_ok (sid : Nat) (vUnits : C18.UnitArg) (hV : vUnits = .ownUnit ∨ vUnits = .sharedUnit) (e : Expr)
    (cr : List C18.UnitRef) :
    reunit sid (fun q => if q.isONE = true then storeUnit "dimensionless" else vUnits) e cr
      = .ok (e, cr ++ [C18.creatorRef .fixed sid .singQuantity, C18.creatorRef .fixed sid .singQuantity]) := by
  rcases hV with rfl | rfl <;> simp [reunit, storeUnit, C18.createQuantity, C18.creatorRef]

/-- the body of the `for variable in …:` loop as the generated definition has it (state: `Model.equations`, the units
    created so far, `unprocessed_eqs`); `removeFixable_tie` checks that this IS the generated loop body -/
def travBody (sid : Nat) (vUnits : C18.UnitArg) (p : Expr → Bool × Expr) (excl : List String)
    (variable_ : Option Eqn) (__s : List Eqn × List C18.UnitRef × Env) :
    Except PyErr (ForInStep (List Eqn × List C18.UnitRef × Env)) :=
  if (variable_.isSome && !(eqRhs variable_).isPiecewise && !Py.isIn (eqLhs variable_) excl) = true then
    if (p (envGet (envSet __s.2.2 (eqLhs variable_) (subst __s.2.2 (eqRhs variable_))) (eqLhs variable_))).1 = true then
      Except.bind
        (reunit sid (fun q => if q.isONE = true then storeUnit "dimensionless" else vUnits)
          (p (envGet (envSet __s.2.2 (eqLhs variable_) (subst __s.2.2 (eqRhs variable_))) (eqLhs variable_))).2
          __s.2.1) fun v =>
        Except.ok
          (ForInStep.yield
            (removeEq __s.1 (eqLhs variable_) ++ [{ lhs := eqLhs variable_, rhs := v.1 }], v.2,
              envPop (envSet __s.2.2 (eqLhs variable_) (subst __s.2.2 (eqRhs variable_))) (eqLhs variable_)))
    else
      Except.ok (ForInStep.yield (__s.1, __s.2.1, envSet __s.2.2 (eqLhs variable_) (subst __s.2.2 (eqRhs variable_))))
  else Except.ok (ForInStep.yield (__s.1, __s.2.1, __s.2.2))

theorem travBody_none (sid : Nat) (vUnits : C18.UnitArg) (p : Expr → Bool × Expr) (excl : List String)
    (s : List Eqn × List C18.UnitRef × Env) : travBody sid vUnits p excl none s = .ok (.yield s) := by
  simp [travBody]

/-- one iteration on a node with an equation = one `C12.step` -/
theorem travBody_some (sid : Nat) (vUnits : C18.UnitArg) (hV : vUnits = .ownUnit ∨ vUnits = .sharedUnit)
    (p : Expr → Bool × Expr) (excl : List String) (e : Eqn) (eqs : List Eqn) (cr : List C18.UnitRef) (env : Env)
    (hfresh : e.lhs ∉ keys env) :
    ∃ cr', (∀ r ∈ cr', r = C18.creatorRef .fixed sid .singQuantity) ∧
      travBody sid vUnits p excl (some e) (eqs, cr, env)
        = .ok (.yield ((step (fixOf p) excl ⟨eqs, env⟩ e).eqs, cr ++ cr', (step (fixOf p) excl ⟨eqs, env⟩ e).env)) := by
  simp only [travBody, eqLhs, eqRhs, Option.map_some, Option.getD_some, Option.isSome_some, Bool.true_and,
    envSet_fresh env e.lhs _ hfresh, envGet_cons, envPop_cons env e.lhs _ hfresh, reunit_ok sid vUnits hV, Py.isIn, Except.bind]
  unfold step fixOf
  cases h1 : e.rhs.isPiecewise <;> cases h2 : excl.contains e.lhs <;>
    simp only [Bool.not_false, Bool.not_true, Bool.and_self, Bool.and_false, Bool.false_and, Bool.or_self,
      Bool.or_true, Bool.true_or, Bool.false_eq_true, if_false, if_true]
  · by_cases hch : (p (subst env e.rhs)).1 = true
    · refine ⟨[C18.creatorRef .fixed sid .singQuantity, C18.creatorRef .fixed sid .singQuantity], ?_, ?_⟩
      · intro r hr; simpa using hr
      · simp [hch]
    · refine ⟨[], ?_, ?_⟩
      · intro r hr; cases hr
      · simp [hch]
  all_goals
    refine ⟨[], ?_, ?_⟩
    · intro r hr; cases hr
    · simp

/-- the loop of the generated function from an arbitrary state `(eqs, created, unprocessed_eqs)` -/
theorem trav_loop (sid : Nat) (vUnits : C18.UnitArg) (hV : vUnits = .ownUnit ∨ vUnits = .sharedUnit)
    (p : Expr → Bool × Expr) (excl : List String) :
    ∀ (order : List (Option Eqn)) (s : List Eqn × List C18.UnitRef × Env),
      (lhss (order.filterMap id)).Nodup → (∀ k ∈ keys s.2.2, k ∉ lhss (order.filterMap id)) →
      (∀ r ∈ s.2.1, r = C18.creatorRef .fixed sid .singQuantity) →
      ∃ created, (∀ r ∈ created, r = C18.creatorRef .fixed sid .singQuantity) ∧
      forIn order s (travBody sid vUnits p excl)
      = (Except.ok (((order.filterMap id).foldl (step (fixOf p) excl) ⟨s.1, s.2.2⟩).eqs, created,
          ((order.filterMap id).foldl (step (fixOf p) excl) ⟨s.1, s.2.2⟩).env) : Except PyErr _) := by
  intro order
  induction order with
  | nil => intro s _ _ hc; exact ⟨s.2.1, hc, rfl⟩
  | cons o os ih =>
    intro s hn hk hc
    obtain ⟨eqs, cr, env⟩ := s
    cases o with
    | none =>
      simp only [List.filterMap_cons, id] at hn hk ⊢
      rw [List.forIn_cons, travBody_none]
      exact ih (eqs, cr, env) hn hk hc
    | some e =>
      simp only [List.filterMap_cons, id, lhss, List.map_cons, List.nodup_cons] at hn hk
      have hfresh : e.lhs ∉ keys env := fun hmem => (hk _ hmem) (by simp)
      have hk' : ∀ k ∈ keys env, k ∉ lhss (os.filterMap id) := fun k hm hin => hk k hm (List.mem_cons_of_mem _ hin)
      obtain ⟨cr', hcr', hb⟩ := travBody_some sid vUnits hV p excl e eqs cr env hfresh
      rw [List.forIn_cons, hb]
      simp only [List.filterMap_cons, id, List.foldl_cons]
      refine ih (_, cr ++ cr', _) hn.2 ?_ ?_
      · intro k hm
        have hsub : k ∈ keys env ∨ k = e.lhs := by
          simp only [step] at hm
          split_ifs at hm
          · exact Or.inl hm
          · revert hm
            cases fixOf p (subst env e.rhs) <;> simp [keys] <;> tauto
        rcases hsub with h | rfl
        · exact hk' k h
        · exact hn.1
      · intro r hr
        rcases List.mem_append.mp hr with h | h
        · exact hc r h
        · exact hcr' r h

/-- the same with the loop body spelled out (the form the generated definition unfolds to) -/
theorem trav_loop' (sid : Nat) (vUnits : C18.UnitArg) (hV : vUnits = .ownUnit ∨ vUnits = .sharedUnit)
    (p : Expr → Bool × Expr) (excl : List String) (order : List (Option Eqn)) (eqs : List Eqn)
    (hn : (lhss (order.filterMap id)).Nodup) :
    ∃ created, (∀ r ∈ created, r = C18.creatorRef .fixed sid .singQuantity) ∧
      (forIn order (eqs, ([] : List C18.UnitRef), ([] : Env)) fun variable_ __s =>
        if (variable_.isSome && !Py.truthy (eqRhs variable_).isPiecewise && !Py.isIn (eqLhs variable_) excl) = true then
          if Py.truthy (p (envGet (envSet __s.2.2 (eqLhs variable_) (subst __s.2.2 (eqRhs variable_))) (eqLhs variable_))).1 = true then
            Except.bind
              (reunit sid (fun q => if Py.truthy q.isONE = true then storeUnit "dimensionless" else vUnits)
                (p (envGet (envSet __s.2.2 (eqLhs variable_) (subst __s.2.2 (eqRhs variable_))) (eqLhs variable_))).2
                __s.2.1) fun v =>
              Except.ok
                (ForInStep.yield
                  (removeEq __s.1 (eqLhs variable_) ++ [{ lhs := eqLhs variable_, rhs := v.1 }], v.2,
                    envPop (envSet __s.2.2 (eqLhs variable_) (subst __s.2.2 (eqRhs variable_))) (eqLhs variable_)))
          else
            Except.ok (ForInStep.yield (__s.1, __s.2.1, envSet __s.2.2 (eqLhs variable_) (subst __s.2.2 (eqRhs variable_))))
        else Except.ok (ForInStep.yield (__s.1, __s.2.1, __s.2.2)))
      = (Except.ok (((order.filterMap id).foldl (step (fixOf p) excl) ⟨eqs, []⟩).eqs, created,
          ((order.filterMap id).foldl (step (fixOf p) excl) ⟨eqs, []⟩).env) : Except PyErr _) :=
  trav_loop sid vUnits hV p excl order (eqs, [], []) hn (by intro k hk; simp [keys] at hk) (by intro r hr; cases hr)

/-- **Tie of the traversal.** `order`: the nodes of the sorted graph, each with its equation or `None`; every variable
    has at most one equation (`Nodup`, as in a `Model`); `V` a variable of the model. For every `_remove_singularities`
    (`p`), every exclusion list and every list of equations, the function generated from `remove_fixable_singularities`
    never raises, leaves `Model.equations` and `unprocessed_eqs` exactly as the hand model `C12.traverse` says, and every
    quantity it re-creates carries the unit `C18.creatorRef .fixed sid .singQuantity` (= a unit of the model's store). -/
theorem removeFixable_tie (sid : Nat) (vUnits : C18.UnitArg) (hV : vUnits = .ownUnit ∨ vUnits = .sharedUnit)
    (order : List (Option Eqn)) (p : Expr → Bool × Expr) (excl : List String) (eqs : List Eqn)
    (hn : (lhss (order.filterMap id)).Nodup) :
    ∃ created, (∀ r ∈ created, r = C18.creatorRef .fixed sid .singQuantity) ∧
      SingTrav.removeFixableSingularities sid vUnits order (fun e => .ok (p e)) excl eqs
        = .ok ((traverse (fixOf p) excl (order.filterMap id) eqs).eqs,
               (traverse (fixOf p) excl (order.filterMap id) eqs).env, created) := by
  obtain ⟨created, hc, h⟩ := trav_loop' sid vUnits hV p excl order eqs hn
  refine ⟨created, hc, ?_⟩
  unfold SingTrav.removeFixableSingularities traverse
  simp only [Except.bind] at h
  simp only [bind, Except.bind, pure, Except.pure]
  rw [h]

end Cellml.Tie.Sing
