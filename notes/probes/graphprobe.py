"""Scratch probe: get_equations_for on random acyclic systems vs direct checks (C09) and role queries (C10)."""
import random, sys, collections, logging
import sympy as sp, networkx as nx
from cellmlmanip.model import Model, Quantity, Variable
logging.disable(logging.CRITICAL)
seed = int(sys.argv[1]) if len(sys.argv) > 1 else 0; N = int(sys.argv[2]) if len(sys.argv) > 2 else 300
rng = random.Random(seed); finds = collections.defaultdict(list); stats = collections.Counter()
for case in range(N):
    m = Model('m'); dl = 'dimensionless'; Q = m.create_quantity
    n = rng.randint(3, 12)
    names = ['v%02d' % i for i in range(n)]; rng.shuffle(names)
    t = m.add_variable('time', 'second')
    vs = [m.add_variable(nm, dl) for nm in names]
    order = vs[:]; rng.shuffle(order)      # dependency order: order[i] may depend on order[<i]
    nstates = rng.randint(0, max(1, n//3)); states = set(rng.sample(order, nstates))
    for s_ in states: s_.initial_value = float(rng.randint(1, 5))
    truth = {}  # lhs -> set of deps (vars / derivs)
    eqs = []
    for i, v in enumerate(order):
        pool = order[:i] + [x for x in states] + ([t] if states else [])
        derivs = [sp.Derivative(x, t) for x in states if order.index(x) < i]   # deriv of earlier-defined ODE only (avoid cycles)
        k = rng.randint(0, min(3, len(pool)))
        deps = rng.sample(pool, k)
        if derivs and rng.random() < 0.3: deps.append(rng.choice(derivs))
        rhs = Q(float(rng.randint(1,9)), dl)
        vanish = set()
        for d in deps:
            if rng.random() < 0.15: rhs = rhs + Q(0.0, dl)*d; vanish.add(d)      # vanishes after number substitution
            else: rhs = rhs + Q(float(rng.randint(1,3)), dl)*d
        lhs = sp.Derivative(v, t) if v in states else v
        # states' ODE rhs must not depend on own derivative; fine by construction
        eq = sp.Eq(lhs, rhs); eqs.append(eq); truth[lhs] = (set(deps), vanish)
    rng.shuffle(eqs)
    for eq in eqs: m.add_equation(eq)
    lhss = list(truth)
    for trial in range(4):
        req = rng.sample(lhss, rng.randint(1, min(3, len(lhss))))
        for recurse in (True, False):
            for strip in (True, False):
                try: res = m.get_equations_for(req, recurse=recurse, strip_units=strip)
                except Exception as ex: finds['EXC '+type(ex).__name__+' '+str(ex)[:60]].append((case, req)); continue
                stats['calls'] += 1
                got = [e.lhs for e in res]
                # expected closure
                def deps_of(l): d, van = truth[l]; return (d - van) if strip else d
                need = set(req)
                if recurse:
                    stack = list(req)
                    while stack:
                        x = stack.pop()
                        for d in deps_of(x) if x in truth else ():
                            if d not in need: need.add(d); stack.append(d)
                else:
                    for x in req: need |= deps_of(x)
                exp_set = {x for x in need if x in truth}
                if len(got) != len(set(got)): finds['duplicates'].append((case, req, recurse, strip))
                if set(got) != exp_set: finds['wrong set recurse=%s strip=%s' % (recurse, strip)].append((case, [str(x) for x in req], sorted(map(str, set(got) ^ exp_set))))
                # def-before-use (only meaningful when recursing)
                if recurse:
                    seen = set()
                    for e in res:
                        for d in m.find_variables_and_derivatives([e.rhs]):
                            if d in truth and d not in seen: finds['use before def'].append((case, str(e)))
                        seen.add(e.lhs)
                # determinism + tie-break by name among independent
                res2 = m.get_equations_for(req, recurse=recurse, strip_units=strip)
                if [str(e) for e in res2] != [str(e) for e in res]: finds['nondeterministic'].append(case)
    # roles
    if set(m.get_state_variables()) != states: finds['states'].append(case)
    if [v.order_added for v in m.get_state_variables()] != sorted(v.order_added for v in states): finds['state order'].append(case)
    if states and m.get_free_variable() is not t: finds['free'].append(case)
    for v in vs:
        try:
            val = m.get_value(v)
        except Exception as ex:
            d = truth.get(v); hasderiv = d is not None and any(isinstance(x, sp.Derivative) for x in d[0])
            key = 'get_value EXC %s (rhs has derivative: %s, defined: %s)' % (type(ex).__name__, hasderiv, v in truth or v in states)
            stats[key] += 1
print(dict(stats))
for k, v in finds.items(): print('##', k, len(v), v[:2])
