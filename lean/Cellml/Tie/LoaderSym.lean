import Cellml.Generated.Code.LoaderSym
import Mathlib.Tactic.SplitIfs

/-! # Tie: the closure `symbol_generator` of `Parser._add_maths` (generated from the source) =
    `Load.checkIdent` (the `assert`) and `Load.rootOf` / `Load.resolve` (the `while` loop) -/

namespace Cellml.Tie
open Load Cellml.Gen

/-- `str(out) in connected_variable_mapping` on a Variable: the name is a key of the dict -/
theorem isIn_vmap (m : List (VRef × VRef)) (v : VRef) :
    Py.isIn (pyStr (some v)) ((VMap.mk m : VMap) : List PyName) = (m.lookup v).isSome := by
  unfold Py.isIn pyStr
  induction m with
  | nil => rfl
  | cons e m ih =>
    obtain ⟨t, s⟩ := e
    simp only [List.map_cons, List.contains_cons, List.lookup]
    by_cases h : v = t
    · subst h; simp
    · have h1 : (v == t) = false := by simpa using h
      have h2 : ((some v : PyName) == some t) = false := by simpa using h
      rw [h1, h2]
      simpa using ih

theorem isIn_vmap_none (m : List (VRef × VRef)) :
    Py.isIn (pyStr none) ((VMap.mk m : VMap) : List PyName) = false := by
  unfold Py.isIn pyStr
  induction m with
  | nil => rfl
  | cons e m ih => simpa [List.contains_cons] using ih

/-- the generated loop (`while str(out) in connected_variable_mapping: out = connected_variable_mapping[str(out)]`,
    at most `n` iterations) started on a Variable IS `Load.resolve` with fuel `n` -/
theorem whileUpTo_resolve (m : List (VRef × VRef)) : ∀ (n : Nat) (v : VRef),
    Py.whileUpTo n (fun out => Py.isIn (pyStr out) ((VMap.mk m : VMap) : List PyName))
      (fun out => do
        let mut out := out
        out ← dictGet ⟨m⟩ (pyStr out)
        return out) (some v) = .ok (some (resolve m n v))
  | 0, v => rfl
  | n + 1, v => by
    unfold Py.whileUpTo resolve
    rw [isIn_vmap]
    cases h : m.lookup v with
    | none => simp
    | some s =>
      simp only [Option.isSome_some, if_true, dictGet, pyStr, h, bind, Except.bind, pure, Except.pure]
      exact whileUpTo_resolve m n s

/-- … and started on `None` it does nothing -/
theorem whileUpTo_none (m : List (VRef × VRef)) (n : Nat) :
    Py.whileUpTo n (fun out => Py.isIn (pyStr out) ((VMap.mk m : VMap) : List PyName))
      (fun out => do
        let mut out := out
        out ← dictGet ⟨m⟩ (pyStr out)
        return out) none = .ok none := by
  cases n with
  | zero => rfl
  | succ n => unfold Py.whileUpTo; rw [isIn_vmap_none]; rfl

/-- **`symbol_generator`**, for every variable table, work-list state, component and identifier: with the loop cut off
    after `|connected_variable_mapping|` iterations, the generated closure raises AssertionError exactly when
    `Load.checkIdent` does, and otherwise returns `Load.rootOf st (component, identifier)` — the two model functions
    `Load.checkExpr` / `Load.transcribe` are made of. -/
theorem symbolGenerator_tie (vt : VarTable) (st : CState) (cname x : String) :
    LoaderSym.symbolGenerator ⟨cname⟩ (varToSymbol vt) ⟨st.mapping⟩ st.mapping.length x =
      match checkIdent vt cname x with
      | .error e => .error ⟨e.className⟩
      | .ok () => .ok (some (rootOf st (cname, x))) := by
  unfold LoaderSym.symbolGenerator checkIdent rootOf varToSymbol
  show (do
    let out ← Py.whileUpTo st.mapping.length _ _ ((vt.lookup (cname, x)).map (fun _ => (cname, x)))
    _) = _
  cases h : vt.lookup (cname, x) with
  | none =>
    simp only [Option.map_none, whileUpTo_none]
    simp [bind, Except.bind, throw, throwThe, MonadExceptOf.throw, Err.className]
  | some i =>
    simp only [Option.map_some, whileUpTo_resolve]
    simp [bind, Except.bind, pure, Except.pure]

/-- the cut-off is harmless whenever the chain has ended (which `Props.C01.connect_forest` proves for the mapping of a
    successful `connect`): if the test is false on the value returned after `n` iterations, every larger bound
    returns the same value — the python loop has terminated with it. -/
theorem resolve_stable (m : List (VRef × VRef)) : ∀ (n : Nat) (v : VRef), (m.lookup (resolve m n v)).isNone →
    ∀ k, resolve m (n + k) v = resolve m n v
  | 0, v, h, k => by
    simp only [resolve] at h
    cases k with
    | zero => rfl
    | succ k =>
      simp only [Nat.zero_add, resolve]
      cases h' : m.lookup v with
      | none => rfl
      | some s => rw [h'] at h; cases h
  | n + 1, v, h, k => by
    have : n + 1 + k = (n + k) + 1 := by omega
    rw [this]
    simp only [resolve] at h ⊢
    cases h' : m.lookup v with
    | none => rfl
    | some s =>
      rw [h'] at h
      exact resolve_stable m n s h k

end Cellml.Tie
