import Cellml.C17.Model
import Cellml.Units.WorklistLemmas

/-! # The unit work list and the sorted unit list agree (closes the gap `UnitsAgree` between `C17.loadFull` and `Load.load`)

    `C17.loadFull` feeds the `<units>` elements AS WRITTEN (`FaultDoc.udefs`) through the work list of `_add_units`
    (`Units.addUnits`, C03); `Load.load` (C01) takes unit definitions that are ALREADY in dependency order
    (`Doc.units`, folded by `Load.buildUnits`). Until now a `FaultDoc` carried both lists as independent fields and the
    `…_gen` theorems of C01 assumed that they describe the same elements (`UnitsAgree`).

    Here: whenever the work list succeeds, the order in which IT added the definitions — base units in document order
    (first pass), then the queued definitions in the order the `while` loop got them through — is a dependency order
    of the SAME elements (a permutation of `udefs`, every reference defined earlier), and `Load.buildUnits` on that
    order returns the very registry and unit store the work list returns (`addUnits_buildUnits`). Hence
    `Load.load` on the document with its units in that order IS `C17.loadFrom` on the work list's result
    (`load_sortedBy`), and `prepare` IS `prepareFrom` (`prepare_sortedBy`). Core Lean only. -/

namespace Cellml.Tie.LoaderClose
open Load Units

/-- a `<units>` element as a declaration of `Load.Doc.units` -/
def declOf (d : UDef) : UnitDecl := if d.base then .base d.name else .derived d.name d.elems

theorem buildUnits_append : ∀ (a b : List UnitDecl) (rs : Registry × Store),
    buildUnits (a ++ b) rs = match buildUnits a rs with
      | .error e => .error e
      | .ok rs' => buildUnits b rs'
  | [], b, rs => rfl
  | .base n :: a, b, (reg, st) => by
    simp only [List.cons_append, buildUnits]
    cases addBaseUnit reg st n with
    | error e => rfl
    | ok rs' => exact buildUnits_append a b rs'
  | .derived n es :: a, b, (reg, st) => by
    simp only [List.cons_append, buildUnits]
    cases addUnit reg st n es with
    | error e => rfl
    | ok rs' => exact buildUnits_append a b rs'

/-- the `add_now` branch of the work list, when it succeeds, is `UnitStore.add_unit` -/
theorem addNow_ok_addUnit {reg : Registry} {st : Store} {d : UDef} {r : Registry × Store}
    (h : addNow reg st d = .ok r) : addUnit reg st d.name d.elems = .ok r := by
  unfold addNow at h
  split at h
  · cases h
  · split at h
    · cases h
    · exact h

/-- a sequential addition along `ord` is `Load.buildUnits` on the same definitions in the same order -/
theorem seqAdd_buildUnits : ∀ (ord : List UDef) (reg : Registry) (st : Store) (r : Registry × Store),
    seqAdd reg st ord = .ok r → (∀ d ∈ ord, d.base = false) →
    buildUnits (ord.map declOf) (reg, st) = .ok r
  | [], reg, st, r, h, _ => by simpa [seqAdd, buildUnits] using h
  | d :: ds, reg, st, r, h, hb => by
    have hd : d.base = false := hb d List.mem_cons_self
    simp only [seqAdd] at h
    split at h
    · split at h
      · rename_i reg' st' hn
        simp only [List.map_cons, declOf, hd, Bool.false_eq_true, if_false, buildUnits, addNow_ok_addUnit hn]
        exact seqAdd_buildUnits ds reg' st' r h (fun d' h' => hb d' (List.mem_cons_of_mem _ h'))
      · cases h
    · cases h

/-- the first pass of `_add_units` is `Load.buildUnits` on the base units in document order -/
theorem addBases_buildUnits : ∀ (defs : List UDef) (reg : Registry) (st : Store) (r : Registry × Store),
    addBases reg st defs = .ok r → buildUnits ((basesOf defs).map declOf) (reg, st) = .ok r
  | [], reg, st, r, h => by simpa [addBases, basesOf, buildUnits] using h
  | d :: ds, reg, st, r, h => by
    simp only [addBases] at h
    by_cases hb : d.base = true
    · simp only [hb, if_true] at h
      split at h
      · rename_i reg' st' ha
        simp only [basesOf, List.filter_cons, hb, if_true, List.map_cons, declOf, buildUnits, ha]
        exact addBases_buildUnits ds reg' st' r h
      · cases h
    · simp only [hb, Bool.false_eq_true, if_false] at h
      simp only [basesOf, List.filter_cons, hb, Bool.false_eq_true, if_false]
      exact addBases_buildUnits ds reg st r h

/-- `us` is an order in which the `<units>` elements `defs` can be handed to `Load.buildUnits`: the same elements
    (a permutation), base units first -/
def SortedFrom (defs : List UDef) (us : List UnitDecl) : Prop :=
  ∃ ord, ord.Perm (queue defs) ∧ us = (basesOf defs ++ ord).map declOf

theorem SortedFrom.perm {defs : List UDef} {us : List UnitDecl} (h : SortedFrom defs us) :
    us.Perm (defs.map declOf) := by
  obtain ⟨ord, hp, rfl⟩ := h
  exact ((List.Perm.append_left _ hp).trans (bases_queue_perm defs)).map declOf

/-- **the work list is `Load.buildUnits` on the order it emits.** If `Parser._add_units` (the work list, on the
    definitions as written) succeeds with registry and store `r`, there is an arrangement `us` of the same `<units>`
    elements — the base units in document order, then the others in the order the loop added them — on which the
    sorted fold of C01 returns the same `r`. No hypothesis on the document. -/
theorem addUnits_buildUnits {id : Nat} {defs : List UDef} {r : Registry × Store} (h : addUnits id defs = .ok r) :
    ∃ us, SortedFrom defs us ∧ buildUnits us (builtinRegistry, { id := id, known := [] }) = .ok r := by
  obtain ⟨reg0, st0, ord, hb, hp, hs⟩ := addUnits_ok h
  refine ⟨(basesOf defs ++ ord).map declOf, ⟨ord, hp, rfl⟩, ?_⟩
  rw [List.map_append, buildUnits_append, addBases_buildUnits defs _ _ _ hb]
  exact seqAdd_buildUnits ord reg0 st0 r hs (fun d hd => (mem_queue.mp (hp.mem_iff.mp hd)).2)

/-- the document with its unit definitions replaced (nothing else of a `Doc` mentions them) -/
def withUnits (doc : Doc) (us : List UnitDecl) : Doc := { doc with units := us }

theorem prepareFrom_withUnits (reg : Registry) (ust : Store) (doc : Doc) (us : List UnitDecl) :
    C17.prepareFrom reg ust (withUnits doc us) = C17.prepareFrom reg ust doc := rfl

theorem finishFrom_withUnits (L : Loaded) (doc : Doc) (us : List UnitDecl) :
    C17.finishFrom L (withUnits doc us) = C17.finishFrom L doc := rfl

/-- `Load.prepare` on units in an order `buildUnits` accepts is `C17.prepareFrom` on what it returns -/
theorem prepare_sortedBy {doc : Doc} {us : List UnitDecl} {reg : Registry} {ust : Store}
    (h : buildUnits us (builtinRegistry, { id := 0, known := [] }) = .ok (reg, ust)) :
    prepare (withUnits doc us) = C17.prepareFrom reg ust doc := by
  rw [C17.prepare_eq]
  have e : (withUnits doc us).units = us := rfl
  rw [e, h]
  rfl

/-- `Load.load` on units in an order `buildUnits` accepts is `C17.loadFrom` on what it returns -/
theorem load_sortedBy {doc : Doc} {us : List UnitDecl} {reg : Registry} {ust : Store}
    (h : buildUnits us (builtinRegistry, { id := 0, known := [] }) = .ok (reg, ust)) :
    load (withUnits doc us) = C17.loadFrom reg ust doc := by
  rw [C17.load_eq]
  have e : (withUnits doc us).units = us := rfl
  rw [e, h]
  rfl

/-- **`Load.load` on the units in dependency order agrees with the loader on the units as written**: when the work
    list succeeds on `udefs`, some arrangement `us` of the same elements makes `Load.load` / `Load.prepare` of C01
    coincide with `C17.loadFrom` / `C17.prepareFrom` on the work list's registry and store — which is what
    `C17.loadFull` runs. -/
theorem load_agrees {udefs : List UDef} {reg : Registry} {ust : Store} (doc : Doc)
    (h : addUnits 0 udefs = .ok (reg, ust)) :
    ∃ us, SortedFrom udefs us ∧ load (withUnits doc us) = C17.loadFrom reg ust doc ∧
      prepare (withUnits doc us) = C17.prepareFrom reg ust doc := by
  obtain ⟨us, hs, hb⟩ := addUnits_buildUnits h
  exact ⟨us, hs, load_sortedBy hb, prepare_sortedBy hb⟩

end Cellml.Tie.LoaderClose
