"""Code-translator spec of package Iso2 (C16, model-level half; process-global state): tied in lean/Cellml/Tie/Iso2.lean
to the process model `Iso.Process` (lean/Cellml/Iso/Process.lean) that the theorems of lean/Cellml/Props/C16Process.lean
are about.

* the DEF LINES of the two memoised functions (`_get_singularity`, `_generate_piecewise`: decorator, positional
  parameters = the memo key) and of the functions between them and the model, and every CALL SITE on the way
  (`Model.remove_fixable_singularities` -> `remove_fixable_singularities` -> `_remove_singularities` ->
  `_fix_expr_parts` -> `_get_singularity` / `_generate_piecewise`), by the extension `translate_ext/iso2.py`;
* `_float_dummies`, `Model.__init__`, `Model.create_quantity`, `Quantity.__new__`, `Quantity.__init__`,
  `Variable.__new__` with the ordinary rules.

Every pattern below binds a leaf (an attribute assignment, a constructor of another class, a SymPy / rdflib call)."""

EXT = 'iso2:KeyFn'
SF = 'cellmlmanip/_singularity_fixes.py'
MODEL = 'cellmlmanip/model.py'

SING_TYPES = {'expr': 'Ex', 'V': 'Nat', 'U_offset': 'Rat', 'exp_function': 'String'}
FIX_BINDERS = ('(expr check_U_expr ex a sub_ex arg0 : Ex) (V : Nat) (U_offset : Rat) (exp_function : String) '
               '(sp Vmin Vmax : Rat)')
FIX_PATTERNS = [('expr.args[0]', 'arg0')]


def def_line(file, func, lean_name, record, types):
    return {'file': file, 'func': func, 'lean_name': lean_name, 'fn_class': EXT, 'mode': 'def_line',
            'record': record, 'param_types': types, 'signature': ''}


def sites(file, func, lean_name, callee, callee_lean, result, binders, patterns=(), **kw):
    d = {'file': file, 'func': func, 'lean_name': lean_name, 'fn_class': EXT, 'mode': 'call_sites',
         'callee': callee, 'callee_lean': callee_lean, 'result': result, 'binders': binders,
         'patterns': list(patterns), 'signature': ''}
    d.update(kw)
    return d


def attr(name):
    return ('self.%s = __A' % name, 'self := { self with %s := {A} }' % name)


GROUP = {
    'name': 'Iso2',
    'imports': ['Cellml.Tie.Iso2View'],
    'header': 'open Cellml.Tie.PIso2 Units Units.Wire Iso Iso.Process',
    'functions': [
        # ---- def lines: decorator and positional parameters (= the memo key)
        def_line(SF, '_get_singularity', 'getSingularity', 'SingKey', SING_TYPES),
        def_line(SF, '_generate_piecewise', 'generatePiecewise', 'PwKey',
                 {'expr': 'Ex', 'V': 'Nat', 'sp': 'Rat', 'Vmin': 'Rat', 'Vmax': 'Rat'}),
        def_line(SF, '_fix_expr_parts', 'fixExprParts', 'SingKey', SING_TYPES),
        def_line(SF, '_remove_singularities', 'removeSingularities', 'SingKey', SING_TYPES),
        def_line(SF, 'remove_fixable_singularities', 'rfs', 'RfsArgs',
                 {'model': 'Nat', 'V': 'Nat', 'modifiable_parameters': 'List Nat', 'U_offset': 'Rat',
                  'exp_function': 'String'}),
        def_line(MODEL, 'Model.remove_fixable_singularities', 'modelRfs', 'MrfsArgs',
                 {'V': 'Nat', 'exclude': 'List Nat'}),
        # ---- call sites, from the model down to the two caches
        sites(MODEL, 'Model.remove_fixable_singularities', 'model_rfs', 'remove_fixable_singularities', 'rfs',
              'RfsArgs', '(p : Proc) (self : Nat) (V : Nat) (exclude : List Nat)',
              [('parser.SIMPLE_MATHML_TO_SYMPY_CLASSES[__T]', '(handlerOf p {T})'),   # the global table, at call time
               ('1e-07', '((1 : Rat) / 10000000)')],                                  # the callee's default U_offset
              callee_file=SF),
        sites(SF, 'remove_fixable_singularities', 'rfs_rs', '_remove_singularities', 'removeSingularities',
              'SingKey', '(rhs : Ex) (V : Nat) (U_offset : Rat) (exp_function : String)',
              [('unprocessed_eqs[eq.lhs]', 'rhs')]),
        sites(SF, '_remove_singularities', 'rs_fix', '_fix_expr_parts', 'fixExprParts', 'SingKey', FIX_BINDERS),
        sites(SF, '_remove_singularities', 'rs_pw', '_generate_piecewise', 'generatePiecewise', 'PwKey', FIX_BINDERS),
        sites(SF, '_fix_expr_parts', 'fix_rec', '_fix_expr_parts', 'fixExprParts', 'SingKey', FIX_BINDERS,
              FIX_PATTERNS),
        sites(SF, '_fix_expr_parts', 'fix_sing', '_get_singularity', 'getSingularity', 'SingKey', FIX_BINDERS,
              FIX_PATTERNS),
        sites(SF, '_fix_expr_parts', 'fix_pw', '_generate_piecewise', 'generatePiecewise', 'PwKey', FIX_BINDERS,
              FIX_PATTERNS),
        # ---- ordinary translations
        {'file': SF, 'func': '_float_dummies', 'lean_name': 'floatDummies',
         'params': ['expr', 'heap'],
         'signature': '(expr : Ex) (heap : List Obj) : Except PyErr (Ex × List Obj)',
         'patterns': [
             ('expr.xreplace({f: __Q for f in expr.atoms(Float)})', '(PIso2.floatDummies (fun f => {Q}) expr heap)'),
             ('Quantity(__A, __B)', '(Obj.qty {A} (QUnit.bare {B}))'),      # here the unit IS a python str
         ]},
        {'file': MODEL, 'func': 'Model.__init__', 'lean_name': 'modelInit',
         'params': ['self', 'name', 'cmeta_id', 'unit_store', 'w'],
         'loop_state': ['self', 'w'],
         'signature': '(self : ModelRef) (name : String) (cmeta_id : OptStr) (unit_store : Option Nat) (w : World) : '
                      'Except PyErr (ModelRef × World)',
         'patterns': [
             ("create_rdf_node('#' + cmeta_id)", '(rdfNode cmeta_id)'),
             ('{}', '[]'),                      # an empty dict = an empty association list
             ('rdflib.Graph()', '[]'),
         ],
         'stmt_patterns': [
             # the constructor of the other class: a NEW store in the process (tied by Tie/UnitsInit.lean)
             ('self.units = UnitStore(unit_store)',
              'let (ref__, w__) ← mkStore unit_store w\nw := w__\nself := { self with units := ref__ }'),
             ('self.units = UnitStore()',
              'let (ref__, w__) ← mkStore none w\nw := w__\nself := { self with units := ref__ }'),
         ] + [attr(a) for a in ('name', '_cmeta_id', 'rdf_identity', 'equations', '_name_to_variable',
                                '_cmeta_id_to_variable', '_variables_added', '_graph',
                                '_graph_with_sympy_numbers', 'rdf', '_var_definition_map',
                                '_ode_definition_map')]},
        {'file': MODEL, 'func': 'Model.create_quantity', 'lean_name': 'createQuantity',
         'params': ['self', 'value', 'units', 'w', 'heap'],
         'signature': '(self : ModelRef) (value : Rat) (units : UArg) (w : World) (heap : List Obj) : '
                      'Except PyErr (Nat × List Obj)',
         'patterns': [
             ('isinstance(units, self.units.Unit)', '(isUnitOf w (self).units units)'),
             ('self.units.get_unit(units)', '← getUnitArg w (self).units units'),
             ('Quantity(value, units)', '(newQuantity value (UArg.toQUnit units) heap)'),   # a new Dummy on the heap
         ]},
        {'file': MODEL, 'func': 'Quantity.__new__', 'lean_name': 'quantityNew',
         'params': ['cls', 'value'],
         'signature': '(cls : String) (value : PyVal) : Except PyErr DummyHdr',
         'patterns': [
             ('isinstance(value, str)', '(PyVal.isStr value)'),
             ("'{:g}'.format(value)", '(fmtG value)'),
             ('super().__new__(cls, __N, real=__R)', '(DummyHdr.mk cls (some {N}) {R})'),
         ]},
        {'file': MODEL, 'func': 'Quantity.__init__', 'lean_name': 'quantityInit',
         'params': ['self', 'value', 'units'],
         'loop_state': ['self'],
         'signature': '(self : QtyRef) (value : Rat) (units : QUnit) : Except PyErr QtyRef',
         'stmt_patterns': [attr('_value'), attr('units')]},
        {'file': MODEL, 'func': 'Variable.__new__', 'lean_name': 'variableNew',
         'params': ['cls'],
         'signature': '(cls : String) : Except PyErr DummyHdr',
         'patterns': [
             ('super().__new__(cls, real=__R)', '(DummyHdr.mk cls none {R})'),
         ]},
    ],
}
