import Cellml.C10.GraphNodes

/-! # C10: the role queries follow from the equations; they do not depend on the history. Core Lean only. -/

namespace Model

-- ------------------------------------------------------------------------------------------------ stable sort
section Sorting
variable {α : Type}

theorem insertBy_perm (key : α → Nat) (x : α) (l : List α) : (insertBy key x l).Perm (x :: l) := by
  induction l with
  | nil => exact List.Perm.refl _
  | cons y ys ih =>
    unfold insertBy
    split
    · exact List.Perm.refl _
    · exact ((List.perm_cons y).mpr ih).trans (List.Perm.swap x y ys)

theorem sortBy_perm (key : α → Nat) (l : List α) : (sortBy key l).Perm l := by
  induction l with
  | nil => exact List.Perm.refl _
  | cons x xs ih => exact (insertBy_perm key x _).trans ((List.perm_cons x).mpr ih)

theorem insertBy_sorted (key : α → Nat) (x : α) (l : List α)
    (h : l.Pairwise (fun a b => key a ≤ key b)) : (insertBy key x l).Pairwise (fun a b => key a ≤ key b) := by
  induction l with
  | nil => simp [insertBy]
  | cons y ys ih =>
    unfold insertBy
    have hy := List.pairwise_cons.mp h
    split
    · rename_i hxy
      refine List.pairwise_cons.mpr ⟨?_, h⟩
      intro b hb
      rcases List.mem_cons.mp hb with rfl | hb
      · exact hxy
      · exact Nat.le_trans hxy (hy.1 b hb)
    · rename_i hxy
      refine List.pairwise_cons.mpr ⟨?_, ih hy.2⟩
      intro b hb
      rcases List.mem_cons.mp ((insertBy_perm key x ys).subset hb) with rfl | hb
      · exact Nat.le_of_lt (Nat.lt_of_not_le hxy)
      · exact hy.1 b hb

theorem sortBy_sorted (key : α → Nat) (l : List α) : (sortBy key l).Pairwise (fun a b => key a ≤ key b) := by
  induction l with
  | nil => exact List.Pairwise.nil
  | cons x xs ih => exact insertBy_sorted key x _ ih

end Sorting

variable {M : RModel}

-- ------------------------------------------------------------------------------------------------ states, free variable
theorem isState_iff (E : EqInv M.st) (v : Nat) :
    isState M v = true ↔ ∃ e ∈ M.st.equations, ∃ t o, e.lhs = .deriv v t o := by
  unfold isState
  rw [hasKey_iff, E.odeDef]
  constructor
  · rintro ⟨e, he⟩; exact ⟨e, (mem_deriveOdeDef _ _ _).mp he⟩
  · rintro ⟨e, he⟩; exact ⟨e, (mem_deriveOdeDef _ _ _).mpr he⟩

theorem mem_stateVars (v : Nat) : v ∈ stateVars M ↔ isState M v = true := by
  unfold stateVars getStateVariables isState
  rw [(sortByKey_perm _ _).mem_iff, hasKey_iff_mem_keys]
  rfl

theorem freeVar_none (E : EqInv M.st) (h : ∀ e ∈ M.st.equations, bvarOf e = none) : freeVar M = none := by
  unfold freeVar getFreeVariable
  rcases hod : M.st.odeDef with _ | ⟨⟨s0, e0⟩, rest⟩
  · rfl
  · have h0 : (s0, e0) ∈ M.st.odeDef := by rw [hod]; exact List.mem_cons_self ..
    rw [E.odeDef] at h0
    obtain ⟨he0, t0, o0, hl0⟩ := (mem_deriveOdeDef _ _ _).mp h0
    have := h e0 he0
    simp [bvarOf, hl0] at this

-- ------------------------------------------------------------------------------------------------ constants
/-- no two equations of the list define the same variable -/
theorem def_unique {k : Nat} {a b : Eqn} : ∀ (l : List Eqn), a ∈ l → b ∈ l → defKey a = some k → defKey b = some k →
    (l.filterMap defKey).Nodup → a = b
  | [], h, _, _, _, _ => by cases h
  | x :: xs, hx, hy, ha, hb, hn => by
    rcases List.mem_cons.mp hx with rfl | hx' <;> rcases List.mem_cons.mp hy with rfl | hy'
    · rfl
    · rw [List.filterMap_cons, ha] at hn
      exact absurd (List.mem_filterMap.mpr ⟨b, hy', hb⟩) (List.nodup_cons.mp hn).1
    · rw [List.filterMap_cons, hb] at hn
      exact absurd (List.mem_filterMap.mpr ⟨a, hx', ha⟩) (List.nodup_cons.mp hn).1
    · rw [List.filterMap_cons] at hn
      cases hd : defKey x with
      | none => rw [hd] at hn; exact def_unique xs hx' hy' ha hb hn
      | some k' => rw [hd] at hn; exact def_unique xs hx' hy' ha hb (List.nodup_cons.mp hn).2

theorem varRhs_of_mem (E : EqInv M.st) {e : Eqn} (he : e ∈ M.st.equations) {v : Nat} (hl : e.lhs = .var v) :
    varRhs M v = some (M.rhs e.tok) := by
  unfold varRhs
  have hmem : (v, e) ∈ M.st.varDef := by rw [E.varDef]; exact (mem_deriveVarDef _ _ _).mpr ⟨he, hl⟩
  have hfun : ∀ a b, (v, a) ∈ M.st.varDef → (v, b) ∈ M.st.varDef → a = b := by
    intro a b ha hb
    rw [E.varDef] at ha hb
    obtain ⟨ha1, ha2⟩ := (mem_deriveVarDef _ _ _).mp ha
    obtain ⟨hb1, hb2⟩ := (mem_deriveVarDef _ _ _).mp hb
    exact def_unique (k := v) _ ha1 hb1 (by simp [defKey, ha2]) (by simp [defKey, hb2]) E.nodup
  rw [(lookup_eq_some_iff _ _ _ hfun).mpr hmem]; rfl

theorem isConstant_iff (E : EqInv M.st) (v : Nat) :
    isConstant M v = true ↔ ∃ e ∈ M.st.equations, e.lhs = .var v ∧ (M.rhs e.tok).vars = [] := by
  unfold isConstant
  constructor
  · intro h
    rcases hr : varRhs M v with _ | r
    · rw [hr] at h; cases h
    · rw [hr] at h
      obtain ⟨e, he, hl, rfl⟩ := varRhs_spec E hr
      exact ⟨e, he, hl, by simpa using h⟩
  · rintro ⟨e, he, hl, hv⟩
    rw [varRhs_of_mem E he hl]; simp [hv]

-- ------------------------------------------------------------------------------------------------ derivatives, derived quantities
theorem mem_derivLhs (eqs : List Eqn) (s t : Nat) : (s, t) ∈ derivLhs eqs ↔ ∃ e ∈ eqs, ∃ o, e.lhs = .deriv s t o := by
  unfold derivLhs
  rw [List.mem_filterMap]
  constructor
  · rintro ⟨e, he, h⟩
    cases hl : e.lhs with
    | var v => rw [hl] at h; cases h
    | other => rw [hl] at h; cases h
    | deriv s' t' o => rw [hl] at h; simp at h; obtain ⟨rfl, rfl⟩ := h; exact ⟨e, he, o, hl⟩
  · rintro ⟨e, he, o, hl⟩; exact ⟨e, he, by rw [hl]⟩

/-- `get_derivatives()` is the list of ODE left-hand sides, stably sorted by the `order_added` of the state -/
theorem derivatives_spec (h : Inv M.st) {l : List (Nat × Nat)} (hd : derivatives M = .ok l) :
    l = sortBy (fun p => orderOf M.st p.1) (derivLhs M.st.equations) := by
  unfold derivatives at hd
  rw [queryGraph_snd h.cache] at hd
  rcases hb : buildGraph (names M.st) M.st.equations with err | g
  · rw [hb] at hd; cases hd
  · rw [hb] at hd
    simp only [Except.ok.injEq] at hd
    rw [← hd, derivNodes_of_build hb]

/-- `get_derived_quantities()` is the list of assigned variables whose role is COMPUTED, stably sorted by `order_added` -/
theorem derivedQuantities_spec (h : Inv M.st) {l : List Nat} (hd : derivedQuantities M = .ok l) :
    l = sortBy (orderOf M.st) (computedLhs (typeMap M.st.equations) M.st.equations) := by
  unfold derivedQuantities at hd
  rw [queryGraph_snd h.cache] at hd
  rcases hb : buildGraph (names M.st) M.st.equations with err | g
  · rw [hb] at hd; cases hd
  · rw [hb] at hd
    simp only [Except.ok.injEq] at hd
    rw [← hd, derivedNodes_of_build hb]

/-- in a well-formed model the role of an assigned variable is written by its own equation only -/
theorem tyOf_assigned (W : WF M) {e : Eqn} (he : e ∈ M.st.equations) {v : Nat} (hl : e.lhs = .var v) :
    tyOf (typeMap M.st.equations) v = some (if e.bareQuantity then .parameter else .computed) := by
  have hsome := tyOf_typeMap_isSome he (x := v) (ty := if e.bareQuantity then .parameter else .computed)
    (by simp [typeWrites, hl])
  obtain ⟨ty, hty⟩ := Option.isSome_iff_exists.mp hsome
  obtain ⟨e', he', hw⟩ := tyOf_typeMap_some hty
  have hkey : defKey e = some v := by simp [defKey, hl]
  cases hl' : e'.lhs with
  | var v' =>
    simp only [typeWrites, hl', List.mem_singleton, Prod.mk.injEq] at hw
    obtain ⟨rfl, rfl⟩ := hw
    have : e' = e := def_unique (k := v) _ he' he (by simp [defKey, hl']) hkey W.inv.eq.nodup
    rw [hty, this]
  | other => simp [typeWrites, hl'] at hw
  | deriv s t o =>
    simp only [typeWrites, hl', List.mem_cons, Prod.mk.injEq, List.not_mem_nil, or_false] at hw
    rcases hw with ⟨rfl, _⟩ | ⟨rfl, _⟩
    · -- `v` would be the free variable, which has no definition
      have hf := freeVar_of_ode W he' hl'
      have hok := W.freeOk
      simp only [freeOkB, hf, Bool.and_eq_true, Bool.not_eq_true', Option.isNone_iff_eq_none] at hok
      rw [varRhs_of_mem W.inv.eq he hl] at hok
      cases hok.2
    · -- `v` would be a state as well
      have : e' = e := def_unique (k := v) _ he' he (by simp [defKey, hl']) hkey W.inv.eq.nodup
      rw [this, hl] at hl'; cases hl'

theorem mem_computedLhs (W : WF M) (v : Nat) :
    v ∈ computedLhs (typeMap M.st.equations) M.st.equations ↔
      ∃ e ∈ M.st.equations, e.lhs = .var v ∧ e.bareQuantity = false := by
  unfold computedLhs
  rw [List.mem_filterMap]
  constructor
  · rintro ⟨e, he, h⟩
    cases hl : e.lhs with
    | deriv s t o => rw [hl] at h; cases h
    | other => rw [hl] at h; cases h
    | var v' =>
      rw [hl] at h
      dsimp only at h
      rw [tyOf_assigned W he hl] at h
      cases hb : e.bareQuantity with
      | true => rw [hb] at h; simp at h
      | false => rw [hb] at h; simp at h; subst h; exact ⟨e, he, hl, hb⟩
  · rintro ⟨e, he, hl, hb⟩
    refine ⟨e, he, ?_⟩
    rw [hl]
    dsimp only
    rw [tyOf_assigned W he hl, hb]
    simp

-- ------------------------------------------------------------------------------------------------ history independence
theorem expand_congr {M₁ M₂ : RModel} (h3 : odeRhs M₁ = odeRhs M₂) : ∀ (F : Nat) (e : Expr), expand M₁ F e = expand M₂ F e
  | 0, _ => rfl
  | F + 1, e => by
    simp only [expand]
    congr 1
    funext s t
    rw [h3]
    cases odeRhs M₂ s t with
    | none => rfl
    | some r => exact expand_congr h3 F r

theorem getValueAux_congr (fn : Interp) {M₁ M₂ : RModel} (h1 : isState M₁ = isState M₂) (h2 : varRhs M₁ = varRhs M₂)
    (h3 : odeRhs M₁ = odeRhs M₂) (h4 : freeVar M₁ = freeVar M₂) (h5 : initOf M₁.st = initOf M₂.st) (F : Nat) :
    ∀ (f : Nat), getValueAux fn M₁ F f = getValueAux fn M₂ F f
  | 0 => rfl
  | f + 1 => by
    funext v memo
    simp only [getValueAux, h1, h2, h4, h5, expand_congr h3, getValueAux_congr fn h1 h2 h3 h4 h5 F f]

/-- the answers depend only on: the variable list, the two definition maps, initial values, `order_added`, the graph -/
theorem roles_congr (fn : Interp) {s₁ s₂ : MState} (rhs : Nat → Expr) (hl : s₁.live = s₂.live) (hvd : s₁.varDef = s₂.varDef)
    (hod : s₁.odeDef = s₂.odeDef) (hinit : initOf s₁ = initOf s₂) (hord : orderOf s₁ = orderOf s₂)
    (hg : (queryGraph s₁).2 = (queryGraph s₂).2) : roles fn ⟨s₁, rhs⟩ = roles fn ⟨s₂, rhs⟩ := by
  have h1 : isState ⟨s₁, rhs⟩ = isState ⟨s₂, rhs⟩ := by funext v; simp only [isState, hod]
  have h2 : varRhs ⟨s₁, rhs⟩ = varRhs ⟨s₂, rhs⟩ := by funext v; simp only [varRhs, hvd]
  have h3 : odeRhs ⟨s₁, rhs⟩ = odeRhs ⟨s₂, rhs⟩ := by funext s t; simp only [odeRhs, hod]
  have h4 : freeVar ⟨s₁, rhs⟩ = freeVar ⟨s₂, rhs⟩ := by simp only [freeVar, getFreeVariable, hod]
  have hm : memo0 ⟨s₁, rhs⟩ = memo0 ⟨s₂, rhs⟩ := by simp only [memo0, h4, hod, hinit]
  have hv : getValue fn ⟨s₁, rhs⟩ = getValue fn ⟨s₂, rhs⟩ := by
    funext v
    simp only [getValue, getValueFuel, hl, hm, getValueAux_congr fn h1 h2 h3 h4 hinit]
  have hc : isConstant ⟨s₁, rhs⟩ = isConstant ⟨s₂, rhs⟩ := by funext v; simp only [isConstant, h2]
  simp only [roles, stateVars, getStateVariables, stateKeys, derivatives, derivedQuantities, h1, hc, h4, hv,
    hod, hord, hg]

/-- same variables and equations ⇒ same answers (the C08 invariant makes the maps and the cached graph functions of the
    content) -/
theorem roles_of_content (fn : Interp) {s₁ s₂ : MState} (i₁ : Inv s₁) (i₂ : Inv s₂) (hc : content s₁ = content s₂)
    (rhs : Nat → Expr) : roles fn ⟨s₁, rhs⟩ = roles fn ⟨s₂, rhs⟩ := by
  have hheap : s₁.heap.map (fun v => { v with type := none }) = s₂.heap.map (fun v => { v with type := none }) :=
    congrArg Content.heap hc
  have hlive : s₁.live = s₂.live := congrArg Content.live hc
  have heqs : s₁.equations = s₂.equations := congrArg Content.equations hc
  have hsame : SameButTypes s₂.heap s₁.heap := by
    intro i
    have := congrArg (fun h => (h[i]?).map regFields) hheap
    simp only [List.getElem?_map] at this
    cases h1 : s₁.heap[i]? <;> cases h2 : s₂.heap[i]? <;> simp_all [regFields]
  refine roles_congr fn rhs hlive ?_ ?_ hsame.initOf hsame.orderOf ?_
  · rw [i₁.eq.varDef, i₂.eq.varDef, heqs]
  · rw [i₁.eq.odeDef, i₂.eq.odeDef, heqs]
  · rw [queryGraph_snd i₁.cache, queryGraph_snd i₂.cache, heqs, hsame.names]

end Model
