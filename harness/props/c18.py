"""C18 — every number in every equation keeps a real unit, through every manipulation."""
import json
import logging
import os
import shutil
import tempfile
from fractions import Fraction

import docgen as D
import exprlib as X
import unitlib as U
from common import Str, rng_for, sx
from props import c12 as G

ID = 'C18'
LEAN_MODULES = ['Cellml.Props.C18', 'Cellml.Tie.SingTrav', 'Cellml.Props.C18Gen']
N = {'quick': 150, 'thorough': 3000}
RULE = ('a case is a history: a base model (40 % a generated CellML document with unit-changing connections, loaded with '
        'load_model; 30 % a model built through the API holding 2-4 GHK-like equations from the C12 generator; 15 % a '
        'model built through the API from type-directed expressions (piecewise, functions, powers, floor) over a random '
        'unit family; 15 % a bundled model: beeler_reuter_model_1977, aslanidi_model_2009) followed by 1-6 operations: '
        'convert_variable (INPUT / OUTPUT on a state, the free variable, a constant, a computed or undefined variable; '
        'target compatible at another scale, a freshly defined scaled unit, identical, or of another dimension), '
        'remove_fixable_singularities (random voltage variable and exclusions), add_equation of equations built with '
        'create_quantity and existing variables (GHK form, reciprocal of one, affine, sum of two scales, piecewise, '
        'function, ODE, random units), remove_equation, the unit-fix write-back (evaluate_units_and_fix; '
        'remove_equation; add_equation) on one equation or as a pass over all, remove_variable with re-adding and '
        're-pointing of references; in half of the cases a second model (sharing the registry or not) lives in the same '
        'process and receives 30 % of the operations; after the base and after EVERY operation every Quantity / '
        'Variable atom of every equation of every model is classified (unit of the store / string / foreign / missing), '
        'plain Floats are counted, and every equation goes through evaluate_units (both sides) and '
        'convert_expression_recursively; an equation that converted before an operation must not report a UnitError '
        'after it; create_quantity / add_variable are probed with every kind of unit argument; 1 history in 6 ends with '
        'a control step that plants a string / foreign / missing unit on purpose and must be DETECTED; non-trivial = at '
        'least one operation created a quantity; distinct = distinct case JSON')
TRUSTED = ['Lean 4.33 kernel', 'axioms: propext, Classical.choice, Quot.sound',
           'correspondence harness harness/props/c18.py (object identity tracking by id(), atom scan by '
           'sympy.preorder_traversal)',
           'which creation site an atom new to the model came from is decided by the operation that was running '
           '(the class of its unit is observed)']
ASSUMPTIONS = ['user-supplied equations obey the documented contract of add_equation (all numbers and variables were '
               'obtained from this model); the control steps show what happens otherwise',
               'a unit of another store that SHARES the registry counts as a unit of the model\'s store (name spaces '
               'inside one registry are the business of C16)',
               'conversion rules with symbolic factors (C19) are not part of the histories']
FINGERPRINT = {'cellmlmanip/model.py': ['Model.create_quantity', 'Model.add_variable', 'Model.convert_variable',
                                       'Model._convert_variable_instance', 'Model._convert_state_variable_deriv',
                                       'Model._convert_free_variable_deriv',
                                       'Model._remove_ode_and_assign_rhs_to_new_variable',
                                       'Model.remove_fixable_singularities', 'Quantity'],
               'cellmlmanip/units.py': ['UnitCalculator.convert_expression_recursively',
                                       'UnitStore.evaluate_units_and_fix', 'UnitStore.get_unit'],
               'cellmlmanip/_singularity_fixes.py': ['ONE', '_float_dummies', 'remove_fixable_singularities',
                                                     '_fix_expr_parts', '_get_singularity'],
               'cellmlmanip/parser.py': ['Parser._add_connections', 'Parser.transform_constants',
                                         'Parser._add_maths']}

FILES = ['beeler_reuter_model_1977', 'aslanidi_model_2009']
BUILTIN_TARGETS = ['volt', 'second', 'dimensionless', 'hertz', 'metre', 'ampere']
CANDIDATES = list(D.UNIT_DEFS) + BUILTIN_TARGETS
OPS = ('conv', 'sing', 'addEq', 'rmEq', 'fix', 'fixAll', 'rmVar')
NUMS = ['1', '2', '0.5', '3', '10', '-1.5', '0.125', '4', '7', '-2', '100', '0.75', '5', '-80', '0']


# ------------------------------------------------------------------------------------------------ generation
def fs(x):
    return str(Fraction(x))


def gen_addeq(rng, i):
    """specification of a user-built equation; variables are chosen by selector (resolved when the history runs)"""
    form = rng.choices(['ghk', 'affine', 'mixed', 'pw', 'fn', 'ode', 'random', 'recip'],
                       [5, 2, 4, 2, 2, 1.5, 2.5, 1])[0]
    spec = {'form': form, 'name': 'c18n%d' % i, 'x': rng.randrange(64), 'x2': rng.randrange(64),
            'a': rng.choice(NUMS), 'b': rng.choice(NUMS), 'u2': rng.randrange(64), 'u3': rng.randrange(64)}
    if form in ('ghk', 'recip'):
        k = G.pick_k(rng, True)
        v0 = G.pick_v0(rng)
        spec.update({'k': fs(k), 'v0': fs(v0), 'gform': rng.randrange(4), 'style': rng.choice(['kv0', 'plus', 'minus']),
                     'P': rng.choice(['3', '-2', '1/2', '1', '10'])})
    return spec


def gen_step(rng, i, who):
    r = rng.choices(OPS, [5, 4, 5, 1.5, 3, 2, 1.5])[0]
    if r == 'conv':
        role = rng.choice(['state', 'free', 'const', 'computed', 'any', 'any'])
        tk = rng.choices(['compat', 'scaled', 'same', 'incompat'], [5, 3, 1, 1.5])[0]
        tsel = [tk, rng.randrange(64) if tk != 'scaled' else rng.choice(['1000', '1/1000', '60', '1000001/1000000', '1/4'])]
        return ['conv', who, [role, rng.randrange(64)], tsel, rng.choice(['IN', 'OUT'])]
    if r == 'sing':
        return ['sing', who, [rng.choice(['state', 'state', 'V', 'V', 'any']), rng.randrange(64)],
                [rng.randrange(64) for _ in range(rng.choice([0, 0, 1, 2]))]]
    if r == 'addEq':
        return ['addEq', who, gen_addeq(rng, i)]
    if r == 'rmEq':
        return ['rmEq', who, rng.randrange(64)]
    if r == 'fix':
        return ['fix', who, rng.randrange(64)]
    if r == 'fixAll':
        return ['fixAll', who]
    return ['rmVar', who, [rng.choice(['const', 'computed', 'state', 'any']), rng.randrange(64)],
            rng.random() < 0.8, rng.random() < 0.75, rng.choice(NUMS)]


def gen_base(rng, tier):
    r = rng.random()
    if r < 0.40:
        doc = D.gen_valid_doc(rng, k=rng.choice([2, 3, 3, 4, 5]), n_signals=rng.randint(2, 6))
        return {'kind': 'doc', 'doc': doc}
    if r < 0.70:
        c = G.make_case(rng)
        c['eqs'] = c['eqs'][:rng.randint(2, 4)]       # keep the singular models small: solveset is slow
        for e in c['eqs']:
            e.pop('probe', None)
        if c.get('ode'):
            c['ode'].pop('probe', None)
        return {'kind': 'ghk', 'case': c}
    if r < 0.85:
        return {'kind': 'expr', 'ctx': X.gen_context(rng), 'seed': rng.randrange(1 << 30), 'n': rng.randint(2, 5)}
    return {'kind': 'file', 'name': rng.choices(FILES, [3, 1])[0]}


def make_case(rng, tier):
    base = gen_base(rng, tier)
    second = rng.choice([None, None, 'shared', 'separate'])
    n = rng.choice([1, 2, 2, 3, 3, 4, 4, 5, 6])
    steps = []
    for i in range(n):
        who = 1 if second and rng.random() < 0.3 else 0
        steps.append(gen_step(rng, i, who))
    if base['kind'] in ('ghk', 'file') and not any(s[0] == 'sing' for s in steps):
        steps[rng.randrange(len(steps))] = ['sing', 0, ['V', 0], []]
    if rng.random() < 1 / 6:
        steps.append(['raw', 0, rng.choice(['string', 'foreign', 'missing', 'notunit'])])
    return {'base': base, 'second': second, 'steps': steps}


def gen(rng, n, tier):
    for _ in range(n):
        yield make_case(rng, tier)


# ------------------------------------------------------------------------------------------------ running a history
_FILE_TEXT = {}


def file_path(name):
    return os.path.join(os.environ.get('CELLML_REPO', '/repo'), 'tests', 'cellml_files', name + '.cellml')


class Ctx:
    """one model under observation: every Quantity / Variable object it ever showed gets an identity number"""

    def __init__(self, model, label):
        self.model, self.label = model, label
        self.ids, self.objs, self.creator, self.alive = {}, [], [], []
        self.by_factory = {}          # id(object) -> creator, for atoms the HARNESS made through the model's factories
        self.V = None                 # preferred voltage variable, when the base knows one
        self.sites = None             # loader_sites of the document the model was loaded from
        self.counter = 0

    def ident(self, a, how):
        k = id(a)
        if k not in self.ids:
            self.ids[k] = len(self.objs)
            self.objs.append(a)          # keeps the object alive: id() is never reused
            self.creator.append(self.by_factory.get(k) or how(a))
        return self.ids[k]

    # ---- factories (the documented way to obtain numbers and variables)
    def q(self, value, units):
        x = self.model.create_quantity(float(Fraction(value)), units)
        self.by_factory[id(x)] = 'factoryQuantity'
        self.alive.append(x)
        return x

    def var(self, name, units, init=None):
        v = self.model.add_variable(name, units, initial_value=init)
        self.by_factory[id(v)] = 'newVariable'
        self.alive.append(v)
        return v

    def fresh_name(self, stem):
        self.counter += 1
        name = '%s_%d' % (stem, self.counter)
        while any(v.name == name for v in self.model.variables()):
            self.counter += 1
            name = '%s_%d' % (stem, self.counter)
        return name


def ensure_unit(store, name, _depth=0):
    """the unit called `name` in this store; docgen's definition is added when the store does not know the name"""
    from cellmlmanip.parser import Parser
    if store.is_defined(name):
        return store.get_unit(name)
    elems = D.UNIT_DEFS[name]
    for e in elems:
        if not store.is_defined(e['units']) and _depth < 6:
            ensure_unit(store, e['units'], _depth + 1)
    store.add_unit(name, Parser._make_pint_unit_definition(None, name, elems))
    return store.get_unit(name)


def build_base(base, unit_store=None, label='m'):
    """-> Ctx. Everything goes through load_model / Model / add_variable / create_quantity / add_equation."""
    import cellmlmanip
    import sympy
    logging.disable(logging.CRITICAL)
    kind = base['kind']
    if kind in ('doc', 'file'):
        if kind == 'doc':
            tmp = tempfile.mkdtemp(prefix='c18_')
            try:
                path = os.path.join(tmp, 'doc.cellml')
                with open(path, 'w') as f:
                    f.write(D.to_xml(base['doc']))
                model = cellmlmanip.load_model(path, unit_store=unit_store)
                sites = loader_sites(path)
            finally:
                shutil.rmtree(tmp, ignore_errors=True)
        else:
            path = file_path(base['name'])
            model = cellmlmanip.load_model(path, unit_store=unit_store)
            sites = _FILE_TEXT.get(path) or _FILE_TEXT.setdefault(path, loader_sites(path))
        c = Ctx(model, label)
        c.sites = sites
        for v in model.variables():
            if v.name.split('$')[-1] == 'V' and (c.V is None or v.name == 'membrane$V'):
                c.V = v
        return c
    if kind == 'ghk':
        b = G.build(base['case'])
        c = Ctx(b.model, label)
        c.V = b.V
        return c
    if kind == 'expr':
        ctx = base['ctx']
        w = X.World(ctx)
        c = Ctx(w.model, label)
        if any(o != 'ok' for o in w.outcomes):
            return c
        sem = U.oracle_family(ctx['family'], ['ok'] * len(ctx['family']['defs']))
        rng = rng_for(base['seed'], 'c18-exprs')
        g = X.Gen(rng, ctx, sem)
        free = list(range(len(ctx['vars'])))
        rng.shuffle(free)
        for i in free[:base['n']]:
            d = X.dimkey(U.sem_of(sem, [tuple(x) for x in ctx['vars'][i]['unit']]).dims)
            a = g.expr(d, rng.choice([1, 2, 3, 3, 4]))
            if rng.random() < 0.3:
                a = X.mutate_leaf(rng, json.loads(json.dumps(a)), g) or a
            try:
                e = w.build(a)
                if ctx['vars'][i]['init'] is not None:
                    w.vars[i].initial_value = None
                c.model.add_equation(sympy.Eq(w.vars[i], e))
            except Exception:       # noqa   (SymPy refuses the tree, or a rejected equation: not this property)
                pass
        return c
    raise ValueError(kind)


def build_second(unit_store):
    """a small second model living in the same process: one GHK equation, a constant, a sum of two scales"""
    import sympy
    from cellmlmanip.model import Model
    m = Model('second', unit_store=unit_store)
    c = Ctx(m, 'second')
    s = m.units
    mV, ms = s.add_unit('mV', 'volt / 1000'), s.add_unit('ms', 'second / 1000')
    pmV, mVms = s.add_unit('per_mV', '1 / mV'), s.add_unit('mV_per_ms', 'mV / ms')
    dl = s.get_unit('dimensionless')
    t, V = c.var('t', ms), c.var('V', mV, 1.0)
    E, I, y = c.var('E', mV), c.var('I', dl), c.var('y', mV)
    c.V = V
    m.add_equation(sympy.Eq(sympy.Derivative(V, t), c.q(1, mVms)))
    m.add_equation(sympy.Eq(E, c.q(5, mV)))
    Uexp = c.q('1/2', pmV) * (V - E)
    m.add_equation(sympy.Eq(I, c.q(3, dl) * Uexp / (sympy.exp(Uexp) - c.q(1, dl))))
    m.add_equation(sympy.Eq(y, V + c.q(1, s.get_unit('volt'))))
    return c


# ------------------------------------------------------------------------------------------------ observation
def ref_class(model, a):
    """(class, detail) of the unit an atom carries: store | string | foreign | missing"""
    u = getattr(a, 'units', None)
    if u is None:
        return 'missing', 'None'
    if isinstance(u, str):
        return 'string', repr(u)
    reg = getattr(u, '_REGISTRY', None)
    if isinstance(u, model.units.Unit) and reg is model.units._registry:
        return 'store', ''
    if reg is not None and hasattr(u, '_units'):
        return 'foreign', str(u)
    return 'missing', 'not a unit: ' + type(u).__name__


def atoms_of(expr):
    import sympy
    from cellmlmanip.model import Quantity, Variable
    seen, out = set(), []
    for n in sympy.preorder_traversal(expr):
        if isinstance(n, (Quantity, Variable)) and id(n) not in seen:
            seen.add(id(n))
            out.append(n)
    return out


def triggers(expr):
    """which magnitude computations of traverse an expression can reach (the known findings of C04)"""
    import sympy
    return {'exp': bool(expr.has(sympy.exp)), 'pow': bool(expr.has(sympy.Pow)),
            'deriv': bool(expr.has(sympy.Derivative)),
            'floor': bool(expr.has(sympy.floor) or expr.has(sympy.ceiling)),
            'nan': bool(expr.has(sympy.nan) or expr.has(sympy.oo) or expr.has(sympy.zoo)),
            'or': bool(expr.has(sympy.Or))}


def magnitude_trigger(t, exc):
    """same classification as harness/props/c04.py `magnitude_trigger`, on the flags of `triggers`"""
    if exc == 'OverflowError':
        return t['exp'] or t['pow'] or t['nan']
    if exc == 'ZeroDivisionError':
        return t['pow'] or t['deriv']
    if exc in ('TypeError', 'ValueError'):
        return t['floor'] and (t['pow'] or t['nan'])
    return False


def unit_outcome(store, expr, convert):
    from cellmlmanip.units import UnitError
    import sympy
    try:
        r = store.convert_expression_recursively(expr, None) if convert else store.evaluate_units(expr)
    except UnitError as e:
        return 'UnitError:' + type(e).__name__
    except Exception as e:       # noqa
        return 'other:' + type(e).__name__
    if convert:
        return 'ok' if isinstance(r, sympy.Basic) else 'other:result-' + type(r).__name__
    return 'ok' if isinstance(r, store.Unit) and r._REGISTRY is store._registry else 'other:result-' + type(r).__name__


def loader_sites(path):
    """what the DOCUMENT says about each variable: defined by maths / carries an initial value (read with lxml, no
    cellmlmanip): decides which loader site the quantities of a loaded equation come from"""
    from lxml import etree
    cns, mns = '{%s}' % D.CELLML_NS, '{%s}' % D.MATHML_NS
    maths, init = set(), set()
    for comp in etree.parse(path).getroot().iter(cns + 'component'):
        cname = comp.get('name')
        for var in comp.findall(cns + 'variable'):
            if var.get('initial_value') is not None:
                init.add(cname + '$' + var.get('name'))
        for math in comp.findall(mns + 'math'):
            for ap in math.findall(mns + 'apply'):
                kids = list(ap)
                if len(kids) < 3 or kids[0].tag != mns + 'eq':
                    continue
                lhs = kids[1]
                if lhs.tag == mns + 'apply':
                    lhs = [k for k in lhs if k.tag == mns + 'ci'][-1]
                maths.add(cname + '$' + (lhs.text or '').strip())
    return {'maths': maths, 'init': init}


def snapshot(c, op):
    """scan one model: equations as lists of identity numbers, objects first seen now (with the creation site the
    running operation implies), atoms whose unit is not a Unit of the store, outcome of inference / conversion"""
    import sympy
    from cellmlmanip.model import Quantity
    m = c.model

    site = ['cnLiteral']

    def how(a):
        isq = isinstance(a, Quantity)
        return {'load': site[0] if isq else 'loaderVariable',
                'apiBase': 'factoryQuantity' if isq else 'newVariable',
                'conv': 'convFactor' if isq else ('origDerivVariable' if a.name.rfind('_orig_deriv') > a.name.rfind('_converted') else 'convVariable'),
                'sing': 'singQuantity' if isq else 'strayVariable',
                'fix': 'maybeConvert' if isq else 'strayVariable',
                'fixAll': 'maybeConvert' if isq else 'strayVariable'}.get(op, 'strayQuantity' if isq else 'strayVariable')
    n0 = len(c.creator)
    eqs, bad, units, floats, lhss = [], [], {}, 0, []
    for i, eq in enumerate(m.equations):
        ids = []
        if op == 'load' and c.sites is not None:
            name = (eq.lhs.args[0] if eq.lhs.is_Derivative else eq.lhs).name
            site[0] = 'cnLiteral' if eq.lhs.is_Derivative or name in c.sites['maths'] else \
                'transformConst' if name in c.sites['init'] else 'connFactor'
        for a in atoms_of(eq):
            k = c.ident(a, how)
            ids.append(k)
            cl, det = ref_class(m, a)
            if cl != 'store':
                bad.append([i, k, cl, '%s %s: %s' % (type(a).__name__, a, det)])
        eqs.append(ids)
        lhss.append([c.ids.get(id(x), -1) for x in ([eq.lhs.args[0], eq.lhs.args[1][0]] if eq.lhs.is_Derivative
                                                     else [eq.lhs])])
        floats += len(eq.atoms(sympy.Float))
        tri = [unit_outcome(m.units, eq.lhs, False), unit_outcome(m.units, eq.rhs, False),
               unit_outcome(m.units, eq, True)]
        if tri != ['ok', 'ok', 'ok']:
            units[str(i)] = tri + [triggers(eq)] + [str(eq)[:300] if any(not t.startswith('ok') for t in tri[2:]) or
                                                    any(t.startswith('other') for t in tri) else '']
    for v in m.variables():
        k = c.ident(v, how)
        cl, det = ref_class(m, v)
        if cl != 'store':
            bad.append([-1, k, cl, 'Variable %s: %s' % (v.name, det)])
    new = [[k, c.creator[k], ref_class(m, c.objs[k])[0]] for k in range(n0, len(c.creator))]
    return {'eqs': eqs, 'lhs': lhss, 'new': new, 'bad': bad, 'units': units, 'floats': floats}


# ------------------------------------------------------------------------------------------------ operations
def role_of(m, v, states, free):
    from cellmlmanip.model import Quantity
    if v in states:
        return 'state'
    if v is free:
        return 'free'
    d = m.get_definition(v)
    if d is None:
        return 'undefined'
    return 'const' if isinstance(d.rhs, Quantity) else 'computed'


def pick_var(c, sel):
    role, k = sel
    m = c.model
    vs = sorted(m.variables(), key=lambda v: v.name)
    if not vs:
        return None, 'none'
    states = set(m.get_state_variables())
    try:
        free = m.get_free_variable()
    except ValueError:
        free = None
    if role == 'V':
        if c.V is not None and any(v is c.V for v in vs):
            return c.V, role_of(m, c.V, states, free)
        role = 'state'
    cands = [v for v in vs if role == 'any' or role_of(m, v, states, free) == role] or vs
    v = cands[k % len(cands)]
    return v, role_of(m, v, states, free)


def pick_target(c, v, tsel):
    """-> (Unit, kind actually obtained)"""
    from pint.errors import DimensionalityError
    store = c.model.units
    kind, k = tsel
    if kind == 'same':
        return v.units, 'same'
    if kind == 'scaled':
        name = 'c18s%d' % len([1 for n in range(40) if store.is_defined('c18s%d' % n)])
        f = Fraction(k)
        return store.add_unit(name, '(%s) * %d / %d' % (store.format(v.units), f.numerator, f.denominator)), 'scaled'
    compat, incompat = [], []
    for name in CANDIDATES:
        try:
            u = ensure_unit(store, name)
            cf = store.get_conversion_factor(v.units, u)
            if cf != 1:
                compat.append(u)
        except DimensionalityError:
            incompat.append(u)
        except Exception:      # noqa  (a model's own unit of that name which pint cannot expand: not a target)
            pass
    pool = compat if kind == 'compat' else incompat
    if not pool:
        return pick_target(c, v, ['scaled', '1000'])
    return pool[k % len(pool)], kind


def unit_like(c, v, k):
    """a unit of the dimension of v at another scale when there is one among the candidates, else v's own"""
    u, kind = pick_target(c, v, ['compat', k])
    return u


def build_rhs(c, spec):
    """-> (units of the new variable, right-hand side, initial value, is_ode) — all numbers from create_quantity"""
    import sympy
    m, store = c.model, c.model.units
    dl = store.get_unit('dimensionless')
    x, _ = pick_var(c, ['any', spec['x']])
    x2, _ = pick_var(c, ['any', spec['x2']])
    form = spec['form']
    if x is None:
        return dl, c.q(spec['a'], dl), None, False
    u = x.units
    if form in ('ghk', 'recip'):
        k, v0 = Fraction(spec['k']), Fraction(spec['v0'])
        if spec['style'] == 'kv0':
            Uexp = c.q(k, u ** -1) * (x - c.q(v0, u))
        elif spec['style'] == 'plus':
            Uexp = c.q(k, u ** -1) * x + c.q(-k * v0, dl)
        else:
            Uexp = c.q(k, u ** -1) * x - c.q(k * v0, dl)
        one, e = c.q(1, dl), sympy.exp(Uexp)
        core = [Uexp / (e - one), Uexp / (one - e), (e - one) / Uexp, (one - e) / Uexp][spec['gform']]
        if form == 'recip':
            return dl, c.q(spec['P'], dl) / (core + c.q(2, dl)), None, False
        return dl, c.q(spec['P'], dl) * core, None, False
    if form == 'affine':
        return u, c.q(spec['a'], dl) * x + c.q(spec['b'], u), None, False
    if form == 'mixed':
        u2 = unit_like(c, x, spec['u2'])
        return unit_like(c, x, spec['u3']), x + c.q(spec['b'], u2), None, False
    if form == 'pw':
        u2 = unit_like(c, x, spec['u2'])
        return u, sympy.Piecewise((c.q(spec['a'], u), sympy.Gt(x, c.q(spec['b'], u2))), (c.q(spec['b'], u2), True)), \
            None, False
    if form == 'fn':
        inner = x / c.q(spec['b'] if Fraction(spec['b']) != 0 else '1', unit_like(c, x, spec['u2']))
        f = [sympy.exp, sympy.log, sympy.Abs, sympy.floor, sympy.sqrt, sympy.tanh][spec['u3'] % 6]
        return dl, c.q(spec['a'], dl) * f(inner), None, False
    if form == 'ode':
        try:
            t = m.get_free_variable()
        except ValueError:
            t = x2
        return u, x / c.q(spec['b'] if Fraction(spec['b']) != 0 else '1', t.units), 1.0, t
    # random units: mostly inconsistent, inference must answer with a UnitError
    ua = ensure_unit(store, CANDIDATES[spec['u2'] % len(CANDIDATES)])
    ub = ensure_unit(store, CANDIDATES[spec['u3'] % len(CANDIDATES)])
    return ua, c.q(spec['a'], ub) * x + c.q(spec['b'], ua) / (x2 if x2 is not None else x), None, False


def run_step(ctxs, step):
    """perform one operation on the real model; -> {'op', 'who', 'out', facts…}"""
    import sympy
    from pint.errors import DimensionalityError
    from cellmlmanip.model import DataDirectionFlow, Quantity
    from cellmlmanip.units import UnitError
    op, who = step[0], step[1]
    c = ctxs[who] if who < len(ctxs) else ctxs[0]
    m = c.model
    rec = {'op': op, 'who': who if who < len(ctxs) else 0, 'out': 'ok'}
    try:
        if op == 'conv':
            v, role = pick_var(c, step[2])
            if v is None:
                rec['out'] = 'skip:no-variable'
                return rec
            target, tk = pick_target(c, v, step[3])
            try:
                cf = m.units.get_conversion_factor(v.units, target)
                rec['cf'] = 'one' if (isinstance(cf, int) and cf == 1) or cf == 1 else 'number'
            except DimensionalityError:
                rec['cf'] = 'incompatible'
            rec.update({'role': role, 'dir': step[4], 'target': tk, 'var': v.name,
                        'odes': sum(1 for e in m.equations if e.lhs.is_Derivative),
                        'defined': m.get_definition(v) is not None})
            try:
                nv = m.convert_variable(v, target, DataDirectionFlow.INPUT if step[4] == 'IN' else
                                        DataDirectionFlow.OUTPUT)
                rec['out'] = 'same' if nv is v else 'ok'
                if c.V is v and nv is not v and step[4] == 'IN':
                    c.V = nv
            except DimensionalityError:
                rec['out'] = 'raised:DimensionalityError'
        elif op == 'sing':
            v, role = pick_var(c, step[2])
            if v is None:
                rec['out'] = 'skip:no-variable'
                return rec
            excl = set()
            for k in step[3]:
                x, _ = pick_var(c, ['any', k])
                if x is not None and x is not v:
                    excl.add(x)
            rec.update({'role': role, 'var': v.name, 'excluded': len(excl)})
            before = [id(e) for e in m.equations]
            m.remove_fixable_singularities(v, excl)
            rec['changed'] = sum(1 for e in m.equations if id(e) not in before)
        elif op == 'addEq':
            spec = step[2]
            units, rhs, init, t = build_rhs(c, spec)
            nv = c.var(c.fresh_name(spec['name']), units, init)
            rec.update({'form': spec['form'], 'nq': len(rhs.atoms(Quantity))})
            lhs = sympy.Derivative(nv, t) if t is not False else nv
            m.add_equation(sympy.Eq(lhs, rhs))
        elif op == 'rmEq':
            if not m.equations:
                rec['out'] = 'skip:no-equation'
                return rec
            m.remove_equation(sorted(m.equations, key=lambda e: str(e.lhs))[step[2] % len(m.equations)])
        elif op in ('fix', 'fixAll'):
            eqs = list(m.equations)
            if not eqs:
                rec['out'] = 'skip:no-equation'
                return rec
            todo = eqs if op == 'fixAll' else [sorted(eqs, key=lambda e: str(e.lhs))[step[2] % len(eqs)]]
            rec.update({'rewritten': 0, 'uniterror': 0})
            for eq in todo:
                try:
                    _units, new_eq = m.units.evaluate_units_and_fix(eq)
                except UnitError:
                    rec['uniterror'] += 1
                    continue
                except (ZeroDivisionError, OverflowError, TypeError, ValueError) as e:   # judged by the oracle per equation
                    rec.setdefault('other', []).append(type(e).__name__)
                    continue
                if new_eq is not eq and new_eq != eq:
                    m.remove_equation(eq)
                    m.add_equation(new_eq)
                    rec['rewritten'] += 1
        elif op == 'rmVar':
            v, role = pick_var(c, step[2])
            if v is None:
                rec['out'] = 'skip:no-variable'
                return rec
            rec.update({'role': role, 'var': v.name, 'readd': bool(step[3]), 'repoint': bool(step[3] and step[4])})
            m.remove_variable(v)
            if step[3]:
                nv = c.var(v.name, v.units, 1.0 if role == 'state' else None)
                if role in ('const', 'computed'):
                    m.add_equation(sympy.Eq(nv, c.q(step[5], v.units)))
                if step[4]:
                    for eq in list(m.equations):
                        if eq.has(v):
                            m.remove_equation(eq)
                            m.add_equation(eq.xreplace({v: nv}))
                if c.V is v:
                    c.V = nv
        elif op == 'raw':
            # CONTROL (violates the contract of add_equation on purpose): the scan must see it
            other = build_second(None)
            u = {'string': 'dimensionless', 'foreign': other.model.units.get_unit('volt'), 'missing': None,
                 'notunit': 3.5}[step[2]]
            qraw = Quantity(1.0, u)
            c.alive.append(qraw)
            c.by_factory[id(qraw)] = 'raw:' + {'notunit': 'missing'}.get(step[2], step[2])
            nv = c.var(c.fresh_name('c18raw'), m.units.get_unit('dimensionless'))
            m.add_equation(sympy.Eq(nv, qraw + c.q(2, 'dimensionless')))
            rec['planted'] = step[2]
        else:
            rec['out'] = 'skip:unknown-op'
    except Exception as e:      # noqa   an operation that refuses (or breaks): recorded; the scan that follows judges the state
        rec['out'] = 'raised:' + type(e).__name__
        rec['msg'] = str(e)[:160]
    return rec


def impl(case):
    logging.disable(logging.CRITICAL)
    base = case['base']
    second = case.get('second')
    ctxs = []
    try:
        if second == 'shared' and base['kind'] in ('doc', 'file') and case.get('second_first', True):
            c2 = build_second(None)
            ctxs = [build_base(base, unit_store=c2.model.units), c2]
        else:
            c1 = build_base(base)
            ctxs = [c1]
            if second:
                ctxs.append(build_second(c1.model.units if second == 'shared' else None))
    except Exception as e:      # noqa
        return {'skip': 'base not built: %s: %s' % (type(e).__name__, str(e)[:200])}
    base_op = 'load' if base['kind'] in ('doc', 'file') else 'apiBase'
    snaps = [[snapshot(ctxs[0], base_op)] + ([snapshot(ctxs[1], 'apiBase')] if len(ctxs) > 1 else [])]
    recs = []
    for step in case['steps']:
        rec = run_step(ctxs, step)
        recs.append(rec)
        snaps.append([snapshot(c, step[0] if i == rec['who'] else 'idle') for i, c in enumerate(ctxs)])
    return {'steps': recs, 'snaps': snaps, 'regs': registry_ids(ctxs), 'factory': factory_probe(ctxs)}


def registry_ids(ctxs):
    seen = []
    for c in ctxs:
        if not any(r is c.model.units._registry for r in seen):
            seen.append(c.model.units._registry)
    return [[i for i, r in enumerate(seen) if r is c.model.units._registry][0] for c in ctxs]


def factory_probe(ctxs):
    """create_quantity / add_variable of model 0 with every kind of `units` argument"""
    from cellmlmanip.units import UnitStore
    c = ctxs[0]
    m = c.model
    args = [['own', m.units.get_unit('volt') / m.units.get_unit('second')], ['name', 'dimensionless'],
            ['unknown', 'c18_no_such_unit'], ['none', None], ['foreign', UnitStore().get_unit('volt')]]
    if len(ctxs) > 1 and ctxs[1].model.units._registry is m.units._registry:
        args.append(['shared', ctxs[1].model.units.get_unit('mV')])
    out = []
    for kind, u in args:
        res = [kind]
        for f in (lambda: m.create_quantity(1.5, u), lambda: m.add_variable(c.fresh_name('c18probe'), u)):
            try:
                res.append('ok:' + ref_class(m, f())[0])
            except Exception as e:      # noqa
                res.append('raised:' + type(e).__name__)
        out.append(res)
    return out


# ------------------------------------------------------------------------------------------------ model
CLS = {'store': 's', 'string': 'b', 'foreign': 'f', 'missing': 'm'}
KNOWN_CREATORS = {'cnLiteral', 'connFactor', 'transformConst', 'loaderVariable', 'factoryQuantity', 'newVariable',
                  'convFactor', 'convVariable', 'origDerivVariable', 'maybeConvert', 'singQuantity'}


def creator_sx(cr, op):
    if cr.startswith('raw:'):
        k = cr[4:]
        return ['raw', ['foreign', 99] if k == 'foreign' else k]
    if cr in KNOWN_CREATORS:
        return cr
    # an object the running operation has no creation site for: a creator that is illegal for every operation but load
    return 'loaderVariable' if op != 'load' else 'singQuantity'


def op_sx(rec, mine):
    """the operation as the model sees it, for the model it was applied to (`mine`) or another one"""
    if rec is None:
        return None
    if not mine or rec['out'].startswith('skip'):
        return 'idle'
    op = rec['op']
    if op == 'conv':
        role = rec['role'] if rec['role'] in ('state', 'free') else 'other'
        return ['conv', rec['cf'], 'in' if rec['dir'] == 'IN' else 'out', role, rec['odes']]
    return {'sing': 'sing', 'fix': 'fix', 'fixAll': 'fix', 'rmEq': 'rmEq'}.get(op, 'userEdit')


def requests(case, obs):
    if 'skip' in obs:
        return []
    base_op = 'load' if case['base']['kind'] in ('doc', 'file') else 'userEdit'
    snaps = []
    prev = None
    for k, per_model in enumerate(obs['snaps']):
        rec = obs['steps'][k - 1] if k else None
        ms = []
        for i, s in enumerate(per_model):
            if k == 0:
                op = base_op if i == 0 else 'userEdit'
            else:
                op = op_sx(rec, rec['who'] == i)
            shapes = []
            old = {} if prev is None else {tuple(e): j for j, e in reversed(list(enumerate(prev[i]['eqs'])))}
            for e in s['eqs']:
                j = old.get(tuple(e))
                shapes.append(['k', j] if j is not None and len(e) > 2 else ['a'] + list(e))
            opname = op if isinstance(op, str) else op[0]
            ms.append(['m', op, ['new'] + [creator_sx(cr, opname) for _k, cr, _c in s['new']], ['eqs'] + shapes])
        snaps.append(['snap'] + ms)
        prev = per_model
    fac = [['foreign', 99] if f[0] == 'foreign' else f[0] for f in obs['factory']]
    return [sx(['C18', 'fixed', ['stores'] + obs['regs'], ['snaps'] + snaps, ['factory'] + fac])]


def observed_classes(s):
    bad = {(i, k): cl for i, k, cl, _d in s['bad'] if i >= 0}
    return [[CLS[bad.get((i, k), 'store')] for k in e] for i, e in enumerate(s['eqs'])]


def compare(case, obs, replies):
    rep = replies[0]
    if not isinstance(rep, list) or len(rep) != 2 or rep[0][0] != 'snaps':
        return 'model reply malformed: %r' % (rep,)
    msnaps = rep[0][1:]
    if len(msnaps) != len(obs['snaps']):
        return 'model answered %d snapshots for %d' % (len(msnaps), len(obs['snaps']))
    for k, (per_model, msnap) in enumerate(zip(obs['snaps'], msnaps)):
        rec = obs['steps'][k - 1] if k else None
        where = 'after the base' if k == 0 else 'after step %d (%s)' % (k, rec['op'])
        for i, (s, mr) in enumerate(zip(per_model, msnap[1:])):
            if not isinstance(mr, list) or mr[0] != 'ok':
                return '%s, model %d: the model of the operation has no creation site for the objects that appeared: %s' \
                    % (where, i, [n[1] for n in s['new']])
            mcls = [list(e) for e in mr[1][1:]]
            ocls = observed_classes(s)
            if mcls != ocls:
                for j, (a, b) in enumerate(zip(ocls, mcls)):
                    if a != b:
                        return '%s, model %d, equation %d: unit classes observed %s, model %s' % (where, i, j, a, b)
                return '%s, model %d: %d equations observed, model %d' % (where, i, len(ocls), len(mcls))
            expect = [str(x) for x in mr[2][1:]]
            if expect != ['any'] and rec is not None and (rec['who'] != i or rec['out'] in
                                                          ('ok', 'same', 'raised:DimensionalityError')):
                got = sorted(n[1] for n in s['new'])
                if got != sorted(expect):
                    return '%s, model %d: the operation created %s, the model says %s' % (where, i, got, sorted(expect))
            if any(str(b) != 'true' for b in mr[3][1:]):
                return '%s, model %d: a loaded equation holds more quantities than its origin explains: %s' \
                    % (where, i, [str(b) for b in mr[3][1:]])
    mfac = rep[1][1:]
    for f, mf in zip(obs['factory'], mfac):
        want = 'ok:' + {'s': 'store', 'b': 'string', 'f': 'foreign', 'm': 'missing'}[str(mf[1])] if mf[0] == 'ok' \
            else 'raised:' + str(mf[1])
        if f[1] != want or f[2] != want:
            return 'factory with a %s unit argument: create_quantity %s, add_variable %s, model %s' % (f[0], f[1], f[2], want)
    return None


# ------------------------------------------------------------------------------------------------ property oracle
def op_name(case, obs, k, i):
    if k == 0:
        return ('load' if case['base']['kind'] in ('doc', 'file') else 'api-base') if i == 0 else 'api-base'
    rec = obs['steps'][k - 1]
    name = {'conv': 'convert_variable', 'sing': 'remove_fixable_singularities', 'addEq': 'add_equation',
            'rmEq': 'remove_equation', 'fix': 'unit-fix', 'fixAll': 'unit-fix', 'rmVar': 'remove_variable',
            'raw': 'control'}.get(rec['op'], rec['op'])
    return name if rec['who'] == i else name + '@other-model'


def oracle(case, obs):
    """C18 stated on what was observed, without the Lean model: after the base and after every operation, every atom of
    every equation of every model carries a Unit of that model's registry; inference and conversion of every equation
    answer with a unit / an expression or a UnitError; an equation whose conversion succeeded does not report a
    UnitError after an operation that kept its left-hand side; the control steps are detected."""
    if 'skip' in obs:
        return []
    fails = []
    seen_bad, seen_other = set(), set()
    for k, per_model in enumerate(obs['snaps']):
        rec = obs['steps'][k - 1] if k else None
        for i, s in enumerate(per_model):
            opn = op_name(case, obs, k, i)
            creator = {n[0]: n[1] for kk in range(k + 1) for n in obs['snaps'][kk][i]['new']}
            raw_ids = {a for a, cr in creator.items() if cr.startswith('raw:')}
            for eqi, ident, cl, det in s['bad']:
                if (i, ident) in seen_bad:
                    continue
                seen_bad.add((i, ident))
                if ident in raw_ids:
                    continue
                fails.append({'key': '%s-unit:%s' % (cl, opn),
                              'detail': 'model %d, equation %d: %s (first seen after %s)' % (i, eqi, det, opn)})
            for eqi, u in s['units'].items():
                ids = s['eqs'][int(eqi)]
                if raw_ids & set(ids):
                    continue
                for which, out in zip(('evaluate_units(lhs)', 'evaluate_units(rhs)', 'convert_expression_recursively(eq)'),
                                      u[:3]):
                    if not out.startswith('other:'):
                        continue
                    sig = (i, tuple(ids), which, out)
                    if sig in seen_other:
                        continue
                    seen_other.add(sig)
                    exc = out[6:]
                    explained = magnitude_trigger(u[3], exc)
                    fails.append({'key': ('non-UnitError:%s:%s' if explained else 'non-UnitError-unexplained:%s:%s')
                                  % (exc, opn), 'detail': 'model %d: %s of %s raised %s' % (i, which, u[4], exc)})
            if k and rec['who'] == i and rec['op'] in ('conv', 'sing', 'fix', 'fixAll', 'rmEq') and \
                    s['floats'] > obs['snaps'][k - 1][i]['floats']:
                fails.append({'key': 'missing-unit:%s:bare-float' % opn,
                              'detail': 'model %d: %d plain sympy Floats (numbers without any unit) in the equations before '
                                        '%s, %d after it' % (i, obs['snaps'][k - 1][i]['floats'], opn, s['floats'])})
            if k and rec['who'] == i and rec['op'] != 'raw':
                before = obs['snaps'][k - 1][i]
                was = {tuple(l): before['units'].get(str(j), ['ok', 'ok', 'ok'])[2] for j, l in enumerate(before['lhs'])}
                for j, l in enumerate(s['lhs']):
                    now = s['units'].get(str(j), ['ok', 'ok', 'ok'])[2]
                    if now.startswith('UnitError') and was.get(tuple(l)) == 'ok' and -1 not in l and \
                            s['eqs'][j] not in before['eqs'] and not (raw_ids & set(s['eqs'][j])):
                        symbolic = rec['op'] == 'sing' and s['units'][str(j)][3].get('or')
                        fails.append({'key': 'unit-regression:%s%s' % (opn, ':symbolic-bounds' if symbolic else ''),
                                      'detail': 'model %d: the equation for object %s converted to consistent units '
                                                'before %s and reports %s after it: %s'
                                                % (i, l, opn, now, s['units'][str(j)][4])})
        if rec is not None and rec['op'] == 'raw':
            s = per_model[rec['who']]
            want = {'notunit': 'missing'}.get(rec.get('planted'), rec.get('planted'))
            if rec['out'] == 'ok' and not any(cl == want for _e, _k, cl, _d in s['bad']):
                fails.append({'key': 'control-not-detected:%s' % rec.get('planted'),
                              'detail': 'a quantity with a %s unit was planted and the scan did not see it' % want})
    out, keys = [], set()
    for f in fails:
        if f['key'] not in keys:
            keys.add(f['key'])
            out.append(f)
    return out[:10]


def created_quantities(obs):
    return sum(1 for per_model in obs['snaps'][1:] for s in per_model for n in s['new']
               if n[1] in ('convFactor', 'maybeConvert', 'singQuantity', 'factoryQuantity'))


def nontrivial(case, obs):
    return 'skip' not in obs and created_quantities(obs) > 0


def tag(case, obs):
    if 'skip' in obs:
        return 'base-not-built'
    ops = sorted({r['op'] for r in obs['steps']})
    return '%s%s: %s' % (case['base']['kind'], '+2nd' if case.get('second') else '', ','.join(ops))


def stats(case, obs):
    """per-operation counts for the report (not used by the runner)"""
    import collections
    h = collections.Counter()
    if 'skip' in obs:
        h['skip'] += 1
        return h
    for n in obs['snaps'][0][0]['new']:
        h['base-' + n[1]] += 1
    for k, rec in enumerate(obs['steps']):
        s = obs['snaps'][k + 1][rec['who']]
        h['%s %s' % (rec['op'], rec['out'])] += 1
        if rec['op'] == 'conv':
            h['conv %s/%s/%s' % (rec.get('role'), rec.get('dir'), rec.get('cf'))] += 1
        if rec['op'] == 'sing' and rec.get('changed'):
            h['sing changed-equations'] += rec['changed']
        if rec['op'] in ('fix', 'fixAll'):
            h['fix rewritten-equations'] += rec.get('rewritten', 0)
        if rec['op'] == 'addEq':
            h['addEq ' + rec.get('form', '?')] += 1
        for n in s['new']:
            h['created %s by %s' % (n[1], rec['op'])] += 1
    for per_model in obs['snaps']:
        for s in per_model:
            h['snapshots'] += 1
            h['equations scanned'] += len(s['eqs'])
            h['atoms scanned'] += sum(len(e) for e in s['eqs'])
            for u in s['units'].values():
                for o in u[:3]:
                    if o != 'ok':
                        h['outcome ' + o] += 1
    return h


# ------------------------------------------------------------------------------------------------ corpus, shrinking
def ghk_base(k, v0, form, style, P=3, ode=False, unit_factor=None):
    """one GHK equation x = P·form(U) through the C12 builder; `ode`: the pattern sits in dV/dt behind 1 [mV_per_ms]"""
    c = G.single_case(Fraction(k), Fraction(v0), form, style, P)
    for e in c['eqs']:
        e.pop('probe', None)
    if ode:
        t = dict(c['eqs'][0]['terms'][0])
        core = c['eqs'][0]['rhs'][2]
        c['ode'] = {'rhs': ['mul', G.q(1, 'mV_per_ms'), core], 'terms': [t]}
    return {'kind': 'ghk', 'case': c}


def corpus():
    out = []
    sing = ['sing', 0, ['V', 0], []]
    # the witness of commit 50d6d1a (string units after singularity removal), alone and inside a history
    out.append({'base': ghk_base('1/2', 5, 0, 'kv0'), 'second': None, 'steps': [sing]})
    out.append({'base': ghk_base('-1/8', '15/2', 2, 'plus'), 'second': 'shared',
                'steps': [['sing', 1, ['V', 0], []], sing, ['conv', 0, ['V', 0], ['scaled', '1/1000'], 'IN'], ['fixAll', 0],
                          ['sing', 0, ['V', 0], []]]})
    # a factor 1 that carries a unit must survive singularity removal
    out.append({'base': ghk_base('1/2', 5, 1, 'kv0', ode=True), 'second': None, 'steps': [sing]})
    out.append({'base': {'kind': 'file', 'name': 'beeler_reuter_model_1977'}, 'second': None, 'steps': [sing, ['fixAll', 0]]})
    out.append({'base': {'kind': 'file', 'name': 'aslanidi_model_2009'}, 'second': 'separate',
                'steps': [sing, ['conv', 0, ['V', 0], ['compat', 0], 'IN'], ['conv', 0, ['free', 0], ['compat', 1], 'IN']]})
    # every kind of convert_variable on a small model, then the write-back pass
    for role in ('state', 'free', 'const', 'computed'):
        for d in ('IN', 'OUT'):
            out.append({'base': ghk_base('1/2', 5, 3, 'minus'), 'second': None,
                        'steps': [['conv', 0, [role, 0], ['scaled', '1000'], d], ['fixAll', 0], sing]})
    # the controls: what the scan must see
    for kind in ('string', 'foreign', 'missing', 'notunit'):
        out.append({'base': ghk_base('1/2', 5, 0, 'kv0'), 'second': None, 'steps': [['raw', 0, kind]]})
    return out


def shrink(violation):
    """drop steps (last first) while a failure with the same key remains; then try without the second model"""
    case, key = violation['case'], violation['failures'][0]['key']

    def still(c):
        o = impl(c)
        fs = [f for f in oracle(c, o) if f['key'] == key]
        return (o, fs) if fs else None
    best = None
    steps = list(case['steps'])
    i = len(steps) - 1
    while i >= 0 and len(steps) > 1:
        trial = dict(case, steps=steps[:i] + steps[i + 1:])
        r = still(trial)
        if r:
            steps = trial['steps']
            best = (trial, r)
        i -= 1
    cur = best[0] if best else case
    if cur.get('second') and all(s[1] == 0 for s in cur['steps']):
        trial = dict(cur, second=None)
        r = still(trial)
        if r:
            best = (trial, r)
    if not best:
        return None
    return {'case': best[0], 'failures': best[1][1], 'obs': best[1][0]}


MANIFEST = {
    'technique': 'Lean 4 invariant over an object-identity model of the creation sites + histories on the real code '
                 '(differential correspondence of unit classes and created objects, independent atom scan)',
    'text': ('Proved in Lean (lean/Cellml/Props/C18.lean, standard axioms only): a model state is a registry id, the pool '
             'of every Quantity / Variable object the model ever showed with the unit each carries (unit of the store / '
             'bare string / foreign / missing) and the equations as lists of objects; every creation site of the library '
             '(cn literals, connection factors, transform_constants, create_quantity, add_variable, the factor and the '
             'variables of convert_variable, maybe_convert_expr, the bounds and ONE of singularity removal) is a function '
             'to the unit it hangs on the new atom. AllUnits (every atom of every equation has a unit of the store) holds '
             'after loading (allunits_load), is preserved by every operation (allunits_step; for library operations '
             'without hypothesis, inv_step_library; for user equations under the documented contract of add_equation), '
             'hence after every history (allunits_reachable, induction over the list) and for several models in one '
             'process (inv_world); the factory returns units of the store or refuses (createQuantity_ofStore, '
             'createQuantity_refuses); the code before commit 50d6d1a plants strings (today_plants_strings, decide) and '
             'the contract is needed (contract_needed). Against the C04 model of UnitCalculator.traverse: every failure '
             'is a UnitError or one of three magnitude-arithmetic exceptions (infer_total_class), none without power / '
             'derivative / floor / exp (infer_total_class_strict). Tie: histories of 1-6 operations on loaded documents, '
             'API-built GHK models, expression models and two bundled models; after every operation the unit class of '
             'every atom, the objects created (convert_variable: exactly the factor, the converted variable and the '
             '_orig_deriv variables the model predicts), the loader origin of every loaded quantity; the oracle scans '
             'every atom and runs evaluate_units / convert_expression_recursively on every equation.'),
    'note': ('The Lean model is deliberately small: which site created a new object is decided by the operation that '
             'was running (the unit class is observed). Inference outcomes other than UnitError that come from '
             'arithmetic on magnitudes (ZeroDivisionError, OverflowError, TypeError) are the known findings of C04 and '
             'are listed as known here with C18 witnesses. Symbolic range bounds get the voltage unit number by number, '
             'which makes the repaired equation dimensionally inconsistent (known finding: UnitError, not a crash).'),
}
