import Cellml.Props.C19
import Cellml.Tie.GenBUnits
import Cellml.Tie.GenBConvertVar

/-! # C19 about the GENERATED code — `rule_unit_independent`, `rule_chain`, `rule_noninterference`, `rule_unreachable`
    (and the `convert_variable` theorems) of `Props/C19.lean`, restated for the definitions generated from the source
    text of `cellmlmanip/units.py` / `model.py`: `Cellml.Gen.Units.convert`, `Cellml.Gen.Units.getConversionFactor`,
    `Cellml.Gen.ConvertVarSym.convertVariable`.

    The theorems of `Props/C19.lean` speak about `Units.convertWithRules` — pint's `Quantity.to` with the enabled
    contexts, which is a LEAF of the translated code (`pintTo`) — and reach the code through the model functions
    `convertQ` / `conversionFactorR`. Here the statements are about what the generated `UnitStore.convert` returns for the
    python object `storeObj st reg rules` (any store `st`; registry `reg`; enabled transformations `rules`). They follow
    from the originals through `convert_tie`, `convertQ_eq` (`genConvert_rules`), which hold for ALL arguments: no tie
    hypothesis is added. The hypotheses about `allKnown`, `lookupRule`, `Reach` are those of the original theorems
    (they describe the state of the pint registry, i.e. the leaf). -/

namespace Cellml.Props.C19Gen
open Units PMap Cellml.Gen Cellml.Tie Cellml.Tie.PUnits Cellml.Tie.PGenB

/-- `store.convert(1 * a, b)` computed by the GENERATED `UnitStore.convert`, with the rules `rules` enabled -/
abbrev convR (st : Store) (reg : Registry) (rules : List Rule) (a b : Container) : Except PyErr QuantityObj :=
  Gen.Units.convert (storeObj st reg rules) (unitQuantity ⟨a⟩) ⟨b⟩

/-- the quantity "magnitude (number `f`) · (symbols `y`), unit `b`" -/
abbrev qty (f : Scale) (y : Syms) (b : Container) : QuantityObj := ⟨⟨f, y⟩, ⟨b⟩⟩

/-- the generated `get_conversion_factor` is a function of what the generated `convert` returns on `1 * a` -/
theorem getConversionFactor_congr (s s' : StoreObj) (a b : UnitObj)
    (h : Gen.Units.convert s (unitQuantity a) b = Gen.Units.convert s' (unitQuantity a) b) :
    Gen.Units.getConversionFactor s a b = Gen.Units.getConversionFactor s' a b := by
  unfold Gen.Units.getConversionFactor
  rw [h]

theorem getConversionFactor_error (s : StoreObj) (a b : UnitObj) (e : PyErr)
    (h : Gen.Units.convert s (unitQuantity a) b = .error e) :
    Gen.Units.getConversionFactor s a b = .error e := by
  unfold Gen.Units.getConversionFactor
  rw [h]; rfl

/-- **rule_unit_independent** for the generated `convert`: the multiplier is
    `scale(a) · |κ| · scale(unit κ) / scale(b)` with the symbols of κ, for ANY units `a`, `b` of the two dimensions -/
theorem rule_unit_independent (st : Store) (reg : Registry) (rules : List Rule) (a b : Container) (r : Rule)
    (ha : allKnown reg a = true) (hb : allKnown reg b = true) (hk : allKnown reg r.kunit = true)
    (hne : ¬ dimsOf reg a ≃ dimsOf reg b)
    (hr : lookupRule rules (dimsOf reg a) (dimsOf reg b) = some r)
    (hdim : dimsOf reg r.kunit ≃ sub r.dst r.src) :
    ∃ f y, convR st reg rules a b = .ok (qty f y b) ∧
      f ≃ add (sub (toRoot reg a).1 (toRoot reg b).1) (add r.kscale (toRoot reg r.kunit).1) ∧ y ≃ r.ksyms := by
  obtain ⟨f, y, h, hf, hy⟩ := C19.rule_unit_independent reg rules a b r ha hb hk hne hr hdim
  exact ⟨f, y, (genConvert_rules_ok st reg rules a b f y).mpr h, hf, hy⟩

/-- … and for every magnitude `m` the result is `m` times that multiplier, in unit `b` -/
theorem rule_unit_independent_any_magnitude (st : Store) (reg : Registry) (rules : List Rule) (m : MagObj)
    (a b : Container) (r : Rule)
    (ha : allKnown reg a = true) (hb : allKnown reg b = true) (hk : allKnown reg r.kunit = true)
    (hne : ¬ dimsOf reg a ≃ dimsOf reg b)
    (hr : lookupRule rules (dimsOf reg a) (dimsOf reg b) = some r)
    (hdim : dimsOf reg r.kunit ≃ sub r.dst r.src) :
    ∃ f y, Gen.Units.convert (storeObj st reg rules) ⟨m, ⟨a⟩⟩ ⟨b⟩ = .ok ⟨m * ⟨f, y⟩, ⟨b⟩⟩ ∧
      f ≃ add (sub (toRoot reg a).1 (toRoot reg b).1) (add r.kscale (toRoot reg r.kunit).1) ∧ y ≃ r.ksyms := by
  obtain ⟨f, y, h, hf, hy⟩ := C19.rule_unit_independent reg rules a b r ha hb hk hne hr hdim
  exact ⟨f, y, by rw [genConvert_rules, h], hf, hy⟩

/-- **rule_chain** for the generated `convert` -/
theorem rule_chain (st : Store) (reg : Registry) (rules : List Rule) (a b : Container) (m : Dims) (r₁ r₂ : Rule)
    (ha : allKnown reg a = true) (hb : allKnown reg b = true)
    (hk₁ : allKnown reg r₁.kunit = true) (hk₂ : allKnown reg r₂.kunit = true)
    (hne : ¬ dimsOf reg a ≃ dimsOf reg b)
    (hdirect : lookupRule rules (dimsOf reg a) (dimsOf reg b) = none)
    (h₁ : lookupRule rules (dimsOf reg a) m = some r₁) (h₂ : lookupRule rules m (dimsOf reg b) = some r₂)
    (huniq : ∀ r ∈ rules, r.src = dimsOf reg a → (∃ r' ∈ rules, r'.src = r.dst ∧ r'.dst = dimsOf reg b) → r.dst = m)
    (hdim₁ : dimsOf reg r₁.kunit ≃ sub r₁.dst r₁.src) (hdim₂ : dimsOf reg r₂.kunit ≃ sub r₂.dst r₂.src) :
    ∃ f y, convR st reg rules a b = .ok (qty f y b) ∧
      f ≃ add (sub (toRoot reg a).1 (toRoot reg b).1)
            (add (add r₁.kscale (toRoot reg r₁.kunit).1) (add r₂.kscale (toRoot reg r₂.kunit).1)) ∧
      y ≃ add r₁.ksyms r₂.ksyms := by
  obtain ⟨f, y, h, hf, hy⟩ :=
    C19.rule_chain reg rules a b m r₁ r₂ ha hb hk₁ hk₂ hne hdirect h₁ h₂ huniq hdim₁ hdim₂
  exact ⟨f, y, (genConvert_rules_ok st reg rules a b f y).mpr h, hf, hy⟩

/-- **rule_noninterference** for the generated `convert`: between units of the same dimension the result is the
    ordinary factor (a number, no symbols) whatever rules are enabled — same result, same exception class -/
theorem rule_noninterference (st : Store) (reg : Registry) (rules : List Rule) (m : MagObj) (a b : Container)
    (hd : dimsOf reg a ≃ dimsOf reg b) :
    Gen.Units.convert (storeObj st reg rules) ⟨m, ⟨a⟩⟩ ⟨b⟩ =
      match factor reg a b with
      | .ok f => .ok ⟨m * ⟨f, []⟩, ⟨b⟩⟩
      | .error e => .error ⟨uErrClass e⟩ := by
  rw [genConvert_rules, C19.rule_noninterference reg rules a b hd]
  cases factor reg a b <;> rfl

/-- the same without any model function in the statement: enabling rules does not change what the generated `convert`
    and `get_conversion_factor` return between units of one dimension (compare with the rule-free store) -/
theorem rule_noninterference_code (st : Store) (reg : Registry) (rules rules' : List Rule) (m : MagObj) (a b : Container)
    (hd : dimsOf reg a ≃ dimsOf reg b) :
    Gen.Units.convert (storeObj st reg rules) ⟨m, ⟨a⟩⟩ ⟨b⟩ = Gen.Units.convert (storeObj st reg rules') ⟨m, ⟨a⟩⟩ ⟨b⟩ ∧
    Gen.Units.getConversionFactor (storeObj st reg rules) ⟨a⟩ ⟨b⟩ =
      Gen.Units.getConversionFactor (storeObj st reg rules') ⟨a⟩ ⟨b⟩ := by
  refine ⟨by rw [rule_noninterference st reg rules m a b hd, rule_noninterference st reg rules' m a b hd], ?_⟩
  apply getConversionFactor_congr
  show Gen.Units.convert _ ⟨MagObj.one, ⟨a⟩⟩ ⟨b⟩ = Gen.Units.convert _ ⟨MagObj.one, ⟨a⟩⟩ ⟨b⟩
  rw [rule_noninterference st reg rules _ a b hd, rule_noninterference st reg rules' _ a b hd]

/-- **rule_unreachable** for the generated `convert` and `get_conversion_factor`: no rule path between the dimensions
    ⇒ `DimensionalityError`, for every magnitude, whatever rules are enabled -/
theorem rule_unreachable (st : Store) (reg : Registry) (rules : List Rule) (m : MagObj) (a b : Container)
    (ha : allKnown reg a = true) (hb : allKnown reg b = true)
    (hun : ¬ Reach rules (dimsOf reg a) (dimsOf reg b)) :
    Gen.Units.convert (storeObj st reg rules) ⟨m, ⟨a⟩⟩ ⟨b⟩ = .error ⟨"DimensionalityError"⟩ ∧
    Gen.Units.getConversionFactor (storeObj st reg rules) ⟨a⟩ ⟨b⟩ = .error ⟨"DimensionalityError"⟩ := by
  have h := C19.rule_unreachable reg rules a b ha hb hun
  refine ⟨genConvert_rules_error st reg rules m a b _ h, ?_⟩
  exact getConversionFactor_error _ _ _ _ (genConvert_rules_error st reg rules MagObj.one a b _ h)

/-! ### `convert_variable`: the generated `Model.convert_variable` (+ `_convert_variable_instance` and the three
    derivative helpers, all generated from model.py, run on symbolic values as in `Tie/ConvertVarSym.lean`) over the
    GENERATED `get_conversion_factor` -/

open Cellml.Tie.CVSym

/-- the generated `convert_variable(original, units, direction, move_annotations)` for a variable in unit `a`, target
    unit `b`, in a model whose unit store is `storeObj st reg rules`; result: (log of the equations added that mention
    the factor + whether a scaled initial value was given to `add_variable`, the variable returned) -/
abbrev genCV (st : Store) (reg : Registry) (rules : List Rule) (a b : Container) (dir : Dir) (kind : VarKind)
    (hasInit : Bool) (n : Nat) (cmeta : Option Unit) (move : Bool) : Except PyErr (SymSt × SV) :=
  Gen.ConvertVarSym.convertVariable (symViewGen st reg rules a b kind hasInit n cmeta) {} .orig dir move

theorem enc_same_iff (o : CVOutcome) : enc o = .ok ({}, .orig) ↔ o = .same := by
  cases o with
  | same => simp [enc]
  | converted fy sc eqs => simp [enc]
  | error e => cases e <;> simp [enc]

/-- `convert_variable` returns the original variable (and adds nothing) exactly when the generated
    `get_conversion_factor` returns the int `1` -/
theorem cv_same_iff (st : Store) (reg : Registry) (rules : List Rule) (a b : Container) (dir : Dir) (kind : VarKind)
    (hasInit : Bool) (n : Nat) (cmeta : Option Unit) (move : Bool) :
    genCV st reg rules a b dir kind hasInit n cmeta move = .ok ({}, .orig) ↔
      Gen.Units.getConversionFactor (storeObj st reg rules) ⟨a⟩ ⟨b⟩ = .ok 1 := by
  show Gen.ConvertVarSym.convertVariable _ _ _ _ _ = _ ↔ _
  rw [genConvertVariable_eq, genCf_one_iff, enc_same_iff, C19.cv_same_iff]

/-- an exception of the generated `get_conversion_factor` is re-raised unchanged, nothing is added -/
theorem cv_unit_error (st : Store) (reg : Registry) (rules : List Rule) (a b : Container) (dir : Dir) (kind : VarKind)
    (hasInit : Bool) (n : Nat) (cmeta : Option Unit) (move : Bool) (e : PyErr)
    (h : Gen.Units.getConversionFactor (storeObj st reg rules) ⟨a⟩ ⟨b⟩ = .error e) :
    genCV st reg rules a b dir kind hasInit n cmeta move = .error e := by
  show Gen.ConvertVarSym.convertVariable _ _ _ _ _ = _
  rw [genConvertVariable_eq]
  have ht := getConversionFactor_tie st reg rules a b
  rw [h] at ht
  cases hc : conversionFactorR reg rules a b with
  | ok o => rw [hc] at ht; cases ht
  | error e' =>
    rw [hc] at ht
    simp only [Except.map, errClass, Except.error.injEq] at ht
    rw [(C19.cv_unit_error_iff reg rules a b dir kind hasInit n e').mpr hc, ht]
    simp only [enc, uerrClass_eq (conversionFactorR_err hc)]

/-- when it converts (returns the new variable), the factor in EVERY added equation is the one the generated
    `get_conversion_factor` returned; the equations are `cvEquations`; the initial value is scaled iff INPUT with an
    initial value -/
theorem cv_uses_rule_factor (st : Store) (reg : Registry) (rules : List Rule) (a b : Container) (dir : Dir)
    (kind : VarKind) (hasInit : Bool) (n : Nat) (cmeta : Option Unit) (move : Bool) (s : SymSt)
    (h : genCV st reg rules a b dir kind hasInit n cmeta move = .ok (s, .new)) :
    ∃ f y, Gen.Units.getConversionFactor (storeObj st reg rules) ⟨a⟩ ⟨b⟩ = .ok (CFObj.mag ⟨f, y⟩) ∧
      s.log = (cvEquations dir kind n).map (fun e => (e, (f, y))) ∧ s.log ≠ [] ∧
      (s.initScaled = true ↔ (dir = .input ∧ hasInit = true)) := by
  change Gen.ConvertVarSym.convertVariable _ _ _ _ _ = _ at h
  rw [genConvertVariable_eq] at h
  cases hcv : Units.convertVariable reg rules a b dir kind hasInit n with
  | same => rw [hcv] at h; simp [enc] at h
  | error e => rw [hcv] at h; cases e <;> simp [enc] at h
  | converted fy sc eqs =>
    rw [hcv] at h
    simp only [enc, Except.ok.injEq, Prod.mk.injEq, and_true] at h
    subst h
    obtain ⟨hcf, heqs, _, hne, hinit⟩ := C19.cv_uses_rule_factor reg rules a b dir kind hasInit n fy sc eqs hcv
    obtain ⟨f, y⟩ := fy
    refine ⟨f, y, (genCf_mag_iff st reg rules a b f y).mpr hcf, by simp [heqs], ?_, hinit⟩
    simpa using hne

/-- **convert_variable alike (partial)**: whenever the generated `get_conversion_factor` gives a factor other than the
    int `1`, the generated `convert_variable` converts with it — provided the factor is numeric, or the direction is
    OUTPUT, or the variable has no initial value -/
theorem cv_alike_partial (st : Store) (reg : Registry) (rules : List Rule) (a b : Container) (dir : Dir)
    (kind : VarKind) (hasInit : Bool) (n : Nat) (cmeta : Option Unit) (move : Bool) (f : Scale) (y : Syms)
    (hcf : Gen.Units.getConversionFactor (storeObj st reg rules) ⟨a⟩ ⟨b⟩ = .ok (CFObj.mag ⟨f, y⟩))
    (hex : y = [] ∨ dir = .output ∨ hasInit = false) :
    genCV st reg rules a b dir kind hasInit n cmeta move =
      .ok ({ log := (cvEquations dir kind n).map (fun e => (e, (f, y))),
             initScaled := decide (dir = .input) && hasInit }, .new) := by
  show Gen.ConvertVarSym.convertVariable _ _ _ _ _ = _
  rw [genConvertVariable_eq,
    C19.cv_alike_partial reg rules a b dir kind hasInit n f y ((genCf_mag_iff st reg rules a b f y).mp hcf) hex]
  rfl

/-- the excluded configuration really fails (known finding `cv-symbolic-factor-initial-value`): symbolic factor,
    INPUT, initial value ⇒ the generated `convert_variable` raises `TypeError` although the generated
    `get_conversion_factor` succeeded -/
theorem cv_symbolic_input_initial_value_refused (st : Store) (reg : Registry) (rules : List Rule) (a b : Container)
    (kind : VarKind) (n : Nat) (cmeta : Option Unit) (move : Bool) (f : Scale) (y : Syms)
    (hcf : Gen.Units.getConversionFactor (storeObj st reg rules) ⟨a⟩ ⟨b⟩ = .ok (CFObj.mag ⟨f, y⟩)) (hy : y ≠ []) :
    genCV st reg rules a b .input kind true n cmeta move = .error ⟨"TypeError"⟩ := by
  show Gen.ConvertVarSym.convertVariable _ _ _ _ _ = _
  rw [genConvertVariable_eq, C19.cv_symbolic_input_initial_value_refused reg rules a b kind n f y
    ((genCf_mag_iff st reg rules a b f y).mp hcf) hy]
  rfl

end Cellml.Props.C19Gen
