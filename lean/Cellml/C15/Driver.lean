import Cellml.Basic.Sexp
import Cellml.C01.Driver
import Cellml.C15.Model

/-! Channel C15: `(C15 load|loadset <adv> (units…) (comps…) (encaps…) (conns…))`, document format of channel C01,
    `<adv>` = `id | rev | (rot k)` — the order every iterated set hands out its elements.
    → `(ok (vars "c$v"…) (eqs "lhs"…) (leaves ("lhs" ("leaf"…))…) (states …) (derivs …) (derived …) (nodes …)
           (eqsfor ("v" ("lhs"…))…) (eqsforall …) (eqsforallunits …) (eqsfordirect ("v" (…))…))`
    | `(err Class "what")`; a query that fails answers `(qerr kind)` in its slot.
    Nodes are numbered by position in `variables ++ derivative left-hand sides`; keys are `str()` of the SymPy
    objects (`c$v`, `Derivative(_c$x, _c$t)`). -/
namespace C15
open Sexp Load

def adv? : Sexp → Option Adv
  | .atom "id" => some Adv.ident
  | .atom "rev" => some Adv.rev
  | .list [.atom "rot", k] => do some (Adv.rot (← nat? k))
  | _ => none

def nodeName (F : Flat) (n : Node) : Sexp :=
  match (nodesOf F)[n]? with
  | some x => .str (C01.lhsName x)
  | none => .str ("?" ++ toString n)

def errName : C09.Err → String
  | .assertion => "assertion"
  | .badRef => "badRef"
  | .notInGraph => "notInGraph"
  | .unfeasible => "unfeasible"

def ofNodes (F : Flat) (tag : String) : Except C09.Err (List Node) → Sexp
  | .ok l => .list (.atom tag :: l.map (nodeName F))
  | .error e => .list [.atom tag, .list [.atom "qerr", .atom (errName e)]]

def perNode (F : Flat) (tag : String) (nodes : List Node) (f : Node → Except C09.Err (List Node)) : Sexp :=
  .list (.atom tag :: nodes.map (fun v => match f v with
    | .ok l => Sexp.list [nodeName F v, .list (l.map (nodeName F))]
    | .error e => Sexp.list [nodeName F v, .list [.atom "qerr", .atom (errName e)]]))

def reply (π : Adv) (F : Flat) : Sexp :=
  let cx := ctxOf F
  let vars := (variables F).map (fun v => Sexp.str (C01.flatName v))
  let eqs := F.eqs.map (fun e => Sexp.str (C01.lhsName e.lhs))
  let leaves := F.eqs.map (fun e => Sexp.list [.str (C01.lhsName e.lhs), .list (e.rhs.leaves.map (fun l => .str (C01.lhsName l)))])
  let gnodes := match graphNodes cx π obsAll F with | .ok l => l | .error _ => []
  let derivs := match getDerivatives cx π obsAll F with | .ok l => l | .error _ => []
  let asked := ((variables F).map (fun v => cx.num (.var v))).filter (· ∈ gnodes) ++ derivs
  .list [.atom "ok", .list (.atom "vars" :: vars), .list (.atom "eqs" :: eqs), .list (.atom "leaves" :: leaves),
    ofNodes F "states" (.ok (getStateVariables cx F)),
    ofNodes F "derivs" (getDerivatives cx π obsAll F),
    ofNodes F "derived" (getDerivedQuantities cx π obsAll F),
    ofNodes F "nodes" (graphNodes cx π obsAll F),
    perNode F "eqsfor" asked (fun v => getEquationsFor cx π obsAll F [v] true true),
    ofNodes F "eqsforall" (getEquationsFor cx π obsAll F asked true true),
    ofNodes F "eqsforallunits" (getEquationsFor cx π obsAll F asked true false),
    perNode F "eqsfordirect" asked (fun v => getEquationsFor cx π obsAll F [v] false true)]

def handle (args : List Sexp) : Sexp :=
  match args with
  | .atom which :: a :: rest =>
      match adv? a, C01.doc? rest with
      | some π, some doc =>
          let r := if which = "loadset" then loadSet π doc else if which = "load" then load π doc
                   else .error (.unsupported "bad-request")
          match r with
          | .error e => C01.errSexp e
          | .ok F => reply π F
      | _, _ => .atom "bad-document"
  | _ => .atom "bad-request"

end C15
