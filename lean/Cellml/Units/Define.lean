import Cellml.Units.Core
import Cellml.Basic.Decimal

/-! Unit definitions: parser.py `_make_pint_unit_definition` (238-280) composed with units.py
    `UnitStore.add_unit` / `add_base_unit` / `_prefix_name` / the `_WORD` substitution (64-69, 143-204, 393-406).
    Core Lean only. -/

namespace Units

/-- attributes of one CellML `<unit>` element, as text -/
structure UnitElem where
  units      : String
  pfx        : Option String := none
  exponent   : Option String := none
  multiplier : Option String := none
  offset     : Option String := none
deriving Repr, DecidableEq

def isWordStart (c : Char) : Bool := c.isAlpha || c == '_'
def isWordChar (c : Char) : Bool := c.isAlphanum || c == '_'

/-- `_WORD.sub(f, s)` for `_WORD = (?<![0-9.])[a-zA-Z_]+[a-zA-Z0-9_]*`, scanning with the previous character -/
def wordSubstGo (f : String → String) : Nat → Char → List Char → List Char
  | 0, _, cs => cs
  | _, _, [] => []
  | fuel + 1, prev, c :: r =>
      if isWordStart c && !(prev.isDigit || prev == '.') then
        let run := (c :: r).takeWhile isWordChar
        let rest := (c :: r).dropWhile isWordChar
        (f (String.ofList run)).toList ++ wordSubstGo f fuel (run.getLast?.getD c) rest
      else c :: wordSubstGo f fuel c r

def wordSubst (f : String → String) (s : String) : String :=
  String.ofList (wordSubstGo f (s.length + 1) ' ' s.toList)

/-- `UnitStore._prefix_name` -/
def prefixName (storeId : Nat) (name : String) : String :=
  if Cellml.Gen.cellmlUnits.contains name then name else "store" ++ toString storeId ++ "_" ++ name

/-- what a unit name inside a definition expression becomes after `_WORD.sub(self._prefix_expression, ·)` -/
def mangle (storeId : Nat) (name : String) : String := wordSubst (prefixName storeId) name

/-- canonical pint name of a built-in alias (`metre` ↦ `meter`): pint resolves aliases when it parses -/
def canonName (n : String) : String :=
  match Cellml.Gen.builtinUnits.find? (fun (_, aliases, _) => aliases.contains n) with
  | some (name, _, _) => name
  | none => n

/-- container of a single (already qualified) unit name; `dimensionless` is the empty container -/
def nameContainer (q : String) : Container :=
  if q == "dimensionless" then [] else [(canonName q, 1)]

inductive DefErr where
  | offset                 -- ValueError('Offsets in units are not supported!')
  | badNumber (what : String)
  | unsupported (what : String)   -- outside the modelled fragment (e.g. non-positive multiplier)
deriving Repr, DecidableEq

/-! ### the offset test: `float(offset) != 0`

    CPython's `float(text)` for ASCII text: surrounding white space is stripped; `[sign] inf | infinity | nan` in any
    case; otherwise a decimal literal `[sign] (digits [. [digits]] | . digits) [(e|E) [sign] digits]` in which single
    underscores may stand between two digits (`1_0`, PEP 515); anything else raises `ValueError`. The decimal literal is
    read by `Decimal.parse` (exact value); the result of `float` is the binary64 number nearest to that value (ties to
    even), which is zero exactly when `|value| ≤ 2^-1075` (half of the smallest subnormal; the tie goes to the even
    neighbour 0) - `roundsToZero`.
    Outside this reading: non-ASCII decimal digits and non-ASCII / VT / FF white space, which `float()` also accepts
    (`float('٠') == 0.0`); the model answers `ValueError` there. None of them is a lexical form of `xsd:decimal`, the
    type the RELAX NG schema gives the attribute, so no such text reaches the function through `load_model`. -/

/-- what `float(text)` returns, before rounding -/
inductive FloatText where
  | nan
  | inf
  /-- a decimal literal and its exact value -/
  | dec (q : Rat)
deriving Repr, DecidableEq

/-- PEP 515: every `_` stands between two digits (`prev` = the character before the list) -/
def underscoresOk : Char → List Char → Bool
  | _, [] => true
  | prev, c :: r =>
    if c == '_' then prev.isDigit && (r.head?.map Char.isDigit).getD false && underscoresOk c r
    else underscoresOk c r

/-- CPython `float(text)`; `none` = `ValueError` -/
def floatText (s : String) : Option FloatText :=
  match Decimal.parse s with
  | some q => some (.dec q)
  | none =>
    let t := Decimal.trimList s.toList
    let u := (match t with
      | '-' :: r => r
      | '+' :: r => r
      | r => r).map Char.toLower
    if u == "inf".toList || u == "infinity".toList then some .inf
    else if u == "nan".toList then some .nan
    else if t.contains '_' && underscoresOk ' ' t then
      (Decimal.parse (String.ofList (t.filter (· != '_')))).map .dec
    else none

/-- the binary64 number nearest to `q` (ties to even) is zero: `|q| ≤ 2^-1075` -/
def roundsToZero (q : Rat) : Bool := decide (q.num.natAbs * 2 ^ 1075 ≤ q.den)

/-- the offset test exactly as written: `float(offset) != 0` (`ValueError` from `float` refuses the offset as well;
    `nan != 0` and `inf != 0` hold) -/
def offsetRejected (o : String) : Bool :=
  match floatText o with
  | none => true
  | some .nan => true
  | some .inf => true
  | some (.dec q) => !roundsToZero q

/-- power of ten of a prefix attribute: a table name, else an integer -/
def prefixPower (p : String) : Option Int :=
  match Cellml.Gen.unitPrefixes.lookup p with
  | some (some k) => some k
  | some none => none
  | none => Decimal.parseInt p

/-- one `<unit>` child: multiplier · (10^prefix · ref)^exponent -/
def elemMeaning (storeId : Nat) (e : UnitElem) : Except DefErr (Scale × Container × Bool) := do
  let c0 := nameContainer (mangle storeId e.units)
  let s0 : Scale ← match e.pfx with
    | none => pure []
    | some p => match prefixPower p with
        | some k => pure (pow10 k)
        | none => throw (.badNumber ("prefix " ++ p))
  let ex : Rat ← match e.exponent with
    | none => pure 1
    | some t => match Decimal.parse t with
        | some q => pure q
        | none => throw (.badNumber ("exponent " ++ t))
  let m : Scale ← match e.multiplier with
    | none => pure []
    | some t => match Decimal.parse t with
        | some q => match Factor.rat q with
            | some s => pure s
            | none => throw (.unsupported ("multiplier " ++ t))
        | none => throw (.badNumber ("multiplier " ++ t))
  match e.offset with
  | some o => if offsetRejected o then throw .offset
  | none => pure ()
  pure (PMap.add m (PMap.smul ex s0), PMap.smul ex c0, e.units == "dimensionless")

/-- the whole `<units>` element: product over its children. Third component: mentions `dimensionless`. -/
def defMeaning (storeId : Nat) : List UnitElem → Except DefErr (Scale × Container × Bool)
  | [] => pure ([], [], false)
  | e :: es => do
      let (s, c, d) ← elemMeaning storeId e
      let (s', c', d') ← defMeaning storeId es
      pure (PMap.add s s', PMap.add c c', d || d')

structure Store where
  id    : Nat
  known : List String      -- user-visible names added to this store (built-ins are implicit)
deriving Repr, DecidableEq

/-- `UnitStore.is_defined(name)`: `name in self._known_units`. The set starts as `set(_CELLML_UNITS)` (units.py
    `__init__`) and receives every name added through this store, so the built-ins ARE defined
    (`UnitStore().is_defined('metre') == True`); tied to the source by `Cellml.Tie.PUnits.isDefined_tie`. -/
def Store.isDefined (st : Store) (name : String) : Bool :=
  Cellml.Gen.cellmlUnits.contains name || st.known.contains name

inductive AddErr where
  | valueError (what : String)
  | undefinedUnit
  | badDefinition (what : String)
  | unsupported (what : String)
deriving Repr, DecidableEq

/-- the offset test of `Parser._make_pint_unit_definition` on one `<unit>` child -/
def elemOffsetBad (e : UnitElem) : Bool :=
  match e.offset with
  | some o => offsetRejected o
  | none => false

/-- pint's `parse_expression` evaluates EVERY identifier of the (prefixed) expression, whatever exponent it ends up
    with: each must be a registry key (`'((nosuch)**0)'` raises `UndefinedUnitError`) -/
def refsKnown (reg : Registry) (storeId : Nat) (elems : List UnitElem) : Bool :=
  elems.all (fun e => allKnown reg (nameContainer (mangle storeId e.units)))

/-- `UnitStore.add_unit(name, expression)` (units.py 155-181) in the order of the source, given what pint makes of the
    expression text: `refs` = every identifier in it is a registry key, `m` = its value.
    1. the three tests on the NAME (`ValueError`), before anything is evaluated;
    2. `parse_expression`: `UndefinedUnitError` for an unknown identifier;
    3. the dimensionless / dimensional branch, `define`, `_known_units.add(name)`. -/
def addUnitWith (refs : Bool) (m : Except DefErr (Scale × Container × Bool)) (reg : Registry) (st : Store)
    (name : String) : Except AddErr (Registry × Store) :=
  if Cellml.Gen.cellmlUnits.contains name then .error (.valueError "redefine CellML unit")
  else if st.known.contains name then .error (.valueError "redefine unit")
  else if Cellml.Gen.unsupportedUnits.contains name then .error (.valueError "unsupported unit")
  else if !refs then .error .undefinedUnit
  else
    match m with
    | .error .offset => .error (.valueError "offset")
    | .error (.badNumber w) => .error (.badDefinition w)
    | .error (.unsupported w) => .error (.unsupported w)
    | .ok (k, c, mentionsDimless) =>
      let c' := PMap.norm c
      if c' = [] then
        .ok ((prefixName st.id name, .derived (PMap.norm k) []) :: reg, { st with known := name :: st.known })
      else if mentionsDimless then
        -- `qname = (dimensionless ...)*(metre ...)`: pint keeps the key `dimensionless` in the reference of
        -- a string definition; the unit is unusable afterwards (known finding C03/C07) — outside the model
        .error (.unsupported "dimensionless mixed with dimensional units")
      else
        .ok ((prefixName st.id name, .derived (PMap.norm k) c') :: reg, { st with known := name :: st.known })

/-- `UnitStore.add_unit(name, _make_pint_unit_definition(name, elems))`: first the parser builds the text (its only
    failure: an offset, `ValueError`), then `add_unit` runs on it -/
def addUnit (reg : Registry) (st : Store) (name : String) (elems : List UnitElem) :
    Except AddErr (Registry × Store) :=
  if elems.any elemOffsetBad then .error (.valueError "offset")
  else addUnitWith (refsKnown reg st.id elems) (defMeaning st.id elems) reg st name

/-- `UnitStore.add_base_unit(name)` -/
def addBaseUnit (reg : Registry) (st : Store) (name : String) : Except AddErr (Registry × Store) :=
  if Cellml.Gen.cellmlUnits.contains name then .error (.valueError "redefine CellML unit")
  else if st.known.contains name then .error (.valueError "redefine unit")
  else
    let q := prefixName st.id name
    .ok ((q, .base (some ("[" ++ q ++ "]"))) :: reg, { st with known := name :: st.known })

/-- `UnitStore.get_unit(name)` as a container -/
def getUnit (st : Store) (name : String) : Except AddErr Container :=
  if Cellml.Gen.unsupportedUnits.contains name then .error (.valueError "KeyError unsupported")
  else if !st.isDefined name then .error (.valueError "KeyError unknown")
  else .ok (nameContainer (prefixName st.id name))

end Units
