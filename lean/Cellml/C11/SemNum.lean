import Cellml.C11.SemDoc

/-! C11 — `print_means`, part 2: numbers and powers. -/
namespace C11
set_option linter.unusedSimpArgs false
variable {K : Type} [Field K] (S : Sem K)

theorem natDoc_num (hL : Laws S) (n : Nat) : (evD S (natDoc n)).num = (n : K) := by
  simp only [natDoc, evD]; exact hL.atom_nat n

theorem intDoc_num (hL : Laws S) (n : Int) : (evD S (intDoc n)).num = (n : K) := by
  unfold intDoc
  split
  next h =>
    have hn : n = -((n.natAbs : Nat) : Int) := by omega
    simp only [evD_neg_num, natDoc_num S hL]
    conv_rhs => rw [hn]
    rw [Int.cast_neg, Int.cast_natCast]
  next h =>
    have hn : n = ((n.natAbs : Nat) : Int) := by omega
    rw [natDoc_num S hL]
    conv_rhs => rw [hn]
    rw [Int.cast_natCast]

theorem numDoc_num (hL : Laws S) (e : E) (hw : wf .A e = true) (hn : isNum e = true) :
    (evD S (numDoc e)).num = (ev S e).num := by
  cases e <;> simp [isNum] at hn
  case int n => simp only [numDoc, ev]; exact intDoc_num S hL n
  case rat p q => simp only [numDoc, ev, evD_div_num, intDoc_num S hL, natDoc_num S hL]
  case flt t neg =>
    simp only [wf, fltOK, Bool.and_eq_true, beq_iff_eq, decide_eq_true_eq] at hw
    cases neg
    · simp [numDoc, fltDoc, ev, evD]
    · simp only [numDoc, fltDoc, ev, evD_neg_num, if_true]
      have := hL.atom_neg t hw.2.1
      simp only [evD]; rw [this]

/-- the value of a negative number is minus the value of its negation -/
theorem negNum_num (hL : Laws S) (e : E) (hw : wf .A e = true) (hn : isNegNum e = true) :
    (ev S e).num = -(ev S (negNum e)).num := by
  cases e <;> simp [isNegNum] at hn
  case int n => simp [negNum, ev]
  case rat p q => simp [negNum, ev]; ring
  case flt t neg =>
    subst hn
    simp only [wf, fltOK, Bool.and_eq_true, beq_iff_eq, decide_eq_true_eq] at hw
    simp only [negNum, ev, if_true]
    exact hL.atom_neg t hw.2.1

theorem one_atom (hL : Laws S) : S.atomNum "1" = (1 : K) := by
  have h1 : toString (1 : Nat) = "1" := by decide
  have := hL.atom_nat 1
  rw [h1] at this
  simpa using this

theorem powDoc_num (hL : Laws S) (b x : E) (bd xd : Doc) (hx : (evD S xd).num = (ev S x).num) :
    (evD S (powDoc b x bd xd)).num = S.powK (evD S bd).num (ev S x).num := by
  unfold powDoc
  split
  next h =>
    have hx2 : x = .rat 1 2 := by simpa using h
    subst hx2
    simp only [evD, ev, hL.sqrt_def]; push_cast; rfl
  split
  next h =>
    simp only [Bool.and_eq_true, beq_iff_eq] at h
    have hx2 := h.2; subst hx2
    simp only [evD_div_num, evD, ev, hL.sqrt_def, one_atom S hL]
    have : ((-1 : Int) : K) / ((2 : Nat) : K) = -(1 / 2) := by push_cast; ring
    rw [this, hL.pow_neg]; ring
  split
  next h =>
    simp only [Bool.and_eq_true, beq_iff_eq] at h
    have hx2 := h.2; subst hx2
    simp only [evD_div_num, evD_bracket, ev]
    simp only [evD, one_atom S hL]
    have : ((-1 : Int) : K) = -1 := by push_cast; rfl
    rw [this, hL.pow_neg, hL.pow_one]; ring
  · simp only [evD_pow_num, evD_bracket, hx]

end C11
