import Cellml.Props.C18
import Cellml.Props.C12Gen

/-! # C18 — `allunits_reachable` for the singularity step as the GENERATED `remove_fixable_singularities` performs it.

    `Props/C18.lean` models an operation as a `Step` that says which creation sites it uses; for
    `remove_fixable_singularities` that is `op := .removeSingularities` with `creates` all `.singQuantity`, and
    `creatorRef` says which unit such a site hangs on the new atom. Here the units are the ones the definition generated
    from the source of `remove_fixable_singularities` (`Gen.SingTrav.removeFixableSingularities`, run with the generated
    `_remove_singularities`) really hands to `Model.create_quantity` and gets back (`created`, tie
    `removeFixable_tie`): the pool after the abstract step IS the pool before plus `created`, so the theorems of
    `Props/C18.lean` speak about what the generated code creates. -/

namespace Cellml.Props.C18Gen
open _root_.C18 Cellml.Props.C18 Cellml.Props.C12Gen Cellml.Tie

/-- the abstract step for a run of the generated function that re-created `created.length` quantities and left the
    equations `shapes` -/
def singStep (created : List UnitRef) (shapes : List EqShape) : Step :=
  { op := .removeSingularities, creates := List.replicate created.length .singQuantity, eqs := shapes }

/-- every unit the generated function hangs on a re-created quantity is the one the C18 model assigns to the
    `singQuantity` creation site after the repair (a unit of the model's own store) -/
theorem created_is_site {det : List C12.Expr → List (C12.Win Rat)} {sid : Nat} {vUnits : UnitArg}
    {order : List (Option C12.Eqn)} {excl : List String} {eqs eqs' : List C12.Eqn} {env' : C12.Expr.Env}
    {created : List UnitRef} (hc : Call vUnits order)
    (hrun : genRun det sid vUnits order excl eqs = .ok (eqs', env', created)) :
    created = (List.replicate created.length Creator.singQuantity).map (creatorRef .fixed sid) := by
  have h := (result_gen hc hrun).2
  apply List.ext_getElem (by simp)
  intro i h1 h2
  simp [creatorRef, h _ (List.getElem_mem h1)]

/-- the pool after the abstract step is the pool before plus exactly the units created by the generated function -/
theorem step_pool_gen {det : List C12.Expr → List (C12.Win Rat)} {vUnits : UnitArg}
    {order : List (Option C12.Eqn)} {excl : List String} {eqs eqs' : List C12.Eqn} {env' : C12.Expr.Env}
    {created : List UnitRef} (s : MState) (shapes : List EqShape) (hc : Call vUnits order)
    (hrun : genRun det s.storeId vUnits order excl eqs = .ok (eqs', env', created))
    (hok : (singStep created shapes).ok s = true) :
    (step .fixed s (singStep created shapes)).pool = s.pool ++ created ∧
    (step .fixed s (singStep created shapes)).eqs = shapes.map (resolveEq s.eqs) := by
  unfold step
  rw [if_pos hok]
  refine ⟨?_, rfl⟩
  show s.pool ++ (List.replicate created.length Creator.singQuantity).map (creatorRef .fixed s.storeId) = _
  rw [← created_is_site hc hrun]

/-- **the singularity step keeps `AllUnits`, with the units the generated code creates**: for a model state satisfying
    the invariant, the state whose pool is extended by the units the generated `remove_fixable_singularities` hung on
    the quantities it re-created (and whose equations mention existing objects only — `Step.ok`) satisfies the
    invariant and `AllUnits`; no contract hypothesis (a library operation) -/
theorem allunits_sing_step_gen {det : List C12.Expr → List (C12.Win Rat)} {vUnits : UnitArg}
    {order : List (Option C12.Eqn)} {excl : List String} {eqs eqs' : List C12.Eqn} {env' : C12.Expr.Env}
    {created : List UnitRef} (s : MState) (hs : Inv s) (shapes : List EqShape) (hc : Call vUnits order)
    (hrun : genRun det s.storeId vUnits order excl eqs = .ok (eqs', env', created))
    (hok : (singStep created shapes).ok s = true) :
    AllUnits { s with pool := s.pool ++ created, eqs := shapes.map (resolveEq s.eqs) } := by
  have hinv : Inv (step .fixed s (singStep created shapes)) := inv_step_library hs (by simp [singStep])
  have hp := step_pool_gen s shapes hc hrun hok
  intro e he i hi
  have := allunits_of_inv hinv e (by rw [hp.2]; exact he) i hi
  rw [hp.1, step_storeId] at this
  exact this

/-- **`allunits_reachable` with the generated singularity step inside a history**: load, any steps (user edits obeying
    the contract of `add_equation`), the singularity removal as the generated function performs it on the state
    reached (its `created` units), any further steps: every atom of every equation carries a unit of the model's store -/
theorem allunits_reachable_gen {det : List C12.Expr → List (C12.Win Rat)} {vUnits : UnitArg}
    {order : List (Option C12.Eqn)} {excl : List String} {eqs12 eqs' : List C12.Eqn} {env' : C12.Expr.Env}
    {created : List UnitRef} (sid : Nat) (creates : List Creator) (eqs : List (List Nat)) (before after : List Step)
    (shapes : List EqShape) (hc : Call vUnits order)
    (hrun : genRun det sid vUnits order excl eqs12 = .ok (eqs', env', created))
    (hb : ∀ st ∈ before, st.op = .userEdit → st.contract sid = true)
    (ha : ∀ st ∈ after, st.op = .userEdit → st.contract sid = true) :
    AllUnits (run .fixed (load .fixed sid creates eqs) (before ++ [singStep created shapes] ++ after)) ∧
    (let s := run .fixed (load .fixed sid creates eqs) before
     (singStep created shapes).ok s = true →
       (step .fixed s (singStep created shapes)).pool = s.pool ++ created) := by
  refine ⟨allunits_reachable sid creates eqs _ ?_, ?_⟩
  · intro st hst hop
    simp only [List.mem_append, List.mem_singleton] at hst
    rcases hst with (h | h) | h
    · exact hb st h hop
    · subst h; simp [singStep] at hop
    · exact ha st h hop
  · intro s hok
    have hsid : s.storeId = sid := by
      have : ∀ (l : List Step) (t : MState), (run .fixed t l).storeId = t.storeId := by
        intro l
        induction l with
        | nil => intro t; rfl
        | cons a l ih => intro t; simp only [run, List.foldl_cons] at ih ⊢; rw [ih]; exact step_storeId _ _ _
      show (run .fixed (load .fixed sid creates eqs) before).storeId = sid
      rw [this]; simp [load, init]
    exact (step_pool_gen s shapes hc (by rw [hsid]; exact hrun) hok).1

/-- non-vacuity: the demo model of `Props/C18.lean`; the generated function on the concrete C12 model of
    `Props/C12.lean` re-creates two quantities with units of store 0; the step is admissible -/
example : ∃ eqs' env' created,
    genRun (C12.detect Cellml.Props.C12.exδ false) demo.storeId .ownUnit (Cellml.Props.C12.exEqs.map some) ["z"]
      Cellml.Props.C12.exEqs = .ok (eqs', env', created) ∧ created = [.ofStore 0, .ofStore 0] ∧
    (singStep created [.atoms [0, 5, 1, 6, 2, 3, 4]]).ok demo = true := by
  obtain ⟨created, hcr, h⟩ := genRun_eq (C12.detect Cellml.Props.C12.exδ false) demo.storeId .ownUnit
    (Cellml.Props.C12.exEqs.map some) ["z"] Cellml.Props.C12.exEqs ⟨Or.inl rfl, by decide +kernel⟩
  have hlen : ((genRun (C12.detect Cellml.Props.C12.exδ false) demo.storeId .ownUnit
      (Cellml.Props.C12.exEqs.map some) ["z"] Cellml.Props.C12.exEqs).toOption.map (fun r => r.2.2))
      = some [.ofStore 0, .ofStore 0] := by decide +kernel
  rw [h] at hlen
  have hcreated : created = [.ofStore 0, .ofStore 0] := by simpa [Except.toOption] using hlen
  exact ⟨_, _, created, h, hcreated, by subst hcreated; decide⟩

end Cellml.Props.C18Gen
