import Cellml.C09.Eval

/-! # C09 — requested equations come back complete, minimal and in evaluable order.

    Model (`Cellml/C09/Model.lean`): `buildGraph` = `Model.graph`, `stripGraph` = the edge removal of
    `Model.graph_with_sympy_numbers` (given, per equation, the reference set after number substitution as observed
    from SymPy), `lexTopo` = `nx.lexicographical_topological_sort(graph, key=str)` (Kahn's algorithm taking the least
    `(key, insertion index)` among the ready nodes), `ancestors` = `nx.ancestors`, `preds` = `graph.pred`,
    `getEquationsFor` = `Model.get_equations_for`. The result of `getEquationsFor` is the list of left-hand sides of
    the equations returned, in order.

    Vocabulary (definitions in `Cellml/C09/{Lemmas,Closure,Build,Eqsfor}.lean`):
    * `hasEq eqs v` — `v` is the left-hand side of an equation; `isStateOrFree eqs v` — `v` is the state or the free
      variable of some ODE of the system;
    * `DepOn eqs strip u v` — `u` is referenced on the right-hand side of `v`'s equation (`strip = true`: and still
      is after number substitution, `Eqn.numRefs` — a substitution happens only in an equation that holds a `Quantity`,
      `Eqn.hasQ`; any other equation keeps its references, as in the code: `if subs_dict:`);
      `TC R` — transitive closure (at least one step) of `R`;
    * `Needed eqs vars recurse strip v` — `v` is requested, or some request depends on `v` (`recurse = true`:
      through `TC (DepOn …)`, otherwise directly);
    * `Valid key eqs` — what `Model.graph` asserts: left-hand sides (and their `str`) pairwise different, every
      reference is a left-hand side or a state / free variable;
    * `WF g` — nodes listed once, edges join nodes; `Acyclic g` — a ranking exists along which every edge goes up,
      which is proved equivalent to "no node reaches itself" (`acyclic_iff_no_cycle`);
    * `KeyInj key l` — the nodes of `l` have pairwise different keys; `SameSystem eqs eqs'` — the same equations up
      to the order of the list and the order / repetition inside each reference set.

    Every theorem is for ALL equation systems, request lists, both recursion modes and both number representations —
    no bound on the number of variables or the shape of the dependency graph. Acyclicity is never an extra
    assumption of the `eqsfor_*` theorems: a result `.ok res` exists exactly when the system is valid and acyclic
    (`eqsfor_total`, `eqsfor_ok_only_if`, `lexTopo_ok_iff_acyclic`, `acyclic_iff_no_cycle`). The one `_partial`
    theorem is `strip_values_partial`: that SymPy's substituted right-hand sides are numerically identical to the
    original ones is a hypothesis there, not a proved fact (SymPy is not modelled; the reference sets after
    substitution are an INPUT of the model, `Eqn.refsNum`).
    The tie to cellmlmanip is `harness/props/c09.py`. -/

namespace Cellml.Props.C09
open _root_.C09

/-! ## The sort -/

/-- **Kahn never gets stuck on an acyclic graph**: the output is a permutation of the nodes. -/
theorem lexTopo_perm (key : Node → String) (g : Graph) (hwf : WF g) (hac : Acyclic g) :
    ∃ l, lexTopo key g = .ok l ∧ l.Perm g.nodes := by
  obtain ⟨l, hl⟩ := lexTopo_of_acyclic (key := key) hwf hac
  exact ⟨l, hl, lexTopo_ok_perm hl⟩

/-- Whenever the sort succeeds its output is a permutation of the nodes (so each node exactly once). -/
theorem lexTopo_ok_is_perm (key : Node → String) (g : Graph) (l : List Node) (h : lexTopo key g = .ok l) :
    l.Perm g.nodes := lexTopo_ok_perm h

/-- **Every node is preceded by all its predecessors.** -/
theorem lexTopo_topological (key : Node → String) (g : Graph) (l : List Node) (h : lexTopo key g = .ok l) :
    ∀ (i : Nat) (v : Node), l[i]? = some v → ∀ u, (u, v) ∈ g.edges → u ∈ l.take i :=
  lexTopo_ok_respects h

/-- **"Sorted first by dependencies, then by name"**: the node at position `i` has the least key among the nodes
    not yet output whose predecessors have all been output before `i`. Together with `lexTopo_topological` and
    distinct keys this determines the order uniquely. -/
theorem lexTopo_least (key : Node → String) (g : Graph) (l : List Node) (h : lexTopo key g = .ok l)
    (i : Nat) (v : Node) (hi : l[i]? = some v) (w : Node) (hw : w ∈ g.nodes) (hnot : w ∉ l.take i)
    (hready : ∀ u, (u, w) ∈ g.edges → u ∈ l.take i) : ¬ key w < key v := by
  obtain ⟨rfl, _⟩ := lexTopo_ok h
  exact kahn_least key g g.nodes.length g.nodes [] i v (Nat.zero_le _) hi w hw hnot (isReady_iff.mpr hready)

/-- The sort succeeds exactly on the acyclic graphs (`NetworkXUnfeasible` otherwise). -/
theorem lexTopo_ok_iff_acyclic (key : Node → String) (g : Graph) (hwf : WF g) :
    (∃ l, lexTopo key g = .ok l) ↔ Acyclic g := by
  constructor
  · rintro ⟨l, hl⟩
    exact ⟨fun v => l.idxOf v, acyclic_of_lexTopo hwf hl⟩
  · exact lexTopo_of_acyclic hwf

/-- `Acyclic` (a ranking exists) is acyclicity in the usual sense: no node reaches itself along edges. -/
theorem acyclic_iff_no_cycle (g : Graph) : Acyclic g ↔ ∀ v, ¬ TC (Edge' g) v v :=
  _root_.C09.acyclic_iff_no_cycle g

/-- `lexTopo_perm` with acyclicity spelled out: no directed cycle ⇒ the sort outputs every node exactly once. -/
theorem lexTopo_perm_of_no_cycle (key : Node → String) (g : Graph) (hwf : WF g)
    (hno : ∀ v, ¬ TC (Edge' g) v v) : ∃ l, lexTopo key g = .ok l ∧ l.Perm g.nodes :=
  lexTopo_perm key g hwf ((acyclic_iff_no_cycle g).mpr hno)

/-- **With distinct keys the order does not depend on the order in which nodes and edges were inserted** (nor on
    duplicated edge insertions): only on the set of nodes, the set of edges and the keys. Hence not on Python's set
    iteration order in `find_variables_and_derivatives`, nor on the order of `Model.equations`. -/
theorem lexTopo_insertion_independent (key : Node → String) (g g' : Graph)
    (hnodes : g'.nodes.Perm g.nodes) (hedges : ∀ e, e ∈ g'.edges ↔ e ∈ g.edges) (hinj : KeyInj key g.nodes) :
    lexTopo key g' = lexTopo key g := by
  have hk := kahn_congr key g g' hedges g.nodes.length g.nodes g'.nodes [] hnodes hinj
  simp only [lexTopo, hnodes.length_eq, hk]

/-- Ties between equal keys ARE broken by insertion order (first inserted first) — the reason the hypothesis of
    distinct keys cannot be dropped above. -/
theorem lexTopo_tie_by_insertion :
    lexTopo (fun _ => "k") ⟨[0, 1], []⟩ = .ok [0, 1] ∧ lexTopo (fun _ => "k") ⟨[1, 0], []⟩ = .ok [1, 0] := by
  decide

/-! ## `get_equations_for` -/

/-- **Complete and minimal, each equation exactly once**: the result lists, without repetition, exactly the
    equations of the requested quantities and of everything they depend on (transitively when recursing, directly
    otherwise), where "depend" is read off the right-hand sides before (`strip = false`) or after (`strip = true`)
    number substitution. -/
theorem eqsfor_exact (key : Node → String) (eqs : List Eqn) (vars : List Node) (recurse strip : Bool)
    (res : List Node) (h : getEquationsFor key eqs vars recurse strip = .ok res) :
    res.Nodup ∧ ∀ v, v ∈ res ↔ (hasEq eqs v = true ∧ Needed eqs vars recurse strip v) := by
  obtain ⟨g0, sorted, hb, _, hs, rfl⟩ := eqsfor_ok h
  obtain ⟨_, hspec⟩ := buildGraph_valid hb
  have hperm := lexTopo_ok_perm hs
  rw [graphFor_nodes] at hperm
  refine ⟨(hperm.nodup_iff.mpr hspec.wf.nodup).sublist List.filter_sublist, ?_⟩
  intro v
  simp only [List.mem_filter, Bool.and_eq_true, decide_eq_true_eq]
  rw [mem_required hb hs]
  constructor
  · rintro ⟨_, h1, h2⟩; exact ⟨h2, h1⟩
  · rintro ⟨h2, h1⟩
    exact ⟨hperm.mem_iff.mpr ((hspec.nodes v).mpr (Or.inl h2)), h1, h2⟩

/-- each returned equation appears exactly once (counting form of the `Nodup` above) -/
theorem eqsfor_count (key : Node → String) (eqs : List Eqn) (vars : List Node) (recurse strip : Bool)
    (res : List Node) (h : getEquationsFor key eqs vars recurse strip = .ok res) (v : Node) (hv : v ∈ res) :
    res.count v = 1 :=
  by rw [(eqsfor_exact key eqs vars recurse strip res h).1.count, if_pos hv]

/-- Relative order (both recursion modes): whenever an equation of the result uses a quantity whose equation is
    also in the result, the latter comes earlier. -/
theorem eqsfor_relative_order (key : Node → String) (eqs : List Eqn) (vars : List Node) (recurse strip : Bool)
    (res : List Node) (h : getEquationsFor key eqs vars recurse strip = .ok res)
    (i : Nat) (v : Node) (hi : res[i]? = some v) (u : Node) (huv : DepOn eqs strip u v) (hu : u ∈ res) :
    u ∈ res.take i := by
  obtain ⟨g0, sorted, hb, _, hs, rfl⟩ := eqsfor_ok h
  obtain ⟨hvalid, hspec⟩ := buildGraph_valid hb
  obtain ⟨j, hj, ht⟩ := filter_getElem? hi
  have hedge := (graphFor_edges (strip := strip) hvalid.lhsNodup hspec u v).mpr huv
  have hbefore := lexTopo_ok_respects hs j v hj u hedge
  rw [← ht]
  exact List.mem_filter.mpr ⟨hbefore, (List.mem_filter.mp hu).2⟩

/-- **Evaluable order** (recursing): every variable or derivative used on a right-hand side of the result is
    defined EARLIER in the result, or has no equation at all — and is then a state variable or the free variable. -/
theorem eqsfor_order (key : Node → String) (eqs : List Eqn) (vars : List Node) (strip : Bool)
    (res : List Node) (h : getEquationsFor key eqs vars true strip = .ok res)
    (i : Nat) (v : Node) (hi : res[i]? = some v) (u : Node) (huv : DepOn eqs strip u v) :
    u ∈ res.take i ∨ (hasEq eqs u = false ∧ isStateOrFree eqs u = true) := by
  have hex := eqsfor_exact key eqs vars true strip res h
  obtain ⟨g0, sorted, hb, _, hs, hres⟩ := eqsfor_ok h
  obtain ⟨hvalid, hspec⟩ := buildGraph_valid hb
  cases hu : hasEq eqs u with
  | false =>
      right
      refine ⟨rfl, ?_⟩
      obtain ⟨e, he, _, hr, _⟩ := huv
      rcases hvalid.refsOk e he u hr with h' | h'
      · rw [hu] at h'; cases h'
      · exact h'
  | true =>
      left
      apply eqsfor_relative_order key eqs vars true strip res h i v hi u huv
      have hv : v ∈ res := List.mem_of_getElem? hi
      obtain ⟨_, hn⟩ := (hex.2 v).mp hv
      refine (hex.2 u).mpr ⟨hu, ?_⟩
      rcases hn with hn | ⟨r, hr, hn⟩
      · exact Or.inr ⟨v, hn, TC.base huv⟩
      · exact Or.inr ⟨r, hr, TC.head huv hn⟩

/-- Consequently the whole right-hand side of every returned equation can be evaluated from what precedes it plus
    states and the free variable (`eqsfor_order` for all references at once, stated on the unstripped
    references as well: a reference that vanished after substitution is not needed for evaluation). -/
theorem eqsfor_order_all (key : Node → String) (eqs : List Eqn) (vars : List Node) (strip : Bool)
    (res : List Node) (h : getEquationsFor key eqs vars true strip = .ok res)
    (i : Nat) (e : Eqn) (he : e ∈ eqs) (hi : res[i]? = some e.lhs) :
    ∀ u ∈ e.refs, (strip = true → u ∈ e.numRefs) →
      u ∈ res.take i ∨ (hasEq eqs u = false ∧ isStateOrFree eqs u = true) :=
  fun u hu hn => eqsfor_order key eqs vars strip res h i e.lhs hi u ⟨e, he, rfl, hu, hn⟩

/-- The call succeeds on every valid system whose dependencies can be ranked (see `eqsfor_total`). -/
theorem eqsfor_total_of_rank (key : Node → String) (eqs : List Eqn) (vars : List Node) (recurse strip : Bool)
    (hvalid : Valid key eqs)
    (hvars : ∀ v ∈ vars, hasEq eqs v = true ∨ isStateOrFree eqs v = true)
    (hac : ∃ rank : Node → Nat, ∀ u v, DepOn eqs strip u v → rank u < rank v) :
    ∃ res, getEquationsFor key eqs vars recurse strip = .ok res := by
  obtain ⟨g0, hb⟩ := buildGraph_ok hvalid
  obtain ⟨_, hspec⟩ := buildGraph_valid hb
  obtain ⟨rank, hrank⟩ := hac
  have hwf : WF (graphFor eqs strip g0) := graphFor_wf hspec.wf
  obtain ⟨sorted, hs⟩ := lexTopo_of_acyclic (key := key) hwf
    ⟨rank, fun u v huv => hrank u v ((graphFor_edges hvalid.lhsNodup hspec u v).mp huv)⟩
  have hall : (vars.all fun v => decide (v ∈ (graphFor eqs strip g0).nodes)) = true := by
    simp only [List.all_eq_true, decide_eq_true_eq, graphFor_nodes]
    exact fun v hv => (hspec.nodes v).mpr (hvars v hv)
  simp only [getEquationsFor, hb, hall, not_true_eq_false, if_false, hs]
  exact ⟨_, rfl⟩

/-- **The call succeeds on every valid acyclic system** — no quantity depends on itself through the references
    (before resp. after number substitution) — whatever is requested among its nodes. -/
theorem eqsfor_total (key : Node → String) (eqs : List Eqn) (vars : List Node) (recurse strip : Bool)
    (hvalid : Valid key eqs)
    (hvars : ∀ v ∈ vars, hasEq eqs v = true ∨ isStateOrFree eqs v = true)
    (hno : ∀ v, ¬ TC (DepOn eqs strip) v v) :
    ∃ res, getEquationsFor key eqs vars recurse strip = .ok res := by
  obtain ⟨g0, hb⟩ := buildGraph_ok hvalid
  obtain ⟨_, hspec⟩ := buildGraph_valid hb
  have hac : Acyclic (graphFor eqs strip g0) :=
    (acyclic_iff_no_cycle _).mpr fun v t => hno v ((tc_edge_iff hvalid.lhsNodup hspec v v).mp t)
  obtain ⟨rank, hrank⟩ := hac
  exact eqsfor_total_of_rank key eqs vars recurse strip hvalid hvars
    ⟨rank, fun u v huv => hrank u v ((graphFor_edges hvalid.lhsNodup hspec u v).mpr huv)⟩

/-- Conversely a result is only ever produced for a valid, acyclic system and requests that are nodes of it. -/
theorem eqsfor_ok_only_if (key : Node → String) (eqs : List Eqn) (vars : List Node) (recurse strip : Bool)
    (res : List Node) (h : getEquationsFor key eqs vars recurse strip = .ok res) :
    Valid key eqs ∧ (∀ v ∈ vars, hasEq eqs v = true ∨ isStateOrFree eqs v = true) ∧
      ∃ rank : Node → Nat, ∀ u v, DepOn eqs strip u v → rank u < rank v := by
  obtain ⟨g0, sorted, hb, hvars, hs, _⟩ := eqsfor_ok h
  obtain ⟨hvalid, hspec⟩ := buildGraph_valid hb
  refine ⟨hvalid, fun v hv => (hspec.nodes v).mp (hvars v hv), fun v => sorted.idxOf v, ?_⟩
  intro u v huv
  exact acyclic_of_lexTopo (graphFor_wf hspec.wf) hs u v ((graphFor_edges hvalid.lhsNodup hspec u v).mpr huv)

/-- … in particular no quantity of such a system depends on itself. -/
theorem eqsfor_ok_no_cycle (key : Node → String) (eqs : List Eqn) (vars : List Node) (recurse strip : Bool)
    (res : List Node) (h : getEquationsFor key eqs vars recurse strip = .ok res) :
    ∀ v, ¬ TC (DepOn eqs strip) v v := by
  obtain ⟨_, _, rank, hrank⟩ := eqsfor_ok_only_if key eqs vars recurse strip res h
  exact fun v t => Nat.lt_irrefl _ (TC.rank_lt rank hrank t)

/-! ## The unit-stripped variant -/

/-- **The stripped result** (i) contains every requested left-hand side that has an equation, (ii) is, without
    repetition, exactly the set of equations reachable from the requests through the references that SURVIVE number
    substitution, and (iii) is contained in the unstripped result: the only equations omitted are those all of whose
    influence paths vanish once numbers are substituted. (The two lists need not be in the same relative order:
    removing a dependency can let an equation move forward.) -/
theorem strip_subset (key : Node → String) (eqs : List Eqn) (vars : List Node) (recurse : Bool)
    (resS resP : List Node)
    (hS : getEquationsFor key eqs vars recurse true = .ok resS)
    (hP : getEquationsFor key eqs vars recurse false = .ok resP) :
    (∀ v ∈ vars, hasEq eqs v = true → v ∈ resS) ∧
    (resS.Nodup ∧ ∀ v, v ∈ resS ↔ (hasEq eqs v = true ∧ Needed eqs vars recurse true v)) ∧
    (∀ v ∈ resS, v ∈ resP) ∧
    (∀ v ∈ resP, v ∉ resS → ¬ Needed eqs vars recurse true v) := by
  have eS := eqsfor_exact key eqs vars recurse true resS hS
  have eP := eqsfor_exact key eqs vars recurse false resP hP
  refine ⟨?_, eS, ?_, ?_⟩
  · intro v hv he
    exact (eS.2 v).mpr ⟨he, Or.inl hv⟩
  · intro v hv
    obtain ⟨he, hn⟩ := (eS.2 v).mp hv
    refine (eP.2 v).mpr ⟨he, ?_⟩
    rcases hn with hn | ⟨r, hr, hn⟩
    · exact Or.inl hn
    · refine Or.inr ⟨r, hr, ?_⟩
      cases recurse with
      | true => exact TC.mono (fun _ _ h => h.weaken) hn
      | false => exact hn.weaken
  · intro v hv hnot hn
    exact hnot ((eS.2 v).mpr ⟨((eP.2 v).mp hv).1, hn⟩)

/-! ## What the order is good for: evaluating the list from top to bottom

    `f v ρ` stands for the value of the right-hand side of `v`'s equation in the environment `ρ` (any value type `K`);
    `run f res ρ₀` assigns the left-hand sides of `res` in order, starting from `ρ₀` (which carries the values of the
    states and of the free variable). -/

/-- the right-hand side of each equation reads only what the equation references (before / after substitution) -/
def ReadsOnly {K : Type} (eqs : List Eqn) (strip : Bool) (f : Node → (Node → K) → K) : Prop :=
  ∀ v ρ ρ', (∀ u, DepOn eqs strip u v → ρ u = ρ' u) → f v ρ = f v ρ'

/-- **The returned list can be evaluated top to bottom**: after assigning the left-hand sides in the order returned,
    every returned equation holds in the final environment, and nothing but left-hand sides was touched. -/
theorem eqsfor_evaluable {K : Type} (key : Node → String) (eqs : List Eqn) (vars : List Node) (strip : Bool)
    (res : List Node) (h : getEquationsFor key eqs vars true strip = .ok res)
    (f : Node → (Node → K) → K) (hloc : ReadsOnly eqs strip f) (ρ₀ : Node → K) :
    (∀ v ∈ res, run f res ρ₀ v = f v (run f res ρ₀)) ∧ (∀ u, hasEq eqs u = false → run f res ρ₀ u = ρ₀ u) := by
  have hex := eqsfor_exact key eqs vars true strip res h
  have hW : ∀ u, hasEq eqs u = false → u ∉ res := by
    intro u hu hmem
    rw [((hex.2 u).mp hmem).1] at hu; cases hu
  refine ⟨?_, fun u hu => run_not_mem f res ρ₀ u (hW u hu)⟩
  apply run_satisfies f (fun u v => DepOn eqs strip u v) hloc res (fun u => hasEq eqs u = false) ρ₀ hex.1 hW
  intro i v hi u hu
  exact (eqsfor_order key eqs vars strip res h i v hi u hu).imp id (fun h' => h'.1)

/-- **Stripped and unstripped lists compute the same numbers** for every left-hand side the stripped list returns —
    so the equations it omits have no influence on them.

    PARTIAL: the statement about SymPy is a HYPOTHESIS here, not a proved fact: `hsame` (replacing each `Quantity` by
    its `Float` and letting SymPy simplify does not change the value of a right-hand side) and `hlocN` (the
    simplified right-hand side reads only the references observed on it). What is proved is the part that belongs to
    cellmlmanip: given that, dropping the edges / equations that `graph_with_sympy_numbers` drops, and re-sorting,
    changes no returned value. The correspondence check tests `hsame` numerically at random points. -/
theorem strip_values_partial {K : Type} (key : Node → String) (eqs : List Eqn) (vars : List Node)
    (resS resP : List Node)
    (hS : getEquationsFor key eqs vars true true = .ok resS)
    (hP : getEquationsFor key eqs vars true false = .ok resP)
    (f fN : Node → (Node → K) → K) (hloc : ReadsOnly eqs false f) (hlocN : ReadsOnly eqs true fN)
    (hsame : ∀ v ρ, hasEq eqs v = true → fN v ρ = f v ρ) (ρ₀ : Node → K) :
    ∀ v ∈ resS, run fN resS ρ₀ v = run f resP ρ₀ v := by
  have evS := eqsfor_evaluable key eqs vars true resS hS fN hlocN ρ₀
  have evP := eqsfor_evaluable key eqs vars false resP hP f hloc ρ₀
  have hsub := (strip_subset key eqs vars true resS resP hS hP).2.2.1
  have hexS := eqsfor_exact key eqs vars true true resS hS
  have key' : ∀ (n i : Nat) (v : Node), i < n → resS[i]? = some v → run fN resS ρ₀ v = run f resP ρ₀ v := by
    intro n
    induction n with
    | zero => intro i v hi; omega
    | succ n ih =>
        intro i v hi hv
        have hvS : v ∈ resS := List.mem_of_getElem? hv
        have hveq : hasEq eqs v = true := ((hexS.2 v).mp hvS).1
        rw [evS.1 v hvS, evP.1 v (hsub v hvS), ← hsame v _ hveq]
        apply hlocN
        intro u hu
        rcases eqsfor_order key eqs vars true resS hS i v hv u hu with h | ⟨h, _⟩
        · obtain ⟨j, hj, huj⟩ := exists_lt_of_mem_take h
          exact ih j u (by omega) huj
        · rw [evS.2 u h, evP.2 u h]
  intro v hv
  obtain ⟨i, hi⟩ := List.mem_iff_getElem?.mp hv
  exact key' (i + 1) i v (Nat.lt_succ_self i) hi

/-- **An equation without a `Quantity` is not touched by the stripped variant**: it depends on exactly what it
    depended on before, whatever `refsNum` was handed in for it (python: `if subs_dict:` skips the equation). -/
theorem strip_keeps_plain_equation (eqs : List Eqn) (hnd : (eqs.map (·.lhs)).Nodup) (e : Eqn) (he : e ∈ eqs)
    (hq : e.hasQ = false) (u : Node) : DepOn eqs true u e.lhs ↔ DepOn eqs false u e.lhs := by
  refine ⟨fun h => h.weaken, ?_⟩
  rintro ⟨e', he', hl, hr, _⟩
  have h1 := eqnOf_of_mem hnd he'
  have h2 := eqnOf_of_mem hnd he
  rw [hl, h2] at h1
  cases h1
  exact ⟨e, he, rfl, hr, fun _ => by simp [Eqn.numRefs, hq, hr]⟩

/-- … so on a system with no `Quantity` at all the graph with numbers IS the graph, and both variants of
    `get_equations_for` return the same list. -/
theorem strip_noop_without_quantities (key : Node → String) (eqs : List Eqn) (vars : List Node) (recurse : Bool)
    (hq : ∀ e ∈ eqs, e.hasQ = false) :
    (∀ g, stripGraph eqs g = g) ∧
    getEquationsFor key eqs vars recurse true = getEquationsFor key eqs vars recurse false := by
  have hg : ∀ g, stripGraph eqs g = g := by
    intro g
    cases g with
    | mk ns es =>
      simp only [stripGraph, Graph.mk.injEq, true_and, List.filter_eq_self]
      intro ed _
      unfold keepEdge
      split
      · rename_i q hq'
        have := hq q (List.mem_of_find?_eq_some hq')
        simp [this]
      · rfl
  refine ⟨hg, ?_⟩
  simp only [getEquationsFor, graphFor, hg, if_true, Bool.false_eq_true, if_false]

/-- If the unstripped call succeeds so does the stripped one (removing edges cannot create a cycle). -/
theorem strip_ok_of_plain_ok (key : Node → String) (eqs : List Eqn) (vars : List Node) (recurse : Bool)
    (resP : List Node) (hP : getEquationsFor key eqs vars recurse false = .ok resP) :
    ∃ resS, getEquationsFor key eqs vars recurse true = .ok resS := by
  obtain ⟨hvalid, hvars, rank, hrank⟩ := eqsfor_ok_only_if key eqs vars recurse false resP hP
  exact eqsfor_total_of_rank key eqs vars recurse true hvalid hvars ⟨rank, fun u v h => hrank u v h.weaken⟩

/-! ## Independence of insertion order, at the level of `get_equations_for` -/

/-- **Ties are broken the same way however the model was put together**: two successful calls on the same system,
    entered in any order of equations and with the reference sets iterated in any order, return the same list —
    provided the `str` keys of the nodes are distinct (in cellmlmanip they are: variable names are unique and the
    sanity check of `Model.graph` rejects equal `str` of left-hand sides). -/
theorem eqsfor_insertion_independent (key : Node → String) (eqs eqs' : List Eqn) (vars : List Node)
    (recurse strip : Bool) (res res' : List Node) (hsame : SameSystem eqs eqs')
    (hinj : ∀ a b, (hasEq eqs a = true ∨ isStateOrFree eqs a = true) →
      (hasEq eqs b = true ∨ isStateOrFree eqs b = true) → key a = key b → a = b)
    (h : getEquationsFor key eqs vars recurse strip = .ok res)
    (h' : getEquationsFor key eqs' vars recurse strip = .ok res') : res' = res := by
  obtain ⟨g0, sorted, hb, _, hs, rfl⟩ := eqsfor_ok h
  obtain ⟨g0', sorted', hb', _, hs', rfl⟩ := eqsfor_ok h'
  obtain ⟨hvalid, hspec⟩ := buildGraph_valid hb
  obtain ⟨hvalid', hspec'⟩ := buildGraph_valid hb'
  have hnodes : (graphFor eqs' strip g0').nodes.Perm (graphFor eqs strip g0).nodes := by
    rw [graphFor_nodes, graphFor_nodes]
    rw [List.perm_ext_iff_of_nodup hspec'.wf.nodup hspec.wf.nodup]
    intro a
    rw [hspec'.nodes, hspec.nodes, sameSystem_hasEq hsame, sameSystem_sf hsame]
  have hedges : ∀ e, e ∈ (graphFor eqs' strip g0').edges ↔ e ∈ (graphFor eqs strip g0).edges := by
    rintro ⟨u, v⟩
    rw [graphFor_edges hvalid'.lhsNodup hspec', graphFor_edges hvalid.lhsNodup hspec, sameSystem_dep hsame]
  have hkey : KeyInj key (graphFor eqs strip g0).nodes := by
    intro a ha b hb' hk
    rw [graphFor_nodes] at ha hb'
    exact hinj a b ((hspec.nodes a).mp ha) ((hspec.nodes b).mp hb') hk
  have hsort := lexTopo_insertion_independent key _ _ hnodes hedges hkey
  rw [hs, hs'] at hsort
  simp only [Except.ok.injEq] at hsort
  subst hsort
  apply List.filter_congr
  intro v _
  have hreq : decide (v ∈ required (graphFor eqs' strip g0') vars recurse) =
      decide (v ∈ required (graphFor eqs strip g0) vars recurse) := by
    apply decide_eq_decide.mpr
    rw [mem_required hb' hs', mem_required hb hs]
    simp only [Needed]
    apply or_congr Iff.rfl
    apply exists_congr; intro r
    apply and_congr Iff.rfl
    cases recurse with
    | true =>
        exact ⟨TC.mono fun a b hd => (sameSystem_dep hsame strip a b).mp hd,
               TC.mono fun a b hd => (sameSystem_dep hsame strip a b).mpr hd⟩
    | false => exact sameSystem_dep hsame strip v r
  rw [hreq, sameSystem_hasEq hsame]

/-! ## Non-vacuity: a concrete diamond  `d = b + c`, `b = 2·a`, `c = 0·a + 1`, `a = 1`
    (nodes 0 = d, 1 = b, 2 = c, 3 = a; the dependency of `c` on `a` vanishes when numbers are substituted). -/

def diamondKey : Node → String := fun v => ["d", "b", "c", "a"].getD v ""

def diamond : List Eqn :=
  [ { lhs := 0, refs := [1, 2], refsNum := [1, 2] },
    { lhs := 1, refs := [3], refsNum := [3] },
    { lhs := 2, refs := [3], refsNum := [] },
    { lhs := 3, refs := [], refsNum := [] } ]

/-- the same system entered in another order, with a reference set iterated the other way round -/
def diamond' : List Eqn :=
  [ { lhs := 3, refs := [], refsNum := [] },
    { lhs := 2, refs := [3], refsNum := [] },
    { lhs := 0, refs := [2, 1], refsNum := [2, 1] },
    { lhs := 1, refs := [3], refsNum := [3] } ]

example : getEquationsFor diamondKey diamond [0] true false = .ok [3, 1, 2, 0] := by decide +kernel
example : getEquationsFor diamondKey diamond' [0] true false = .ok [3, 1, 2, 0] := by decide +kernel
example : getEquationsFor diamondKey diamond [0] false false = .ok [1, 2, 0] := by decide +kernel
example : getEquationsFor diamondKey diamond [2] true false = .ok [3, 2] := by decide +kernel
/-- stripped: `c` no longer needs `a` -/
example : getEquationsFor diamondKey diamond [2] true true = .ok [2] := by decide +kernel
example : getEquationsFor diamondKey diamond [0] true true = .ok [3, 1, 2, 0] := by decide +kernel
/-- the guard `if subs_dict:`: the same `c = …` WITHOUT a `Quantity` keeps its reference to `a` even when handed an
    empty `refsNum` (the code never looks at it); before the model had the guard it answered `[2]` here -/
example : getEquationsFor diamondKey
    [ { lhs := 0, refs := [1, 2], refsNum := [1, 2] }, { lhs := 1, refs := [3], refsNum := [3] },
      { lhs := 2, refs := [3], refsNum := [], hasQ := false }, { lhs := 3, refs := [], refsNum := [] } ]
    [2] true true = .ok [3, 2] := by decide +kernel
/-- a request that is not a node; a cyclic system -/
example : getEquationsFor diamondKey diamond [7] true false = .error .notInGraph := by decide +kernel
example : getEquationsFor diamondKey [{ lhs := 0, refs := [1], refsNum := [1] }, { lhs := 1, refs := [0], refsNum := [] }]
    [0] true false = .error .unfeasible := by decide +kernel
/-- … whose cycle vanishes after number substitution -/
example : getEquationsFor diamondKey [{ lhs := 0, refs := [1], refsNum := [1] }, { lhs := 1, refs := [0], refsNum := [] }]
    [0] true true = .ok [1, 0] := by decide +kernel

/-- an ODE: `dx/dt = -x·a` (node 4, state 5 = x, free 6 = t), `a = 1` (node 3), `y = dx/dt + x` (node 0) -/
def odeSys : List Eqn :=
  [ { lhs := 4, refs := [5, 3], refsNum := [5, 3], ode := some (5, 6) },
    { lhs := 3, refs := [], refsNum := [] },
    { lhs := 0, refs := [4, 5], refsNum := [4, 5] } ]

def odeKey : Node → String := fun v => ["y", "", "", "a", "Derivative(_x, _t)", "x", "t"].getD v ""

example : getEquationsFor odeKey odeSys [0] true false = .ok [3, 4, 0] := by decide +kernel
/-- the references of an equation are walked in `str` order (`a` before `x`), whatever order the set gave them in -/
example : buildGraph odeKey odeSys = .ok ⟨[4, 3, 0, 5, 6], [(3, 4), (5, 4), (4, 0), (5, 0)]⟩ := by decide +kernel
example : buildGraph odeKey [ { lhs := 4, refs := [3, 5], refsNum := [3, 5], ode := some (5, 6) },
    { lhs := 3, refs := [], refsNum := [] }, { lhs := 0, refs := [5, 4], refsNum := [5, 4] } ] =
      buildGraph odeKey odeSys := by decide +kernel

/-- the hypotheses of `eqsfor_total` are met by the diamond … -/
example : Valid diamondKey diamond ∧ (∀ v, ¬ TC (DepOn diamond false) v v) :=
  ⟨(eqsfor_ok_only_if diamondKey diamond [0] true false [3, 1, 2, 0] (by decide +kernel)).1,
   eqsfor_ok_no_cycle diamondKey diamond [0] true false [3, 1, 2, 0] (by decide +kernel)⟩

/-- the diamond evaluated: `a = 1`, `b = 2·a`, `c = 0·a + 1`, `d = b + c` (over `Int`); the stripped `c = 1` reads
    nothing. Both runs give `d = 3`. -/
def diamondRhs : Node → (Node → Int) → Int
  | 0, ρ => ρ 1 + ρ 2
  | 1, ρ => 2 * ρ 3
  | 2, ρ => 0 * ρ 3 + 1
  | _, _ => 1

def diamondRhsNum : Node → (Node → Int) → Int
  | 0, ρ => ρ 1 + ρ 2
  | 1, ρ => 2 * ρ 3
  | 2, _ => 1
  | _, _ => 1

example : run diamondRhs [3, 1, 2, 0] (fun _ => 0) 0 = 3 ∧ run diamondRhsNum [3, 1, 2, 0] (fun _ => 0) 0 = 3 := by
  decide

/-- … and they meet the hypotheses of `eqsfor_evaluable` / `strip_values_partial` -/
example : ReadsOnly diamond false diamondRhs ∧ ReadsOnly diamond true diamondRhsNum ∧
    (∀ v ρ, hasEq diamond v = true → diamondRhsNum v ρ = diamondRhs v ρ) := by
  have dep : ∀ (strip : Bool) (u v : Node) (e : Eqn), e ∈ diamond → e.lhs = v → u ∈ e.refs →
      (strip = true → u ∈ e.numRefs) → DepOn diamond strip u v := fun _ _ _ e he h1 h2 h3 => ⟨e, he, h1, h2, h3⟩
  refine ⟨?_, ?_, ?_⟩
  · intro v ρ ρ' h
    match v with
    | 0 =>
        have h1 := h 1 (dep false 1 0 { lhs := 0, refs := [1, 2], refsNum := [1, 2] } (by simp [diamond]) rfl (by simp) (by simp))
        have h2 := h 2 (dep false 2 0 { lhs := 0, refs := [1, 2], refsNum := [1, 2] } (by simp [diamond]) rfl (by simp) (by simp))
        simp [diamondRhs, h1, h2]
    | 1 =>
        have h3 := h 3 (dep false 3 1 { lhs := 1, refs := [3], refsNum := [3] } (by simp [diamond]) rfl (by simp) (by simp))
        simp [diamondRhs, h3]
    | 2 => simp [diamondRhs]
    | n + 3 => simp [diamondRhs]
  · intro v ρ ρ' h
    match v with
    | 0 =>
        have h1 := h 1 (dep true 1 0 { lhs := 0, refs := [1, 2], refsNum := [1, 2] } (by simp [diamond]) rfl (by simp) (by simp [Eqn.numRefs]))
        have h2 := h 2 (dep true 2 0 { lhs := 0, refs := [1, 2], refsNum := [1, 2] } (by simp [diamond]) rfl (by simp) (by simp [Eqn.numRefs]))
        simp [diamondRhsNum, h1, h2]
    | 1 =>
        have h3 := h 3 (dep true 3 1 { lhs := 1, refs := [3], refsNum := [3] } (by simp [diamond]) rfl (by simp) (by simp [Eqn.numRefs]))
        simp [diamondRhsNum, h3]
    | 2 => simp [diamondRhsNum]
    | n + 3 => simp [diamondRhsNum]
  · intro v ρ _
    match v with
    | 0 => rfl
    | 1 => rfl
    | 2 => simp [diamondRhs, diamondRhsNum]
    | n + 3 => simp [diamondRhs, diamondRhsNum]

/-- … those of `SameSystem` / distinct keys by the two spellings of the diamond … -/
example : SameSystem diamond diamond' := by
  constructor
  · intro e he
    simp only [diamond, List.mem_cons, List.not_mem_nil, or_false] at he
    rcases he with rfl | rfl | rfl | rfl
    · exact ⟨{ lhs := 0, refs := [2, 1], refsNum := [2, 1] }, by simp [diamond'], rfl, rfl,
        by intro u; simp [or_comm],
        by intro u; simp [Eqn.numRefs, or_comm]⟩
    · exact ⟨_, by simp [diamond'], rfl, rfl, fun _ => Iff.rfl, fun _ => Iff.rfl⟩
    · exact ⟨_, by simp [diamond'], rfl, rfl, fun _ => Iff.rfl, fun _ => Iff.rfl⟩
    · exact ⟨_, by simp [diamond'], rfl, rfl, fun _ => Iff.rfl, fun _ => Iff.rfl⟩
  · intro e he
    simp only [diamond', List.mem_cons, List.not_mem_nil, or_false] at he
    rcases he with rfl | rfl | rfl | rfl
    · exact ⟨_, by simp [diamond], rfl, rfl, fun _ => Iff.rfl, fun _ => Iff.rfl⟩
    · exact ⟨_, by simp [diamond], rfl, rfl, fun _ => Iff.rfl, fun _ => Iff.rfl⟩
    · exact ⟨{ lhs := 0, refs := [1, 2], refsNum := [1, 2] }, by simp [diamond], rfl, rfl,
        by intro u; simp [or_comm],
        by intro u; simp [Eqn.numRefs, or_comm]⟩
    · exact ⟨_, by simp [diamond], rfl, rfl, fun _ => Iff.rfl, fun _ => Iff.rfl⟩

/-- … and those of `lexTopo_perm` / `lexTopo_insertion_independent` by its graph. -/
example : WF ⟨[0, 1, 2, 3], [(1, 0), (2, 0), (3, 1), (3, 2)]⟩ ∧ Acyclic ⟨[0, 1, 2, 3], [(1, 0), (2, 0), (3, 1), (3, 2)]⟩ ∧
    KeyInj diamondKey [0, 1, 2, 3] := by
  refine ⟨⟨by decide, ?_, ?_⟩, ⟨fun v => 3 - v, ?_⟩, ?_⟩
  · intro u v h
    simp only [List.mem_cons, Prod.mk.injEq, List.not_mem_nil, or_false] at h
    rcases h with ⟨rfl, rfl⟩ | ⟨rfl, rfl⟩ | ⟨rfl, rfl⟩ | ⟨rfl, rfl⟩ <;> decide
  · intro u v h
    simp only [List.mem_cons, Prod.mk.injEq, List.not_mem_nil, or_false] at h
    rcases h with ⟨rfl, rfl⟩ | ⟨rfl, rfl⟩ | ⟨rfl, rfl⟩ | ⟨rfl, rfl⟩ <;> decide
  · intro u v h
    simp only [List.mem_cons, Prod.mk.injEq, List.not_mem_nil, or_false] at h
    rcases h with ⟨rfl, rfl⟩ | ⟨rfl, rfl⟩ | ⟨rfl, rfl⟩ | ⟨rfl, rfl⟩ <;> decide
  · intro a ha b hb
    simp only [List.mem_cons, List.not_mem_nil, or_false] at ha hb
    rcases ha with rfl | rfl | rfl | rfl <;> rcases hb with rfl | rfl | rfl | rfl <;> decide +kernel

end Cellml.Props.C09
