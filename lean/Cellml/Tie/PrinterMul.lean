import Cellml.Generated.Code.PrinterMul
import Mathlib.Tactic.SplitIfs

/-! # Tie: the classification loop of `Printer._print_Mul` (generated from the source) = `C11.classify`

    One iteration of `for item in sympy.Mul.make_args(expr):` appends to the numerator list `a`, the denominator list
    `b` and `pow_brackets` exactly what the model's `classify` returns for that factor (`C11.partition` is the
    concatenation of `classify` over the factors). The sign extraction before the loop and the assembly of the strings
    after it are not translated (see notes/reports/TIE_Printer.md). -/

set_option linter.unusedSimpArgs false

namespace Cellml.Tie.PPrinter
open C11 Cellml.Gen

/-- the model records the BASE of a factor that needs the `pow_brackets` fix-up, python the factor itself -/
theorem classify_marks (i : Item1) : ∀ m ∈ (classify i).2.2, m = baseOf i.e := by
  rcases i with ⟨e, d, bs⟩
  cases e <;> simp [classify, baseOf]
  split_ifs <;> simp

/-- **the body of the loop of `Printer._print_Mul` = `C11.classify`**: for every factor and every state of the three
    lists. Domain: a `Rational` factor has denominator ≠ 1 (SymPy's invariant; the model does not look at `q`), and a
    `Mul` base of a reciprocal does not have exactly one argument (the model does not look at the length). -/
theorem mulClassify_tie (i : Item1) (a b pb : List E)
    (hq : ∀ p q, i.e = .rat p q → q ≠ 1)
    (hm : ∀ bb x, i.e = .pow bb x → isMul bb = true → (argsOf bb).length ≠ 1) :
    PrinterMul.mulClassify i.e a b pb =
      .ok (a ++ (classify i).1.map (·.e), b ++ (classify i).2.1.map (·.e),
           pb ++ (classify i).2.2.map (fun _ => i.e)) := by
  rcases i with ⟨e, d, bs⟩
  unfold PrinterMul.mulClassify
  cases e with
  | pow bb x =>
    have hm' := hm bb x rfl
    simp only [classify, comm, isPow, expOf, baseOf, arg0, Py.truthy_bool, pure, Except.pure, bind, Except.bind]
    by_cases hc : (comm bb && comm x) = true
    · by_cases hx : x = .int (-1)
      · subst hx
        by_cases hmul : isMul bb = true
        · simp [hc, isRational, isNegNum, isNegRat, negNum, powEval, hmul, hm' hmul, num1]
        · simp [hc, isRational, isNegNum, isNegRat, negNum, powEval, hmul, num1]
      · cases x <;> simp_all [isRational, isNegNum, isNegRat, negNum, num1] <;> (try split_ifs) <;> (try simp_all)
    · cases x <;> simp_all [isRational, isNegNum, isNegRat] <;> (try split_ifs) <;> (try simp_all)
  | int n => by_cases h1 : n = 1 <;> simp [classify, comm, isPow, isRational, pOf, qOf, num1, h1, pure, Except.pure]
  | rat p q =>
    have := hq p q rfl
    by_cases h1 : p = 1 <;> simp [classify, comm, isPow, isRational, pOf, qOf, num1, h1, this, pure, Except.pure]
  | _ => simp [classify, comm, isPow, isRational, pure, Except.pure]

/-- the model's `C11.partition` IS the `for` loop over the generated body, started from any three lists -/
theorem mulLoop_tie (fs : List Item1) (a b pb : List E)
    (hq : ∀ i ∈ fs, ∀ p q, i.e = .rat p q → q ≠ 1)
    (hm : ∀ i ∈ fs, ∀ bb x, i.e = .pow bb x → isMul bb = true → (argsOf bb).length ≠ 1) :
    fs.foldlM (fun (s : List E × List E × List E) i => PrinterMul.mulClassify i.e s.1 s.2.1 s.2.2) (a, b, pb) =
      .ok (a ++ (partition fs).1.map (·.e), b ++ (partition fs).2.1.map (·.e),
           pb ++ (fs.flatMap fun i => (classify i).2.2.map fun _ => i.e)) := by
  induction fs generalizing a b pb with
  | nil => simp [partition, pure, Except.pure]
  | cons i r ih =>
    rw [List.foldlM_cons, mulClassify_tie i a b pb (hq i (by simp)) (hm i (by simp))]
    simp only [bind, Except.bind]
    rw [ih _ _ _ (fun j hj => hq j (by simp [hj])) (fun j hj => hm j (by simp [hj]))]
    simp [partition, List.append_assoc]

/-- and the bases of the collected `pow_brackets` are the model's marks -/
theorem partition_marks (fs : List Item1) :
    (fs.flatMap fun i => (classify i).2.2.map fun _ => i.e).map baseOf = (partition fs).2.2 := by
  induction fs with
  | nil => simp [partition]
  | cons i r ih =>
    simp only [List.flatMap_cons, List.map_append, ih, partition, List.map_map]
    congr 1
    have := classify_marks i
    generalize (classify i).2.2 = l at this
    induction l with
    | nil => rfl
    | cons m l ihl => simp [this m (by simp)]; exact ihl (fun x hx => this x (by simp [hx]))

end Cellml.Tie.PPrinter
