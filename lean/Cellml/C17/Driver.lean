import Cellml.Basic.Sexp
/-! Channel C17 of the model driver (stub: not built yet). -/
namespace C17
def handle (_args : List Sexp) : Sexp := .atom "not-implemented"
end C17
