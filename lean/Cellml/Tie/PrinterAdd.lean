import Cellml.Generated.Code.PrinterAdd
import Cellml.Tie.Printer

/-! # Tie: `Printer._print_Add` (generated from the source) = `C11.addDoc` (the `add` case of `C11.pr`)

    python peels the sign off the printed TEXT of a term (`t.startswith('-')`, `t[1:]`); the model peels it off the
    layout tree (`startsMinus`, `peelLeft`). The two agree on trees in which no atom and no function name starts with
    `-` (`MinusOK`, implied by `atomsOK`); see `notes/reports/TIE_Printer.md` for the input on which they differ. -/

set_option linter.unusedSimpArgs false

namespace Cellml.Tie.PPrinter
open C11 Cellml.Gen

/-- the text of the tree starts with `-` exactly when the tree does, and then `t[1:]` is the text of the peeled tree -/
def MinusOK (d : Doc) : Prop :=
  headMinus (flatten d) = startsMinus d ∧ (startsMinus d = true → flatten (peelLeft d) = tailStr (flatten d))

/-! ### the string-level reading of the loop of `_print_Add` -/

def addSign (i : Item) : String := if headMinus (flatten i.doc) then "-" else "+"

def addPiece (i : Item) : String :=
  let t := if headMinus (flatten i.doc) then tailStr (flatten i.doc) else flatten i.doc
  if prec i.e < 40 then "(" ++ t ++ ")" else t

def addTail : List Item → String
  | [] => ""
  | i :: r => " " ++ addSign i ++ " " ++ addPiece i ++ addTail r

/-- a `for` loop without `break` whose body succeeds on every element is a left fold -/
theorem forIn_yield_fold {α σ : Type} (xs : List α) (f : α → σ → Except PyErr (ForInStep σ)) (g : σ → α → σ)
    (h : ∀ x ∈ xs, ∀ s, f x s = .ok (.yield (g s x))) (s0 : σ) : forIn xs s0 f = .ok (xs.foldl g s0) := by
  induction xs generalizing s0 with
  | nil => rfl
  | cons x r ih =>
    rw [List.forIn_cons, h x (by simp)]
    simp only [bind, Except.bind, List.foldl_cons]
    exact ih (fun y hy => h y (by simp [hy])) _

/-- what one iteration of the loop appends to `parts` -/
def addG (print : E → Except PyErr String) (parts : List String) (term : E) : List String :=
  match print term with
  | .ok t =>
    parts ++ [if headMinus t then "-" else "+"] ++
      [if prec term < 40 then "(" ++ (if headMinus t then tailStr t else t) ++ ")"
       else (if headMinus t then tailStr t else t)]
  | .error _ => parts

theorem addG_fold (print : E → Except PyErr String) (items : List Item)
    (h : ∀ i ∈ items, print i.e = .ok (flatten i.doc)) (parts : List String) :
    (items.map (·.e)).foldl (addG print) parts = parts ++ items.flatMap (fun i => [addSign i, addPiece i]) := by
  induction items generalizing parts with
  | nil => simp
  | cons i r ih =>
    rw [List.map_cons, List.foldl_cons, ih (fun j hj => h j (by simp [hj]))]
    simp [addG, h i (by simp), addSign, addPiece, List.append_assoc]

theorem intercalate_addTail (x : String) (r : List Item) :
    String.intercalate " " (x :: r.flatMap (fun i => [addSign i, addPiece i])) = x ++ addTail r := by
  induction r generalizing x with
  | nil => simp [addTail]
  | cons i r ih =>
    simp only [List.flatMap_cons, List.cons_append, List.nil_append, String.intercalate_cons_cons, ih, addTail,
      String.append_assoc]

theorem flatten_spliceSum (a : Doc) (m : Bool) (d : Doc) :
    flatten (spliceSum a m d) = flatten a ++ (if m then " - " else " + ") ++ flatten d := by
  induction d with
  | bin op x y ihx ihy => cases op <;> cases m <;> simp_all [spliceSum, flatten, Bop.text, String.append_assoc]
  | _ => cases m <;> simp [spliceSum, flatten, Bop.text]

/-- the printed term with its sign peeled and its brackets -/
theorem flatten_addTerm (i : Item) (hm : MinusOK i.doc) :
    flatten (if decide (prec i.e < 40) = true
        then Doc.paren (if startsMinus i.doc = true then peelLeft i.doc else i.doc)
        else (if startsMinus i.doc = true then peelLeft i.doc else i.doc)) = addPiece i := by
  obtain ⟨h1, h2⟩ := hm
  unfold addPiece
  cases hs : startsMinus i.doc
  · simp [h1, hs]; split_ifs <;> simp [flatten]
  · simp [h1, hs, h2 hs]; split_ifs <;> simp [flatten, h2 hs]

theorem addSign_eq (i : Item) (hm : MinusOK i.doc) : addSign i = if startsMinus i.doc then "-" else "+" := by
  simp [addSign, hm.1]

theorem flatten_addFold (r : List Item) (hm : ∀ i ∈ r, MinusOK i.doc) (a : Doc) :
    flatten ((r.foldl addStep (some a)).getD .nil) = flatten a ++ addTail r := by
  induction r generalizing a with
  | nil => simp [addTail]
  | cons i r ih =>
    rw [List.foldl_cons]
    simp only [addStep]
    rw [ih (fun j hj => hm j (by simp [hj])), flatten_spliceSum, flatten_addTerm i (hm i (by simp)), addTail,
      addSign_eq i (hm i (by simp))]
    cases startsMinus i.doc <;> simp [String.append_assoc]

/-- **`Printer._print_Add` = `C11.addDoc`** (the `add` case of `C11.pr`), for a sum with at least one term (SymPy never
    builds an empty `Add`; python would raise IndexError, the model answers `unsup`) -/
theorem printAdd_tie (print : E → Except PyErr String) (args : E) (i : Item) (r : List Item)
    (ha : elems args = (i :: r).map (·.e)) (h : ∀ j ∈ i :: r, print j.e = .ok (flatten j.doc))
    (hm : ∀ j ∈ i :: r, MinusOK j.doc) :
    PrinterAdd.printAdd print (.add args) = .ok (flatten (addDoc (i :: r))) := by
  unfold PrinterAdd.printAdd
  have hp : prec (.add args) = 40 := rfl
  simp only [argsOf, ha, hp, bind]
  rw [forIn_yield_fold _ _ (addG print)]
  · rw [addG_fold print (i :: r) h]
    simp only [Except.bind, List.nil_append, List.flatMap_cons, List.cons_append, idx0, List.drop_succ_cons,
      List.drop_zero, intercalate_addTail, pure, Except.pure, str_add]
    unfold addDoc
    rw [List.foldl_cons]
    have hi := hm i (by simp)
    have e1 : addStep none i = some (if startsMinus i.doc = true
        then (if decide (prec i.e < 40) = true then Doc.neg (Doc.paren (peelLeft i.doc)) else i.doc)
        else (if decide (prec i.e < 40) = true then Doc.paren i.doc else i.doc)) := by
      simp only [addStep]; cases startsMinus i.doc <;> simp <;> split_ifs <;> rfl
    rw [e1, flatten_addFold r (fun j hj => hm j (by simp [hj]))]
    have hpiece := flatten_addTerm i hi
    rw [addSign_eq i hi]
    cases hs : startsMinus i.doc
    · simp only [hs, Bool.false_eq_true, if_false] at hpiece ⊢
      simp [← hpiece]
    · simp only [hs, if_true] at hpiece ⊢
      have hne : ("-" == "+") = false := by decide
      simp only [hne, Bool.false_eq_true, if_false, ← hpiece]
      by_cases hb : prec i.e < 40
      · simp [hb, flatten, String.append_assoc]
      · simp only [hb, decide_false, Bool.false_eq_true, if_false]
        rw [hi.2 hs, ← String.append_assoc, minus_tail _ (by rw [hi.1, hs])]
  · intro x hx s
    obtain ⟨j, hj, rfl⟩ := List.mem_map.mp hx
    simp only [h j hj, addG, Except.bind, Py.truthy_bool, pure, Except.pure, str_add]
    split_ifs <;> simp_all

/-! ### `MinusOK` holds for every tree whose atoms and function names do not start with `-` -/

/-- no atom and no function name starts with `-` -/
def atomsOK : Doc → Bool
  | .atom s => !headMinus s
  | .call f args => !headMinus f && atomsOK args
  | .neg d | .paren d => atomsOK d
  | .bin _ a b | .cmp _ a b | .and a b | .or a b | .cons a b => atomsOK a && atomsOK b
  | .ite a b c => atomsOK a && atomsOK b && atomsOK c
  | .nil => true

theorem headMinus_append (s t : String) :
    headMinus (s ++ t) = if s.toList = [] then headMinus t else headMinus s := by
  unfold headMinus
  rw [String.toList_append]
  cases h : s.toList with
  | nil => simp
  | cons c cs =>
    by_cases hc : c = '-'
    · subst hc; simp
    · simp only [List.cons_append, reduceCtorEq, if_false]
      split <;> split <;> simp_all

theorem tailStr_append (s t : String) (h : s.toList ≠ []) : tailStr (s ++ t) = tailStr s ++ t := by
  unfold tailStr
  apply String.toList_injective
  cases hs : s.toList with
  | nil => exact absurd hs h
  | cons c cs => simp [hs]

theorem headMinus_nonempty (s : String) (h : headMinus s = true) : s.toList ≠ [] := by
  intro e; simp [headMinus, e] at h

/-- the sign of `a ++ rest` is the sign of `a` when `rest` does not start with `-` -/
theorem minusOK_prefix (a : Doc) (rest : String) (ha : MinusOK a) (hr : headMinus rest = false) :
    headMinus (flatten a ++ rest) = startsMinus a ∧
      (startsMinus a = true → flatten (peelLeft a) ++ rest = tailStr (flatten a ++ rest)) := by
  obtain ⟨h1, h2⟩ := ha
  constructor
  · rw [headMinus_append]
    split_ifs with he
    · rw [hr, ← h1]; simp [headMinus, he]
    · exact h1
  · intro hs
    rw [tailStr_append _ _ (headMinus_nonempty _ (by rw [h1, hs])), h2 hs]

theorem minusOK_of_atomsOK (d : Doc) (h : atomsOK d = true) : MinusOK d := by
  induction d with
  | atom s => simp only [atomsOK, Bool.not_eq_true'] at h; exact ⟨by simp [flatten, startsMinus, h], by simp [startsMinus]⟩
  | call f args ih =>
    simp only [atomsOK, Bool.and_eq_true, Bool.not_eq_true'] at h
    refine ⟨?_, by simp [startsMinus]⟩
    simp only [flatten, startsMinus, String.append_assoc]
    rw [headMinus_append]; split_ifs
    · rw [headMinus_append]; simp; rfl
    · exact h.1
  | neg d ih =>
    refine ⟨by simp [flatten, startsMinus, headMinus_append]; rfl, fun _ => ?_⟩
    simp only [flatten, peelLeft, tailStr]
    apply String.toList_injective; simp
  | paren d ih => exact ⟨by simp [flatten, startsMinus, String.append_assoc, headMinus_append]; rfl, by simp [startsMinus]⟩
  | nil => exact ⟨by simp [flatten, startsMinus]; rfl, by simp [startsMinus]⟩
  | bin op a b iha ihb =>
    simp only [atomsOK, Bool.and_eq_true] at h
    have := minusOK_prefix a (op.text ++ flatten b) (iha h.1) (by cases op <;> simp [Bop.text, headMinus_append] <;> rfl)
    simpa [flatten, startsMinus, peelLeft, MinusOK, String.append_assoc] using this
  | cmp r a b iha ihb =>
    simp only [atomsOK, Bool.and_eq_true] at h
    have := minusOK_prefix a (" " ++ r.text ++ " " ++ flatten b) (iha h.1) (by simp [String.append_assoc, headMinus_append]; rfl)
    simpa [flatten, startsMinus, peelLeft, MinusOK, String.append_assoc] using this
  | and a b iha ihb =>
    simp only [atomsOK, Bool.and_eq_true] at h
    have := minusOK_prefix a (" and " ++ flatten b) (iha h.1) (by simp [headMinus_append]; rfl)
    simpa [flatten, startsMinus, peelLeft, MinusOK, String.append_assoc] using this
  | or a b iha ihb =>
    simp only [atomsOK, Bool.and_eq_true] at h
    have := minusOK_prefix a (" or " ++ flatten b) (iha h.1) (by simp [headMinus_append]; rfl)
    simpa [flatten, startsMinus, peelLeft, MinusOK, String.append_assoc] using this
  | ite a b c iha ihb ihc =>
    simp only [atomsOK, Bool.and_eq_true] at h
    have := minusOK_prefix a (" if " ++ flatten b ++ " else " ++ flatten c) (iha h.1.1)
      (by simp [String.append_assoc, headMinus_append]; rfl)
    simpa [flatten, startsMinus, peelLeft, MinusOK, String.append_assoc] using this
  | cons a t iha iht =>
    simp only [atomsOK, Bool.and_eq_true] at h
    by_cases ht : t = .nil
    · subst ht
      have := iha h.1
      simpa [flatten, startsMinus, peelLeft, MinusOK] using this
    · have := minusOK_prefix a (", " ++ flatten t) (iha h.1) (by simp [headMinus_append]; rfl)
      have e1 : flatten (.cons a t) = flatten a ++ ", " ++ flatten t := by
        cases t <;> first | exact absurd rfl ht | rfl
      have e2 : flatten (.cons (peelLeft a) t) = flatten (peelLeft a) ++ ", " ++ flatten t := by
        cases t <;> first | exact absurd rfl ht | rfl
      simpa [e1, e2, startsMinus, peelLeft, MinusOK, String.append_assoc] using this

end Cellml.Tie.PPrinter
