"""Code-translator spec (see harness/translate_code.py and notes/TIE_GUIDE.md): three small pieces of decision logic that
the other groups bind as LEAVES, translated themselves.

 1. parser.py `_Component.set_parent / add_sibling / add_encapsulated` (leaves `setParent`, `noteSibling`,
    `addEncapsulated` of loaderrel.py): the state is the component record (`PMisc5.Component`).
 2. model.py `Model.get_display_name` and `Model.has_ontology_annotation` (leaf `displayName` of cmeta.py).
 3. model.py `Model.find_variables_and_derivatives` (leaf `refsOf` / `refsOfRhs` / `varRefs` of graphbuild.py, graphnum.py,
    numpipe.py): open recursion over an expression tree (`PMisc5.ETree`).

View: lean/Cellml/Tie/Misc5View.lean; tie theorems: lean/Cellml/Tie/Misc5.lean."""

_COMPONENT = {
    'file': 'cellmlmanip/parser.py',
    'mutable_params': ['self'],
    'returns': 'self',
    'patterns': [
        # `if self.parent:` - python truthiness of an Optional[str]: None AND '' are falsy. `PyOptStr` is the view's
        # wrapper whose `Py.Truthy` instance says exactly that (the generic instance for `Option` is `isSome`).
        ('self.parent', '(PyOptStr.mk (self).parent)'),
    ],
    'stmt_patterns': [
        # attribute store / `set.add` on the python object = update of the record threaded as `self`; a python set is
        # kept as a list (only membership is ever asked)
        ('self.parent = __A', 'self := { self with parent := {A} }'),
        ('self.siblings.add(__A)', 'self := { self with siblings := {A} :: (self).siblings }'),
        ('self.encapsulated.add(__A)', 'self := { self with encapsulated := {A} :: (self).encapsulated }'),
    ]}

GROUP = {
    'name': 'Misc5',
    'imports': ['Cellml.Tie.Misc5View'],
    'header': 'open Cellml.Tie.PMisc5',
    'functions': [
        dict(_COMPONENT, func='_Component.set_parent', lean_name='setParent',
             signature='(self : Component) (parent_name : Option String) : Except PyErr Component'),
        dict(_COMPONENT, func='_Component.add_sibling', lean_name='addSibling',
             signature='(self : Component) (sibling_name : String) : Except PyErr Component'),
        dict(_COMPONENT, func='_Component.add_encapsulated', lean_name='addEncapsulated',
             signature='(self : Component) (encapsulated_name : String) : Except PyErr Component'),
        {'file': 'cellmlmanip/model.py',
         'func': 'Model.has_ontology_annotation',
         'lean_name': 'hasOntologyAnnotation',
         'signature': '(self : NameView) (variable_ : Nat) (namespace_uri : Option String) : Except PyErr Bool',
         'patterns': [
             # rdflib query (tied by its own package): the list of local names, in rdflib's iteration order
             ('self.get_ontology_terms_by_variable(__A, __B)', '(self.terms {A} {B})'),
         ]},
        {'file': 'cellmlmanip/model.py',
         'func': 'Model.get_display_name',
         'lean_name': 'getDisplayName',
         'signature': '(self : NameView) (var : Nat) (ontology : Option String) (exclude_terms : Excl) : '
                      'Except PyErr PyOptStr',
         'patterns': [
             # callee translated in this group
             ('self.has_ontology_annotation(__A, __B)', '(← hasOntologyAnnotation self {A} {B})'),
             ('self.get_ontology_terms_by_variable(__A, __B)', '(self.terms {A} {B})'),
             # python builtins
             ('reversed(__A)', '(List.reverse {A})'),
             ('__A.replace(\'$\', \'__\')', '(String.replace {A} "$" "__")'),
             # attributes of the Variable object; `cmeta_id` is an Optional[str] read in condition position too
             ('__A.cmeta_id', '(PyOptStr.mk (self.cmetaId {A}))'),
             ('__A.name', '(self.name {A})'),
         ]},
        {'file': 'cellmlmanip/model.py',
         'func': 'Model.find_variables_and_derivatives',
         'lean_name': 'findVariablesAndDerivatives',
         'params': ['rec', 'expressions'],
         'signature': '(rec : List ETree → Except PyErr (List ETree)) (expressions : List ETree) : '
                      'Except PyErr (List ETree)',
         'patterns': [
             ('self.find_variables_and_derivatives(__A)', '(← rec {A})'),
             # a python set of expression objects as a list (order and repetitions carry no meaning)
             ('set()', '([] : List ETree)'),
             ('isinstance(__A, Variable)', '({A}).isVariable'),
         ],
         'stmt_patterns': [
             ('variables.add(__A)', 'variables := variables ++ [{A}]'),
             ('variables |= __A', 'variables := variables ++ {A}'),
         ]},
    ]}
