import Cellml.Tie.Prelude
import Cellml.C02.Model
import Cellml.C14.Pipeline

/-! # What the translated functions of `cellmlmanip.parser.Transpiler` see (properties C02, C14)

    The generated code (`Cellml/Generated/Code/Transpile.lean`) works on python VALUES. They are represented by the
    terms `C02.Sy` of the hand-written model; a python sequence of values (`result`, `*expressions`) is a `List Sy`
    (the model's `nil`/`cons` chain is `Sy.ofList`). The pattern table of harness/code_specs/transpile.py binds each
    python LEAF (an operator of python, a call into SymPy / lxml / `float` / `int`) to one of the accessors below; each
    says which python expression it stands for. The accessors that stand for SymPy are the hand model's table of what
    SymPy does (`arith1`, `arith2`, `callClass`, `mkDeriv`, the `Piecewise` branch of `assemble`): where the model
    abstains (`Err.outside`), the accessor returns that abstention as the error class `"outside: …"`. Core Lean only. -/

namespace Cellml.Tie.PTranspile
open C02

/-- the python exception class of a model error (`outside`: the model abstains; kept distinguishable) -/
def syErrName : C02.Err → String
  | .value => "ValueError"
  | .type => "TypeError"
  | .index => "IndexError"
  | .attribute => "AttributeError"
  | .outside w => "outside: " ++ w

/-- a model result as the generated code sees it -/
abbrev syE {α} (r : Except C02.Err α) : Except PyErr α := errClass syErrName r

/-! ## python values -/

/-- a python `int` literal used where SymPy expects an expression (`sympy.root(x, 2)`): sympified to `Integer` -/
instance (n : Nat) : OfNat Sy n := ⟨Sy.int n⟩

/-- is the chain a proper `nil`-terminated list -/
def properChain : Sy → Bool
  | .nil => true
  | .cons _ t => properChain t
  | _ => false

/-- `type(v).__name__` as far as the translated functions ask for it (`isinstance`): the two boolean singletons,
    `Derivative`, and the python `list` a two-child `<bvar>` returns (a `.pylist` over an improper chain is not the
    image of any python value) -/
def pyClassOf : Sy → String
  | .const c => if c == "true" then "BooleanTrue" else if c == "false" then "BooleanFalse" else "Expr"
  | .app h _ => if h == "Derivative" || h == "DerivativeEval" then "Derivative" else "Expr"
  | .pylist xs => if properChain xs then "list" else "?"
  | _ => "Expr"

/-- `isinstance(v, (C1, C2, …))` -/
def pyIsInstance (v : Sy) (classes : List String) : Bool := classes.contains (pyClassOf v)

/-- `len(v)` of a python value (only lists have one that the translated code asks for) -/
def _root_.C02.Sy.length : Sy → Nat
  | .pylist xs => xs.len
  | _ => 0

/-- `seq[i]`: IndexError past the end; TypeError for a value that is not subscriptable -/
class PyItem (α : Type) (β : outParam Type) where
  item : α → Nat → Except PyErr β

instance : PyItem (List Sy) Sy where
  item l i := match l[i]? with
    | some v => .ok v
    | none => .error ⟨"IndexError"⟩

instance : PyItem Sy Sy where
  item v i := match v with
    | .pylist xs => (match xs.toList[i]? with
        | some v => .ok v
        | none => .error ⟨"IndexError"⟩)
    | _ => .error ⟨"TypeError"⟩

/-- `-a` (SymPy `__neg__`) -/
def pyNeg (a : Sy) : Except PyErr Sy := syE (arith1 "neg" a)

/-- an operand that may be python's `None`: SymPy refuses it (never reached by the translated callbacks, which test
    `is None` first) -/
def withOperand (b : Option Sy) (k : Sy → Except PyErr Sy) : Except PyErr Sy :=
  match b with
  | none => .error ⟨"TypeError"⟩
  | some b => k b

/-- `a - b` (SymPy `__sub__`) -/
def pySub (a : Sy) (b : Option Sy) : Except PyErr Sy := withOperand b fun b => syE (arith2 "sub" a b)
/-- `a / b` -/
def pyDiv (a b : Sy) : Except PyErr Sy := syE (arith2 "div" a b)
/-- `a ** b` -/
def pyPow (a b : Sy) : Except PyErr Sy := syE (arith2 "pow" a b)
/-- `sympy.root(arg, n)` -/
def sympyRoot (arg : Option Sy) (n : Sy) : Except PyErr Sy := withOperand arg fun a => syE (arith2 "root" a n)
/-- `sympy.log(arg, base)` -/
def sympyLog (arg : Option Sy) (base : Sy) : Except PyErr Sy := withOperand arg fun a => syE (arith2 "logb" a base)

/-- `int(v)` of a SymPy value: `Float` truncates toward zero, `Integer` is itself, a symbol is a TypeError -/
def pyIntOf : Sy → Except PyErr Int
  | .num q => .ok (Int.tdiv q.num q.den)
  | .int n => .ok n
  | .sym _ => .error ⟨"TypeError"⟩
  | _ => .error ⟨syErrName (.outside "degree expression")⟩

/-- `sympy.Derivative(y, v, n, evaluate=e)`; `e = none` is python's `False` -/
def sympyDerivativeN (y v : Sy) (n : Int) (e : Option Sy) : Except PyErr Sy := syE (mkDeriv y v n e)
/-- `sympy.Derivative(y, v, evaluate=e)`: SymPy counts one differentiation -/
def sympyDerivative (y v : Sy) (e : Option Sy) : Except PyErr Sy := syE (mkDeriv y v 1 e)

/-- `cls(*args)` for a class of the operator table, given by name -/
def sympyClassCall (c : String) (args : List Sy) : Except PyErr Sy := syE (callClass c (Sy.ofList args))
/-- `sympy.And(*relations)` over relations SymPy has just built -/
def sympyAndOf (rs : List Sy) : Sy := .app "And" (Sy.ofList rs)
/-- `sympy.Piecewise(*pairs)` -/
def sympyPiecewise (ps : List Sy) : Except PyErr Sy := syE (assemble "_piecewise_handler" (Sy.ofList ps))
/-- `f(*args)`: python's call of whatever the first child of an `<apply>` evaluated to (a SymPy class, one of the
    closures of the explicit handlers, the relation wrapper, or something that is not callable) -/
def pyCall (f : Sy) (args : List Sy) : Except PyErr Sy := syE (call f (Sy.ofList args))
/-- python's `True` where SymPy expects a condition (`(expr, True)` of `<otherwise>`) -/
def pyTrue : Sy := .const "true"
/-- a python list object as a value -/
def pyListOf (l : List Sy) : Sy := .pylist (Sy.ofList l)

/-- `Transpiler` as seen by the container handlers: `self.transpile(node)` = the list of the transpiled children -/
structure TView where
  transpile : Mml → Except PyErr (List Sy)

/-- the view given by the hand model: the children of an element, transpiled left to right, first error wins -/
def modelTView : TView where
  transpile node := match node with
    | .el _ kids => (syE (C02.transpile kids)).map Sy.toList
    | _ => .error ⟨"AttributeError"⟩

/-! ## dispatch -/

def _root_.C02.Mml.toList : Mml → List Mml
  | .cons h t => h :: t.toList
  | _ => []

/-- `element.iterchildren(tag='*')`: the child elements -/
def mmlChildren : Mml → List Mml
  | .el _ kids => kids.toList
  | _ => []

/-- `etree.QName(node.tag).localname` -/
def mmlTag : Mml → String
  | .ci _ => "ci"
  | .cn _ _ _ => "cn"
  | .el tag _ => tag
  | _ => ""

/-- an lxml element (not one of the `nil`/`cons` list cells of the encoding) -/
def isElement : Mml → Bool
  | .ci _ | .cn _ _ _ | .el _ _ => true
  | _ => false

/-- `Transpiler` as seen by the loop of `transpile`: `tag in self.handlers`, `self.handlers[tag](child)` -/
structure DView where
  hasHandler : String → Bool
  runHandler : String → Mml → Except PyErr Sy

/-- the model: `handlerOf` (GENERATED tables); the handler registered for the tag of a child, run on the child, is
    `C02.transpile` of that child (`transpile_container_tie`, `simpleOperatorHandler_tie`, `cnHandler_tie` say what
    that is in terms of the generated handlers) -/
def modelDView : DView where
  hasHandler tag := (handlerOf tag).isSome
  runHandler _ child := syE (C02.transpile child)

/-- `SIMPLE_MATHML_TO_SYMPY_CLASSES[tag]` (GENERATED table `mathmlOps`): a class or a constant object; KeyError is
    outside the model -/
def operatorTableGet (tag : String) : Except PyErr Sy :=
  match Cellml.Gen.mathmlOps.lookup tag with
  | none => .error ⟨syErrName (.outside "KeyError")⟩
  | some c => if c ∈ sympyConstants then .ok (.const c) else .ok (.cls c)

/-- `self._get_nary_relation_callback(handler)`: the closure `_wrapper_relational` over the class -/
def naryRelationCallback : Sy → Sy
  | .cls c => .rel c
  | .const c => .rel c
  | v => v

/-! ## `<cn>` -/

/-- the lxml element of a `<cn>`: the `type` attribute, the text before the first child, per child whether it is a
    MathML `<sep/>` and its tail text, the `cellml:units` attribute -/
structure CnNode where
  ty : Option String
  text : Option String
  kids : List (Bool × Option String)
  units : Option String := none

/-- `len(node)`: number of child elements -/
def CnNode.length (n : CnNode) : Nat := n.kids.length

/-- `node.attrib['type']` -/
def pyAttrib (a : Option String) : Except PyErr String :=
  match a with
  | some s => .ok s
  | none => .error ⟨"KeyError"⟩

/-- `node[i]` -/
def pyChild (n : CnNode) (i : Nat) : Except PyErr (Bool × Option String) :=
  match n.kids[i]? with
  | some k => .ok k
  | none => .error ⟨"IndexError"⟩

/-- `with_ns(XmlNs.MATHML, 'sep')` -/
def mathmlSepTag : String := "{http://www.w3.org/1998/Math/MathML}sep"
/-- `child.tag`: the model only records whether the child is MathML's `sep` -/
def childTag (k : Bool × Option String) : String := if k.1 then mathmlSepTag else "{}other"
/-- `child.tail` -/
def childTail (k : Bool × Option String) : Option String := k.2

/-- `'%s'` / `'%d'` of a value inside a format -/
class PyStr (α : Type) where
  str : α → String
instance : PyStr String := ⟨id⟩
/-- python's `'%d' % z` -/
instance : PyStr Int := ⟨fun z => String.ofList (C14.renderInt z)⟩

/-- `float`, `int`, `str.strip`, the number generator — the leaves of `_cn_handler`; `F` = a python float as the
    model at hand represents it, `R` = what the number generator returns -/
structure CnView (F R : Type) where
  /-- `float(s)` -/
  float : String → Except PyErr F
  /-- `float('%se%d' % (m, k))` as one step (how the C02 model has it) -/
  floatE : String → Int → Except PyErr F
  /-- `int(s)` -/
  int : String → Except PyErr Int
  /-- `s.strip()`; AttributeError when `s` is None -/
  strip : Option String → Except PyErr String
  /-- `self.number_generator(number, units)` -/
  numberGenerator : F → Option String → Except PyErr R

def optToExcept {α} (cls : String) : Option α → Except PyErr α
  | some a => .ok a
  | none => .error ⟨cls⟩

/-- C02: floats are `FVal`, the default number generator `sympy.Float(number)` -/
def cnViewC02 : CnView FVal Sy where
  float s := optToExcept "ValueError" (pyFloat s.toList)
  floatE m k := optToExcept "ValueError" (pyFloatExp m.toList k)
  int s := optToExcept "ValueError" (pyInt s.toList)
  strip o := match o with
    | some s => .ok (String.ofList (C02.strip s.toList))
    | none => .error ⟨"AttributeError"⟩
  numberGenerator v _ := .ok (ofFVal v)

/-- C14: floats are binary64 bit patterns; the number generator keeps the float object (`Quantity._value`) -/
def cnViewC14 : CnView Nat Nat where
  float s := optToExcept "ValueError" (C14.decToBitsL s.toList)
  floatE m k := optToExcept "ValueError" (C14.decToBitsL (C14.enotationText m.toList k))
  int s := optToExcept "ValueError" (C14.parseIntL s.toList)
  strip o := match o with
    | some s => .ok (String.ofList (C14.strip s.toList))
    | none => .error ⟨"AttributeError"⟩
  numberGenerator b _ := .ok (C14.quantityValue b)

end Cellml.Tie.PTranspile
