import Cellml.Expr.InferLemmas

/-! # C04 — unit inference is sound

    Model: `Infer.traverse reg Γ e` (units.py `UnitCalculator.traverse`): pint arithmetic on unit containers, carrying
    magnitudes along. Specification: `Spec.specUnit reg Γ e` (Expr/Spec.lean): the CellML rules on SEMANTIC units
    `(scale, root units)`, with no containers and no magnitudes. `sem reg u = Units.toRoot reg u` is the meaning of a
    container, `≃₂` is equality of meaning (same positive real scale, same exponent of every root unit).
    Every theorem is for ALL registries (unit families), ALL variable environments and ALL expressions (induction on
    the expression, no depth bound). The tie to cellmlmanip is the correspondence check `harness/props/c04.py`. -/

set_option linter.constructorNameAsVariable false
set_option linter.unusedSimpArgs false

namespace Cellml.Props.C04
open Units PMap Spec Infer

/-! ## 1. the containers `traverse` builds mean what the rules say (all registries, all containers) -/

theorem sem_product (reg : Registry) (a b : Container) : sem reg (mulC a b) ≃₂ Spec.mul (sem reg a) (sem reg b) :=
  sem_mulC reg a b
theorem sem_quotient (reg : Registry) (a b : Container) : sem reg (divC a b) ≃₂ Spec.div (sem reg a) (sem reg b) :=
  sem_divC reg a b
theorem sem_power (reg : Registry) (a : Container) (q : Rat) : sem reg (powC a q) ≃₂ Spec.pow q (sem reg a) :=
  sem_powC reg a q
theorem sem_dimensionless (reg : Registry) : sem reg [] ≃₂ Spec.one := sem_nil reg
/-- the sum / piecewise check accepts exactly the pairs of equal scale and equal root units -/
theorem sameUnits_iff_sem (reg : Registry) (a b : Container) : sameUnits reg a b = true ↔ sem reg a ≃₂ sem reg b :=
  sameUnits_iff reg a b
/-- the function-argument check accepts exactly the units of dimension zero -/
theorem isDimless_iff_dims (reg : Registry) (u : Container) :
    isDimless reg u = true ↔ dimsOfRoot reg (sem reg u).2 ≃ [] := isDimless_iff reg u

/-! ## 2. soundness -/

/-- `infer_sound`: whenever `traverse` returns a unit for an expression whose exponents are numeric (numeric leaves or
    products of numeric leaves such as `-2`, `(-1)·0.5`; `SimpleExps`), the CellML rules assign the expression a unit
    — so it is consistent — and the returned container denotes exactly that unit: same scale, same root units.
    The hypothesis `SimpleExps e` is the property's "power with numeric exponent"; it excludes the known finding
    `wrong-unit:composite-exponent`, and without it the statement is false
    (`infer_sound_fails_for_composite_exponent`). -/
theorem infer_sound (reg : Registry) (Γ : VarEnv) (e : E) :
    SimpleExps e = true → ∀ r, traverse reg Γ e = .ok r →
      ∃ su, specUnit reg Γ e = some su ∧ sem reg r.2 ≃₂ su := by
  induction e with
  | qty v u =>
      intro _ r h; rw [traverse_qty] at h; cases h
      exact ⟨_, rfl, Equiv₂.refl _⟩
  | cf s u =>
      intro _ r h; rw [traverse_cf] at h; cases h
      exact ⟨_, rfl, Equiv₂.refl _⟩
  | var i =>
      intro _ r h; rw [traverse_var] at h
      obtain ⟨vi, hvi, hu⟩ := varQ_ok Γ i r h
      exact ⟨sem reg vi.unit, by simp [specUnit, hvi], by rw [hu]; exact Equiv₂.refl _⟩
  | int n => intro _ r h; rw [traverse_int] at h; cases h; exact ⟨_, rfl, sem_nil reg⟩
  | rat q => intro _ r h; rw [traverse_rat] at h; cases h; exact ⟨_, rfl, sem_nil reg⟩
  | flt q => intro _ r h; rw [traverse_flt] at h; cases h; exact ⟨_, rfl, sem_nil reg⟩
  | pi => intro _ r h; rw [traverse_pi] at h; cases h; exact ⟨_, rfl, sem_nil reg⟩
  | e => intro _ r h; rw [traverse_e] at h; cases h; exact ⟨_, rfl, sem_nil reg⟩
  | oo => intro _ r h; rw [traverse_oo] at h; cases h
  | nan => intro _ r h; rw [traverse_nan] at h; cases h
  | undef => intro _ r h; rw [traverse_undef] at h; cases h
  | tt => intro _ r h; rw [traverse_tt] at h; cases h
  | ff => intro _ r h; rw [traverse_ff] at h; cases h
  | other n => intro _ r h; rw [traverse_other] at h; cases h
  | rel rl a b _ _ =>
      intro _ r h; rw [traverse_rel] at h
      obtain ⟨_, _, h⟩ := (bind_ok _ _ _).mp h
      obtain ⟨_, _, h⟩ := (bind_ok _ _ _).mp h
      cases h
  | and a b _ _ =>
      intro _ r h; rw [traverse_and] at h
      obtain ⟨_, _, h⟩ := (bind_ok _ _ _).mp h
      obtain ⟨_, _, h⟩ := (bind_ok _ _ _).mp h
      cases h
  | or a b _ _ =>
      intro _ r h; rw [traverse_or] at h
      obtain ⟨_, _, h⟩ := (bind_ok _ _ _).mp h
      obtain ⟨_, _, h⟩ := (bind_ok _ _ _).mp h
      cases h
  | not a _ =>
      intro _ r h; rw [traverse_not] at h
      obtain ⟨_, _, h⟩ := (bind_ok _ _ _).mp h
      cases h
  | fnN f a b _ _ =>
      intro _ r h
      obtain ⟨err, he⟩ := traverse_fnN reg Γ f a b
      rw [he] at h; cases h
  | mul a b iha ihb =>
      intro hs r h
      simp only [SimpleExps, Bool.and_eq_true] at hs
      rw [traverse_mul] at h
      obtain ⟨qa, ha, h⟩ := (bind_ok _ _ _).mp h
      obtain ⟨qb, hb, h⟩ := (bind_ok _ _ _).mp h
      obtain ⟨sa, hsa, ea⟩ := iha hs.1 qa ha
      obtain ⟨sb, hsb, eb⟩ := ihb hs.2 qb hb
      cases (pure_ok _ _).mp h
      exact ⟨Spec.mul sa sb, by simp [specUnit, hsa, hsb], (sem_mulC reg _ _).trans (mul_congr ea eb)⟩
  | add a b iha ihb =>
      intro hs r h
      simp only [SimpleExps, Bool.and_eq_true] at hs
      obtain ⟨ha, qb, hb, hsame⟩ := traverse_add_ok reg Γ a b r h
      obtain ⟨sa, hsa, ea⟩ := iha hs.1 r ha
      obtain ⟨sb, hsb, eb⟩ := ihb hs.2 qb hb
      have hab : sa ≃₂ sb := ea.symm.trans (((sameUnits_iff reg _ _).mp hsame).trans eb)
      exact ⟨sa, by simp [specUnit, hsa, hsb, (same_iff sa sb).mpr hab], ea⟩
  | abs a iha =>
      intro hs r h
      rw [traverse_abs] at h
      obtain ⟨qa, ha, h⟩ := (bind_ok _ _ _).mp h
      cases (pure_ok _ _).mp h
      exact iha hs qa ha
  | floor a iha =>
      intro hs r h
      rw [traverse_floor] at h
      obtain ⟨qa, ha, h⟩ := (bind_ok _ _ _).mp h
      obtain ⟨m, _, h⟩ := (bind_ok _ _ _).mp h
      cases (pure_ok _ _).mp h
      exact iha hs qa ha
  | ceil a iha =>
      intro hs r h
      rw [traverse_ceil] at h
      obtain ⟨qa, ha, h⟩ := (bind_ok _ _ _).mp h
      obtain ⟨m, _, h⟩ := (bind_ok _ _ _).mp h
      cases (pure_ok _ _).mp h
      exact iha hs qa ha
  | fn1 f a iha =>
      intro hs r h
      rw [traverse_fn1] at h
      obtain ⟨qa, ha, h⟩ := (bind_ok _ _ _).mp h
      obtain ⟨sa, hsa, ea⟩ := iha hs qa ha
      obtain ⟨hd, hr⟩ := fn1Step_ok reg f qa r h
      have hz : dimZero reg sa = true := by
        rw [← dimZero_congr reg ea, ← isDimless_eq_dimZero]; exact hd
      exact ⟨Spec.one, by simp [specUnit, hsa, hz], by rw [hr]; exact sem_nil reg⟩
  | deriv v t =>
      intro _ r h
      rw [traverse_deriv] at h
      obtain ⟨qv, hv, h⟩ := (bind_ok _ _ _).mp h
      obtain ⟨qt, ht, h⟩ := (bind_ok _ _ _).mp h
      obtain ⟨m, _, h⟩ := (bind_ok _ _ _).mp h
      cases (pure_ok _ _).mp h
      obtain ⟨vi, hvi, hu⟩ := varQ_ok Γ v qv hv
      obtain ⟨ti, hti, hw⟩ := varQ_ok Γ t qt ht
      refine ⟨Spec.div (sem reg vi.unit) (sem reg ti.unit), by simp [specUnit, hvi, hti], ?_⟩
      show sem reg (divC qv.2 qt.2) ≃₂ _
      rw [hu, hw]; exact sem_divC reg _ _
  | ite c t el _ iht ihe =>
      intro hs r h
      simp only [SimpleExps, Bool.and_eq_true] at hs
      rw [traverse_ite] at h
      obtain ⟨qt, ht, h⟩ := (bind_ok _ _ _).mp h
      obtain ⟨st, hst, et⟩ := iht hs.1 qt ht
      by_cases hu : el = .undef
      · simp only [hu, if_true] at h
        cases (pure_ok _ _).mp h
        exact ⟨st, by simp [specUnit, hu, hst], et⟩
      · simp only [hu, if_false] at h
        obtain ⟨qe, he, h⟩ := (bind_ok _ _ _).mp h
        obtain ⟨se, hse, ee⟩ := ihe hs.2 qe he
        by_cases hsame : sameUnits reg qt.2 qe.2 = true
        · simp only [hsame, if_true] at h
          cases (pure_ok _ _).mp h
          have hab : st ≃₂ se := et.symm.trans (((sameUnits_iff reg _ _).mp hsame).trans ee)
          exact ⟨st, by simp [specUnit, hu, hst, hse, (same_iff st se).mpr hab], et⟩
        · simp only [hsame, if_false] at h; cases h
  | pow b x ihb ihx =>
      intro hs r h
      simp only [SimpleExps, Bool.and_eq_true] at hs
      rw [traverse_pow] at h
      obtain ⟨qb, hb, h⟩ := (bind_ok _ _ _).mp h
      obtain ⟨qx, hx, h⟩ := (bind_ok _ _ _).mp h
      obtain ⟨sb, hsb, eb⟩ := ihb hs.1 qb hb
      obtain ⟨sx, hsx, ex⟩ := ihx (simpleExps_of_numProd x hs.2) qx hx
      obtain ⟨q, f, hx', hc⟩ := numProd_traverse reg Γ x hs.2
      rw [hx'] at hx; cases hx
      have hone : isOne sx = true := (isOne_iff sx).mpr (ex.symm.trans (sem_nil reg))
      refine ⟨Spec.pow q sb, by simp [specUnit, hsb, hsx, hone, hc], ?_⟩
      simp only [powStep, ne_eq, not_true_eq_false, if_false, M.isNumber, Bool.not_true, Bool.false_eq_true] at h
      obtain ⟨m, _, h⟩ := (bind_ok _ _ _).mp h
      by_cases hub : qb.2 = []
      · simp only [hub, if_true] at h; cases h
        rw [hub] at eb
        exact (sem_nil reg).trans ((pow_one q).symm.trans (pow_congr q ((sem_nil reg).symm.trans eb)))
      · simp only [hub, if_false] at h; cases h
        exact (sem_powC reg _ q).trans (pow_congr q eb)

/-- the same in the canonical forms the correspondence check compares: the SI scale (`scaleOf`) and the dimension
    (`dimsOf`) of the returned unit are exactly those of the unit the rules assign -/
theorem infer_sound_scale_dims (reg : Registry) (Γ : VarEnv) (e : E) (hs : SimpleExps e = true) (r : M × Container)
    (h : traverse reg Γ e = .ok r) :
    ∃ su, specUnit reg Γ e = some su ∧ scaleOf reg r.2 = norm su.1 ∧ rootOf reg r.2 = norm su.2 ∧
      dimsOf reg r.2 = norm (dimsOfRoot reg su.2) := by
  obtain ⟨su, hsu, heq⟩ := infer_sound reg Γ e hs r h
  refine ⟨su, hsu, norm_eq_of_equiv heq.1, norm_eq_of_equiv heq.2, ?_⟩
  exact norm_eq_of_equiv (dimsOfRoot_congr reg ((norm_equiv _).trans heq.2))

/-! ## 3. consistency: `specUnit` decides the typing relation `HasUnit` -/

/-- whatever `specUnit` computes is derivable by the rules -/
theorem specUnit_hasUnit (reg : Registry) (Γ : VarEnv) (e : E) :
    ∀ su, specUnit reg Γ e = some su → HasUnit reg Γ e su := by
  induction e with
  | qty v u => intro su h; simp only [specUnit, Option.some.injEq] at h; subst h; exact .qty v u
  | cf s u => intro su h; simp only [specUnit, Option.some.injEq] at h; subst h; exact .cf s u
  | var i =>
      intro su h
      cases hv : Γ[i]? with
      | none => simp [specUnit, hv] at h
      | some vi => simp only [specUnit, hv, Option.some.injEq] at h; subst h; exact .var i vi hv
  | int n => intro su h; simp only [specUnit, Option.some.injEq] at h; subst h; exact .int n
  | rat q => intro su h; simp only [specUnit, Option.some.injEq] at h; subst h; exact .rat q
  | flt q => intro su h; simp only [specUnit, Option.some.injEq] at h; subst h; exact .flt q
  | pi => intro su h; simp only [specUnit, Option.some.injEq] at h; subst h; exact .pi
  | e => intro su h; simp only [specUnit, Option.some.injEq] at h; subst h; exact .e
  | oo => intro su h; simp only [specUnit, Option.some.injEq] at h; subst h; exact .oo
  | nan => intro su h; simp only [specUnit, Option.some.injEq] at h; subst h; exact .nan
  | mul a b iha ihb =>
      intro su h
      cases ha : specUnit reg Γ a <;> cases hb : specUnit reg Γ b <;> simp [specUnit, ha, hb] at h
      subst h; exact .mul (iha _ ha) (ihb _ hb)
  | add a b iha ihb =>
      intro su h
      cases ha : specUnit reg Γ a <;> cases hb : specUnit reg Γ b <;> simp [specUnit, ha, hb] at h
      obtain ⟨hs, rfl⟩ := h
      exact .add (iha _ ha) (ihb _ hb) ((same_iff _ _).mp hs)
  | pow b x ihb ihx =>
      intro su h
      cases hb : specUnit reg Γ b <;> cases hx : specUnit reg Γ x <;> simp [specUnit, hb, hx] at h
      rename_i sb sx
      obtain ⟨h1, h⟩ := h
      have hsx := (isOne_iff sx).mp h1
      cases hc : constVal x with
      | some q =>
          simp only [hc, Option.some.injEq] at h; subst h
          exact .powNum (ihb _ hb) (ihx _ hx) hsx hc
      | none =>
          simp only [hc, Option.ite_none_right_eq_some, Option.some.injEq] at h
          obtain ⟨h2, rfl⟩ := h
          exact .powOne (ihb _ hb) (ihx _ hx) hsx ((isOne_iff sb).mp h2) hc
  | ite c t el _ iht ihe =>
      intro su h
      by_cases hu : el = .undef
      · subst hu
        simp only [specUnit, if_true] at h
        exact .iteLast (iht _ h)
      · cases ht : specUnit reg Γ t <;> cases he : specUnit reg Γ el <;> simp [specUnit, hu, ht, he] at h
        obtain ⟨hs, rfl⟩ := h
        exact .ite hu (iht _ ht) (ihe _ he) ((same_iff _ _).mp hs)
  | abs a iha => intro su h; simp only [specUnit] at h; exact .abs (iha _ h)
  | floor a iha => intro su h; simp only [specUnit] at h; exact .floor (iha _ h)
  | ceil a iha => intro su h; simp only [specUnit] at h; exact .ceil (iha _ h)
  | fn1 f a iha =>
      intro su h
      cases ha : specUnit reg Γ a <;> simp [specUnit, ha] at h
      obtain ⟨hz, rfl⟩ := h
      exact .fn1 (iha _ ha) ((isZero_iff _).mp hz)
  | deriv v t =>
      intro su h
      cases hv : Γ[v]? <;> cases ht : Γ[t]? <;> simp [specUnit, hv, ht] at h
      subst h; exact .deriv v t _ _ hv ht
  | _ => intro su h; simp [specUnit] at h

/-- the rules determine the unit up to meaning, and `specUnit` finds it: `HasUnit` is not weaker than `specUnit` -/
theorem hasUnit_specUnit (reg : Registry) (Γ : VarEnv) (e : E) (su : SUnit) (h : HasUnit reg Γ e su) :
    ∃ su', specUnit reg Γ e = some su' ∧ su' ≃₂ su := by
  induction h with
  | qty v u => exact ⟨_, rfl, Equiv₂.refl _⟩
  | cf s u => exact ⟨_, rfl, Equiv₂.refl _⟩
  | var i vi hv => exact ⟨_, by simp [specUnit, hv], Equiv₂.refl _⟩
  | int n => exact ⟨_, rfl, Equiv₂.refl _⟩
  | rat q => exact ⟨_, rfl, Equiv₂.refl _⟩
  | flt q => exact ⟨_, rfl, Equiv₂.refl _⟩
  | pi => exact ⟨_, rfl, Equiv₂.refl _⟩
  | e => exact ⟨_, rfl, Equiv₂.refl _⟩
  | oo => exact ⟨_, rfl, Equiv₂.refl _⟩
  | nan => exact ⟨_, rfl, Equiv₂.refl _⟩
  | mul _ _ iha ihb =>
      obtain ⟨x', hx, ex⟩ := iha
      obtain ⟨y', hy, ey⟩ := ihb
      exact ⟨Spec.mul x' y', by simp [specUnit, hx, hy], mul_congr ex ey⟩
  | powNum _ _ hone hc ihb ihx =>
      obtain ⟨sb', hb, eb⟩ := ihb
      obtain ⟨sx', hx, ex⟩ := ihx
      have : isOne sx' = true := (isOne_iff _).mpr (ex.trans hone)
      exact ⟨_, by simp [specUnit, hb, hx, this, hc], pow_congr _ eb⟩
  | powOne _ _ hone hbone hc ihb ihx =>
      obtain ⟨sb', hb, eb⟩ := ihb
      obtain ⟨sx', hx, ex⟩ := ihx
      have h1 : isOne sx' = true := (isOne_iff _).mpr (ex.trans hone)
      have h2 : isOne sb' = true := (isOne_iff _).mpr (eb.trans hbone)
      exact ⟨Spec.one, by simp [specUnit, hb, hx, h1, h2, hc], Equiv₂.refl _⟩
  | add _ _ hxy iha ihb =>
      obtain ⟨x', hx, ex⟩ := iha
      obtain ⟨y', hy, ey⟩ := ihb
      have : Spec.same x' y' = true := (same_iff _ _).mpr (ex.trans (hxy.trans ey.symm))
      exact ⟨x', by simp [specUnit, hx, hy, this], ex⟩
  | iteLast _ iht =>
      obtain ⟨x', hx, ex⟩ := iht
      exact ⟨x', by simp [specUnit, hx], ex⟩
  | ite hu _ _ hxy iht ihe =>
      obtain ⟨x', hx, ex⟩ := iht
      obtain ⟨y', hy, ey⟩ := ihe
      have : Spec.same x' y' = true := (same_iff _ _).mpr (ex.trans (hxy.trans ey.symm))
      exact ⟨x', by simp [specUnit, hu, hx, hy, this], ex⟩
  | abs _ ih => obtain ⟨x', hx, ex⟩ := ih; exact ⟨x', by simp [specUnit, hx], ex⟩
  | floor _ ih => obtain ⟨x', hx, ex⟩ := ih; exact ⟨x', by simp [specUnit, hx], ex⟩
  | ceil _ ih => obtain ⟨x', hx, ex⟩ := ih; exact ⟨x', by simp [specUnit, hx], ex⟩
  | fn1 _ hz ih =>
      obtain ⟨x', hx, ex⟩ := ih
      have : dimZero reg x' = true := by
        rw [dimZero_congr reg ex]; exact (isZero_iff _).mpr hz
      exact ⟨Spec.one, by simp [specUnit, hx, this], Equiv₂.refl _⟩
  | deriv v t vi ti hv ht => exact ⟨_, by simp [specUnit, hv, ht], Equiv₂.refl _⟩

/-- the unit of a consistent expression is unique up to meaning -/
theorem hasUnit_unique (reg : Registry) (Γ : VarEnv) (e : E) (s₁ s₂ : SUnit)
    (h₁ : HasUnit reg Γ e s₁) (h₂ : HasUnit reg Γ e s₂) : s₁ ≃₂ s₂ := by
  obtain ⟨a, ha, ea⟩ := hasUnit_specUnit reg Γ e s₁ h₁
  obtain ⟨b, hb, eb⟩ := hasUnit_specUnit reg Γ e s₂ h₂
  rw [ha] at hb; cases hb
  exact ea.symm.trans eb

/-- `infer_consistent`: a returned unit certifies that the expression is consistent under the CellML rules — there is a
    derivation in which every sum's operands and every piecewise's pieces have the same unit, every function
    argument has dimension zero, every exponent is dimensionless — and the returned container denotes the derived
    unit (which is unique, `hasUnit_unique`). -/
theorem infer_consistent (reg : Registry) (Γ : VarEnv) (e : E) (hs : SimpleExps e = true) (r : M × Container)
    (h : traverse reg Γ e = .ok r) : ∃ su, HasUnit reg Γ e su ∧ sem reg r.2 ≃₂ su := by
  obtain ⟨su, hsu, eq⟩ := infer_sound reg Γ e hs r h
  exact ⟨su, specUnit_hasUnit reg Γ e su hsu, eq⟩

/-- `infer_complete_err` (value part): an expression to which the rules assign no unit — a unit clash in a sum or
    piecewise, a dimensional exponent or function argument, a boolean / relational / unsupported node where a value is
    needed — is never given a unit: `traverse` ends in an error. -/
theorem infer_complete_err (reg : Registry) (Γ : VarEnv) (e : E) (hs : SimpleExps e = true)
    (hno : ∀ su, ¬ HasUnit reg Γ e su) : ∃ err, traverse reg Γ e = .error err := by
  cases h : traverse reg Γ e with
  | error err => exact ⟨err, rfl⟩
  | ok r =>
      obtain ⟨su, hsu, _⟩ := infer_consistent reg Γ e hs r h
      exact absurd hsu (hno su)

theorem infer_complete_err_spec (reg : Registry) (Γ : VarEnv) (e : E) (hs : SimpleExps e = true)
    (hno : specUnit reg Γ e = none) : ∃ err, traverse reg Γ e = .error err := by
  apply infer_complete_err reg Γ e hs
  intro su hsu
  obtain ⟨su', h', _⟩ := hasUnit_specUnit reg Γ e su hsu
  rw [hno] at h'; cases h'

/-! ## 4. errors -/

/-- What an error of `traverse` on `e` can be: a `UnitError` subclass; or a Python exception of a magnitude operation
    that occurs in `e` (`pyErrors e` lists them per node: `ZeroDivisionError` for `**` and derivatives, `OverflowError`
    for `exp`, `TypeError` for floor / ceiling); or the model's `unsupported` for a node of `e` outside the exactly
    modelled fragment (`outside Γ e`: infinity, nan, unknown variable, powers). -/
def ErrClass (Γ : VarEnv) (e : E) (err : UnitErr) : Prop :=
  (∀ w, err = .otherException w → w ∈ pyErrors e) ∧ (∀ w, err = .unsupported w → outside Γ e = true)

theorem ErrClass.of_unitError {Γ : VarEnv} {e : E} {err : UnitErr} (h : isUnitError err = true) :
    ErrClass Γ e err := by
  constructor <;> intro w hw <;> subst hw <;> simp [isUnitError] at h

theorem ErrClass.mono {Γ : VarEnv} {a e : E} {err : UnitErr} (h : ErrClass Γ a err)
    (hp : ∀ w, w ∈ pyErrors a → w ∈ pyErrors e) (ho : outside Γ a = true → outside Γ e = true) :
    ErrClass Γ e err :=
  ⟨fun w hw => hp w (h.1 w hw), fun w hw => ho (h.2 w hw)⟩

/-- sub-expression step of the induction: errors of an operand are errors the parent may show -/
macro "from_operand " ih:term : tactic =>
  `(tactic| exact ErrClass.mono $ih (by intro w hw; simp [pyErrors, hw]) (by intro ho; simp [outside, ho]))

/-- `infer_error_class`: every error of `traverse` is classified by `ErrClass` -/
theorem infer_error_class (reg : Registry) (Γ : VarEnv) (e : E) :
    ∀ err, traverse reg Γ e = .error err → ErrClass Γ e err := by
  induction e with
  | qty v u => intro err h; rw [traverse_qty] at h; cases h
  | cf s u => intro err h; rw [traverse_cf] at h; cases h
  | int n => intro err h; rw [traverse_int] at h; cases h
  | rat q => intro err h; rw [traverse_rat] at h; cases h
  | flt q => intro err h; rw [traverse_flt] at h; cases h
  | pi => intro err h; rw [traverse_pi] at h; cases h
  | e => intro err h; rw [traverse_e] at h; cases h
  | oo => intro err h; rw [traverse_oo] at h; cases h; exact ⟨fun w hw => (by cases hw), fun w _ => rfl⟩
  | nan => intro err h; rw [traverse_nan] at h; cases h; exact ⟨fun w hw => (by cases hw), fun w _ => rfl⟩
  | undef => intro err h; rw [traverse_undef] at h; cases h; exact .of_unitError rfl
  | tt => intro err h; rw [traverse_tt] at h; cases h; exact .of_unitError rfl
  | ff => intro err h; rw [traverse_ff] at h; cases h; exact .of_unitError rfl
  | other n => intro err h; rw [traverse_other] at h; cases h; exact .of_unitError rfl
  | var i =>
      intro err h; rw [traverse_var] at h
      obtain ⟨hn, rfl⟩ := varQ_error Γ i err h
      exact ⟨fun w hw => (by cases hw), fun w _ => by simp [outside, hn]⟩
  | mul a b iha ihb =>
      intro err h; rw [traverse_mul] at h
      rcases (bind_error _ _ _).mp h with h | ⟨qa, _, h⟩
      · from_operand (iha err h)
      · rcases (bind_error _ _ _).mp h with h | ⟨qb, _, h⟩
        · from_operand (ihb err h)
        · cases h
  | add a b iha ihb =>
      intro err h
      rcases traverse_add_error reg Γ a b err h with h | h | rfl
      · from_operand (iha err h)
      · from_operand (ihb err h)
      · exact .of_unitError rfl
  | rel rl a b iha ihb =>
      intro err h; rw [traverse_rel] at h
      rcases (bind_error _ _ _).mp h with h | ⟨qa, _, h⟩
      · from_operand (iha err h)
      · rcases (bind_error _ _ _).mp h with h | ⟨qb, _, h⟩
        · from_operand (ihb err h)
        · cases h; exact .of_unitError rfl
  | and a b iha ihb =>
      intro err h; rw [traverse_and] at h
      rcases (bind_error _ _ _).mp h with h | ⟨qa, _, h⟩
      · from_operand (iha err h)
      · rcases (bind_error _ _ _).mp h with h | ⟨qb, _, h⟩
        · from_operand (ihb err h)
        · cases h; exact .of_unitError rfl
  | or a b iha ihb =>
      intro err h; rw [traverse_or] at h
      rcases (bind_error _ _ _).mp h with h | ⟨qa, _, h⟩
      · from_operand (iha err h)
      · rcases (bind_error _ _ _).mp h with h | ⟨qb, _, h⟩
        · from_operand (ihb err h)
        · cases h; exact .of_unitError rfl
  | not a iha =>
      intro err h; rw [traverse_not] at h
      rcases (bind_error _ _ _).mp h with h | ⟨qa, _, h⟩
      · from_operand (iha err h)
      · cases h; exact .of_unitError rfl
  | abs a iha =>
      intro err h; rw [traverse_abs] at h
      rcases (bind_error _ _ _).mp h with h | ⟨qa, _, h⟩
      · from_operand (iha err h)
      · cases h
  | floor a iha =>
      intro err h; rw [traverse_floor] at h
      rcases (bind_error _ _ _).mp h with h | ⟨qa, _, h⟩
      · from_operand (iha err h)
      · rcases (bind_error _ _ _).mp h with h | ⟨m, _, h⟩
        · cases floorM_error _ _ _ h
          exact ⟨fun w hw => (by cases hw; simp [pyErrors]), fun w hw => by cases hw⟩
        · cases h
  | ceil a iha =>
      intro err h; rw [traverse_ceil] at h
      rcases (bind_error _ _ _).mp h with h | ⟨qa, _, h⟩
      · from_operand (iha err h)
      · rcases (bind_error _ _ _).mp h with h | ⟨m, _, h⟩
        · cases floorM_error _ _ _ h
          exact ⟨fun w hw => (by cases hw; simp [pyErrors]), fun w hw => by cases hw⟩
        · cases h
  | fn1 f a iha =>
      intro err h; rw [traverse_fn1] at h
      rcases (bind_error _ _ _).mp h with h | ⟨qa, _, h⟩
      · from_operand (iha err h)
      · rcases fn1Step_error reg f qa err h with rfl | rfl | ⟨rfl, rfl⟩
        · exact .of_unitError rfl
        · exact .of_unitError rfl
        · exact ⟨fun w hw => (by cases hw; simp [pyErrors]), fun w hw => by cases hw⟩
  | fnN f a b iha ihb =>
      intro err h
      rcases traverse_fnN_error reg Γ f a b err h with rfl | rfl | h | h
      · exact .of_unitError rfl
      · exact .of_unitError rfl
      · from_operand (iha err h)
      · from_operand (ihb err h)
  | deriv v t =>
      intro err h; rw [traverse_deriv] at h
      rcases (bind_error _ _ _).mp h with h | ⟨qv, _, h⟩
      · obtain ⟨hn, rfl⟩ := varQ_error Γ v err h
        exact ⟨fun w hw => (by cases hw), fun w _ => by simp [outside, hn]⟩
      · rcases (bind_error _ _ _).mp h with h | ⟨qt, _, h⟩
        · obtain ⟨hn, rfl⟩ := varQ_error Γ t err h
          exact ⟨fun w hw => (by cases hw), fun w _ => by simp [outside, hn]⟩
        · rcases (bind_error _ _ _).mp h with h | ⟨m, _, h⟩
          · cases divM_error _ _ _ h
            exact ⟨fun w hw => (by cases hw; simp [pyErrors]), fun w hw => by cases hw⟩
          · cases h
  | ite c t el _ iht ihe =>
      intro err h; rw [traverse_ite] at h
      rcases (bind_error _ _ _).mp h with h | ⟨qt, _, h⟩
      · from_operand (iht err h)
      · by_cases hu : el = .undef
        · simp only [hu, if_true] at h; cases h
        · simp only [hu, if_false] at h
          rcases (bind_error _ _ _).mp h with h | ⟨qe, _, h⟩
          · from_operand (ihe err h)
          · split at h
            · cases h
            · cases h; exact .of_unitError rfl
  | pow b x ihb ihx =>
      intro err h; rw [traverse_pow] at h
      rcases (bind_error _ _ _).mp h with h | ⟨qb, _, h⟩
      · from_operand (ihb err h)
      · rcases (bind_error _ _ _).mp h with h | ⟨qx, _, h⟩
        · from_operand (ihx err h)
        · rcases powStep_error qb qx err h with h | rfl | ⟨w, rfl⟩
          · exact .of_unitError h
          · exact ⟨fun w hw => (by cases hw; simp [pyErrors]), fun w hw => by cases hw⟩
          · exact ⟨fun w hw => (by cases hw), fun w _ => rfl⟩

/-- the three ways an evaluation can fail -/
theorem infer_error_trichotomy (reg : Registry) (Γ : VarEnv) (e : E) (err : UnitErr)
    (h : traverse reg Γ e = .error err) :
    isUnitError err = true ∨ (∃ w, err = .otherException w ∧ w ∈ pyErrors e) ∨
      (∃ w, err = .unsupported w ∧ outside Γ e = true) := by
  have hc := infer_error_class reg Γ e err h
  cases err with
  | otherException w => exact Or.inr (Or.inl ⟨w, rfl, hc.1 w rfl⟩)
  | unsupported w => exact Or.inr (Or.inr ⟨w, rfl, hc.2 w rfl⟩)
  | _ => exact Or.inl rfl

/-- only three Python exception types can escape, each from the magnitude operation named in `pyErrors` -/
theorem pyErrors_subset (e : E) : ∀ w, w ∈ pyErrors e → w ∈ ["ZeroDivisionError", "OverflowError", "TypeError"] := by
  induction e with
  | pow b x ihb ihx =>
      intro w hw; simp only [pyErrors, List.mem_cons, List.mem_append] at hw
      rcases hw with rfl | hw | hw
      · simp
      · exact ihb w hw
      · exact ihx w hw
  | floor a ih =>
      intro w hw; simp only [pyErrors, List.mem_cons] at hw
      rcases hw with rfl | hw
      · simp
      · exact ih w hw
  | ceil a ih =>
      intro w hw; simp only [pyErrors, List.mem_cons] at hw
      rcases hw with rfl | hw
      · simp
      · exact ih w hw
  | fn1 f a ih =>
      intro w hw; simp only [pyErrors, List.mem_append] at hw
      rcases hw with hw | hw
      · split at hw
        · simp only [List.mem_cons, List.not_mem_nil, or_false] at hw; subst hw; simp
        · cases hw
      · exact ih w hw
  | deriv v t => intro w hw; simp only [pyErrors, List.mem_cons, List.not_mem_nil, or_false] at hw; subst hw; simp
  | add a b iha ihb | mul a b iha ihb | fnN f a b iha ihb | rel rl a b iha ihb | and a b iha ihb | or a b iha ihb =>
      intro w hw; simp only [pyErrors, List.mem_append] at hw
      rcases hw with hw | hw
      · exact iha w hw
      · exact ihb w hw
  | ite c t el _ iht ihe =>
      intro w hw; simp only [pyErrors, List.mem_append] at hw
      rcases hw with hw | hw
      · exact iht w hw
      · exact ihe w hw
  | abs a ih | not a ih => intro w hw; simp only [pyErrors] at hw; exact ih w hw
  | _ => intro w hw; simp [pyErrors] at hw

/-- `infer_unit_errors_only_partial`: an expression without powers, floor / ceiling, `exp` and derivatives (no operation
    on magnitudes can fail), without infinity / nan and whose variables are all declared, is either given a unit or
    rejected with a `UnitError` subclass — never another exception.
    PARTIAL with respect to the property text ("never another exception type", for every expression): the hypothesis
    `pyErrors e = []` excludes exactly the known findings `non-UnitError:OverflowError / ZeroDivisionError / TypeError`
    (`overflow_reachable`, `zero_division_reachable`, `type_error_reachable` below show they are real);
    `infer_error_trichotomy` is the unconditional statement, which names the escaping exception and its origin. -/
theorem infer_unit_errors_only_partial (reg : Registry) (Γ : VarEnv) (e : E) (hp : pyErrors e = [])
    (ho : outside Γ e = false) : (∃ r, traverse reg Γ e = .ok r) ∨
      (∃ err, traverse reg Γ e = .error err ∧ isUnitError err = true) := by
  cases h : traverse reg Γ e with
  | ok r => exact Or.inl ⟨r, rfl⟩
  | error err =>
      refine Or.inr ⟨err, rfl, ?_⟩
      rcases infer_error_trichotomy reg Γ e err h with hu | ⟨w, _, hw⟩ | ⟨w, _, hw⟩
      · exact hu
      · rw [hp] at hw; cases hw
      · rw [ho] at hw; cases hw

/-! ## 5. what is always rejected -/

/-- terms that have no unit: relations, boolean terms, two-argument functions, an empty piecewise, anything unknown -/
def noUnitHead : E → Bool
  | .other _ | .rel _ _ _ | .and _ _ | .or _ _ | .not _ | .tt | .ff | .fnN _ _ _ | .undef => true
  | _ => false

/-- `infer_rejects`: such a term is never given a unit, whatever its operands are -/
theorem infer_rejects (reg : Registry) (Γ : VarEnv) (e : E) (h : noUnitHead e = true) :
    ∃ err, traverse reg Γ e = .error err := by
  cases hr : traverse reg Γ e with
  | error err => exact ⟨err, rfl⟩
  | ok r =>
      exfalso
      cases e <;> simp only [noUnitHead, Bool.false_eq_true] at h
      case other n => rw [traverse_other] at hr; cases hr
      case tt => rw [traverse_tt] at hr; cases hr
      case ff => rw [traverse_ff] at hr; cases hr
      case undef => rw [traverse_undef] at hr; cases hr
      case fnN f a b => obtain ⟨err, he⟩ := traverse_fnN reg Γ f a b; rw [he] at hr; cases hr
      case not a =>
        rw [traverse_not] at hr
        obtain ⟨_, _, hr⟩ := (bind_ok _ _ _).mp hr
        cases hr
      all_goals
        first
        | rw [traverse_rel] at hr
        | rw [traverse_and] at hr
        | rw [traverse_or] at hr
        obtain ⟨_, _, hr⟩ := (bind_ok _ _ _).mp hr
        obtain ⟨_, _, hr⟩ := (bind_ok _ _ _).mp hr
        cases hr

/-- with acceptable operands a relation / boolean term is rejected as `BooleanUnitsError` -/
theorem infer_rejects_relation (reg : Registry) (Γ : VarEnv) (rl : Rel) (a b : E) (ra rb : M × Container)
    (ha : traverse reg Γ a = .ok ra) (hb : traverse reg Γ b = .ok rb) :
    traverse reg Γ (.rel rl a b) = .error .boolean := by
  rw [traverse_rel, ha, hb]; rfl

/-- `infer_rejects_sum`: two accepted operands whose units differ in meaning (scale or root units) cannot be added:
    `InputArgumentsInvalidUnitsError` -/
theorem infer_rejects_sum (reg : Registry) (Γ : VarEnv) (a b : E) (ra rb : M × Container)
    (ha : traverse reg Γ a = .ok ra) (hb : traverse reg Γ b = .ok rb) (hne : ¬ sem reg ra.2 ≃₂ sem reg rb.2) :
    traverse reg Γ (.add a b) = .error .argsInvalidUnits := by
  apply traverse_add_mismatch reg Γ a b ra rb ha hb
  cases hs : sameUnits reg ra.2 rb.2 with
  | false => rfl
  | true => exact absurd ((sameUnits_iff reg _ _).mp hs) hne

/-- the same from the specification's side: operands to which the rules give different units -/
theorem infer_rejects_sum_spec (reg : Registry) (Γ : VarEnv) (a b : E) (sa sb : SUnit)
    (hsa : SimpleExps a = true) (hsb : SimpleExps b = true)
    (ha : specUnit reg Γ a = some sa) (hb : specUnit reg Γ b = some sb) (hne : ¬ sa ≃₂ sb) :
    ∃ err, traverse reg Γ (.add a b) = .error err := by
  apply infer_complete_err_spec reg Γ (.add a b) (by simp [SimpleExps, hsa, hsb])
  have : Spec.same sa sb = false := by
    cases hs : Spec.same sa sb with
    | false => rfl
    | true => exact absurd ((same_iff _ _).mp hs) hne
  simp [specUnit, ha, hb, this]

/-! ## 6. the known defects, as theorems about the model (findings/C04.json) -/

/-- `wrong-unit:composite-exponent`: why `infer_sound` needs `SimpleExps`. For `(0.5 second)**(_2 + _3)` the code
    reads the exponent as its first operand, 2, and reports `second**2`; the rules give `second**5`. -/
def compositeExp : E := .pow (.qty (1/2) [("second", 1)]) (.add (.qty 2 []) (.qty 3 []))

theorem composite_exponent_counterexample :
    traverse builtinRegistry [] compositeExp = .ok (.num (1/4) true, [("second", 2)]) ∧
    (specUnit builtinRegistry [] compositeExp).map (fun su => (norm su.1, norm su.2)) = some ([], [("second", 5)]) ∧
    SimpleExps compositeExp = false ∧
    (∀ su, specUnit builtinRegistry [] compositeExp = some su →
      Spec.same (sem builtinRegistry [("second", 2)]) su = false) := by
  refine ⟨by decide +kernel, by decide +kernel, by decide +kernel, ?_⟩
  intro su h
  have : (specUnit builtinRegistry [] compositeExp).map
      (fun su => Spec.same (sem builtinRegistry [("second", 2)]) su) = some false := by decide +kernel
  rw [h] at this
  simpa using this

/-- so the returned unit is NOT the unit of the expression: soundness fails without the hypothesis -/
theorem infer_sound_fails_for_composite_exponent :
    ¬ (∀ r, traverse builtinRegistry [] compositeExp = .ok r →
        ∃ su, specUnit builtinRegistry [] compositeExp = some su ∧ sem builtinRegistry r.2 ≃₂ su) := by
  intro hall
  obtain ⟨h1, _, _, h4⟩ := composite_exponent_counterexample
  obtain ⟨su, hsu, heq⟩ := hall _ h1
  have := h4 su hsu
  rw [(same_iff _ _).mpr heq] at this
  cases this

/-- `non-UnitError:OverflowError` -/
theorem overflow_reachable :
    traverse builtinRegistry [] (.fn1 "exp" (.qty 1000 [])) = .error (.otherException "OverflowError") := by
  decide +kernel

/-- `non-UnitError:ZeroDivisionError`: `floor(_0.5)**-1` -/
theorem zero_division_reachable :
    traverse builtinRegistry [] (.pow (.floor (.qty (1/2) [])) (.int (-1))) =
      .error (.otherException "ZeroDivisionError") := by
  decide +kernel

/-- `non-UnitError:TypeError`: `floor((-2 mole)**(1/2))` -/
theorem type_error_reachable :
    traverse builtinRegistry [] (.floor (.pow (.qty (-2) [("mole", 1)]) (.rat (1/2)))) =
      .error (.otherException "TypeError") := by
  decide +kernel

/-! ## 7. non-vacuity: concrete expressions over the built-in registry -/

section Examples
/-- a potential with an initial value, a time, a potential declared as joule / coulomb -/
def Γ₀ : VarEnv := [{ unit := [("volt", 1)], init := some (-80) }, { unit := [("second", 1)] },
                    { unit := [("joule", 1), ("coulomb", -1)] }]

-- volt + joule/coulomb: different containers, same meaning: accepted, the first operand's unit is returned
example : traverse builtinRegistry [] (.add (.qty 1 [("volt", 1)]) (.qty 2 [("joule", 1), ("coulomb", -1)])) =
    .ok (.num 1 true, [("volt", 1)]) := by decide +kernel
example : SimpleExps (.add (.qty 1 [("volt", 1)]) (.qty 2 [("joule", 1), ("coulomb", -1)])) = true := by decide
-- … and the specification agrees (this is an instance of `infer_sound`)
example : (specUnit builtinRegistry [] (.add (.qty 1 [("volt", 1)]) (.qty 2 [("joule", 1), ("coulomb", -1)]))).map
    (fun su => Spec.same su (sem builtinRegistry [("volt", 1)])) = some true := by decide +kernel
-- volt + second: rejected, by the code and by the rules
example : traverse builtinRegistry [] (.add (.qty 1 [("volt", 1)]) (.qty 1 [("second", 1)])) =
    .error .argsInvalidUnits := by decide +kernel
example : specUnit builtinRegistry [] (.add (.qty 1 [("volt", 1)]) (.qty 1 [("second", 1)])) = none := by
  decide +kernel
-- same dimension, different scale (litre vs cubic metre): rejected
example : traverse builtinRegistry [] (.add (.qty 1 [("liter", 1)]) (.qty 1 [("meter", 3)])) =
    .error .argsInvalidUnits := by decide +kernel
-- numeric powers, also negative and rational: (3 m)², (4 m²)^(1/2), (2 s)^(-1)
example : traverse builtinRegistry [] (.pow (.qty 3 [("meter", 1)]) (.int 2)) =
    .ok (.num 9 true, [("meter", 2)]) := by decide +kernel
example : (traverse builtinRegistry [] (.pow (.qty 4 [("meter", 2)]) (.rat (1/2)))).map (·.2) =
    .ok [("meter", 1)] := by decide +kernel
example : (traverse builtinRegistry [] (.pow (.qty 2 [("second", 1)]) (.mul (.int (-1)) (.int 1)))).map (·.2) =
    .ok [("second", -1)] := by decide +kernel
example : SimpleExps (.pow (.qty 2 [("second", 1)]) (.mul (.int (-1)) (.int 1))) = true := by decide
-- variables, derivative, piecewise, function of a dimensionless quotient
example : (traverse builtinRegistry Γ₀ (.deriv 0 1)).map (·.2) = .ok [("second", -1), ("volt", 1)] := by
  decide +kernel
example : (traverse builtinRegistry Γ₀
    (.ite (.rel .lt (.var 1) (.qty 1 [("second", 1)])) (.var 0) (.ite .tt (.var 2) .undef))).map (·.2) =
    .ok [("volt", 1)] := by decide +kernel
example : (traverse builtinRegistry Γ₀ (.fn1 "exp" (.mul (.var 0) (.pow (.var 2) (.int (-1)))))).map (·.2) =
    .ok [] := by decide +kernel
example : traverse builtinRegistry Γ₀ (.fn1 "exp" (.var 0)) = .error .mustBeDimensionless := by decide +kernel
example : traverse builtinRegistry Γ₀ (.pow (.var 0) (.var 1)) = .error .mustBeDimensionless := by decide +kernel
-- the hypotheses of `infer_unit_errors_only_partial` are satisfiable by a non-trivial expression
example : pyErrors (.add (.mul (.var 0) (.fn1 "sin" (.qty 1 []))) (.abs (.var 2))) = [] ∧
    outside Γ₀ (.add (.mul (.var 0) (.fn1 "sin" (.qty 1 []))) (.abs (.var 2))) = false := by decide
-- relations, booleans, Max are rejected
example : traverse builtinRegistry Γ₀ (.rel .lt (.var 0) (.var 2)) = .error .boolean := by decide +kernel
example : traverse builtinRegistry Γ₀ (.fnN "Max" (.var 0) (.var 2)) = .error .deferredFn := by decide +kernel
end Examples

end Cellml.Props.C04
