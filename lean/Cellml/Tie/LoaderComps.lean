import Cellml.Generated.Code.LoaderComps
import Cellml.Tie.AddVars
import Mathlib.Tactic.SplitIfs

/-! # Tie: `Parser._add_components` (generated from the source) = `Load.checkComps` (what it raises), `Load.varTable`
    (what it records) and the reaction stage of `C17.loadFull` (`C17.reactionErr`) -/

namespace Cellml.Tie
open Load Cellml.Gen

/-- `variable_to_symbol` of a component -/
def symsOf (e : CompElem) : List (VRef × VRef) :=
  e.comp.vars.map (fun d => ((e.comp.name, d.name), (e.comp.name, d.name)))

/-- `Load.checkComps` with the refusal of `<reaction>` at the place where the code has it: after the variables of the
    component (parser.py 306-310) -/
def compsSpec (ust : Units.Store) : List CompElem → List String → List VRef × List String →
    Except Err (List VRef × List String)
  | [], _, acc => .ok acc
  | e :: r, seen, acc =>
      if seen.contains e.comp.name then .error (.valueError ("Duplicate component name " ++ e.comp.name))
      else match checkVars ust e.comp.name e.comp.vars acc with
        | .error err => .error err
        | .ok acc' =>
          if !e.reactions.isEmpty then .error (.valueError "Reactions are not supported")
          else compsSpec ust r (e.comp.name :: seen) acc'

/-- the text of the generated body of `for element in component_elements` -/
@[reducible] def acStep (self : CompsView) (element : CompElem)
    (__s : CompsState × List (CompElem × List (VRef × VRef))) :
    Except PyErr (ForInStep (CompsState × List (CompElem × List (VRef × VRef)))) :=
  have st := __s.fst;
  have component_variables := __s.snd;
  have name := element.comp.name;
  have __do_jp := fun (__r : Unit) =>
    have st := newComponent st name;
    do
    let __x ← Cellml.Tie.PAddVars.genAddVariables self st element
    match __x with
      | (variable_to_symbol, st__) =>
        have st := st__;
        have component_variables := component_variables ++ [(element, variable_to_symbol)];
        have reactions := element.reactions;
        if Py.truthy reactions = true then do
          throw { cls := "ValueError" }
          pure (ForInStep.yield (st, component_variables))
        else pure (ForInStep.yield (st, component_variables));
  if Py.isIn name st.components = true then do
    let __r ← throw { cls := "ValueError" }
    __do_jp __r
  else __do_jp ()

theorem ac_loop (ust : Units.Store) : ∀ (elems : List CompElem) (st : CompsState)
    (cv : List (CompElem × List (VRef × VRef))),
    forIn elems (st, cv) (acStep ⟨ust⟩) =
      match compsSpec ust elems st.components st.acc with
      | .error e => .error ⟨e.className⟩
      | .ok acc' => .ok (⟨(elems.map (·.comp.name)).reverse ++ st.components, acc',
                          st.vt ++ varTable ust (elems.map (·.comp))⟩, cv ++ elems.map (fun e => (e, symsOf e))) := by
  intro elems
  induction elems with
  | nil => intro st cv; simp [compsSpec, varTable]; rfl
  | cons e r ih =>
    intro st cv
    rw [List.forIn_cons]
    simp only [acStep, compsSpec, Py.isIn, Py.truthy_list, newComponent, PAddVars.genAddVariables_leaf, addVariables]
    by_cases h1m : e.comp.name ∈ st.components
    · simp [h1m, bind, Except.bind, throw, throwThe, MonadExceptOf.throw, Err.className]
    · have h1 : st.components.contains e.comp.name = false := by simpa using h1m
      simp only [h1, Bool.false_eq_true, if_false]
      cases h2 : checkVars ust e.comp.name e.comp.vars st.acc with
      | error err => simp [bind, Except.bind]
      | ok acc' =>
        simp only [bind, Except.bind]
        by_cases h3 : e.reactions.isEmpty = true
        · simp only [h3, Bool.not_true, Bool.false_eq_true, if_false, pure, Except.pure]
          rw [ih]
          simp [varTable, symsOf]
        · simp [h3, throw, throwThe, MonadExceptOf.throw, Err.className]

theorem compsSpec_noReaction (ust : Units.Store) : ∀ (elems : List CompElem) (seen : List String)
    (acc : List VRef × List String), (∀ e ∈ elems, e.reactions = []) →
    compsSpec ust elems seen acc = checkComps ust (elems.map (·.comp)) seen acc
  | [], _, _, _ => rfl
  | e :: r, seen, acc, h => by
    have he : e.reactions = [] := h e List.mem_cons_self
    simp only [compsSpec, List.map_cons, checkComps, he, List.isEmpty_nil, Bool.not_true, Bool.false_eq_true, if_false]
    split_ifs
    · rfl
    · cases checkVars ust e.comp.name e.comp.vars acc with
      | error err => rfl
      | ok acc' => exact compsSpec_noReaction ust r _ acc' (fun e' h' => h e' (List.mem_cons_of_mem _ h'))

/-- **`Parser._add_components`** on a document without `<reaction>`: for every unit store, list of components and
    initial parser state, the generated function raises exactly when `Load.checkComps` does (same class: duplicate
    component name, unknown unit, duplicate variable, duplicate cmeta id — in that order per component), and otherwise
    has registered the components and appended `Load.varTable` (the table `Load.prepare` / `C17.prepareFrom` go on
    with). `self._add_variables` is a leaf here (bound to `Load.checkVars` / `Load.entry`). -/
theorem addComponents_tie (ust : Units.Store) (elems : List CompElem) (st : CompsState)
    (hno : ∀ e ∈ elems, e.reactions = []) :
    LoaderComps.addComponents ⟨ust⟩ ⟨elems⟩ st =
      match checkComps ust (elems.map (·.comp)) st.components st.acc with
      | .error e => .error ⟨e.className⟩
      | .ok acc' => .ok (elems.map (fun e => (e, symsOf e)),
          ⟨(elems.map (·.comp.name)).reverse ++ st.components, acc', st.vt ++ varTable ust (elems.map (·.comp))⟩) := by
  unfold LoaderComps.addComponents
  simp only []
  rw [ac_loop ust elems st [], compsSpec_noReaction ust elems _ _ hno]
  cases checkComps ust (elems.map (·.comp)) st.components st.acc <;> simp [bind, Except.bind, pure, Except.pure]

theorem compsSpec_reaction (ust : Units.Store) : ∀ (pre : List CompElem) (e : CompElem) (post : List CompElem)
    (seen : List String) (acc : List VRef × List String), (∀ x ∈ pre, x.reactions = []) → e.reactions ≠ [] →
    ∃ c, compsSpec ust (pre ++ e :: post) seen acc = .error c ∧
      c.className = (match checkComps ust ((pre ++ [e]).map (·.comp)) seen acc with
        | .error x => x.className
        | .ok _ => "ValueError")
  | [], e, post, seen, acc, _, he => by
    have : e.reactions.isEmpty = false := by cases h : e.reactions with
      | nil => exact absurd h he
      | cons _ _ => rfl
    simp only [List.nil_append, compsSpec, List.map_cons, List.map_nil, checkComps, this, Bool.not_false, if_true]
    split_ifs
    · exact ⟨_, rfl, rfl⟩
    · cases checkVars ust e.comp.name e.comp.vars acc with
      | error err => exact ⟨_, rfl, rfl⟩
      | ok acc' => exact ⟨_, rfl, rfl⟩
  | p :: pre, e, post, seen, acc, h, he => by
    have hp : p.reactions = [] := h p List.mem_cons_self
    simp only [List.cons_append, compsSpec, List.map_cons, checkComps, hp, List.isEmpty_nil, Bool.not_true,
      Bool.false_eq_true, if_false]
    split_ifs
    · exact ⟨_, rfl, rfl⟩
    · cases checkVars ust p.comp.name p.comp.vars acc with
      | error err => exact ⟨_, rfl, rfl⟩
      | ok acc' =>
        exact compsSpec_reaction ust pre e post _ acc' (fun x h' => h x (List.mem_cons_of_mem _ h')) he

/-- **`Parser._add_components`** on a document whose first component with a `<reaction>` is `e` (the components `pre`
    before it have none): the generated function raises what `Load.checkComps` raises on the components up to and
    including `e`, and ValueError if that passes — the body of `C17.reactionErr` with `i = pre.length`
    (`(pre ++ e :: post).take (i + 1) = pre ++ [e]`). -/
theorem addComponents_reaction (ust : Units.Store) (pre : List CompElem) (e : CompElem) (post : List CompElem)
    (st : CompsState) (hpre : ∀ x ∈ pre, x.reactions = []) (he : e.reactions ≠ []) :
    LoaderComps.addComponents ⟨ust⟩ ⟨pre ++ e :: post⟩ st =
      match checkComps ust ((pre ++ [e]).map (·.comp)) st.components st.acc with
      | .error x => .error ⟨x.className⟩
      | .ok _ => .error ⟨"ValueError"⟩ := by
  obtain ⟨c, hc, hcls⟩ := compsSpec_reaction ust pre e post st.components st.acc hpre he
  unfold LoaderComps.addComponents
  simp only []
  rw [ac_loop ust _ st [], hc]
  simp only [bind, Except.bind, hcls]
  cases checkComps ust ((pre ++ [e]).map (·.comp)) st.components st.acc <;> rfl

end Cellml.Tie
