/-! Property theorems for C01 (not built yet). -/
