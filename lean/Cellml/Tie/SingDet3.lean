import Cellml.Generated.Code.SingDet3
import Cellml.Tie.SingDet
import Mathlib.Tactic.SplitIfs
import Mathlib.Tactic.FieldSimp
import Mathlib.Tactic.Linarith
set_option linter.unusedSimpArgs false
set_option linter.unusedVariables false

/-! # Tie of the REST of `_get_singularity` (generated from the source: `Cellml/Generated/Code/SingDet3.lean`) to the hand
    model `C12/Detect.lean`; continues `Tie/SingDet.lean` (which ties `_solve_real`, `check_U_match` and the `fp1` loop).
    See `notes/reports/TIE3_Sing3.md`. -/

namespace Cellml.Tie.PSing3
open C12 Cellml.Gen Cellml.Tie Cellml.Tie.PSing2

/-! ## `_is_negative_power` on a classified factor; the recording loop -/

/-- `_is_negative_power` on a classified factor (`isinstance(a, Pow) and a.args[1].evalf() < 0`): the sign of the
    exponent — the split `f.2 < 0` of `C12.detect?` -/
theorem isNegativePowerF_tie (f : Fac) : SingDet3.isNegativePowerF f = .ok (decide (f.2 < 0)) := by
  obtain ⟨b, n⟩ := f
  have hq : ((n : Int) : Rat) < 0 ↔ n < 0 := by exact_mod_cast Iff.rfl
  unfold SingDet3.isNegativePowerF
  by_cases h : n < 0
  · have h1 : (n != 1) = true := by
      have : n ≠ 1 := by omega
      simpa using this
    simp [bind, Except.bind, pure, Except.pure, tryCatch, tryCatchThe, MonadExceptOf.tryCatch, Except.tryCatch,
      facIsPow, facExpQ, hq, h, h1]
    rfl
  · simp [bind, Except.bind, pure, Except.pure, tryCatch, tryCatchThe, MonadExceptOf.tryCatch, Except.tryCatch,
      facIsPow, facExpQ, hq, h]
    rfl

theorem set_append_mid {α} (pre : List α) (a x : α) (l : List α) :
    (pre ++ a :: l).set pre.length x = pre ++ x :: l := by
  induction pre with
  | nil => rfl
  | cons p ps ih => simp [ih]

/-- the body of the recording loop as the generated definition unfolds -/
def recBody (vmin vmax sp : Rat) (x : Win Rat × Nat) (s : List (Win Rat) × Bool) :
    Except PyErr (ForInStep (List (Win Rat) × Bool)) :=
  if (x.1.sp == sp) = true then
    if (vmin == x.1.vmin && vmax == x.1.vmax) = true then pure (ForInStep.done (s.1, true))
    else pure (ForInStep.done
      ((s.1.set x.2 { vmin := min2 (min2 (min2 x.1.vmin x.1.vmax) vmin) vmax, vmax := x.1.vmax, sp := x.1.sp }).set x.2
          { vmin := min2 (min2 (min2 x.1.vmin x.1.vmax) vmin) vmax,
            vmax := max2 (max2 (max2 (min2 (min2 (min2 x.1.vmin x.1.vmax) vmin) vmax) x.1.vmax) vmin) vmax,
            sp := x.1.sp }, true))
  else pure (ForInStep.yield (s.1, s.2))

/-- the generated loop over `singularities.zipIdx`, started anywhere in the list (`pre` already visited): it stops at
    the FIRST recorded range with the same singular point and leaves it alone (same bounds) or overwrites it IN PLACE with
    `mergeSeq`; the flag says whether it left by `break` -/
theorem recLoop_aux (vmin vmax sp : Rat) (l pre : List (Win Rat)) :
    forIn (l.zipIdx pre.length) (pre ++ l, false) (recBody vmin vmax sp)
      = .ok (if l.any (fun s => s.sp == sp) then (pre ++ record ⟨vmin, vmax, sp⟩ l, true) else (pre ++ l, false)) := by
  induction l generalizing pre with
  | nil => simp [pure, Except.pure]
  | cons a l ih =>
    rw [List.zipIdx_cons, List.forIn_cons]
    by_cases h : a.sp = sp
    · by_cases hb : vmin = a.vmin ∧ vmax = a.vmax
      · simp [recBody, h, hb, record, bind, Except.bind, pure, Except.pure]
      · have hb' : ¬ (vmin = a.vmin ∧ vmax = a.vmax) := hb
        simp [recBody, h, hb, record, bind, Except.bind, pure, Except.pure, set_append_mid, mergeSeq]
    · have h2 := ih (pre ++ [a])
      simp only [List.length_append, List.length_singleton, List.append_assoc, List.singleton_append] at h2
      simp [recBody, h, record, bind, Except.bind, pure, Except.pure, h2]

theorem record_noSp (w : Win Rat) (l : List (Win Rat)) (h : l.any (fun s => s.sp == w.sp) = false) :
    record w l = l ++ [w] := by
  induction l with
  | nil => rfl
  | cons a l ih =>
    simp only [List.any_cons, Bool.or_eq_false_iff] at h
    simp [record, h.1, ih h.2]

/-- **the recording `for … else` (with the in-place `sing[0] = min(…); sing[1] = max(…)`) IS `C12.record`**, for all lists
    and all numbers; it never raises -/
theorem recordLoop_tie (sings : List (Win Rat)) (vmin vmax sp : Rat) :
    SingDet3.recordLoop sings vmin vmax sp = .ok (record ⟨vmin, vmax, sp⟩ sings) := by
  unfold SingDet3.recordLoop
  simp only [Py.truthy_bool, freeSymCount]
  have h := recLoop_aux vmin vmax sp sings []
  simp only [List.length_nil, List.nil_append] at h
  have hb : (fun (x : Win Rat × Nat) (s : List (Win Rat) × Bool) => recBody vmin vmax sp x s) = recBody vmin vmax sp := rfl
  simp only [recBody] at hb
  simp only [List.all_cons, List.all_nil, beq_self_eq_true, Bool.and_self, if_true]
  rw [hb, h]
  by_cases ha : sings.any (fun s => s.sp == sp) = true
  · simp [ha, bind, Except.bind, pure, Except.pure]
  · have ha' : sings.any (fun s => s.sp == sp) = false := by simpa using ha
    have := record_noSp ⟨vmin, vmax, sp⟩ sings ha'
    simp [ha', bind, Except.bind, pure, Except.pure, this]

/-- the bounds the `sp` loop picks: the solutions of `u ∓ U_offset = 0` when BOTH sets are singletons, the fixed range
    `sp ∓ U_offset` otherwise -/
def pickBounds (δ sp : Rat) (vmins vmaxs : List Rat) : Rat × Rat :=
  if vmins.length == vmaxs.length && vmaxs.length == 1 then (firstPt vmins, firstPt vmaxs) else (sp - δ, sp + δ)

/-- **the `sp` loop for ONE singular point and ARBITRARY solution sets of the two bound equations** (the singleton check
    and the fallback range come from the source) -/
theorem spLoop_spec (part1 : List Fac) (k c δ : Rat) (vmins vmaxs : List Rat) (found : Bool) (sings : List (Win Rat))
    (hk : k ≠ 0) (hne : part1 ≠ []) (hw : ∀ f ∈ part1, wfFac f) :
    SingDet3.spLoop part1 (k, c) δ [spOf k c] vmins vmaxs found sings
      = .ok (if part1.any (onTop (spOf k c)) then
               (true, record ⟨(pickBounds δ (spOf k c) vmins vmaxs).1, (pickBounds δ (spOf k c) vmins vmaxs).2, spOf k c⟩
                  sings)
             else (false, sings)) := by
  have h1 := pass_test_tie part1 k c δ found hk hne hw
  simp only [window] at h1
  unfold SingDet3.spLoop pickBounds
  simp only [List.forIn_cons, List.forIn_nil, bind, Except.bind, pure, Except.pure, Py.truthy_bool, h1, recordLoop_tie]
  by_cases h : part1.any (onTop (spOf k c)) = true
  · by_cases hs : (vmins.length == vmaxs.length && vmaxs.length == 1) = true
    · simp [h, hs]
    · simp [h, hs]
  · simp [h]

theorem spLoop_tie (part1 : List Fac) (k c δ : Rat) (found : Bool) (sings : List (Win Rat)) (hk : k ≠ 0)
    (hne : part1 ≠ []) (hw : ∀ f ∈ part1, wfFac f) :
    SingDet3.spLoop part1 (k, c) δ [spOf k c] [vminOf k c δ] [vmaxOf k c δ] found sings
      = .ok (if part1.any (onTop (spOf k c)) then (true, record (window k c δ) sings) else (false, sings)) := by
  rw [spLoop_spec part1 k c δ _ _ found sings hk hne hw]
  simp [pickBounds, firstPt, window]

/-- what the two `match` attempts find on `fp2`, for ARBITRARY matcher leaves: nothing without `exp`; the first pattern
    `1 − Z·exp U`; the second `Z·exp U − 1` only when the first failed -/
def findU (mN mP : Fac → Option BindU) (f : Fac) : Option BindU :=
  if hasExpF f then (match mN f with | some b => some b | none => mP f) else none

/-- what one `fp2` contributes, for ARBITRARY matcher and `log` leaves: a match with `Z > 0` gives `u = U + log Z`, its
    window, and the window is recorded when a part of the other side vanishes at its singular point -/
def fp2Step (mN mP : Fac → Option BindU) (lg : Rat → Rat) (δ : Rat) (part1 : List Fac)
    (st : Bool × List (Win Rat)) (f : Fac) : Bool × List (Win Rat) :=
  match findU mN mP f with
  | some b =>
      if b.Z > 0 then
        (if part1.any (onTop (spOf b.U.1 (b.U.2 + lg b.Z))) then (true, record (window b.U.1 (b.U.2 + lg b.Z) δ) st.2)
         else (false, st.2))
      else st
  | none => st

/-- a python `for` without `break` whose body never raises is a left fold -/
theorem forIn_fold {α σ : Type} (l : List α) (step : σ → α → σ) (body : α → σ → Except PyErr (ForInStep σ))
    (hb : ∀ a ∈ l, ∀ s, body a s = .ok (.yield (step s a))) (init : σ) :
    forIn l init body = .ok (l.foldl step init) := by
  induction l generalizing init with
  | nil => rfl
  | cons a as ih =>
    rw [List.forIn_cons, hb a List.mem_cons_self]
    simp only [bind, Except.bind, List.foldl_cons]
    exact ih (fun a' ha' => hb a' (List.mem_cons_of_mem _ ha')) _

/-- **the `fp2` loop for ARBITRARY matcher leaves and an ARBITRARY `log`** (with `solveset` of the affine fragment): never
    raises, `= foldl fp2Step`. `hslope`: what is matched as `U` really holds `V` (`include=[V]` of `U_wildcard`) -/
theorem fp2Loop_spec (mN mP : Fac → Option BindU) (lg : Rat → Rat) (part1 part2 : List Fac) (δ : Rat) (found : Bool)
    (sings : List (Win Rat)) (hne : part1 ≠ []) (hw : ∀ f ∈ part1, wfFac f)
    (hslope : ∀ f ∈ part2, ∀ b, findU mN mP f = some b → b.U.1 ≠ 0) :
    SingDet3.fp2Loop mN mP lg solveAff part1 part2 δ found sings
      = .ok (part2.foldl (fp2Step mN mP lg δ part1) (found, sings)) := by
  unfold SingDet3.fp2Loop
  simp only [bind, Except.bind, pure, Except.pure, Py.truthy_bool, Py.truthy_option]
  rw [forIn_fold part2 (fp2Step mN mP lg δ part1)]
  intro f hf s
  have hs := hslope f hf
  have key : ∀ b : BindU, b.U.1 ≠ 0 → 0 < b.Z →
      SingDet.solveReal solveAff (b.U + lg b.Z) = .ok (.plain [spOf b.U.1 (b.U.2 + lg b.Z)]) ∧
      SingDet.solveReal solveAff (b.U + lg b.Z - δ) = .ok (.plain [vminOf b.U.1 (b.U.2 + lg b.Z) δ]) ∧
      SingDet.solveReal solveAff (b.U + lg b.Z + δ) = .ok (.plain [vmaxOf b.U.1 (b.U.2 + lg b.Z) δ]) ∧
      SingDet3.spLoop part1 (b.U + lg b.Z) δ [spOf b.U.1 (b.U.2 + lg b.Z)] [vminOf b.U.1 (b.U.2 + lg b.Z) δ]
          [vmaxOf b.U.1 (b.U.2 + lg b.Z) δ] s.1 s.2
        = .ok (if part1.any (onTop (spOf b.U.1 (b.U.2 + lg b.Z))) then
                 (true, record (window b.U.1 (b.U.2 + lg b.Z) δ) s.2) else (false, s.2)) := by
    intro b hb _
    obtain ⟨w1, w2, w3⟩ := solveReal_window b.U.1 (b.U.2 + lg b.Z) δ
    exact ⟨w1, w2, w3, spLoop_tie part1 b.U.1 (b.U.2 + lg b.Z) δ s.1 s.2 hb hne hw⟩
  unfold fp2Step findU at *
  by_cases he : hasExpF f = true
  · cases hN : mN f with
    | some b =>
      have hb := hs b (by simp [he, hN])
      by_cases hz : b.Z > 0
      · obtain ⟨w1, w2, w3, w4⟩ := key b hb hz
        simp [he, hN, getZ, getU, evalAtOnes, hz, w1, w2, w3, w4, SolveSet.pts]
      · simp [he, hN, getZ, evalAtOnes, hz]
    | none =>
      cases hP : mP f with
      | some b =>
        have hb := hs b (by simp [he, hN, hP])
        by_cases hz : b.Z > 0
        · obtain ⟨w1, w2, w3, w4⟩ := key b hb hz
          simp [he, hN, hP, getZ, getU, evalAtOnes, hz, w1, w2, w3, w4, SolveSet.pts]
        · simp [he, hN, hP, getZ, evalAtOnes, hz]
      | none => simp [he, hN, hP]
  · simp [he]

/-! ## recording twice; the model matchers; the whole side -/

theorem mergeSeq_idem (s : Win Rat) (a b : Rat) : mergeSeq (mergeSeq s a b) a b = mergeSeq s a b := by
  simp only [mergeSeq, min2_eq, max2_eq]
  obtain ⟨_, _, h3, h4⟩ := min4_le s.vmin s.vmax a b
  obtain ⟨g1, _, g3, g4⟩ := le_max4 (min (min (min s.vmin s.vmax) a) b) s.vmax a b
  have e1 : min (min (min (min (min (min s.vmin s.vmax) a) b)
      (max (max (max (min (min (min s.vmin s.vmax) a) b) s.vmax) a) b)) a) b = min (min (min s.vmin s.vmax) a) b := by
    rw [min_eq_left g1, min_eq_left h3, min_eq_left h4]
  rw [e1]
  have e2 : max (max (max (min (min (min s.vmin s.vmax) a) b)
      (max (max (max (min (min (min s.vmin s.vmax) a) b) s.vmax) a) b)) a) b
      = max (max (max (min (min (min s.vmin s.vmax) a) b) s.vmax) a) b := by
    rw [max_eq_right g1, max_eq_left g3, max_eq_left g4]
  rw [e2]

/-- recording the same range twice is recording it once (python visits a single-factor side twice: `Mul(*[x])` is `x`) -/
theorem record_idem (w : Win Rat) (acc : List (Win Rat)) : record w (record w acc) = record w acc := by
  induction acc with
  | nil => simp [record]
  | cons s ss ih =>
    by_cases h : s.sp = w.sp
    · by_cases hb : w.vmin = s.vmin ∧ w.vmax = s.vmax
      · simp [record, h, hb]
      · have hm : (mergeSeq s w.vmin w.vmax).sp = w.sp := h
        have e1 : record w (s :: ss) = mergeSeq s w.vmin w.vmax :: ss := by simp [record, h, hb]
        rw [e1]
        unfold record
        simp only [hm, beq_self_eq_true, if_true, mergeSeq_idem]
        split_ifs <;> rfl
    · simp [record, h, ih]

/-- the classes `±(exp(k·V + c) − 1)` have `k ≠ 0` (`classifySum`: a zero slope is outside the fragment) -/
def wfE (f : Fac) : Prop :=
  match f.1 with
  | .em k _ _ => k ≠ 0
  | _ => True

/-- the step of the fold `C12.pass` -/
def passStep (δ : Rat) (part1 : List Fac) (acc : List (Win Rat)) (f : Fac) : List (Win Rat) :=
  match f with
  | (.em k c _, 1) =>
      let w := window k c δ
      if part1.any (onTop w.sp) then record w acc else acc
  | _ => acc

theorem pass_eq (δ : Rat) (part1 part2 : List Fac) (found : List (Win Rat)) :
    pass δ part1 part2 found = part2.foldl (passStep δ part1) found := rfl

/-- with the model's reading of the matcher (`Z = 1`, any `log` with `log 1 = 0`) the step is the step of `C12.pass` -/
theorem fp2Step_model (lg : Rat → Rat) (hlg : lg 1 = 0) (δ : Rat) (part1 : List Fac) (st : Bool × List (Win Rat))
    (f : Fac) : (fp2Step matchNegM matchPosM lg δ part1 st f).2 = passStep δ part1 st.2 f := by
  obtain ⟨b, n⟩ := f
  by_cases hn : n = 1
  · subst hn
    cases b with
    | em k c pos =>
      cases pos <;>
      · simp only [fp2Step, findU, matchNegM, matchPosM, hasExpF, baseHasExp, passStep, hlg, window, spOf]
        simp [hlg]
        have e : -(c + lg 1) / k = -c / k := by rw [hlg, add_zero]
        simp only [e]
        by_cases h : part1.any (onTop (-c / k)) = true
        · simp only [h, if_true]
        · simp only [h]; rfl
    | _ => simp [fp2Step, findU, matchNegM, matchPosM, hasExpF, baseHasExp, passStep]
  · cases b <;> simp [fp2Step, findU, matchNegM, matchPosM, hasExpF, baseHasExp, passStep, hn]

theorem fold_snd (lg : Rat → Rat) (hlg : lg 1 = 0) (δ : Rat) (part1 l : List Fac) (st : Bool × List (Win Rat)) :
    (l.foldl (fp2Step matchNegM matchPosM lg δ part1) st).2 = l.foldl (passStep δ part1) st.2 := by
  induction l generalizing st with
  | nil => rfl
  | cons a l ih => simp only [List.foldl_cons, ih, fp2Step_model lg hlg]

theorem findU_model_slope (f : Fac) (hf : wfE f) (b : BindU) (h : findU matchNegM matchPosM f = some b) : b.U.1 ≠ 0 := by
  obtain ⟨bs, n⟩ := f
  unfold findU matchNegM matchPosM at h
  by_cases hn : n = 1
  · subst hn
    cases bs with
    | em k c pos =>
      have hk : k ≠ 0 := hf
      cases pos <;> simp [hasExpF, baseHasExp] at h <;> (subst h; exact hk)
    | _ => simp [hasExpF, baseHasExp] at h
  · cases bs <;> simp [hn] at h

/-- the generated `fp2` loop with the model's matcher leaves IS `C12.pass` -/
theorem fp2Loop_pass (lg : Rat → Rat) (hlg : lg 1 = 0) (part1 part2 : List Fac) (δ : Rat) (found : Bool)
    (sings : List (Win Rat)) (hne : part1 ≠ []) (hw : ∀ f ∈ part1, wfFac f) (hE : ∀ f ∈ part2, wfE f) :
    ∃ fl, SingDet3.fp2Loop matchNegM matchPosM lg solveAff part1 part2 δ found sings
      = .ok (fl, pass δ part1 part2 sings) := by
  refine ⟨(part2.foldl (fp2Step matchNegM matchPosM lg δ part1) (found, sings)).1, ?_⟩
  rw [fp2Loop_spec matchNegM matchPosM lg part1 part2 δ found sings hne hw
    (fun f hf b h => findU_model_slope f (hE f hf) b h), pass_eq]
  have := fold_snd lg hlg δ part1 part2 (found, sings)
  simp only at this
  rw [← this]

/-! ## the whole side as one more candidate -/

theorem wf_mulSide (side : List Fac) (hw : ∀ f ∈ side, wfFac f) : wfFac (mulSide side) := by
  unfold mulSide
  split
  · exact hw _ (by simp)
  · rename_i q k c
    have hk : k ≠ 0 := hw (.aff k c, 1) (by simp)
    by_cases hq : q = 0
    · simp [hq, wfFac]
    · simp [hq, wfFac, hk]
  · rename_i k c q
    have hk : k ≠ 0 := hw (.aff k c, 1) (by simp)
    by_cases hq : q = 0
    · simp [hq, wfFac]
    · simp [hq, wfFac, hk]
  · simp [wfFac]

theorem wfE_mulSide (side : List Fac) (hw : ∀ f ∈ side, wfE f) : wfE (mulSide side) := by
  unfold mulSide
  split
  · exact hw _ (by simp)
  · split_ifs <;> simp [wfE]
  · split_ifs <;> simp [wfE]
  · simp [wfE]

theorem onTop_scaled (sp q k c : Rat) (hq : q ≠ 0) (hk : k ≠ 0) :
    onTop sp (.aff (q * k) (q * c), 1) = onTop sp (.aff k c, 1) := by
  have e : -(q * c) / (q * k) = -c / k := by field_simp
  simp [onTop, e]

/-- the whole side as a candidate TOP never matches unless one of its factors does -/
theorem any_withWhole (sp : Rat) (side : List Fac) (hw : ∀ f ∈ side, wfFac f) :
    (side ++ [mulSide side]).any (onTop sp) = side.any (onTop sp) := by
  unfold mulSide
  split
  · simp
  · rename_i q k c
    have hk : k ≠ 0 := hw (.aff k c, 1) (by simp)
    by_cases hq : q = 0
    · simp [hq, onTop]
    · simp [hq, onTop_scaled sp q k c hq hk]
  · rename_i k c q
    have hk : k ≠ 0 := hw (.aff k c, 1) (by simp)
    by_cases hq : q = 0
    · simp [hq, onTop]
    · simp [hq, onTop_scaled sp q k c hq hk]
      simp [onTop]
  · simp [onTop]

theorem passStep_idem (δ : Rat) (part1 : List Fac) (acc : List (Win Rat)) (f : Fac) :
    passStep δ part1 (passStep δ part1 acc f) f = passStep δ part1 acc f := by
  obtain ⟨b, n⟩ := f
  by_cases hn : n = 1
  · subst hn
    cases b with
    | em k c pos =>
      simp only [passStep]
      split_ifs
      · exact record_idem _ _
      · rfl
    | _ => rfl
  · unfold passStep
    split
    · rename_i h; cases h; exact absurd rfl hn
    · split
      · rename_i h; cases h; exact absurd rfl hn
      · rfl

/-- the whole side as a candidate `±(exp U − 1)` never adds or changes a window -/
theorem fold_withWhole (δ : Rat) (part1 side : List Fac) (acc : List (Win Rat)) :
    (side ++ [mulSide side]).foldl (passStep δ part1) acc = side.foldl (passStep δ part1) acc := by
  rw [List.foldl_append]
  unfold mulSide
  split
  · simp [passStep_idem]
  · split_ifs <;> simp [passStep]
  · split_ifs <;> simp [passStep]
  · simp [passStep]

theorem passStep_withWhole (δ : Rat) (p1 : List Fac) (hw : ∀ f ∈ p1, wfFac f) :
    passStep δ (p1 ++ [mulSide p1]) = passStep δ p1 := by
  funext acc f
  unfold passStep
  simp only [any_withWhole _ p1 hw]

/-- **the whole-side candidates never add or change a window**: `C12.pass` over the sides with `Mul(*side)` appended
    (what python runs) is `C12.pass` over the sides (what the model runs) -/
theorem pass_withWhole (δ : Rat) (p1 p2 : List Fac) (acc : List (Win Rat)) (hw : ∀ f ∈ p1, wfFac f) :
    pass δ (p1 ++ [mulSide p1]) (p2 ++ [mulSide p2]) acc = pass δ p1 p2 acc := by
  rw [pass_eq, pass_eq, passStep_withWhole δ p1 hw, fold_withWhole]

/-! ## the partition, the guard, the two orientations -/

/-- `C12.detect?` after the classification: what it does with the canonical factors -/
def detectFs (δ : Rat) (fs : List Fac) : List (Win Rat) :=
  let numerator := fs.filter (fun f => f.2 > 0)
  let denominator := (fs.filter (fun f => f.2 < 0)).map (fun f => (f.1, absInt f.2))
  if denominator.isEmpty || numerator.isEmpty || !(fs.any (fun f => baseHasExp f.1)) then []
  else pass δ denominator numerator (pass δ numerator denominator [])

theorem detect?_fs (δ : Rat) (rev : Bool) (args : List Expr) :
    detect? δ rev args =
      (let fs := normalise (classifyAll 0 (if rev then args.reverse else args))
       if fs.any (fun f => f.1 == .unsup) then none else some (detectFs δ fs)) := by
  unfold detect? detectFs
  simp only
  split_ifs <;> rfl

def partStep (s : List Fac × List Fac) (a : Fac) : List Fac × List Fac :=
  if a.2 < 0 then (s.1, s.2 ++ [(a.1, -a.2)]) else (s.1 ++ [a], s.2)

/-- the numerator / denominator partition loop as filters -/
theorem partition_fold (fs : List Fac) (s : List Fac × List Fac) :
    fs.foldl partStep s = (s.1 ++ fs.filter (fun f => !decide (f.2 < 0)),
                           s.2 ++ (fs.filter (fun f => decide (f.2 < 0))).map (fun f => (f.1, -f.2))) := by
  induction fs generalizing s with
  | nil => simp
  | cons a l ih =>
    rw [List.foldl_cons, ih]
    by_cases h : a.2 < 0 <;> simp [partStep, h]

/-- **the generated `_get_singularity` on well-formed canonical factors = `C12.detect?` after the classification** -/
theorem getSingularity_fs (lg : Rat → Rat) (hlg : lg 1 = 0) (fs : List Fac) (δ : Rat)
    (hnz : ∀ f ∈ fs, f.2 ≠ 0) (hw : ∀ f ∈ fs, wfFac f) (hE : ∀ f ∈ fs, wfE f) :
    SingDet3.getSingularity matchNegM matchPosM lg solveAff fs δ = .ok ((detectFs δ fs).map winTriple) := by
  unfold SingDet3.getSingularity
  simp only [isNegativePowerF_tie, prodArgs, Py.truthy_bool]
  rw [forIn_fold fs partStep _ (by
    intro a _ s
    by_cases h : a.2 < 0 <;> simp [partStep, h, bind, Except.bind, pure, Except.pure, mkFac, facBase, facExpn])]
  rw [partition_fold]
  have hnum : fs.filter (fun f => !decide (f.2 < 0)) = fs.filter (fun f => f.2 > 0) := by
    apply List.filter_congr
    intro f hf
    have := hnz f hf
    by_cases h : f.2 < 0
    · have : ¬ f.2 > 0 := by omega
      simp [h, this]
    · have : f.2 > 0 := by omega
      simp [h, this]
  have hden : (fs.filter (fun f => decide (f.2 < 0))).map (fun f => (f.1, -f.2))
      = (fs.filter (fun f => f.2 < 0)).map (fun f => (f.1, absInt f.2)) := by
    apply List.map_congr_left
    intro f hf
    have : f.2 < 0 := by simpa using (List.mem_filter.mp hf).2
    simp [absInt, this]
  simp only [List.nil_append, hnum, hden, bind, Except.bind, pure, Except.pure]
  generalize hN : fs.filter (fun f => f.2 > 0) = num
  generalize hD : (fs.filter (fun f => f.2 < 0)).map (fun f => (f.1, absInt f.2)) = den
  have hwN : ∀ f ∈ num, wfFac f := by
    intro f hf; rw [← hN] at hf; exact hw f (List.mem_filter.mp hf).1
  have hEN : ∀ f ∈ num, wfE f := by
    intro f hf; rw [← hN] at hf; exact hE f (List.mem_filter.mp hf).1
  have hwD : ∀ f ∈ den, wfFac f := by
    intro f hf; rw [← hD] at hf
    obtain ⟨g, hg, rfl⟩ := List.mem_map.mp hf
    exact hw g (List.mem_filter.mp hg).1
  have hED : ∀ f ∈ den, wfE f := by
    intro f hf; rw [← hD] at hf
    obtain ⟨g, hg, rfl⟩ := List.mem_map.mp hf
    exact hE g (List.mem_filter.mp hg).1
  have hwN' : ∀ f ∈ num ++ [mulSide num], wfFac f := by
    intro f hf; rcases List.mem_append.mp hf with h | h
    · exact hwN f h
    · rw [List.mem_singleton.mp h]; exact wf_mulSide num hwN
  have hwD' : ∀ f ∈ den ++ [mulSide den], wfFac f := by
    intro f hf; rcases List.mem_append.mp hf with h | h
    · exact hwD f h
    · rw [List.mem_singleton.mp h]; exact wf_mulSide den hwD
  have hEN' : ∀ f ∈ num ++ [mulSide num], wfE f := by
    intro f hf; rcases List.mem_append.mp hf with h | h
    · exact hEN f h
    · rw [List.mem_singleton.mp h]; exact wfE_mulSide num hEN
  have hED' : ∀ f ∈ den ++ [mulSide den], wfE f := by
    intro f hf; rcases List.mem_append.mp hf with h | h
    · exact hED f h
    · rw [List.mem_singleton.mp h]; exact wfE_mulSide den hED
  unfold detectFs
  rw [hN, hD]
  by_cases hg : (den.isEmpty || num.isEmpty || !(fs.any (fun f => baseHasExp f.1))) = true
  · have hg' : (den.length == 0 || num.length == 0 || !anyHasExp fs) = true := by
      simpa [anyHasExp, List.isEmpty_iff_length_eq_zero] using hg
    simp only [hg, hg', if_true, List.map_nil]
  · have hg' : ¬ (den.length == 0 || num.length == 0 || !anyHasExp fs) = true := by
      simpa [anyHasExp, List.isEmpty_iff_length_eq_zero] using hg
    obtain ⟨fl1, h1⟩ := fp2Loop_pass lg hlg (num ++ [mulSide num]) (den ++ [mulSide den]) δ false [] (by simp) hwN' hED'
    rw [pass_withWhole δ num den [] hwN] at h1
    obtain ⟨fl2, h2⟩ := fp2Loop_pass lg hlg (den ++ [mulSide den]) (num ++ [mulSide num]) δ false
      (pass δ num den []) (by simp) hwD' hEN'
    rw [pass_withWhole δ den num _ hwD] at h2
    cases fl1 <;> cases fl2 <;>
      simp [hg, hg', List.forIn_cons, List.forIn_nil, bind, Except.bind, pure, Except.pure, h1, h2]

/-! ## `normalise (classifyAll …)` produces well-formed factors -/

def baseOK (b : Base) : Prop :=
  match b with
  | .aff k _ => k ≠ 0
  | .em k _ _ => k ≠ 0
  | _ => True

theorem classifySum_ok (i : Nat) (as : List Expr) : baseOK (classifySum i as) := by
  unfold classifySum
  simp only
  repeat' split
  all_goals simp_all [baseOK]

theorem classifyBase_ok (i : Nat) (e : Expr) : baseOK (classifyBase i e) := by
  unfold classifyBase
  repeat' split
  all_goals first | exact classifySum_ok _ _ | simp_all [baseOK]

/-- what the classification guarantees of a factor: numbers and `exp(k·V)` carry the exponent one, slopes are non-zero -/
def FacInv (f : Fac) : Prop :=
  match f.1 with
  | .const _ => f.2 = 1
  | .ex _ => f.2 = 1
  | .aff k _ => k ≠ 0
  | .em k _ _ => k ≠ 0
  | _ => True

theorem classifyFactor_inv (i : Nat) (e : Expr) : ∀ f ∈ classifyFactor i e, FacInv f := by
  have key : ∀ (b : Base) (n : Int), baseOK b → ∀ f ∈ (match b with
      | .const q => if q == 0 && n < 0 then [(Base.unsup, (1 : Int))] else [(.const (zpow q n), 1)]
      | .ex k => [(.ex (k * n), 1)]
      | .aff k c => if c == 0 && k != 1 then [(.const (zpow k n), 1), (.aff 1 0, n)] else [(.aff k c, n)]
      | b' => [(b', n)]), FacInv f := by
    intro b n hb f hf
    cases b with
    | const q => simp only at hf; split_ifs at hf <;> simp_all [FacInv]
    | ex k => simp_all [FacInv]
    | aff k c =>
      simp only at hf
      split_ifs at hf
      · simp only [List.mem_cons, List.not_mem_nil, or_false] at hf
        rcases hf with rfl | rfl <;> simp [FacInv]
      · simp_all [FacInv, baseOK]
    | em k c p => simp_all [FacInv, baseOK]
    | opq a b => simp_all [FacInv]
    | unsup => simp_all [FacInv]
  unfold classifyFactor
  split
  · exact key _ _ (classifyBase_ok _ _)
  · exact key _ _ (classifyBase_ok _ _)

theorem classifyAll_inv (i : Nat) (es : List Expr) : ∀ f ∈ classifyAll i es, FacInv f := by
  induction es generalizing i with
  | nil => simp [classifyAll]
  | cons e es ih =>
    intro f hf
    simp only [classifyAll, List.mem_append] at hf
    rcases hf with h | h
    · exact classifyFactor_inv i e f h
    · exact ih (i + 1) f h

theorem merged_inv (fb gb : Base) (fn gn : Int) :
    FacInv (fb, fn) → FacInv (gb, gn) → sameBase fb gb = true →
    FacInv (match fb, gb with
         | .const a, .const b => (.const (a * b), 1)
         | .ex a, .ex b => (.ex (a + b), 1)
         | _, _ => (gb, gn + fn)) := by
  intro hf hg hs
  cases fb <;> cases gb <;> first | (exact Bool.noConfusion hs) | (simp only [FacInv] at hg ⊢; try exact hg)

theorem insertFactor_inv (f : Fac) (hf : FacInv f) (acc : List Fac) (ha : ∀ g ∈ acc, FacInv g) :
    ∀ g ∈ insertFactor f acc, FacInv g := by
  induction acc with
  | nil => simpa [insertFactor] using hf
  | cons g gs ih =>
    intro x hx
    unfold insertFactor at hx
    split_ifs at hx with hs
    · simp only [List.mem_cons] at hx
      rcases hx with rfl | hx
      · have hg := ha g List.mem_cons_self
        obtain ⟨fb, fn⟩ := f
        obtain ⟨gb, gn⟩ := g
        exact merged_inv fb gb fn gn hf hg hs
      · exact ha x (List.mem_cons_of_mem _ hx)
    · simp only [List.mem_cons] at hx
      rcases hx with rfl | hx
      · exact ha _ List.mem_cons_self
      · exact ih (fun g hg => ha g (List.mem_cons_of_mem _ hg)) x hx

theorem foldInsert_inv (fs acc : List Fac) (hf : ∀ f ∈ fs, FacInv f) (ha : ∀ g ∈ acc, FacInv g) :
    ∀ g ∈ fs.foldl (fun acc f => insertFactor f acc) acc, FacInv g := by
  induction fs generalizing acc with
  | nil => simpa using ha
  | cons f fs ih =>
    simp only [List.foldl_cons]
    exact ih _ (fun f' hf' => hf f' (List.mem_cons_of_mem _ hf'))
      (insertFactor_inv f (hf f List.mem_cons_self) acc ha)

/-- **`normalise (classifyAll …)` produces well-formed factors** (the hypotheses `wfFac` of `onTopLoop_tie`, non-zero
    exponents, non-zero slopes of the `±(exp U − 1)` classes) -/
theorem normalise_classifyAll_wf (i : Nat) (es : List Expr) :
    ∀ f ∈ normalise (classifyAll i es), f.2 ≠ 0 ∧ wfFac f ∧ wfE f := by
  intro f hf
  unfold normalise at hf
  obtain ⟨hm, hp⟩ := List.mem_filter.mp hf
  have hi := foldInsert_inv (classifyAll i es) [] (classifyAll_inv i es) (by simp) f hm
  obtain ⟨b, n⟩ := f
  cases b <;> simp_all [FacInv, wfFac, wfE]

/-! ## the closed statement -/

/-- the canonical product as the code receives it: the model's classification of SymPy's factors (a leaf: the reading of
    `Mul.flatten`; `rev`: the order of the factors, see `C12.detect?`) -/
def canon (rev : Bool) (args : List Expr) : List Fac :=
  normalise (classifyAll 0 (if rev then args.reverse else args))

/-- **`_get_singularity` (generated from the source) returns exactly the windows of `C12.detect?`** on the affine
    fragment (where the model answers at all: no factor outside the fragment), for both factor orders; it never raises.
    Leaves: the classification `canon`, the matchers `matchNegM` / `matchPosM` / `matchMulU` / `matchLin` /
    `matchExpLin`, `solveAff` (`solveset` of `k·V + c`), any `log` with `log 1 = 0`, `isClose` (exact equality). -/
theorem getSingularity_tie (lg : Rat → Rat) (hlg : lg 1 = 0) (δ : Rat) (rev : Bool) (args : List Expr)
    (ws : List (Win Rat)) (h : detect? δ rev args = some ws) :
    SingDet3.getSingularity matchNegM matchPosM lg solveAff (canon rev args) δ = .ok (ws.map winTriple) := by
  rw [detect?_fs] at h
  change (if (canon rev args).any (fun f => f.1 == .unsup) then none else some (detectFs δ (canon rev args))) = some ws
    at h
  split_ifs at h
  have e : detectFs δ (canon rev args) = ws := Option.some.inj h
  rw [← e]
  exact getSingularity_fs lg hlg (canon rev args) δ
    (fun f hf => (normalise_classifyAll_wf 0 _ f hf).1)
    (fun f hf => (normalise_classifyAll_wf 0 _ f hf).2.1)
    (fun f hf => (normalise_classifyAll_wf 0 _ f hf).2.2)

/-- the same with `C12.detect` (the function `Props/C12.lean` speaks about) -/
theorem getSingularity_detect (lg : Rat → Rat) (hlg : lg 1 = 0) (δ : Rat) (rev : Bool) (args : List Expr)
    (h : (detect? δ rev args).isSome) :
    SingDet3.getSingularity matchNegM matchPosM lg solveAff (canon rev args) δ
      = .ok ((detect δ rev args).map winTriple) := by
  obtain ⟨ws, hws⟩ := Option.isSome_iff_exists.mp h
  rw [getSingularity_tie lg hlg δ rev args ws hws, detect, hws]
  rfl

end Cellml.Tie.PSing3
