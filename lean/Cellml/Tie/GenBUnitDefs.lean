import Cellml.Tie.UnitDefs
import Cellml.Tie.GenBWhile

/-! # GenB: `Parser._add_units` as a CLOSED function over the generated code

    `Tie/UnitDefs.lean` ties the set-up pass (`addUnitsSetup_tie`) and ONE iteration of the `while definitions_to_add:`
    loop (`addUnitsBody_tie`) of `_add_units` to the hand model `Units.addUnits`. Here the loop is put back:

    * `genAddUnits id defs` — the generated set-up on a fresh `UnitStore` with id `id`, then the `while` loop over the
      generated body and test (`whileMeasure`, with the termination measure of the hand model's `Units.loop`:
      `(|deque|, |deque| + 1 − iteration)`), returning the final `self.model.units`;
    * `genAddUnitsFuel id defs` — the same with the step budget `Units.stepBound` of the hand model (`whileFuel`);
    * `genAddUnits_eq`: `genAddUnits id defs = errClass addErrClass (Units.addUnits id defs)` — same unit store, same
      exception class, for EVERY document; `genAddUnitsFuel_eq`: the budget suffices;
    * `genAddUnits_runs`: the value is the result of the python loop (`WhileRuns`): the measure guard never fires.

    No hypothesis: the domain conditions of the ties used (`addUnitsSetup_tie`: the store is fresh; `loop_cons`: queued
    definitions are not base units) are met by construction (`_add_units` runs on the store `Model.__init__` has just
    created; the deque holds what the set-up pass queued). -/

set_option linter.unusedSimpArgs false

namespace Cellml.Tie.PGenB
open Units Cellml.Gen Cellml.Tie Cellml.Tie.PUnitDefs

/-- the state of the `while` loop of `_add_units`: `definitions_to_add`, `iteration`, `units_found`, `self.model.units` -/
abbrev LoopSt := List (String × List UnitElem) × Nat × List String × UStore

/-- the test of the `while` statement (generated) -/
def loopTest (s : LoopSt) : Bool := UnitDefs.addUnitsBody_test s.1
/-- one iteration (generated) -/
def loopBody (s : LoopSt) : Except PyErr LoopSt := UnitDefs.addUnitsBody s.1 s.2.1 s.2.2.1 s.2.2.2
/-- the termination measure of the hand model's `Units.loop` -/
def loopMeasure (s : LoopSt) : Nat × Nat := (s.1.length, s.1.length + 1 - s.2.1)

/-- what `_add_units` leaves behind: `self.model.units` -/
def loopResult (s : LoopSt) : UStore := s.2.2.2

/-- `Parser._add_units` on a fresh model whose unit store has id `id`: generated set-up pass, then the `while` loop
    over the generated body -/
def genAddUnits (id : Nat) (defs : List UDef) : Except PyErr UStore :=
  match UnitDefs.addUnitsSetup defs (builtinRegistry, { id := id, known := [] }) with
  | .error e => .error e
  | .ok s => (whileMeasure loopMeasure loopTest loopBody s).map loopResult

/-- the same with the step budget of the hand model (`none`: budget exhausted) -/
def genAddUnitsFuel (id : Nat) (defs : List UDef) : Option (Except PyErr UStore) :=
  match UnitDefs.addUnitsSetup defs (builtinRegistry, { id := id, known := [] }) with
  | .error e => some (.error e)
  | .ok s => (whileFuel loopTest loopBody (stepBound s.1.length s.2.1) s).map (fun r => r.map loopResult)

/-- the loop state of the model state `(reg, st, dq, it)` -/
def loopStOf (reg : Registry) (st : Store) (dq : List UDef) (it : Nat) : LoopSt :=
  (pyDeque dq, it, foundOf st, (reg, st))

theorem pyDeque_length (dq : List UDef) : (pyDeque dq).length = dq.length := by simp [pyDeque]

/-- THE LOOP: from every model state, the `while` loop over the generated body (i) ends within the model's step
    budget, (ii) with the value of the measure-recursive loop, (iii) which is the hand model's `Units.loop` -/
theorem genLoop_eq : ∀ (fuel : Nat) (reg : Registry) (st : Store) (dq : List UDef) (it : Nat) (hit : it ≤ dq.length),
    stepBound dq.length it ≤ fuel →
    whileFuel loopTest loopBody fuel (loopStOf reg st dq it) =
      some (whileMeasure loopMeasure loopTest loopBody (loopStOf reg st dq it)) ∧
    (whileMeasure loopMeasure loopTest loopBody (loopStOf reg st dq it)).map loopResult =
      errClass addErrClass (loop reg st dq it hit) := by
  intro fuel
  induction fuel with
  | zero => intro reg st dq it hit hf; simp [stepBound] at hf
  | succ fuel ih =>
    intro reg st dq it hit hf
    cases dq with
    | nil =>
      have ht : loopTest (loopStOf reg st [] it) = false := by
        simp [loopTest, loopStOf, addUnitsBody_test_tie]
      rw [whileMeasure_stop _ _ _ _ ht, loop_nil]
      refine ⟨?_, rfl⟩
      simp [whileFuel, ht]
    | cons d rest =>
      have ht : loopTest (loopStOf reg st (d :: rest) it) = true := by
        simp [loopTest, loopStOf, addUnitsBody_test_tie]
      have hbody : loopBody (loopStOf reg st (d :: rest) it) =
          (modelIter reg st (d :: rest) it).map (fun r => loopStOf r.2.2.1 r.2.2.2 r.1 r.2.1) := by
        simp only [loopBody, loopStOf]
        rw [addUnitsBody_tie]
      rw [loop]
      unfold modelIter at hbody
      by_cases hr : ready st d = true
      · simp only [hr, if_true] at hbody ⊢
        cases ha : addNow reg st d with
        | error e =>
          rw [ha] at hbody
          simp only [Except.map] at hbody
          rw [whileMeasure_raise _ _ _ _ _ ht hbody]
          refine ⟨?_, rfl⟩
          simp [whileFuel, ht, hbody]
        | ok r =>
          obtain ⟨reg', st'⟩ := r
          rw [ha] at hbody
          simp only [Except.map] at hbody
          have hlt : lexLt (loopMeasure (loopStOf reg' st' rest 0)) (loopMeasure (loopStOf reg st (d :: rest) it)) := by
            simp only [loopMeasure, loopStOf, pyDeque_length]
            exact Prod.Lex.left _ _ (by simp)
          rw [whileMeasure_step _ _ _ _ _ ht hbody hlt]
          have hf' : stepBound rest.length 0 ≤ fuel := by
            simp only [stepBound, List.length_cons, tri] at hf hit ⊢
            omega
          obtain ⟨h1, h2⟩ := ih reg' st' rest 0 (Nat.zero_le _) hf'
          refine ⟨?_, h2⟩
          simp only [whileFuel, ht, if_true, hbody]
          exact h1
      · simp only [hr, Bool.false_eq_true, if_false] at hbody ⊢
        by_cases hgt : it + 1 > (rest ++ [d]).length
        · rw [dif_pos hgt]
          rw [if_pos hgt] at hbody
          simp only [Except.map] at hbody
          rw [whileMeasure_raise _ _ _ _ _ ht hbody]
          refine ⟨?_, rfl⟩
          simp [whileFuel, ht, hbody]
        · rw [dif_neg hgt]
          rw [if_neg hgt] at hbody
          simp only [Except.map] at hbody
          have hlt : lexLt (loopMeasure (loopStOf reg st (rest ++ [d]) (it + 1)))
              (loopMeasure (loopStOf reg st (d :: rest) it)) := by
            simp only [loopMeasure, loopStOf, pyDeque_length]
            have hl : (rest ++ [d]).length = (d :: rest).length := by simp
            rw [hl]
            apply Prod.Lex.right
            simp only [List.length_append, List.length_cons, List.length_nil] at hgt hit ⊢
            omega
          rw [whileMeasure_step _ _ _ _ _ ht hbody hlt]
          have hf' : stepBound (rest ++ [d]).length (it + 1) ≤ fuel := by
            simp only [stepBound, List.length_cons, List.length_append, List.length_nil, tri] at hf hgt hit ⊢
            omega
          obtain ⟨h1, h2⟩ := ih reg st (rest ++ [d]) (it + 1) (by omega) hf'
          refine ⟨?_, h2⟩
          simp only [whileFuel, ht, if_true, hbody]
          exact h1

/-- what the generated set-up pass returns on the fresh store, in terms of the loop state -/
theorem genSetup_eq (id : Nat) (defs : List UDef) :
    UnitDefs.addUnitsSetup defs (builtinRegistry, { id := id, known := [] }) =
      match addBases builtinRegistry { id := id, known := [] } defs with
      | .ok (reg, st) => .ok (loopStOf reg st (queue defs) 0)
      | .error e => .error ⟨addErrClass e⟩ := by
  rw [addUnitsSetup_tie defs _ _ rfl]
  cases addBases builtinRegistry { id := id, known := [] } defs <;> rfl

/-- **the closed generated `_add_units` IS the hand model `Units.addUnits`** (which all work-list theorems of
    `Props/C03.lean` are about): same final unit store, same exception class, every document -/
theorem genAddUnits_eq (id : Nat) (defs : List UDef) :
    genAddUnits id defs = errClass addErrClass (addUnits id defs) := by
  unfold genAddUnits addUnits
  rw [genSetup_eq]
  cases addBases builtinRegistry { id := id, known := [] } defs with
  | error e => rfl
  | ok r =>
    obtain ⟨reg, st⟩ := r
    exact (genLoop_eq _ reg st (queue defs) 0 (Nat.zero_le _) (Nat.le_refl _)).2

/-- the `while` loop over the generated body ends within the hand model's budget `stepBound n 0`
    (`n` = number of queued definitions), with the value of `genAddUnits` -/
theorem genAddUnitsFuel_eq (id : Nat) (defs : List UDef) :
    genAddUnitsFuel id defs = some (genAddUnits id defs) := by
  unfold genAddUnitsFuel genAddUnits
  rw [genSetup_eq]
  cases addBases builtinRegistry { id := id, known := [] } defs with
  | error e => rfl
  | ok r =>
    obtain ⟨reg, st⟩ := r
    simp only
    have h := (genLoop_eq (stepBound (queue defs).length 0) reg st (queue defs) 0 (Nat.zero_le _) (Nat.le_refl _)).1
    simp only [loopStOf, pyDeque_length] at h ⊢
    rw [h]; rfl

theorem addErrClass_ne_violation (e : AddErr) : addErrClass e ≠ "MeasureViolation" := by
  cases e <;> simp [addErrClass]

/-- the value of `genAddUnits` is the result of the PYTHON loop (big-step semantics) started in the state the
    generated set-up pass returns: the measure guard of `whileMeasure` never fires -/
theorem genAddUnits_runs (id : Nat) (defs : List UDef) (s : LoopSt)
    (hs : UnitDefs.addUnitsSetup defs (builtinRegistry, { id := id, known := [] }) = .ok s) :
    ∃ r, WhileRuns loopTest loopBody s r ∧ genAddUnits id defs = r.map loopResult := by
  refine ⟨whileMeasure loopMeasure loopTest loopBody s, ?_, by unfold genAddUnits; rw [hs]⟩
  apply whileMeasure_runs
  intro hv
  have h := genAddUnits_eq id defs
  unfold genAddUnits at h
  rw [hs] at h
  simp only [hv, Except.map] at h
  cases hm : addUnits id defs with
  | ok r => rw [hm] at h; cases h
  | error e =>
    rw [hm] at h
    simp only [errClass, Except.error.injEq, PyErr.mk.injEq] at h
    exact addErrClass_ne_violation e h.symm

/-- reading a result of the generated function back as a result of the hand model -/
theorem genAddUnits_ok_iff (id : Nat) (defs : List UDef) (r : Registry × Store) :
    genAddUnits id defs = .ok r ↔ addUnits id defs = .ok r := by
  rw [genAddUnits_eq]
  cases addUnits id defs <;> simp [errClass]

theorem genAddUnits_error_iff (id : Nat) (defs : List UDef) :
    (∃ e, genAddUnits id defs = .error e) ↔ (∃ e, addUnits id defs = .error e) := by
  rw [genAddUnits_eq]
  cases addUnits id defs <;> simp [errClass]

end Cellml.Tie.PGenB
