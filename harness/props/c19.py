"""C19 — custom conversion rules apply the same way whatever units sit on either side."""
from fractions import Fraction

import mpmath

import unitlib as U
from common import Str, sx

ID = 'C19'
LEAN_MODULES = ['Cellml.Props.C19', 'Cellml.Tie.Units', 'Cellml.Tie.ConvertVarSym', 'Cellml.Tie.GenBConvertVar', 'Cellml.Props.C19Gen', 'Cellml.Tie.ConvRule', 'Cellml.Props.C19GenR', 'Cellml.Props.C19GenRIdem', 'Cellml.Props.C19GenRCases']
N = {'quick': 300, 'thorough': 10000}
RULE = ('one case = a random unit family (3-4 clusters of DIFFERENT dimension, each with 2-4 user units of different '
        'scale/spelling plus built-in and composite spellings; 1-2 stores on one registry) and a script of 2-3 '
        'add_conversion_rule calls (linear rules rhs*K, rhs/K, rhs*Cs/Cm; numeric small-prime or symbolic magnitudes: '
        'sympy Symbol, sympy function application, cellmlmanip Variable; written for units other than the ones '
        'converted; chains, reverse rules, overriding rules, shortcuts, occasionally a dimensionally wrong rule) '
        'interleaved with 35-60 queries: get_conversion_factor / convert over the rule, over chains, in the reverse '
        'direction, between unconnected dimensions, and a fixed set of same-dimension pairs re-asked before and after '
        'every registration; plus Model.convert_variable (plain / defined / state / free variable, INPUT and OUTPUT, '
        'with and without initial value). non-trivial = at least one rule registered and at least one query answered '
        'through a rule; distinct = distinct case JSON')
TRUSTED = ['Lean 4.33 kernel', 'axioms: propext, Classical.choice, Quot.sound',
           'harness/translate_tables.py (tables)', 'correspondence harness harness/props/c19.py + unitlib.py',
           'pint 0.18 (unit algebra AND its context machinery: key by dimensionality, ChainMap shadowing, shortest path, '
           'rule applied to the quantity, ordinary conversion afterwards) is modelled (Cellml/Units/Core.lean, '
           'Rules.lean), not verified',
           'sympy arithmetic on symbolic magnitudes is modelled as a free commutative group on the symbols',
           'scale equality in the model is equality of prime-exponent vectors']
ASSUMPTIONS = ['floating-point rounding and the 1e-9 isclose tolerance are outside the exact model',
               'binary64 range: generated units have SI scales within 1e+-15 (pint multiplies the scales of all named '
               'units of a quantity one after the other; with yocto*yocto*exa^-2 style units an intermediate product '
               'underflows and the factor becomes 0.0 — seen once in 10 000 thorough cases before the bound)',
               'rules are Python callables: the model and the theorems cover linear rules (multiplication/division by '
               'quantities with positive numeric or opaque symbolic magnitude)',
               'when two different shortest rule paths exist pint picks by set iteration order; the generator keeps '
               'shortest paths unique (the model reports the count and such queries are compared by outcome class only)']
FINGERPRINT = {'cellmlmanip/units.py': ['UnitStore.get_conversion_factor', 'UnitStore.convert',
                                       'UnitStore.add_conversion_rule', 'UnitStore.__init__'],
               'cellmlmanip/model.py': ['Model.convert_variable', 'Model._convert_variable_instance',
                                        'Model._convert_state_variable_deriv', 'Model._convert_free_variable_deriv',
                                        'Model.create_quantity']}

NUM_MAGS = ['1.1', '12', '2.5', '0.5', '3', '7', '100', '0.01', '1.21', '6', '0.2', '1.5', '33', '0.125', '1']
SYM_NAMES = ['Cm', 'Cs', 'k_A', 'F:HeartConfig::Instance()->GetCapacitance', 'V:membrane$Cm', 'F:area', 'g']
QTY_MAGS = ['2.5', '0.125', '3', '1000', '7', '1']


# ---------------------------------------------------------------------------------------------- generation
def neg(u):
    return [[s, n, str(-Fraction(e))] for s, n, e in u]


MAX_LOG10_SCALE = 15


def gen_family(rng):
    """Families whose units all have an SI scale within 1e±15: a quantity that went through two rules is a product of
    up to ~17 named units, and pint multiplies their scales one after the other in binary64 — with yocto·yocto·exa⁻²
    style units an intermediate product leaves the float range (observed: factor 0.0 instead of 1e-102), which is
    floating point, not the property."""
    while True:
        fam, clusters = gen_family_once(rng)
        sem = U.oracle_family(fam, ['ok'] * len(fam['defs']))
        if sem is not None and all(abs(mpmath.log10(x.scale)) <= MAX_LOG10_SCALE for x in sem.values()):
            return fam, clusters


def gen_family_once(rng):
    """3-4 clusters of different dimension; every cluster gets 2-4 user units. Returns (family, clusters) where a
    cluster is {'members': [(store, name)], 'spellings': [unit-expression of built-ins]}."""
    ns = rng.choice([1, 1, 1, 2])
    stores = [None] + [0] * (ns - 1)
    k = rng.choice([3, 3, 4])
    recipes = rng.sample(U.RECIPES, k)
    if rng.random() < 0.3:
        recipes[rng.randrange(k)] = [[('dimensionless', '1')]]
    if len({repr(r) for r in recipes}) < k:
        recipes = rng.sample([r for r in U.RECIPES if r != [[('dimensionless', '1')]]], k)
    base_at = rng.randrange(k) if rng.random() < 0.25 else None
    names = rng.sample(U.NAMES, min(len(U.NAMES), 4 * k))
    defs, clusters = [], []
    for ci, recipe in enumerate(recipes):
        cl = {'members': [], 'spellings': []}
        if ci == base_at:
            s = rng.randrange(ns)
            name = names.pop()
            defs.append({'kind': 'base', 'store': s, 'name': name})
            cl['members'].append((s, name))
        else:
            for sp in recipe:
                cl['spellings'].append([[0, u, ex] for u, ex in sp])
        for _ in range(rng.randint(2, 4) - len(cl['members'])):
            name = names.pop()
            mine = cl['members']
            if mine and (ci == base_at or rng.random() < 0.5):
                s, ref = rng.choice(mine)
                kind = rng.random()
                if kind < 0.7 or ci == base_at:
                    elems = [U._decorate(rng, {'units': ref}, 0.8)]
                else:
                    elems = [U._decorate(rng, {'units': ref, 'exponent': '2'}), {'units': ref, 'exponent': '-1'}]
            else:
                s = rng.randrange(ns)
                elems = []
                for u, ex in rng.choice(recipe):
                    e = {'units': u}
                    if ex != '1':
                        e['exponent'] = ex
                    elems.append(U._decorate(rng, e, 0.45))
            defs.append({'kind': 'def', 'store': s, 'name': name, 'elems': elems})
            cl['members'].append((s, name))
        clusters.append(cl)
    return {'stores': stores, 'defs': defs}, clusters


def spell(rng, clusters, ci, plain=False):
    """a unit expression of the dimension of cluster ci: a member, a built-in spelling, or a composite"""
    cl = clusters[ci]
    opts = [[[s, n, '1']] for s, n in cl['members']] + cl['spellings']
    u = [list(x) for x in rng.choice(opts)]
    r = rng.random()
    if plain or r < 0.55:
        return u
    if r < 0.8:
        # times a ratio of two units of one (any) dimension: same dimension, different scale
        cj = rng.randrange(len(clusters))
        oj = [[[s, n, '1']] for s, n in clusters[cj]['members']] + clusters[cj]['spellings']
        x, y = rng.choice(oj), rng.choice(oj)
        return u + [list(t) for t in x] + neg(y)
    # square of one member over another
    v = rng.choice(opts)
    return [[s, n, str(2 * Fraction(e))] for s, n, e in u] + neg(v)


def gen_mag(rng, symbolic):
    if symbolic:
        return ['sym', rng.choice(SYM_NAMES)]
    return ['num', rng.choice(NUM_MAGS)]


def gen_rule(rng, clusters, i, j, symbolic, wrong=False, undo=None):
    """rule D_i -> D_j written for arbitrary units of the two dimensions; `undo`: a single-factor body of an earlier
    rule whose symbol this one cancels (rhs * Cs there, rhs / Cs here)"""
    fr, to = spell(rng, clusters, i), spell(rng, clusters, j)
    s, t = spell(rng, clusters, i), spell(rng, clusters, j)
    if wrong:
        t = spell(rng, clusters, rng.choice([c for c in range(len(clusters)) if c != j]))
    form = rng.random()
    if undo is not None and undo[1][0] == 'sym':
        if undo[0] == 'mul':
            body = [['div', list(undo[1]), s + neg(t)]]
        else:
            body = [['mul', list(undo[1]), t + neg(s)]]
    elif form < 0.4:
        body = [['mul', gen_mag(rng, symbolic), t + neg(s)]]
    elif form < 0.65:
        body = [['div', gen_mag(rng, symbolic), s + neg(t)]]
    else:
        x = spell(rng, clusters, rng.randrange(len(clusters)), plain=True)
        m1 = gen_mag(rng, symbolic)
        m2 = gen_mag(rng, symbolic and rng.random() < 0.5)
        if m1[0] == 'sym' and m2[0] == 'sym' and rng.random() < 0.3:
            m2 = list(m1)              # the same symbol above and below: the symbolic part cancels
        body = [['mul', m1, t + x], ['div', m2, s + x]]
        if rng.random() < 0.3:
            body.reverse()
    return ['rule', fr, to, body]


def gen_queries(rng, clusters, edges, same_pairs, dimless_ci):
    """queries for the current rule graph (edges: set of (i, j))"""
    qs = []
    k = len(clusters)

    def ask(i, j, n, conv=0.25):
        for _ in range(n):
            a, b = spell(rng, clusters, i), spell(rng, clusters, j)
            if i == dimless_ci and rng.random() < 0.3:
                a = [[0, 'dimensionless', '1']]
            if j == dimless_ci and rng.random() < 0.3:
                b = [[0, 'dimensionless', '1']]
            qs.append(['factor', a, b])
            if rng.random() < conv:
                qs.append(['convert', rng.choice(QTY_MAGS), a, b])
    for (i, j) in sorted(edges):
        ask(i, j, 3, conv=0.2)
        ask(j, i, 1, conv=0.1)
    for (i, j) in sorted(edges):
        for (j2, l) in sorted(edges):
            if j2 == j and l != i:
                ask(i, l, 2)
                for (l2, m) in sorted(edges):
                    if l2 == l and m not in (i, j):
                        ask(i, m, 1)
    for a, b in same_pairs:
        qs.append(['factor', a, b])
    for _ in range(2):
        i, j = rng.sample(range(k), 2)
        ask(i, j, 1, conv=0.3)
    return qs


def gen_cv(rng, clusters, edges, n):
    out = []
    k = len(clusters)
    for _ in range(n):
        r = rng.random()
        if edges and r < 0.7:
            i, j = rng.choice(sorted(edges))
            if rng.random() < 0.25:
                nxt = [l for (j2, l) in sorted(edges) if j2 == j and l != i]
                if nxt:
                    j = rng.choice(nxt)
        elif r < 0.85:
            i = j = rng.randrange(k)
        else:
            i, j = rng.sample(range(k), 2)
        a, b = spell(rng, clusters, i), spell(rng, clusters, j)
        if i == j and rng.random() < 0.3:
            b = a
        kind = rng.choice(['plain', 'plain', 'defined', 'state', 'free'])
        direction = rng.choice(['input', 'output'])
        init = None
        if kind in ('plain', 'state') and rng.random() < 0.7:
            init = rng.choice(['2', '0.5', '-3', '10'])
        n_odes = rng.choice([1, 2]) if kind == 'free' else (1 if kind == 'state' else 0)
        out.append(['cv', a, b, direction, kind, init, n_odes])
    return out


def make_case(rng):
    fam, clusters = gen_family(rng)
    k = len(clusters)
    dimless_ci = None
    for ci, cl in enumerate(clusters):
        if cl['spellings'] == [[[0, 'dimensionless', '1']]]:
            dimless_ci = ci
    same_pairs = []
    for _ in range(3):
        ci = rng.randrange(k)
        same_pairs.append([spell(rng, clusters, ci), spell(rng, clusters, ci)])
    symbolic = rng.random() < 0.45
    order = rng.sample(range(k), k)
    i, j, l = order[0], order[1], order[2]
    edges = set()
    steps = gen_queries(rng, clusters, edges, same_pairs, dimless_ci)[:6]
    # rule 1
    steps.append(gen_rule(rng, clusters, i, j, symbolic, wrong=rng.random() < 0.04))
    edges.add((i, j))
    steps += gen_queries(rng, clusters, edges, same_pairs, dimless_ci)
    steps += gen_cv(rng, clusters, edges, 2)
    # rule 2
    r = rng.random()
    sym2 = symbolic if rng.random() < 0.7 else not symbolic
    if r < 0.5:
        e2 = (j, l)                # chain
    elif r < 0.62:
        e2 = (l, i)                # chain the other way round
    elif r < 0.74:
        e2 = (j, i)                # reverse rule (not necessarily the inverse)
    elif r < 0.86:
        e2 = (i, j)                # overrides rule 1
    else:
        e2 = (i, l)                # a second, unrelated rule from the same source
    first = [q for q in steps if q[0] == 'rule'][0][3]
    undo = first[0] if (len(first) == 1 and e2 == (j, l) and rng.random() < 0.25) else None
    steps.append(gen_rule(rng, clusters, e2[0], e2[1], sym2, undo=undo))
    edges.add(e2)
    steps += gen_queries(rng, clusters, edges, same_pairs, dimless_ci)
    steps += gen_cv(rng, clusters, edges, 2)
    # rule 3 (sometimes): a shortcut over a chain, or a longer way round, or a fourth dimension
    if rng.random() < 0.3:
        cand = [(a, b) for a in range(k) for b in range(k) if a != b and (a, b) not in edges]
        e3 = rng.choice(cand)
        steps.append(gen_rule(rng, clusters, e3[0], e3[1], rng.random() < 0.4))
        edges.add(e3)
        steps += gen_queries(rng, clusters, edges, same_pairs, dimless_ci)
        steps += gen_cv(rng, clusters, edges, 1)
    return {'family': fam, 'steps': steps}


def gen(rng, n, tier):
    for _ in range(n):
        yield make_case(rng)


def docstring_family():
    return {'stores': [None], 'defs': [
        {'kind': 'def', 'store': 0, 'name': 'uA', 'elems': [{'units': 'ampere', 'multiplier': '1e-6'}]},
        {'kind': 'def', 'store': 0, 'name': 'pA', 'elems': [{'units': 'ampere', 'multiplier': '1e-12'}]},
        {'kind': 'def', 'store': 0, 'name': 'uF', 'elems': [{'units': 'farad', 'multiplier': '1e-6'}]},
        {'kind': 'def', 'store': 0, 'name': 'pF', 'elems': [{'units': 'farad', 'multiplier': '1e-12'}]},
        {'kind': 'def', 'store': 0, 'name': 'cm2', 'elems': [{'units': 'metre', 'prefix': 'centi', 'exponent': '2'}]},
        {'kind': 'def', 'store': 0, 'name': 'uA_per_cm2', 'elems': [{'units': 'uA'}, {'units': 'cm2', 'exponent': '-1'}]},
        {'kind': 'def', 'store': 0, 'name': 'uF_per_cm2', 'elems': [{'units': 'uF'}, {'units': 'cm2', 'exponent': '-1'}]},
        {'kind': 'def', 'store': 0, 'name': 'A_per_F', 'elems': [{'units': 'ampere'}, {'units': 'farad', 'exponent': '-1'}]},
        {'kind': 'def', 'store': 0, 'name': 'pct', 'elems': [{'units': 'dimensionless', 'multiplier': '0.01'}]},
        {'kind': 'def', 'store': 0, 'name': 'mV', 'elems': [{'units': 'volt', 'prefix': 'milli'}]},
    ]}


def corpus():
    """the chain of the docstring of add_conversion_rule (numeric, then with symbolic capacitances), and rules with
    the dimensionless dimension on one side (witnesses of the repaired defect)."""
    def u(n):
        return [[0, n, '1']]
    out = []
    for sym in (False, True):
        cm = ['sym', 'Cm'] if sym else ['num', '12']
        cs = ['sym', 'Cs'] if sym else ['num', '1.1']
        pre = [['factor', u('pA'), u('A_per_F')], ['factor', u('pA'), u('uA')], ['factor', u('uF'), u('pF')]]
        steps = pre + [['rule', u('uA'), u('uA_per_cm2'), [['mul', cs, u('uF_per_cm2')], ['div', cm, u('pF')]]]]
        steps += pre + [['factor', u('pA'), u('uA_per_cm2')], ['factor', u('uA_per_cm2'), u('pA')]]
        steps += [['rule', u('uA_per_cm2'), u('A_per_F'), [['div', cs, u('uF_per_cm2')]]]]
        steps += pre + [['convert', '1', u('pA'), u('A_per_F')], ['convert', '1', u('uA_per_cm2'), u('A_per_F')],
                        ['factor', u('ampere'), [[0, 'volt', '1'], [0, 'second', '-1']]],
                        ['factor', u('A_per_F'), u('pA')],
                        ['cv', u('pA'), u('A_per_F'), 'output', 'plain', '2', 0],
                        ['cv', u('pA'), u('A_per_F'), 'input', 'defined', None, 0],
                        ['cv', u('pA'), u('uA_per_cm2'), 'input', 'state', '2', 1],
                        ['cv', u('pA'), u('uA_per_cm2'), 'input', 'free', None, 2],
                        ['cv', u('pA'), u('uA'), 'input', 'state', '2', 1]]
        out.append({'family': docstring_family(), 'steps': steps})
    out.append(DIMLESS_SOURCE)
    out.append(DIMLESS_TARGET)
    return out


# rule dimensionless -> volt: pct -> mV works, so must `dimensionless` -> mV
DIMLESS_SOURCE = {'family': docstring_family(), 'steps': [
    ['rule', [[0, 'pct', '1']], [[0, 'volt', '1']], [['mul', ['num', '5'], [[0, 'volt', '1']]]]],
    ['factor', [[0, 'pct', '1']], [[0, 'mV', '1']]],
    ['factor', [[0, 'dimensionless', '1']], [[0, 'mV', '1']]],
    ['convert', '2', [[0, 'dimensionless', '1']], [[0, 'mV', '1']]],
    ['factor', [[0, 'dimensionless', '1']], [[0, 'pct', '1']]],
    ['factor', [[0, 'mV', '1']], [[0, 'dimensionless', '1']]]]}
# rule volt -> dimensionless only: nothing connects dimensionless to volt, `dimensionless` -> mV must fail like pct -> mV
DIMLESS_TARGET = {'family': docstring_family(), 'steps': [
    ['rule', [[0, 'mV', '1']], [[0, 'pct', '1']], [['div', ['num', '5'], [[0, 'volt', '1']]]]],
    ['factor', [[0, 'mV', '1']], [[0, 'pct', '1']]],
    ['factor', [[0, 'mV', '1']], [[0, 'dimensionless', '1']]],
    ['factor', [[0, 'pct', '1']], [[0, 'mV', '1']]],
    ['factor', [[0, 'dimensionless', '1']], [[0, 'mV', '1']]],
    ['convert', '2', [[0, 'dimensionless', '1']], [[0, 'mV', '1']]]]}


# ---------------------------------------------------------------------------------------------- implementation
class Symtab:
    def __init__(self):
        self.by_name, self.by_obj = {}, {}

    def get(self, name):
        import sympy
        if name not in self.by_name:
            if name.startswith('F:'):
                obj = sympy.Function(name[2:], real=True)()
            elif name.startswith('V:'):
                from cellmlmanip.model import Variable
                obj = Variable(name=name[2:], units=None)
            else:
                obj = sympy.Symbol(name)
            self.by_name[name] = obj
            self.by_obj[obj] = name
        return self.by_name[name]


def decompose(expr, symtab, drop=()):
    """magnitude -> ['one'] is never produced here; ['f', float-repr] | ['s', float-repr, [[symbol, exponent]...]] |
    ['weird', text]"""
    import numbers
    import sympy
    from cellmlmanip.model import Quantity as MQ
    if isinstance(expr, numbers.Number) and not isinstance(expr, sympy.Basic):
        return ['f', repr(float(expr))]
    expr = sympy.sympify(expr)
    expr = expr.xreplace({q: sympy.Float(float(q)) for q in expr.atoms(MQ)})
    for d in drop:
        expr = expr / d
    c, rest = expr.as_coeff_Mul()
    try:
        c = float(c)
    except TypeError:
        return ['weird', str(expr)]
    pows = []
    for base, ex in rest.as_powers_dict().items():
        if base == 1:
            continue
        if base not in symtab.by_obj or not ex.is_Rational:
            return ['weird', str(expr)]
        pows.append([symtab.by_obj[base], str(Fraction(int(ex.p), int(ex.q)))])
    if not pows:
        return ['f', repr(c)]
    return ['s', repr(c), sorted(pows)]


def make_rule(stores, step, symtab):
    st = stores[step[1][0][0]]
    ks = []
    for op, mag, unit in step[3]:
        m = float(Fraction(mag[1])) if mag[0] == 'num' else symtab.get(mag[1])
        if mag[0] == 'num' and m == int(m) and '.' not in mag[1]:
            m = int(m)
        ks.append((op, st.Quantity(m, U.impl_unit(stores, unit))))

    def rule(ureg, rhs, ks=ks):
        for op, q in ks:
            rhs = rhs * q if op == 'mul' else rhs / q
        return rhs
    st.add_conversion_rule(U.impl_unit(stores, step[1]), U.impl_unit(stores, step[2]), rule)


def run_cv(stores, step, symtab):
    import sympy
    from cellmlmanip.model import DataDirectionFlow, Model, Variable
    _, ua, ub, direction, kind, init, n_odes = step
    a, b = U.impl_unit(stores, ua), U.impl_unit(stores, ub)
    m = Model('m', unit_store=stores[ua[0][0]])
    sec, volt = m.units.get_unit('second'), m.units.get_unit('volt')
    iv = None if init is None else float(Fraction(init))
    v = m.add_variable('v', a, initial_value=iv)
    rhs0 = None
    if kind == 'defined':
        rhs0 = m.create_quantity(2.5, a)
        m.add_equation(sympy.Eq(v, rhs0))
    elif kind == 'state':
        t = m.add_variable('t', sec)
        m.add_equation(sympy.Eq(sympy.Derivative(v, t), m.create_quantity(1.5, a / sec)))
    elif kind == 'free':
        for i in range(n_odes):
            x = m.add_variable('x%d' % i, volt, initial_value=1.0)
            m.add_equation(sympy.Eq(sympy.Derivative(x, v), m.create_quantity(3.0 + i, volt / a)))
    else:
        w = m.add_variable('w', a)
        m.add_equation(sympy.Eq(w, v * m.create_quantity(2.0, m.units.get_unit('dimensionless'))))
    before_eqs = list(m.equations)
    before_vars = [(x.name, x.initial_value) for x in m.variables()]
    try:
        new = m.convert_variable(v, b, DataDirectionFlow.INPUT if direction == 'input' else DataDirectionFlow.OUTPUT)
    except Exception as e:
        same_eqs = len(m.equations) == len(before_eqs) and all(x is y for x, y in zip(m.equations, before_eqs))
        unchanged = same_eqs and before_vars == [(x.name, x.initial_value) for x in m.variables()]
        return ['err', type(e).__name__, unchanged]
    if new is v:
        unchanged = list(m.equations) == before_eqs and before_vars == [(x.name, x.initial_value) for x in m.variables()]
        return ['same', unchanged]
    eqs = []
    for eq in m.equations:
        if any(eq is o for o in before_eqs):
            continue
        lhs, rhs = eq.lhs, eq.rhs
        others = [x for x in rhs.atoms(Variable) if x not in symtab.by_obj]
        if lhs == new:
            if v in others:
                eqs.append(['new-from-orig', decompose(rhs, symtab, [v])])
            elif rhs0 is not None:
                eqs.append(['new-from-rhs', decompose(rhs, symtab, [sympy.Float(2.5)])])
            else:
                eqs.append(['other', str(eq)])
        elif lhs == v:
            eqs.append(['orig-from-new', decompose(rhs, symtab, [new])])
        elif lhs.is_Derivative and lhs.args[0] == new:
            eqs.append(['ode-of-new', decompose(rhs, symtab, others)])
        elif lhs.is_Derivative and lhs.args[1][0] == new:
            eqs.append(['ode-wrt-new', decompose(rhs, symtab, others)])
        elif isinstance(lhs, Variable) and lhs.name.endswith('_orig_deriv'):
            continue
        else:
            eqs.append(['other', str(eq)])
    removed = sum(1 for o in before_eqs if not any(o is e for e in m.equations))
    unit_ok = bool(m.units.is_equivalent(new.units, b))
    return ['converted', eqs, None if new.initial_value is None else repr(float(new.initial_value)),
            None if v.initial_value is None else repr(float(v.initial_value)), unit_ok, removed]


def impl(case):
    stores, outcomes = U.build_impl(case['family'])
    symtab = Symtab()
    res = []
    for q in case['steps']:
        try:
            if q[0] == 'rule':
                make_rule(stores, q, symtab)
                res.append('ok')
            elif q[0] == 'factor':
                a, b = U.impl_unit(stores, q[1]), U.impl_unit(stores, q[2])
                cf = stores[q[1][0][0]].get_conversion_factor(a, b)
                d = 'one' if (isinstance(cf, int) and cf == 1) else decompose(cf, symtab)
                if isinstance(d, list) and d[0] == 'f':
                    d = d + [type(cf).__name__]
                res.append(d)
            elif q[0] == 'convert':
                a, b = U.impl_unit(stores, q[2]), U.impl_unit(stores, q[3])
                st = stores[q[2][0][0]]
                out = st.convert(st.Quantity(float(Fraction(q[1])), a), b)
                res.append(['q', decompose(out.magnitude, symtab), st.format(out.units, base_units=True)])
            elif q[0] == 'cv':
                res.append(run_cv(stores, q, symtab))
        except Exception as e:
            res.append('err:' + type(e).__name__)
    return {'defs': outcomes, 'steps': res}


# ---------------------------------------------------------------------------------------------- model
def mag_sx(mag):
    return [mag[0], Str(mag[1])]


def requests(case, obs):
    stores, defs = U.family_sx(case['family'])
    qs = []
    for q in case['steps']:
        if q[0] == 'rule':
            qs.append(['rule', U.unit_sx(q[1]), U.unit_sx(q[2])] +
                      [[op, mag_sx(mag), U.unit_sx(unit)] for op, mag, unit in q[3]])
        elif q[0] == 'factor':
            qs.append(['factor', U.unit_sx(q[1]), U.unit_sx(q[2])])
        elif q[0] == 'convert':
            qs.append(['convert', Str(q[1]), U.unit_sx(q[2]), U.unit_sx(q[3])])
        elif q[0] == 'cv':
            qs.append(['cv', U.unit_sx(q[1]), U.unit_sx(q[2]), q[3], q[4], q[5] is not None, q[6]])
    return [sx(['C19', stores, defs, ['steps'] + qs])]


def model_err(r):
    return isinstance(r, list) and r and r[0] == 'err'


def syms_dict(sexp):
    return {str(k): Fraction(e) for k, e in sexp[1:] if Fraction(e) != 0}


def same_value(scale_sexp, syms_sexp, o, times=None, invert=False):
    """model (scale, syms) against an observed ['f', x] / ['s', x, pows] / 'one'"""
    want = U.scale_value(scale_sexp)
    ws = syms_dict(syms_sexp)
    if times is not None:
        want = want * mpmath.mpf(times.numerator) / times.denominator
    if not (mpmath.mpf('1e-200') < abs(want) < mpmath.mpf('1e200')):
        return True      # binary64 range: outside the exact model
    if o == 'one':
        got, gs = mpmath.mpf(1), {}
    elif o[0] == 'f':
        got, gs = mpmath.mpf(o[1]), {}
    elif o[0] == 's':
        got, gs = mpmath.mpf(o[1]), {k: Fraction(e) for k, e in o[2]}
    else:
        return False
    if invert:
        got, gs = 1 / got, {k: -e for k, e in gs.items()}
    return U.close(want, got) and ws == gs


def compare(case, obs, replies):
    rep = replies[0]
    if not isinstance(rep, list) or len(rep) != 2:
        return 'model reply malformed: %r' % (rep,)
    mdefs, mqs = rep[0][1:], rep[1][1:]
    for d, o, m in zip(case['family']['defs'], obs['defs'], mdefs):
        if isinstance(m, list) and m[0] == 'unsupported':
            return None
        mo = 'ok' if m == 'ok' else 'err:' + m[1]
        if mo != o and not (mo.startswith('err') and o.startswith('err')):
            return 'definition %s: implementation %s, model %s' % (d['name'], o, mo)
    if len(mqs) != len(case['steps']):
        return 'model answered %d steps of %d' % (len(mqs), len(case['steps']))
    for idx, (q, o, m) in enumerate(zip(case['steps'], obs['steps'], mqs)):
        where = 'step %d %s %s' % (idx, q[0], q[1:])
        if isinstance(m, list) and m and m[0] == 'unsupported':
            return None
        if q[0] == 'rule':
            if (m == 'ok') != (o == 'ok'):
                return '%s: model %s, implementation %s' % (where, m, o)
            continue
        if model_err(m):
            oerr = o if isinstance(o, str) else ('err:' + o[1] if o[0] == 'err' else None)
            if oerr is None or not oerr.startswith('err:'):
                return '%s: model %s, implementation %s' % (where, m, o)
            if m[1] != oerr[4:]:
                return '%s: model error %s, implementation %s' % (where, m[1], oerr)
            continue
        if isinstance(o, str) and o.startswith('err:') or (isinstance(o, list) and o[0] == 'err'):
            return '%s: implementation %s, model %s' % (where, o, m)
        paths = int(m[-1][1]) if isinstance(m[-1], list) and m[-1] and m[-1][0] == 'paths' else 1
        if paths > 1:
            continue   # several shortest rule paths: pint's choice depends on set order; outcome class compared only
        if q[0] == 'factor':
            if m[1] == 'one':
                if o != 'one':
                    return '%s: model one, implementation %s' % (where, o)
            elif o == 'one' or not same_value(m[1], m[2], o):
                return '%s: model %s %s, implementation %s' % (where, U.scale_value(m[1]), m[2], o)
        elif q[0] == 'convert':
            if not same_value(m[1], m[2], o[1], times=Fraction(q[1])):
                return '%s: model %s x %s %s, implementation %s' % (where, q[1], U.scale_value(m[1]), m[2], o)
        elif q[0] == 'cv':
            if m[0] == 'same':
                if o[0] != 'same':
                    return '%s: model same, implementation %s' % (where, o)
                continue
            if o[0] != 'converted':
                return '%s: model %s, implementation %s' % (where, m, o)
            meqs = [(str(f), int(e)) for f, e in m[4][1:]]
            oeqs = [(f, d) for f, d in o[1]]
            if [f for f, _ in meqs] != [f for f, _ in oeqs]:
                return '%s: model equations %s, implementation %s' % (where, meqs, oeqs)
            for (f, e), (_, d) in zip(meqs, oeqs):
                if not same_value(m[1], m[2], d, invert=(e == -1)):
                    return '%s: equation %s: model factor %s %s ^%d, implementation %s' \
                        % (where, f, U.scale_value(m[1]), m[2], e, d)
            if (m[3] == 'true') != (o[2] is not None):
                return '%s: model initial value scaled %s, implementation new initial value %s' % (where, m[3], o[2])
            if o[2] is not None and not U.close(mpmath.mpf(o[2]), mpmath.mpf(float(Fraction(q[5]))) * U.scale_value(m[1])):
                return '%s: model initial value %s x %s, implementation %s' % (where, q[5], U.scale_value(m[1]), o[2])
    return None


# ---------------------------------------------------------------------------------------------- property oracle
def dims_key(d):
    return tuple(sorted(U.physical_dims(d).items()))


def kappa_of(sem, body):
    """(numeric magnitude, symbols, Sem of the unit) of a rule body"""
    mag, syms, scale, dims = mpmath.mpf(1), {}, mpmath.mpf(1), {}
    for op, m, unit in body:
        sgn = 1 if op == 'mul' else -1
        x = U.sem_of(sem, unit)
        scale *= x.scale ** sgn
        dims = U.dim_add(dims, x.dims, sgn)
        if m[0] == 'num':
            f = Fraction(m[1])
            mag *= (mpmath.mpf(f.numerator) / f.denominator) ** sgn
        else:
            syms[m[1]] = syms.get(m[1], 0) + sgn
    return mag, {k: v for k, v in syms.items() if v}, U.Sem(scale, dims)


def shortest_paths(rules, src, dst):
    """all shortest key paths src -> dst (lists of rules), breadth first; rules: {(src, dst): rule}"""
    if src == dst:
        return [[]]
    frontier = [(src, [])]
    seen = {src}
    while frontier:
        nxt, found, reached = [], [], set()
        for node, path in frontier:
            for (s, d), r in rules.items():
                if s != node or d in seen:
                    continue
                if d == dst:
                    found.append(path + [r])
                else:
                    nxt.append((d, path + [r]))
                    reached.add(d)
        if found:
            return found
        seen |= reached
        frontier = nxt
    return []


def expected(sem, rules, ua, ub):
    """what the property demands of converting 1·ua to ub: list of acceptable answers, each
    ('ok', factor mpf, symbols) or ('err',); plus whether a rule is involved"""
    a, b = U.sem_of(sem, ua), U.sem_of(sem, ub)
    if dims_key(a.dims) == dims_key(b.dims):
        return [('ok', a.scale / b.scale, {})], False
    paths = shortest_paths(rules, dims_key(a.dims), dims_key(b.dims))
    if not paths:
        return [('err',)], False
    out = []
    for p in paths:
        f, syms, dims = a.scale, {}, dict(a.dims)
        for r in p:
            f *= r['mag'] * r['unit'].scale
            dims = U.dim_add(dims, r['unit'].dims)
            for k, v in r['syms'].items():
                syms[k] = syms.get(k, 0) + v
        if dims_key(dims) != dims_key(b.dims):
            out.append(('err',))      # the rule does not produce the target dimension: pint must refuse
        else:
            out.append(('ok', f / b.scale, {k: v for k, v in syms.items() if v}))
    return out, True


def value_of(o):
    """observed ['f'..]/['s'..]/'one' -> (mpf, symbols) or None"""
    if o == 'one':
        return mpmath.mpf(1), {}
    if isinstance(o, list) and o[0] == 'f':
        return mpmath.mpf(o[1]), {}
    if isinstance(o, list) and o[0] == 's':
        return mpmath.mpf(o[1]), {k: Fraction(e) for k, e in o[2] if Fraction(e) != 0}
    return None


def out_of_float_range(exp):
    return any(e[0] == 'ok' and not (mpmath.mpf('1e-200') < abs(e[1]) < mpmath.mpf('1e200')) for e in exp)


def matches(exp, val, times=1, invert=False):
    if out_of_float_range(exp):
        return True      # binary64 range, not the property (the generator stays far away from it)
    if val is None:
        return False
    f, syms = val
    if invert:
        f, syms = 1 / f, {k: -v for k, v in syms.items()}
    return any(e[0] == 'ok' and U.close(e[1] * times, f) and e[2] == syms for e in exp)


ALIASES = {'metre': 'meter', 'litre': 'liter'}


def is_unit_dimensionless(u):
    """the expression IS the unit `dimensionless` (pint cancels x·x⁻¹ and drops `dimensionless` from products), as
    opposed to merely having dimension zero (percent, radian, mV/volt)"""
    tot = {}
    for s, n, e in u:
        if n == 'dimensionless':
            continue
        k = ALIASES.get(n, n) if n in U.SI else (s, n)
        tot[k] = tot.get(k, 0) + Fraction(e)
    return all(v == 0 for v in tot.values())


def oracle(case, obs):
    """The property stated on the implementation's answers, against the exact meaning of each unit (CellML 1.1 table)
    and of each rule's κ — no reference to the Lean model."""
    fam = case['family']
    if any(o.startswith('err') for o in obs['defs']):
        return []
    sem = U.oracle_family(fam, obs['defs'])
    if sem is None:
        return []
    fails = []
    rules = {}
    baseline = {}

    def fail(key, idx, text):
        fails.append({'key': key, 'detail': 'step %d: %s' % (idx, text), 'step': idx})
    for idx, (q, o) in enumerate(zip(case['steps'], obs['steps'])):
        if q[0] == 'rule':
            if o != 'ok':
                fail('rule-registration-failed', idx, '%s' % (o,))
                continue
            mag, syms, unit = kappa_of(sem, q[3])
            key = (dims_key(U.sem_of(sem, q[1]).dims), dims_key(U.sem_of(sem, q[2]).dims))
            rules.pop(key, None)
            rules[key] = {'mag': mag, 'syms': syms, 'unit': unit}
            continue
        ua, ub = (q[2], q[3]) if q[0] == 'convert' else (q[1], q[2])
        exp, via_rule = expected(sem, rules, ua, ub)
        src_dimless = ':from-unit-dimensionless' if is_unit_dimensionless(ua) else ''
        err = o[4:] if isinstance(o, str) and o.startswith('err:') else (o[1] if isinstance(o, list) and o[0] == 'err' else None)
        want_err = all(e[0] == 'err' for e in exp)
        what = '%s %s -> %s' % (q[0], ua, ub)
        if q[0] in ('factor', 'convert'):
            if err is not None:
                if not want_err:
                    fail(('error-through-rule' if via_rule else 'error-on-compatible') + src_dimless, idx,
                         '%s raised %s, expected factor %s' % (what, err, [(mpmath.nstr(e[1], 12), e[2]) for e in exp if e[0] == 'ok']))
                elif err != 'DimensionalityError':
                    fail('wrong-error-class', idx, '%s raised %s' % (what, err))
                continue
            if want_err:
                fail(('wrong-rule-accepted' if via_rule else 'unconnected-converts') + src_dimless, idx,
                     '%s returned %s although %s' % (what, o, 'the rule does not give the target dimension' if via_rule
                                                     else 'no rule path connects the dimensions'))
                continue
        if q[0] == 'factor':
            if isinstance(o, list) and o[0] == 'f' and len(o) > 2 and o[2] not in ('float', 'int'):
                fail('factor-number-type', idx, '%s returned the number %s as a %s' % (what, o[1], o[2]))
            if not matches(exp, value_of(o)):
                fail(('rule-factor' if via_rule else 'factor-not-ratio') + src_dimless, idx, '%s gave %s, expected %s'
                     % (what, o, [(mpmath.nstr(e[1], 12), e[2]) for e in exp if e[0] == 'ok']))
            if not via_rule:
                k = sx(['p', U.unit_sx(ua), U.unit_sx(ub)])
                if k in baseline and baseline[k] != o:
                    fail('same-dimension-changed-by-rule', idx, '%s was %s before the rule, now %s' % (what, baseline[k], o))
                baseline.setdefault(k, o)
        elif q[0] == 'convert':
            qv = Fraction(q[1])
            if not matches(exp, value_of(o[1]), times=mpmath.mpf(qv.numerator) / qv.denominator):
                fail(('rule-convert-magnitude' if via_rule else 'convert-magnitude') + src_dimless, idx,
                     '%s x %s gave %s, expected factor %s' % (q[1], what, o[1],
                                                              [(mpmath.nstr(e[1], 12), e[2]) for e in exp if e[0] == 'ok']))
            else:
                f, d = U.parse_base_format(o[2])
                b = U.sem_of(sem, ub)
                if not U.close(f, b.scale):
                    fail('convert-unit', idx, '%s result is in %s' % (what, o[2]))
        elif q[0] == 'cv':
            direction, kind, init = q[3], q[4], q[5]
            if isinstance(o, str):
                fail('cv-harness-error', idx, '%s: %s' % (what, o))
                continue
            symbolic = any(e[0] == 'ok' and e[2] for e in exp)
            if o[0] == 'err':
                if not o[2]:
                    fail('cv-error-left-model-changed', idx, '%s raised %s and changed the model' % (what, o[1]))
                if want_err:
                    if o[1] != 'DimensionalityError':
                        fail('wrong-error-class', idx, 'convert_variable %s raised %s' % (what, o[1]))
                elif o[1] == 'TypeError' and symbolic and direction == 'input' and init is not None:
                    fail('cv-symbolic-factor-initial-value', idx,
                         'convert_variable(%s, INPUT) with initial value %s and symbolic rule factor raised TypeError'
                         % (what, init))
                else:
                    fail(('cv-error-through-rule' if via_rule else 'cv-error-on-compatible') + src_dimless, idx,
                         'convert_variable %s raised %s' % (what, o[1]))
                continue
            if want_err:
                fail('cv-unconnected-converts' + src_dimless, idx, 'convert_variable %s returned %s' % (what, o))
                continue
            one = any(e[0] == 'ok' and not e[2] and U.close(e[1], 1) for e in exp)
            if o[0] == 'same':
                if not one:
                    fail('cv-not-converted', idx, 'convert_variable %s returned the original variable' % what)
                elif not o[1]:
                    fail('cv-same-changed-model', idx, what)
                continue
            if one:
                fail('cv-needless-conversion', idx, 'convert_variable %s created a variable for factor 1' % what)
                continue
            _, eqs, new_init, old_init, unit_ok, removed = o
            if not unit_ok:
                fail('cv-new-variable-unit', idx, what)
            want_forms = ['new-from-orig'] if direction == 'output' else \
                (['new-from-rhs'] if kind == 'defined' else []) + ['orig-from-new'] + \
                (['ode-of-new'] if kind == 'state' else []) + (['ode-wrt-new'] * q[6] if kind == 'free' else [])
            if sorted(f for f, _ in eqs) != sorted(want_forms):
                fail('cv-equations', idx, 'convert_variable %s added %s, expected %s' % (what, [f for f, _ in eqs], want_forms))
                continue
            for f, d in eqs:
                inv = f in ('orig-from-new', 'ode-wrt-new')
                if not matches(exp, value_of(d), invert=inv):
                    fail(('cv-rule-factor' if via_rule else 'cv-factor') + src_dimless, idx, 'convert_variable %s: equation %s carries %s, '
                         'expected factor %s' % (what, f, d, [(mpmath.nstr(e[1], 12), e[2]) for e in exp if e[0] == 'ok']))
            if direction == 'input' and init is not None:
                iv = Fraction(init)
                if new_init is None or old_init is not None or not any(
                        e[0] == 'ok' and U.close(e[1] * iv.numerator / iv.denominator, mpmath.mpf(new_init)) for e in exp):
                    fail('cv-initial-value', idx, 'convert_variable %s: initial value %s became %s (original keeps %s)'
                         % (what, init, new_init, old_init))
            elif new_init is not None:
                fail('cv-initial-value', idx, 'convert_variable %s: new variable got initial value %s' % (what, new_init))
    return fails[:8]


def nontrivial(case, obs):
    seen_rule = False
    for q, o in zip(case['steps'], obs['steps']):
        if q[0] == 'rule' and o == 'ok':
            seen_rule = True
    return seen_rule and any(isinstance(o, list) and o[0] in ('f', 's') for o in obs['steps'])


def tag(case, obs):
    n_rules = sum(1 for q in case['steps'] if q[0] == 'rule')
    sym = any(q[0] == 'rule' and any(m[0] == 'sym' for _, m, _ in q[3]) for q in case['steps'])
    n_sym = sum(1 for o in obs['steps'] if isinstance(o, list) and o[0] == 's')
    return 'rules=%d %s symbolic-answers=%s' % (n_rules, 'symbolic' if sym else 'numeric', 'some' if n_sym else 'none')


def shrink(violation):
    """keep the rules registered before the first failing step and that step only"""
    case = violation['case']
    idx = violation['failures'][0].get('step')
    if idx is None:
        return None
    steps = [q for q in case['steps'][:idx] if q[0] == 'rule'] + [case['steps'][idx]]
    small = {'family': case['family'], 'steps': steps}
    o = impl(small)
    fails = oracle(small, o)
    if fails and fails[0]['key'] == violation['failures'][0]['key']:
        return {'case': small, 'failures': fails, 'obs': o}
    return None


MANIFEST = {
    'technique': 'Lean 4 theorems over a mini-pint with pint\'s context search (rules keyed by dimension, shortest path) '
                 '+ differential correspondence + independent exact oracle',
    'text': ('Proved in Lean (lean/Cellml/Props/C19.lean, standard axioms only) for every registry, every list of '
             'enabled rules and every pair of unit expressions: a rule is keyed by the DIMENSIONS of the units it was '
             'registered with (rule_registration_units_irrelevant); through a rule D1->D2 every u1 in D1 converts to '
             'every u2 in D2 with multiplier scale(u1)*|k|*scale(unit k)/scale(u2) and the symbols of k '
             '(rule_unit_independent), i.e. the rule\'s result rescaled by exactly the ordinary factors '
             '(rule_rescaled_by_ordinary_factors); a rule of the wrong dimension is refused; a chain of two rules '
             'multiplies both coefficients and is the composition of its hops through ANY intermediate unit '
             '(rule_chain, rule_chain_composes); same-dimension conversions equal the ordinary factor whatever rules '
             'are enabled (rule_noninterference*, no_rules_plain); dimensions not connected by a rule path give '
             'DimensionalityError, conversions across dimensions succeed only along a path, a single rule is '
             'directional (rule_unreachable*, ok_across_dimensions_needs_path, error_between_reachable_dimensions, '
             'single_rule_is_directional); '
             'UnitStore.convert / get_conversion_factor are exactly that conversion (convert_special_case_invisible, '
             'conversionFactorR_eq); convert_variable returns the original iff the factor is one, fails with a unit '
             'error iff get_conversion_factor does, and otherwise puts that very factor, as *cf or /cf, in every '
             'equation it adds and scales the initial value by it (cv_same_iff, cv_unit_error_iff, '
             'cv_uses_rule_factor). PARTIAL: cv_alike_partial excludes symbolic factor + INPUT + initial value, where '
             'convert_variable raises TypeError (cv_symbolic_input_initial_value_refused, known finding). Defect found '
             'and repaired (commit d507e18): UnitStore.convert sent every conversion FROM the unit `dimensionless` '
             'through the inverse of the conversion TO it, so rules from the dimensionless dimension were ignored for '
             'that one unit and rules to it were applied backwards (convert_before_fix_*_counterexample on the model of '
             'the old code). Second defect found by the correspondence and repaired (commit 70cf6dd): when the symbolic '
             'coefficients cancel get_conversion_factor returned a SymPy number, and convert_variable raised TypeError on '
             'a SymPy Integer/Rational factor. Tie: seeded correspondence of the compiled model with units.py/model.py + pint 0.18 + sympy '
             '— random families with 3-4 dimensions, 2-3 rules per script (numeric and symbolic coefficients, chains, '
             'reverse, overriding and wrong rules), get_conversion_factor / convert / Model.convert_variable, '
             'symbolic factors compared as (coefficient, symbol multiset); an independent exact oracle (CellML unit '
             'table + breadth-first search over the registered dimensions) states the property on the '
             'implementation\'s answers, including bit-identical same-dimension answers before and after each '
             'registration.'),
    'note': ('Trusted: Lean kernel; propext, Classical.choice, Quot.sound; the table translator; the correspondence '
             'harness. pint 0.18 (unit algebra and contexts) and sympy\'s arithmetic on symbolic magnitudes are '
             'modelled, not verified. Rules are arbitrary Python callables in the code; model and theorems cover the '
             'linear rules the property quantifies over (positive numeric or opaque symbolic coefficients). '
             'The model\'s bounded path search is proved complete and shortest (path_search_complete, '
             'path_search_shortest), and conversion along a path of any length is characterised (rule_path). When several shortest '
             'paths exist pint chooses by set iteration order: outside the model (compared by outcome class only). '
             'Floating-point rounding and the 1e-9 tolerance are outside the exact model.'),
}
