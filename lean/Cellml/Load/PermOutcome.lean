import Cellml.Load.Lemmas

/-! # The outcome of the connection work list does not depend on the order of the connections

    `Resolvable reg vt cs` is a declarative, visibly permutation-invariant description of the connection sets the work
    list accepts; `connect_ok_iff_resolvable` shows `connect reg vt cs` succeeds exactly on those, for every order.

    1. the shape of one loop iteration (`stepConn_shape`, `stepConn_none`)
    2. `Resolvable` and its invariance under permutation
    3. the extended invariant `J` (what was fired, with which factor, where the cmeta ids are)
    4. soundness: a successful run ⇒ `Resolvable`
    5. completeness: `Resolvable` ⇒ no iteration raises and the `assert` never fires -/

namespace Load

def swapP (p : VRef × VRef) : VRef × VRef := (p.2, p.1)

/-- the conversion factor of a directed connection (source, target) -/
def Fac (reg : Registry) (vt : VarTable) (c : VRef × VRef) : Except Units.UErr Scale :=
  Units.factor reg (unitsOf vt c.1) (unitsOf vt c.2)

/-- the cmeta id a variable has in the document -/
def cmeta0 (vt : VarTable) (v : VRef) : Option String := cmetaOf (initState vt) v

/-! ## 1. one iteration -/

/-- what a successful iteration does to the state: (A) factor one, no annotation on the target; (B) factor one, the
    target's annotation moves to `a = source.assigned_to`, which had none; (C) conversion equation -/
theorem stepConn_shape {reg : Registry} {vt : VarTable} {st st' : CState} {s t : VRef}
    (h : stepConn reg vt st (s, t) = .ok (some st')) :
    st.asg t = none ∧ ∃ a a', st.asg s = some a ∧
      st'.mapping = (t, s) :: st.mapping ∧ st'.assigned = (t, a') :: st.assigned ∧
      ((a' = a ∧ Fac reg vt (s, t) = .ok [] ∧ cmetaOf st t = none ∧ ∀ v, cmetaOf st' v = cmetaOf st v) ∨
       (a' = a ∧ Fac reg vt (s, t) = .ok [] ∧ ∃ id, cmetaOf st t = some id ∧ cmetaOf st a = none ∧
          ∀ v, cmetaOf st' v = if v = a then some id else if v = t then none else cmetaOf st v) ∨
       (a' = t ∧ (∃ f, Fac reg vt (s, t) = .ok f ∧ f ≠ []) ∧ ∀ v, cmetaOf st' v = cmetaOf st v)) := by
  unfold stepConn at h
  simp only at h
  split at h
  · cases h
  · rename_i hnt
    have ht : st.asg t = none := by
      cases hx : st.asg t with
      | none => rfl
      | some x => rw [hx] at hnt; simp at hnt
    refine ⟨ht, ?_⟩
    split at h
    · cases h
    · rename_i a hs
      split at h
      · cases h
      · cases h
      · rename_i f hf
        split at h
        · rename_i hf1
          subst hf1
          split at h
          · rename_i hct
            simp only [Except.ok.injEq, Option.some.injEq] at h
            subst h
            exact ⟨a, a, hs, rfl, rfl, Or.inl ⟨rfl, hf, hct, fun _ => rfl⟩⟩
          · rename_i id hct
            split at h
            · cases h
            · rename_i hca
              simp only [Except.ok.injEq, Option.some.injEq] at h
              subst h
              have hca' : cmetaOf st a = none := by
                cases hx : cmetaOf st a with
                | none => rfl
                | some x => rw [hx] at hca; simp at hca
              refine ⟨a, a, hs, rfl, rfl, Or.inr (Or.inl ⟨rfl, hf, id, hct, hca', ?_⟩)⟩
              intro v
              simp only [cmetaOf, lookup_cons]
              by_cases hva : v = a
              · simp [hva]
              · by_cases hvt : v = t
                · subst hvt; simp [hva]
                · simp [hva, hvt]
        · rename_i hf1
          simp only [Except.ok.injEq, Option.some.injEq] at h
          subst h
          exact ⟨a, t, hs, rfl, rfl, Or.inr (Or.inr ⟨rfl, ⟨f, hf, hf1⟩, fun _ => rfl⟩)⟩

/-- the iteration puts the connection back exactly when its source has no `assigned_to` yet -/
theorem stepConn_none {reg : Registry} {vt : VarTable} {st : CState} {s t : VRef}
    (h : stepConn reg vt st (s, t) = .ok none) : st.asg s = none := by
  unfold stepConn at h
  simp only at h
  split at h
  · cases h
  · split at h
    · rename_i hs; exact hs
    · split at h
      · cases h
      · cases h
      · split at h
        · split at h
          · cases h
          · split at h <;> cases h
        · cases h

/-! ## 2. resolvable connection sets -/

/-- `v` receives a value: it has no `in` interface, or it is the target of a connection whose source does -/
inductive Fed (vt : VarTable) (cs : List (VRef × VRef)) : VRef → Prop where
  | src {v : VRef} : Src vt v → Fed vt cs v
  | step {s t : VRef} : (s, t) ∈ cs → Fed vt cs s → Fed vt cs t

/-- `Anchor v a`: `a` is the variable the maths use for `v` up to a unit factor of one (`assigned_to`): a source,
    or the target of a unit-changing connection, reached from `v` through factor-one connections -/
inductive Anchor (reg : Registry) (vt : VarTable) (cs : List (VRef × VRef)) : VRef → VRef → Prop where
  | src {v : VRef} : Src vt v → Anchor reg vt cs v v
  | conv {s t : VRef} {f : Scale} : (s, t) ∈ cs → Fac reg vt (s, t) = .ok f → f ≠ [] → Anchor reg vt cs t t
  | pass {s t a : VRef} : (s, t) ∈ cs → Fac reg vt (s, t) = .ok [] → Anchor reg vt cs s a → Anchor reg vt cs t a

/-- The connection sets the work list accepts, stated without reference to any order:
    (i) no variable is the target of two connections, no variable without `in` interface is a target;
    (ii) every source is fed from a variable without `in` interface (no unfed relay, no cycle);
    (iii) the two ends of every connection have convertible units;
    (iv) among the variables that share one `assigned_to` at most one carries a cmeta id. -/
structure Resolvable (reg : Registry) (vt : VarTable) (cs : List (VRef × VRef)) : Prop where
  targets_nodup  : (cs.map Prod.snd).Nodup
  target_not_src : ∀ c ∈ cs, ¬ Src vt c.2
  fed            : ∀ c ∈ cs, Fed vt cs c.1
  units_ok       : ∀ c ∈ cs, ∃ f, Fac reg vt c = .ok f
  one_id         : ∀ v w a, Anchor reg vt cs v a → Anchor reg vt cs w a →
                     (cmeta0 vt v).isSome → (cmeta0 vt w).isSome → v = w

theorem Fed.congr {vt : VarTable} {cs cs' : List (VRef × VRef)} (h : ∀ c, c ∈ cs → c ∈ cs') {v : VRef}
    (hv : Fed vt cs v) : Fed vt cs' v := by
  induction hv with
  | src hs => exact .src hs
  | step hm _ ih => exact .step (h _ hm) ih

theorem Anchor.congr {reg : Registry} {vt : VarTable} {cs cs' : List (VRef × VRef)} (h : ∀ c, c ∈ cs → c ∈ cs')
    {v a : VRef} (hv : Anchor reg vt cs v a) : Anchor reg vt cs' v a := by
  induction hv with
  | src hs => exact .src hs
  | conv hm hf hne => exact .conv (h _ hm) hf hne
  | pass hm hf _ ih => exact .pass (h _ hm) hf ih

/-- `Resolvable` does not see the order of the connections -/
theorem Resolvable.perm {reg : Registry} {vt : VarTable} {cs cs' : List (VRef × VRef)} (hp : cs.Perm cs')
    (R : Resolvable reg vt cs) : Resolvable reg vt cs' where
  targets_nodup := (hp.map Prod.snd).nodup_iff.mp R.targets_nodup
  target_not_src := fun c hc => R.target_not_src c (hp.mem_iff.mpr hc)
  fed := fun c hc => (R.fed c (hp.mem_iff.mpr hc)).congr (fun _ h => hp.mem_iff.mp h)
  units_ok := fun c hc => R.units_ok c (hp.mem_iff.mpr hc)
  one_id := fun v w a hv hw => R.one_id v w a (hv.congr (fun _ h => hp.mem_iff.mpr h)) (hw.congr (fun _ h => hp.mem_iff.mpr h))

/-! ## 3. the extended invariant -/

/-- what holds at every iteration, whatever the connection set: the basic invariant `Inv`, plus bookkeeping of what
    was fired (as a multiset), with which factor, and where the cmeta ids are -/
structure J (reg : Registry) (vt : VarTable) (cs dq : List (VRef × VRef)) (st : CState) : Prop where
  inv     : Inv reg vt cs dq st
  perm    : (st.mapping.map swapP ++ dq).Perm cs
  src_asg : ∀ v, Src vt v → st.asg v = some v
  entry   : ∀ t s, (t, s) ∈ st.mapping →
              (Fac reg vt (s, t) = .ok [] ∧ st.asg t = st.asg s ∧ (st.asg s).isSome) ∨
              (∃ f, Fac reg vt (s, t) = .ok f ∧ f ≠ [] ∧ st.asg t = some t)
  k1      : ∀ v a, st.asg v = some a → Anchor reg vt cs v a
  k2      : ∀ a, st.asg a = some a → (cmetaOf st a).isSome → ∃ w, st.asg w = some a ∧ (cmeta0 vt w).isSome
  k3      : ∀ v, st.asg v = none → cmetaOf st v = cmeta0 vt v
  k4      : ∀ v w a, st.asg v = some a → st.asg w = some a → (cmeta0 vt v).isSome → (cmeta0 vt w).isSome → v = w
  k5      : ∀ w a, st.asg w = some a → (cmeta0 vt w).isSome → (cmetaOf st a).isSome

theorem src_lookup {vt : VarTable} {v : VRef} (h : Src vt v) : (initAssigned vt).lookup v = some v := by
  unfold Src at h
  cases hx : (initAssigned vt).lookup v with
  | none => rw [hx] at h; simp at h
  | some a => rw [initAssigned_lookup vt v a hx]

theorem J_init (reg : Registry) (vt : VarTable) (cs : List (VRef × VRef)) : J reg vt cs cs (initState vt) where
  inv := inv_init reg vt cs
  perm := by simp [initState]
  src_asg := fun v hv => src_lookup hv
  entry := by intro t s h; simp [initState] at h
  k1 := by
    intro v a h
    have e := initAssigned_lookup vt v a h
    subst e
    exact .src (by unfold Src; show ((initAssigned vt).lookup a).isSome; rw [show (initAssigned vt).lookup a = some a from h]; rfl)
  k2 := by
    intro a _ hc
    exact ⟨a, ‹_›, hc⟩
  k3 := fun _ _ => rfl
  k4 := by
    intro v w a hv hw _ _
    have e1 := initAssigned_lookup vt v a hv
    have e2 := initAssigned_lookup vt w a hw
    rw [← e1, ← e2]
  k5 := by
    intro w a hw hc
    have e := initAssigned_lookup vt w a hw
    subst e; exact hc

theorem J_requeue {reg : Registry} {vt : VarTable} {cs rest : List (VRef × VRef)} {c : VRef × VRef} {st : CState}
    (h : J reg vt cs (c :: rest) st) : J reg vt cs (rest ++ [c]) st :=
  { h with
    inv := inv_requeue h.inv
    perm := ((List.perm_append_singleton c rest).append_left _).trans h.perm }

/-- a successful iteration preserves the extended invariant -/
theorem J_step {reg : Registry} {vt : VarTable} {cs rest : List (VRef × VRef)} {s t : VRef} {st st' : CState}
    (h : J reg vt cs ((s, t) :: rest) st) (hstep : stepConn reg vt st (s, t) = .ok (some st')) :
    J reg vt cs rest st' := by
  have inv' := stepConn_some h.inv hstep
  obtain ⟨ht, a, a', hs, hmap, hasg, hkind⟩ := stepConn_shape hstep
  have hin : (s, t) ∈ cs := h.inv.dq_sub _ List.mem_cons_self
  have haa : st.asg a = some a := h.inv.asg_self s a hs
  have hat : a ≠ t := fun e => by rw [e, ht] at haa; simp at haa
  have hst : s ≠ t := fun e => by rw [e, ht] at hs; simp at hs
  have hne : ∀ v b, st.asg v = some b → v ≠ t := fun v b hv e => by rw [e, ht] at hv; simp at hv
  have hasg' : ∀ v, st'.asg v = if v = t then some a' else st.asg v := by
    intro v; simp only [CState.asg, hasg, lookup_cons]
  have hasg_old : ∀ v b, st.asg v = some b → st'.asg v = some b := by
    intro v b hv; rw [hasg', if_neg (hne v b hv)]; exact hv
  have hcm0 : cmetaOf st t = cmeta0 vt t := h.k3 t ht
  -- facts about the new cmeta map that hold in the three cases
  have hP1 : ∀ v, v ≠ a → v ≠ t → cmetaOf st' v = cmetaOf st v := by
    intro v hva hvt
    rcases hkind with ⟨_, _, _, hc⟩ | ⟨_, _, id, _, _, hc⟩ | ⟨_, _, hc⟩
    · exact hc v
    · rw [hc v, if_neg hva, if_neg hvt]
    · exact hc v
  have hP2 : ∀ b, b ≠ t → (cmetaOf st b).isSome → (cmetaOf st' b).isSome := by
    intro b hbt hb
    rcases hkind with ⟨_, _, _, hc⟩ | ⟨_, _, id, _, _, hc⟩ | ⟨_, _, hc⟩
    · rw [hc b]; exact hb
    · rw [hc b]
      by_cases hba : b = a
      · rw [if_pos hba]; rfl
      · rw [if_neg hba, if_neg hbt]; exact hb
    · rw [hc b]; exact hb
  refine ⟨inv', ?_, ?_, ?_, ?_, ?_, ?_, ?_, ?_⟩
  · -- perm
    rw [hmap]
    have : ((t, s) :: st.mapping).map swapP ++ rest = (s, t) :: (st.mapping.map swapP ++ rest) := rfl
    rw [this]
    exact (List.perm_middle.symm).trans h.perm
  · -- src_asg
    intro v hv
    exact hasg_old v v (h.src_asg v hv)
  · -- entry
    intro t' s' hm
    rw [hmap] at hm
    simp only [List.mem_cons, Prod.mk.injEq] at hm
    rcases hm with ⟨rfl, rfl⟩ | hm
    · rcases hkind with ⟨e, hf, _⟩ | ⟨e, hf, _⟩ | ⟨e, hf, _⟩
      · left; refine ⟨hf, ?_, ?_⟩
        · rw [hasg', if_pos rfl, hasg_old _ _ hs, e]
        · rw [hasg_old _ _ hs]; rfl
      · left; refine ⟨hf, ?_, ?_⟩
        · rw [hasg', if_pos rfl, hasg_old _ _ hs, e]
        · rw [hasg_old _ _ hs]; rfl
      · right
        obtain ⟨f, hf1, hf2⟩ := hf
        exact ⟨f, hf1, hf2, by rw [hasg', if_pos rfl, e]⟩
    · have ht' : t' ≠ t := by
        intro e
        have hk : t' ∈ keys st.mapping := mem_keys_of_mem hm
        have := (h.inv.asg_iff t').mpr (Or.inr hk)
        rw [e, ht] at this; simp at this
      rcases h.entry t' s' hm with ⟨hf, he, hsome⟩ | ⟨f, hf1, hf2, he⟩
      · left
        cases hx : st.asg s' with
        | none => rw [hx] at hsome; simp at hsome
        | some b =>
            refine ⟨hf, ?_, ?_⟩
            · rw [hasg', if_neg ht', he, hx, hasg_old _ _ hx]
            · rw [hasg_old _ _ hx]; rfl
      · right; exact ⟨f, hf1, hf2, hasg_old _ _ he⟩
  · -- k1
    intro v b hv
    rw [hasg'] at hv
    by_cases hvt : v = t
    · rw [if_pos hvt] at hv
      simp only [Option.some.injEq] at hv
      subst hvt
      rcases hkind with ⟨e, hf, _⟩ | ⟨e, hf, _⟩ | ⟨e, hf, _⟩
      · rw [← hv, e]; exact .pass hin hf (h.k1 s a hs)
      · rw [← hv, e]; exact .pass hin hf (h.k1 s a hs)
      · obtain ⟨f, hf1, hf2⟩ := hf
        rw [← hv, e]; exact .conv hin hf1 hf2
    · rw [if_neg hvt] at hv; exact h.k1 v b hv
  · -- k2
    intro a0 ha0 hc
    rw [hasg'] at ha0
    by_cases h0 : a0 = t
    · subst h0
      rw [if_pos rfl] at ha0
      simp only [Option.some.injEq] at ha0
      -- a' = t: case C
      rcases hkind with ⟨e, _⟩ | ⟨e, _⟩ | ⟨_, _, hcm⟩
      · exact absurd (e ▸ ha0) hat
      · exact absurd (e ▸ ha0) hat
      · refine ⟨a0, by rw [hasg', if_pos rfl, ha0], ?_⟩
        rw [← hcm0, ← hcm a0]; exact hc
    · rw [if_neg h0] at ha0
      by_cases hold : (cmetaOf st a0).isSome
      · obtain ⟨w, hw, hid⟩ := h.k2 a0 ha0 hold
        exact ⟨w, hasg_old _ _ hw, hid⟩
      · -- the id arrived in this iteration: case B with a0 = a
        rcases hkind with ⟨_, _, _, hcm⟩ | ⟨e, _, id, hct, _, hcm⟩ | ⟨_, _, hcm⟩
        · rw [hcm a0] at hc; exact absurd hc hold
        · by_cases h0a : a0 = a
          · refine ⟨t, by rw [hasg', if_pos rfl, e, h0a], ?_⟩
            rw [← hcm0, hct]; rfl
          · rw [hcm a0, if_neg h0a, if_neg h0] at hc; exact absurd hc hold
        · rw [hcm a0] at hc; exact absurd hc hold
  · -- k3
    intro v hv
    rw [hasg'] at hv
    by_cases hvt : v = t
    · rw [if_pos hvt] at hv; cases hv
    · rw [if_neg hvt] at hv
      have hva : v ≠ a := fun e => by rw [e, haa] at hv; cases hv
      rw [hP1 v hva hvt]; exact h.k3 v hv
  · -- k4
    intro v w b hv hw hiv hiw
    rw [hasg'] at hv hw
    -- the new variable `t` shares its anchor with an old annotated variable only if ...
    have key : ∀ x, st.asg x = some a' → (cmeta0 vt x).isSome → (cmeta0 vt t).isSome → False := by
      intro x hx hix hit
      rcases hkind with ⟨e, _, hct, _⟩ | ⟨e, _, id, _, hca, _⟩ | ⟨e, _⟩
      · rw [← hcm0, hct] at hit; simp at hit
      · have := h.k5 x a (e ▸ hx) hix
        rw [hca] at this; simp at this
      · have := h.inv.asg_self x a' hx
        rw [e, ht] at this; cases this
    by_cases hvt : v = t
    · by_cases hwt : w = t
      · rw [hvt, hwt]
      · exfalso
        rw [if_pos hvt] at hv; rw [if_neg hwt] at hw
        simp only [Option.some.injEq] at hv
        exact key w (hv ▸ hw) hiw (hvt ▸ hiv)
    · by_cases hwt : w = t
      · exfalso
        rw [if_pos hwt] at hw; rw [if_neg hvt] at hv
        simp only [Option.some.injEq] at hw
        exact key v (hw ▸ hv) hiv (hwt ▸ hiw)
      · rw [if_neg hvt] at hv; rw [if_neg hwt] at hw
        exact h.k4 v w b hv hw hiv hiw
  · -- k5
    intro w b hw hiw
    rw [hasg'] at hw
    by_cases hwt : w = t
    · rw [if_pos hwt] at hw
      simp only [Option.some.injEq] at hw
      rw [hwt, ← hcm0] at hiw
      rcases hkind with ⟨_, _, hct, _⟩ | ⟨e, _, id, _, _, hcm⟩ | ⟨e, _, hcm⟩
      · rw [hct] at hiw; simp at hiw
      · rw [← hw, e, hcm a, if_pos rfl]; rfl
      · rw [← hw, e, hcm t]; exact hiw
    · rw [if_neg hwt] at hw
      have hb : st.asg b = some b := h.inv.asg_self w b hw
      exact hP2 b (hne b b hb) (h.k5 w b hw hiw)

theorem J_loop {reg : Registry} {vt : VarTable} {cs : List (VRef × VRef)} :
    ∀ (dq : List (VRef × VRef)) (unch : Nat) (hu : unch ≤ dq.length) (st st' : CState),
      J reg vt cs dq st → connectLoop reg vt dq unch hu st = .ok st' → J reg vt cs [] st' := by
  intro dq unch hu st
  fun_induction connectLoop reg vt dq unch hu st with
  | case1 unch st hu _ => intro st' hj h; simp only [Except.ok.injEq] at h; subst h; exact hj
  | case2 unch st c rest hu e he _ => intro st' hj h; cases h
  | case3 unch st c rest hu he hlt _ ih => intro st' hj h; exact ih st' (J_requeue hj) h
  | case4 unch st c rest hu he hlt _ => intro st' hj h; cases h
  | case5 unch st c rest hu st1 he _ ih =>
      intro st' hj h
      obtain ⟨s, t⟩ := c
      exact ih st' (J_step hj he) h

theorem connect_J {reg : Registry} {vt : VarTable} {cs : List (VRef × VRef)} {st : CState}
    (h : connect reg vt cs = .ok st) : J reg vt cs [] st :=
  J_loop cs 0 (Nat.zero_le _) (initState vt) st (J_init reg vt cs) h

/-! ## 4. soundness: what the work list accepts is resolvable -/

theorem map_snd_swapP (m : List (VRef × VRef)) : (m.map swapP).map Prod.snd = keys m := by
  induction m with
  | nil => rfl
  | cons hd tl ih => simp only [List.map_cons, keys, swapP] at *; rw [ih]

theorem fed_of_wf {vt : VarTable} {cs : List (VRef × VRef)} : ∀ (m : List (VRef × VRef)), WF (Src vt) m →
    (∀ t s, (t, s) ∈ m → (s, t) ∈ cs) → ∀ v, (Src vt v ∨ v ∈ keys m) → Fed vt cs v
  | [], _, _, v, hv => by
      rcases hv with hv | hv
      · exact .src hv
      · simp at hv
  | (t, s) :: m, hwf, hsub, v, hv => by
      have ih := fed_of_wf m hwf.1 (fun t' s' hm => hsub t' s' (List.mem_cons_of_mem _ hm))
      rcases hv with hv | hv
      · exact .src hv
      · simp only [keys_cons, List.mem_cons] at hv
        rcases hv with rfl | hv
        · exact .step (hsub _ _ List.mem_cons_self) (ih s hwf.2.2.2)
        · exact ih v (Or.inr hv)

theorem resolvable_of_J {reg : Registry} {vt : VarTable} {cs : List (VRef × VRef)} {st : CState}
    (h : J reg vt cs [] st) : Resolvable reg vt cs := by
  have hmem : ∀ c, c ∈ cs → (c.2, c.1) ∈ st.mapping := by
    intro c hc
    rcases h.inv.conn_in c hc with hd | hm
    · simp at hd
    · exact hm
  have hperm : (st.mapping.map swapP).Perm cs := by simpa using h.perm
  have hanchor : ∀ v a, Anchor reg vt cs v a → st.asg v = some a := by
    intro v a hva
    induction hva with
    | src hs => exact h.src_asg _ hs
    | @conv s t f hm hf hne =>
        rcases h.entry t s (hmem (s, t) hm) with ⟨hf', _, _⟩ | ⟨_, _, _, he⟩
        · rw [hf] at hf'; simp only [Except.ok.injEq] at hf'; exact absurd hf' hne
        · exact he
    | @pass s t a hm hf _ ih =>
        rcases h.entry t s (hmem (s, t) hm) with ⟨_, he, _⟩ | ⟨f, hf', hne, _⟩
        · rw [he, ih]
        · rw [hf] at hf'; simp only [Except.ok.injEq] at hf'; exact absurd hf'.symm hne
  refine ⟨?_, ?_, ?_, ?_, ?_⟩
  · have := (hperm.map Prod.snd).nodup_iff.mp (by rw [map_snd_swapP]; exact h.inv.wf.keys_nodup)
    exact this
  · intro c hc
    exact h.inv.wf.key_not_src c.2 (mem_keys_of_mem (hmem c hc))
  · intro c hc
    exact fed_of_wf st.mapping h.inv.wf h.inv.map_from c.1 (h.inv.wf.val_ok c.2 c.1 (hmem c hc))
  · intro c hc
    rcases h.entry c.2 c.1 (hmem c hc) with ⟨hf, _, _⟩ | ⟨f, hf, _, _⟩
    · exact ⟨[], hf⟩
    · exact ⟨f, hf⟩
  · intro v w a hv hw hiv hiw
    exact h.k4 v w a (hanchor v a hv) (hanchor w a hw) hiv hiw

theorem resolvable_of_connect {reg : Registry} {vt : VarTable} {cs : List (VRef × VRef)} {st : CState}
    (h : connect reg vt cs = .ok st) : Resolvable reg vt cs :=
  resolvable_of_J (connect_J h)

/-! ## 5. completeness: a resolvable set is never refused, whatever the order -/

/-- a connection still in the deque has an unassigned target -/
theorem dq_target_unassigned {reg : Registry} {vt : VarTable} {cs dq : List (VRef × VRef)} {st : CState}
    (R : Resolvable reg vt cs) (h : J reg vt cs dq st) {s t : VRef} (hc : (s, t) ∈ dq) : st.asg t = none := by
  cases hx : st.asg t with
  | none => rfl
  | some b =>
      exfalso
      rcases (h.inv.asg_iff t).mp (by rw [hx]; rfl) with hsrc | hk
      · exact R.target_not_src (s, t) (h.inv.dq_sub _ hc) hsrc
      · have hnd : ((st.mapping.map swapP ++ dq).map Prod.snd).Nodup :=
          (h.perm.map Prod.snd).nodup_iff.mpr R.targets_nodup
        rw [List.map_append, map_snd_swapP] at hnd
        have hdis := (List.nodup_append.mp hnd).2.2
        exact hdis t hk t (List.mem_map.mpr ⟨(s, t), hc, rfl⟩) rfl

/-- a fed variable that has no `assigned_to` yet means some connection in the deque can fire -/
theorem progress_of_fed {reg : Registry} {vt : VarTable} {cs dq : List (VRef × VRef)} {st : CState}
    (h : J reg vt cs dq st) {v : VRef} (hf : Fed vt cs v) :
    st.asg v = none → ∃ c ∈ dq, (st.asg c.1).isSome := by
  induction hf with
  | src hs => intro hv; rw [h.src_asg _ hs] at hv; cases hv
  | @step s t hm _ ih =>
      intro hv
      cases hx : st.asg s with
      | none => exact ih hx
      | some b =>
          rcases h.inv.conn_in (s, t) hm with hd | hmap
          · exact ⟨(s, t), hd, by show (st.asg s).isSome; rw [hx]; rfl⟩
          · exfalso
            have := (h.inv.asg_iff t).mpr (Or.inr (mem_keys_of_mem hmap))
            rw [hv] at this; simp at this

/-- no iteration raises on a connection of a resolvable set -/
theorem step_no_error {reg : Registry} {vt : VarTable} {cs rest : List (VRef × VRef)} {st : CState} {s t : VRef}
    (R : Resolvable reg vt cs) (h : J reg vt cs ((s, t) :: rest) st) (e : Err) :
    stepConn reg vt st (s, t) ≠ .error e := by
  intro herr
  have hin : (s, t) ∈ cs := h.inv.dq_sub _ List.mem_cons_self
  have ht : st.asg t = none := dq_target_unassigned R h List.mem_cons_self
  obtain ⟨f, hf⟩ := R.units_ok (s, t) hin
  have hf' : Units.factor reg (unitsOf vt s) (unitsOf vt t) = .ok f := hf
  unfold stepConn at herr
  simp only [ht, Option.isSome_none, Bool.false_eq_true, if_false] at herr
  split at herr
  · cases herr
  · rename_i a hs
    rw [hf'] at herr
    simp only at herr
    split at herr
    · rename_i hf1
      subst hf1
      split at herr
      · cases herr
      · rename_i id hct
        split at herr
        · rename_i hca
          -- `a` already carries an id: some assigned `w` with anchor `a` is annotated, and so is `t`
          have haa : st.asg a = some a := h.inv.asg_self s a hs
          obtain ⟨w, hw, hiw⟩ := h.k2 a haa hca
          have hit : (cmeta0 vt t).isSome := by rw [← h.k3 t ht, hct]; rfl
          have hwa : Anchor reg vt cs w a := h.k1 w a hw
          have hta : Anchor reg vt cs t a := .pass hin hf (h.k1 s a hs)
          have := R.one_id w t a hwa hta hiw hit
          rw [this, ht] at hw; cases hw
        · cases herr
    · cases herr

/-- the loop on a resolvable set: no iteration raises, and the `assert` cannot fire because a deque whose
    connections are all waiting would contain a fed, unassigned target -/
theorem loop_complete {reg : Registry} {vt : VarTable} {cs : List (VRef × VRef)} (R : Resolvable reg vt cs) :
    ∀ (dq : List (VRef × VRef)) (unch : Nat) (hu : unch ≤ dq.length) (st : CState),
      J reg vt cs dq st →
      (∃ pre suf, dq = pre ++ suf ∧ suf.length = unch ∧ ∀ c ∈ suf, st.asg c.1 = none) →
      ∃ st', connectLoop reg vt dq unch hu st = .ok st' := by
  intro dq unch hu st
  fun_induction connectLoop reg vt dq unch hu st with
  | case1 unch st hu _ => intro _ _; exact ⟨st, rfl⟩
  | case2 unch st c rest hu e he _ =>
      intro hj _
      obtain ⟨s, t⟩ := c
      exact absurd he (step_no_error R hj e)
  | case3 unch st c rest hu he hlt _ ih =>
      intro hj hsuf
      obtain ⟨s, t⟩ := c
      have hblocked : st.asg s = none := stepConn_none he
      apply ih (J_requeue hj)
      obtain ⟨pre, suf, hdq, hlen, hall⟩ := hsuf
      cases pre with
      | nil =>
          exfalso
          simp only [List.nil_append] at hdq
          rw [← hdq] at hlen
          simp only [List.length_append, List.length_cons, List.length_nil] at hlt hlen
          omega
      | cons p pre' =>
          simp only [List.cons_append, List.cons.injEq] at hdq
          refine ⟨pre', suf ++ [(s, t)], ?_, ?_, ?_⟩
          · rw [hdq.2, List.append_assoc]
          · simp [hlen]
          · intro c hc
            simp only [List.mem_append, List.mem_singleton] at hc
            rcases hc with hc | rfl
            · exact hall c hc
            · exact hblocked
  | case4 unch st c rest hu he hlt _ =>
      intro hj hsuf
      exfalso
      obtain ⟨s, t⟩ := c
      have hblocked : st.asg s = none := stepConn_none he
      obtain ⟨pre, suf, hdq, hlen, hall⟩ := hsuf
      -- every connection of the deque is waiting
      have hall' : ∀ c ∈ (s, t) :: rest, st.asg c.1 = none := by
        have hl : pre.length = 0 := by
          have := congrArg List.length hdq
          simp only [List.length_append, List.length_cons] at this hlt hu
          omega
        have : pre = [] := List.eq_nil_of_length_eq_zero hl
        subst this
        simp only [List.nil_append] at hdq
        rw [hdq]; exact hall
      have ht : st.asg t = none := dq_target_unassigned R hj List.mem_cons_self
      have hin : (s, t) ∈ cs := hj.inv.dq_sub _ List.mem_cons_self
      have hfed : Fed vt cs t := .step hin (R.fed (s, t) hin)
      obtain ⟨c, hc, hsome⟩ := progress_of_fed hj hfed ht
      rw [hall' c hc] at hsome; simp at hsome
  | case5 unch st c rest hu st1 he _ ih =>
      intro hj _
      obtain ⟨s, t⟩ := c
      exact ih (J_step hj he) ⟨rest, [], by simp, rfl, by simp⟩

theorem connect_of_resolvable {reg : Registry} {vt : VarTable} {cs : List (VRef × VRef)} (R : Resolvable reg vt cs) :
    ∃ st, connect reg vt cs = .ok st :=
  loop_complete R cs 0 (Nat.zero_le _) (initState vt) (J_init reg vt cs) ⟨cs, [], by simp, rfl, by simp⟩

/-- THE CHARACTERISATION: the work list succeeds exactly on the resolvable connection sets -/
theorem connect_ok_iff_resolvable' (reg : Registry) (vt : VarTable) (cs : List (VRef × VRef)) :
    (∃ st, connect reg vt cs = .ok st) ↔ Resolvable reg vt cs :=
  ⟨fun ⟨_, h⟩ => resolvable_of_connect h, connect_of_resolvable⟩

end Load
