/-! Spike for C08: the three views of the equation set (list, variable-definition map, ODE map),
    `add_equation` as written today (append first, validate later) and as repaired, the invariant,
    atomicity.  Right-hand sides are irrelevant here and omitted. -/

inductive Lhs | var (v : Nat) | deriv (s t : Nat) (order : Nat) | other
deriving DecidableEq, Repr

structure Eqn where
  id  : Nat            -- identity token of the equation object
  lhs : Lhs
deriving DecidableEq, Repr

structure M where
  eqs    : List Eqn
  varDef : List (Nat × Nat)     -- variable ↦ equation id
  odeDef : List (Nat × Nat)
  cached : Bool                 -- a graph is cached
deriving DecidableEq, Repr

inductive Out | ok | valueError deriving DecidableEq, Repr

def defined (m : M) (v : Nat) : Bool := (m.varDef.lookup v).isSome || (m.odeDef.lookup v).isSome

/-- `Model.add_equation` (check_duplicates = True) as written today: the equation is appended to the
    list before the duplicate / left-hand-side checks that may raise -/
def addEquationToday (m : M) (e : Eqn) : M × Out :=
  match e.lhs with
  | .deriv s _ order =>
      if order > 1 then (m, .valueError)
      else if defined m s then ({ m with eqs := m.eqs ++ [e] }, .valueError)
      else ({ m with eqs := m.eqs ++ [e], odeDef := (s, e.id) :: m.odeDef, cached := false }, .ok)
  | .var v =>
      if defined m v then ({ m with eqs := m.eqs ++ [e] }, .valueError)
      else ({ m with eqs := m.eqs ++ [e], varDef := (v, e.id) :: m.varDef, cached := false }, .ok)
  | .other => ({ m with eqs := m.eqs ++ [e] }, .valueError)

/-- repaired: validate first, then touch the model -/
def addEquation (m : M) (e : Eqn) : M × Out :=
  match e.lhs with
  | .deriv s _ order =>
      if order > 1 then (m, .valueError)
      else if defined m s then (m, .valueError)
      else ({ m with eqs := m.eqs ++ [e], odeDef := (s, e.id) :: m.odeDef, cached := false }, .ok)
  | .var v =>
      if defined m v then (m, .valueError)
      else ({ m with eqs := m.eqs ++ [e], varDef := (v, e.id) :: m.varDef, cached := false }, .ok)
  | .other => (m, .valueError)

/-- the maps are exactly what the equation list says -/
def Coherent (m : M) : Prop :=
  (∀ v i, (v, i) ∈ m.varDef ↔ ∃ e ∈ m.eqs, e.id = i ∧ e.lhs = .var v) ∧
  (∀ s i, (s, i) ∈ m.odeDef ↔ ∃ e ∈ m.eqs, e.id = i ∧ ∃ t o, e.lhs = .deriv s t o)

def empty : M := ⟨[], [], [], false⟩

/-- today: a rejected edit changes the model — concrete witness, no axioms -/
theorem today_not_atomic :
    let m := (addEquationToday empty ⟨0, .var 7⟩).1
    (addEquationToday m ⟨1, .var 7⟩).2 = .valueError ∧ (addEquationToday m ⟨1, .var 7⟩).1 ≠ m := by
  decide

/-- repaired: every rejected edit leaves the model exactly as it was, for every model and equation -/
theorem fixed_atomic (m : M) (e : Eqn) (h : (addEquation m e).2 = .valueError) :
    (addEquation m e).1 = m := by
  unfold addEquation at *
  cases hl : e.lhs with
  | deriv s t o =>
      simp only [hl] at h ⊢
      by_cases ho : o > 1 <;> by_cases hd : defined m s = true <;> simp_all
  | var v =>
      simp only [hl] at h ⊢
      by_cases hd : defined m v = true <;> simp_all
  | other => simp

/-- repaired: the invariant is preserved by accepted edits -/
theorem fixed_inv (m : M) (e : Eqn) (hinv : Coherent m) (hfresh : ∀ e' ∈ m.eqs, e'.id ≠ e.id) :
    Coherent (addEquation m e).1 := by
  obtain ⟨hv, ho⟩ := hinv
  unfold addEquation
  split
  · rename_i s t order heq
    split
    · exact ⟨hv, ho⟩
    · split
      · exact ⟨hv, ho⟩
      · refine ⟨?_, ?_⟩
        · intro v i; simp only [List.mem_append, List.mem_cons, List.not_mem_nil, or_false]
          rw [hv]; constructor
          · rintro ⟨e', he', h1, h2⟩; exact ⟨e', Or.inl he', h1, h2⟩
          · rintro ⟨e', he' | he', h1, h2⟩
            · exact ⟨e', he', h1, h2⟩
            · subst he'; rw [heq] at h2; cases h2
        · intro s' i; simp only [List.mem_cons, List.mem_append, List.not_mem_nil, or_false, Prod.mk.injEq]
          constructor
          · rintro (⟨rfl, rfl⟩ | hmem)
            · exact ⟨e, Or.inr rfl, rfl, t, order, heq⟩
            · obtain ⟨e', he', h1, h2⟩ := (ho s' i).mp hmem; exact ⟨e', Or.inl he', h1, h2⟩
          · rintro ⟨e', he' | he', h1, t', o', h2⟩
            · exact Or.inr ((ho s' i).mpr ⟨e', he', h1, t', o', h2⟩)
            · subst he'; rw [heq] at h2; cases h2; exact Or.inl ⟨rfl, h1.symm⟩
  · rename_i v heq
    split
    · exact ⟨hv, ho⟩
    · refine ⟨?_, ?_⟩
      · intro v' i; simp only [List.mem_cons, List.mem_append, List.not_mem_nil, or_false, Prod.mk.injEq]
        constructor
        · rintro (⟨rfl, rfl⟩ | hmem)
          · exact ⟨e, Or.inr rfl, rfl, heq⟩
          · obtain ⟨e', he', h1, h2⟩ := (hv v' i).mp hmem; exact ⟨e', Or.inl he', h1, h2⟩
        · rintro ⟨e', he' | he', h1, h2⟩
          · exact Or.inr ((hv v' i).mpr ⟨e', he', h1, h2⟩)
          · subst he'; rw [heq] at h2; cases h2; exact Or.inl ⟨rfl, h1.symm⟩
      · intro s' i; simp only [List.mem_append, List.mem_cons, List.not_mem_nil, or_false]
        rw [ho]; constructor
        · rintro ⟨e', he', h1, h2⟩; exact ⟨e', Or.inl he', h1, h2⟩
        · rintro ⟨e', he' | he', h1, t', o', h2⟩
          · exact ⟨e', he', h1, t', o', h2⟩
          · subst he'; rw [heq] at h2; cases h2
  · exact ⟨hv, ho⟩

#print axioms today_not_atomic
#print axioms fixed_atomic
