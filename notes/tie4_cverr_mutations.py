"""Detection check for the group ConvertVarE (TIE_GUIDE.md, item 5): single semantic edits of cellmlmanip/model.py in a
scratch worktree; after each: translate the group from the worktree, build the tie / property modules - must FAIL;
at the end regenerate from /repo - must build.
Run from the copy: /venv/bin/python notes/tie4_cverr_mutations.py"""
import os
import subprocess
import sys

HERE = os.path.dirname(os.path.dirname(os.path.abspath(__file__)))
WT = '/tmp/fix3-wt-CvErr'
TARGETS = ['Cellml.Tie.ConvertVarE', 'Cellml.Tie.ConvertVarERefine', 'Cellml.Props.C06GenE']

EDITS = [
    ('E1 loop assert compares with new_variable',
     'assert ode.args[0].args[1].args[0] == original_variable, "Can only',
     'assert ode.args[0].args[1].args[0] == new_variable, "Can only'),
    ('E2 loop assert moved AFTER the conversion of the ode (state at the raise changes, class does not)',
     '''                assert ode.args[0].args[1].args[0] == original_variable, "Can only have 1 free variable in the model"
                derivative_replacements.update(self._convert_free_variable_deriv(ode, new_variable, cf))''',
     '''                derivative_replacements.update(self._convert_free_variable_deriv(ode, new_variable, cf))
                assert ode.args[0].args[1].args[0] == original_variable, "Can only have 1 free variable in the model"'''),
    ('E3 except KeyError instead of ValueError around get_free_variable',
     '''        except ValueError:
            # No free variable, so don't need to worry about ODE conversion''',
     '''        except KeyError:
            # No free variable, so don't need to worry about ODE conversion'''),
    ('E4 _remove_ode…: add_equation before remove_equation (state at a KeyError changes)',
     '''        self.remove_equation(original_ode)
        self.add_equation(expression)''',
     '''        self.add_equation(expression)
        self.remove_equation(original_ode)'''),
    ('E5 first assert raises ValueError instead (class changes, nothing else)',
     '''        assert original_variable.name in self._name_to_variable''',
     '''        if original_variable.name not in self._name_to_variable:
            raise ValueError('not in model')
        assert True'''),
    ('E6 _replace_references…: add the rewritten equation before removing the old one',
     '''                self.remove_equation(equation)
                self.add_equation(equation.xreplace(derivative_replacement_map))''',
     '''                self.add_equation(equation.xreplace(derivative_replacement_map))
                self.remove_equation(equation)'''),
]


def sh(cmd, **kw):
    return subprocess.run(cmd, shell=True, stdout=subprocess.PIPE, stderr=subprocess.STDOUT, text=True, **kw)


def build():
    r = sh('cd %s/lean && lake build %s' % (HERE, ' '.join(TARGETS)))
    return r.returncode == 0, r.stdout


def translate(repo):
    r = sh('cd %s && CELLML_REPO=%s /venv/bin/python harness/translate_code.py ConvertVarE' % (HERE, repo))
    return r.stdout.strip().splitlines()[-1]


def main():
    sh('git -C /repo worktree remove --force %s' % WT)
    r = sh('git -C /repo worktree add --detach %s HEAD' % WT)
    assert r.returncode == 0, r.stdout
    path = os.path.join(WT, 'cellmlmanip/model.py')
    orig = open(path).read()
    bad = 0
    try:
        for name, old, new in EDITS:
            assert orig.count(old) == 1, (name, orig.count(old))
            open(path, 'w').write(orig.replace(old, new))
            tr = translate(WT)
            ok, out = build()
            first = [l for l in out.splitlines() if l.startswith('error:')][:1]
            print('%-100s translate: %s | build %s %s' % (name, tr, 'PASSES (NOT DETECTED)' if ok else 'fails',
                                                         first[0][:90] if first else ''))
            bad += ok
            open(path, 'w').write(orig)
    finally:
        sh('git -C /repo worktree remove --force %s' % WT)
        tr = translate('/repo')
        ok, out = build()
        print('regenerated from /repo: translate: %s | build %s' % (tr, 'passes' if ok else 'FAILS'))
        if not ok:
            print(out[-2000:])
            bad += 1
    sys.exit(1 if bad else 0)


main()
