import Cellml.Tie.UnitDefs
import Cellml.Tie.GenBIso
import Cellml.Units.WorklistComplete

/-! # GenB: the two tie packages meet — the leaf `add_unit` of the generated `_add_units` IS the generated
    `UnitStore.add_unit`, on the work list's own domain

    The body of the `while` loop of `Parser._add_units` (`Gen.UnitDefs.addUnitsBody`) calls
    `self.model.units.add_unit(name, definition)`; the spec of that group binds the call to the leaf
    `PUnitDefs.addUnitLeaf`. `UnitStore.add_unit` itself is translated in the group `Units` (`Gen.Units.addUnit`) and tied
    to the same hand model by `addUnit_tie`, with the domain hypotheses `hdef`, `hsup`, `hz`. This file composes the two:
    whenever every unit the definition mentions is in the registry (what the work list has checked before it calls
    `add_unit`: `units_found`, `Units.refsResolve`), `hz` holds, and the leaf returns exactly what the generated method
    does to the store object. What remains of the domain is `hdef` / `hsup` — where the hand model abstains
    (`unsupported`: a multiplier ≤ 0; `dimensionless` mixed with dimensional units) and the leaf, which is defined by
    the hand model, abstains with it. -/

set_option linter.unusedSimpArgs false

namespace Cellml.Tie.PGenB
open Units PMap Cellml.Gen Cellml.Tie Cellml.Tie.PUnits

/-- inside the work list `hz` of `addUnit_tie` is implied: all references resolve ⇒ no unknown name, with or
    without normalisation -/
theorem hz_of_refsResolve (reg : Registry) (st : Store) (d : UDef) (k : Scale) (c : Container) (md : Bool)
    (hdef : defMeaning st.id d.elems = .ok (k, c, md)) (hres : refsResolve reg st d = true) :
    allKnown reg c = allKnown reg (norm c) := by
  have hk : allKnown reg c = true :=
    defMeaning_allKnown d.elems k c md hdef (fun e he => List.all_eq_true.mp hres e he)
  rw [hk, allKnown_norm hk]

theorem addUnit_not_unsupported (reg : Registry) (st : Store) (name : String) (elems : List UnitElem) (k : Scale)
    (c : Container) (md : Bool) (hdef : defMeaning st.id elems = .ok (k, c, md))
    (hsup : ¬ (norm c ≠ [] ∧ md = true)) (e : AddErr) (h : Units.addUnit reg st name elems = .error e) :
    PUnitDefs.addErrClass e = PUnits.addErrClass e := by
  unfold Units.addUnit at h
  rw [hdef] at h
  simp only at h
  split at h
  · cases h; rfl
  · split at h
    · cases h; rfl
    · split at h
      · cases h; rfl
      · split at h
        · cases h; rfl
        · split at h
          · cases h
          · split at h
            · rename_i h5 h6
              exact absurd ⟨h5, h6⟩ hsup
            · cases h

/-- **composition of the ties**: the leaf the generated work list calls = the generated `UnitStore.add_unit` run on
    the store object, read back (`registry definitions, model store`) — same result, same exception class -/
theorem addUnitLeaf_generated (reg : Registry) (st : Store) (d : UDef)
    (hoff : d.elems.any elemOffsetBad = false) (k : Scale) (c : Container) (md : Bool)
    (hdef : defMeaning st.id d.elems = .ok (k, c, md)) (hsup : ¬ (norm c ≠ [] ∧ md = true))
    (hres : refsResolve reg st d = true) :
    PUnitDefs.addUnitLeaf (reg, st) d.name ⟨d.elems.map PUnitDefs.elemExpr⟩ =
      (Gen.Units.addUnit (storeObj st reg []) d.name ⟨d.elems, id⟩).map
        (fun r => (r.1._registry.defs, storeOfObj r.1)) := by
  rw [addUnit_tie st reg [] d.name d.elems k c md hdef hsup (hz_of_refsResolve reg st d k c md hdef hres)]
  have h5 : ((d.elems.map PUnitDefs.elemExpr).all
      fun e => e.names.all fun n => allKnown reg (nameContainer (mangle st.id n))) = refsResolve reg st d := by
    simp [refsResolve, List.all_map, Function.comp_def, PUnitDefs.elemExpr_names]
  have hleaf : PUnitDefs.addUnitLeaf (reg, st) d.name ⟨d.elems.map PUnitDefs.elemExpr⟩ =
      errClass PUnitDefs.addErrClass (Units.addUnit reg st d.name d.elems) := by
    unfold PUnitDefs.addUnitLeaf
    simp only [h5, hres, Bool.not_true, Bool.false_eq_true, if_false]
    rw [PUnitDefs.denAll_map _ _ hoff, ← PUnitDefs.addUnit_eq_with]
    congr 1
    unfold Units.addUnit
    rw [hdef]
    simp only
    split
    · rfl
    · split
      · rfl
      · split
        · rfl
        · rfl
  rw [hleaf]
  cases hr : Units.addUnit reg st d.name d.elems with
  | ok r =>
    obtain ⟨reg', st'⟩ := r
    simp [errClass, Except.map, added, storeObj, storeOfObj, userNames_append]
  | error e =>
    simp only [errClass, Except.map, addUnit_not_unsupported reg st d.name d.elems k c md hdef hsup e hr]

/-- **the property's own hypothesis implies the tie domain**: whenever an `add_now` step of the work list SUCCEEDS
    (as every step does under the hypothesis `… = .ok (reg, st)` of `worklist_sound_partial` / `worklist_perm_partial`),
    the call `add_unit(name, definition)` it makes is inside the domain of `addUnit_tie` (`hdef`, `hsup`, `hz` all hold),
    and the new unit store is exactly what the GENERATED `UnitStore.add_unit` produces from the store object -/
theorem addNow_ok_generated (reg : Registry) (st : Store) (d : UDef) (r : Registry × Store)
    (h : addNow reg st d = .ok r) :
    (Gen.Units.addUnit (storeObj st reg []) d.name ⟨d.elems, id⟩).map
      (fun o => (o.1._registry.defs, storeOfObj o.1)) = .ok r := by
  obtain ⟨hoff, _, _, hres, hadd⟩ := addNow_ok h
  obtain ⟨k, c, md, hdef, _, _, _, _, hmd, _⟩ := Units.addUnit_ok hadd
  have hsup : ¬ (norm c ≠ [] ∧ md = true) := fun hh => hh.1 (hmd hh.2)
  rw [← addUnitLeaf_generated reg st d hoff k c md hdef hsup hres]
  have hn := PUnitDefs.addNow_tie reg st d
  rw [h, PUnitDefs.makeDef_tie, hoff] at hn
  have hdup : PUnitDefs.isDefined (reg, st) d.name = false := by
    cases hx : PUnitDefs.isDefined (reg, st) d.name with
    | false => rfl
    | true => simp [hx, bind, Except.bind, throw, throwThe, MonadExceptOf.throw, errClass] at hn
  simpa [hdup, bind, Except.bind, errClass] using hn

end Cellml.Tie.PGenB
