import Cellml.C11.SemMain2

/-! C11 — `print_means`, part 7: products, and the induction. -/
namespace C11
set_option linter.unusedSimpArgs false
variable {K : Type} [Field K] (S : Sem K)

theorem sem1_mk (g : E) (hw : wf .A g = true) (hl : isList g = false) (hst : (pr g).st = .ok)
    (ht : T S g) (hk : ∀ c ∈ kids g, T S c) : Sem1 S (mk g).one := by
  have r : (evD S (pr g).doc).num = (ev S g).num := T_elim S g ht hl .A hw hst
  refine ⟨r, ?_⟩
  intro b x he
  simp only [mk, Item.one] at he
  subst he
  simp only [mk, Item.one, pow_base]
  simp only [wf, Bool.and_eq_true, beq_iff_eq, Bool.not_eq_true'] at hw
  have hs := pow_st b x hst
  exact T_elim S b (hk b (by simp [kids])) hw.1.1.1.2 .A hw.1.2 hs.1

theorem semItem_mk (h : E) (hw : wf .A h = true) (hl : isList h = false) (hst : (pr h).st = .ok)
    (hd : DeepT S h) : SemItem S (mk h) := by
  refine ⟨sem1_mk S h hw hl hst hd.1 (fun c hc => (hd.2 c hc).1), ?_⟩
  intro hm
  cases h <;> simp [isMul, mk] at hm
  case mul a =>
    simp only [wf, Bool.and_eq_true, beq_iff_eq] at hw
    have hp := proper_of_wf .A a hw.1.2 hw.2
    have hsub : (mk (.mul a)).sub = (toList a).map (fun g => (mk g).one) := by
      simp only [mk, mul_items, items_list a hp, List.map_map]; rfl
    rw [hsub]
    refine ⟨?_, ?_⟩
    · intro f hf
      simp only [List.mem_map] at hf
      obtain ⟨g, hg, rfl⟩ := hf
      have hwg := wf_list .A a hw.2 g hg
      have hsg := st_list a hp (mul_st a hst) g hg
      have hdg := hd.2 g (by simp [kids, hg])
      exact sem1_mk S g hwg.1 hwg.2 hsg hdg.1 hdg.2
    · simp only [vals, List.map_map, mk, ev, (ev_nums_list S a hp).1]; rfl

theorem T_mul (hL : Laws S) (a : E) (ht : ∀ h ∈ toList a, DeepT S h) : T S (.mul a) := by
  refine Or.inr (fun s hw hst => ?_)
  simp only [wf, Bool.and_eq_true, beq_iff_eq] at hw
  obtain ⟨⟨rfl, hl⟩, hwa⟩ := hw
  have hsa := mul_st a hst
  have hp := proper_of_wf .A a hl hwa
  have hf := items_facts a .A hl hwa hsa (fun h _ => (all_M h).1.1)
  have hgood : ∀ i ∈ (pr a).items, GoodItem i := by
    rw [hf.1]; intro i hi; simp only [List.mem_map] at hi
    obtain ⟨h, hh, rfl⟩ := hi
    have := hf.2 h hh
    exact goodItem_mk h this.1 this.2.1 this.2.2.1 ((all_M a).2 h hh)
  have hsem : ∀ i ∈ (pr a).items, SemItem S i := by
    rw [hf.1]; intro i hi; simp only [List.mem_map] at hi
    obtain ⟨h, hh, rfl⟩ := hi
    have := hf.2 h hh
    exact semItem_mk S h this.1 this.2.1 this.2.2.1 (ht h hh)
  show (evD S (pr (.mul a)).doc).num = (ev S (.mul a)).num
  simp only [pr] at hst ⊢
  split at hst
  · cases hst
  next sg fs hmi =>
    simp only [hmi]
    have h1 := mulItems_sem S hL _ hgood hsem sg fs hmi
    have h2 := mulDoc_num S hL sg fs (mulItems_good _ hgood sg fs hmi) h1.1
    rw [h2, h1.2, hf.1]
    simp only [itemVals, List.map_map, ev, (ev_nums_list S a hp).1]; rfl

/-- every node: the emitted code means what the expression means -/
theorem all_MT (hL : Laws S) (e : E) : MT S e := by
  induction e with
  | sym n c =>
      refine MT_of_leaf S _ (Or.inr (fun s hw _ => ?_)) rfl rfl
      cases s
      · rfl
      · exact ⟨rfl, rfl⟩
      · simp [wf] at hw
  | int n => exact MT_of_leaf S _ (T_num S hL _ rfl rfl) rfl rfl
  | rat p q => exact MT_of_leaf S _ (T_num S hL _ rfl rfl) rfl rfl
  | flt t n => exact MT_of_leaf S _ (T_num S hL _ rfl rfl) rfl rfl
  | pi => exact MT_of_leaf S _ (T_leafA S _ (by intro s h; simpa [wf] using h) rfl) rfl rfl
  | e1 => exact MT_of_leaf S _ (T_leafA S _ (by intro s h; simpa [wf] using h) rfl) rfl rfl
  | deriv x t => exact MT_of_leaf S _ (T_leafA S _ (by intro s h; simpa [wf] using h) rfl) rfl rfl
  | tt =>
      refine MT_of_leaf S _ (Or.inr (fun s hw _ => ?_)) rfl rfl
      have : s = .B := by simpa [wf] using hw
      subst this
      exact ⟨hL.true_num, hL.true_bool⟩
  | ff =>
      refine MT_of_leaf S _ (Or.inr (fun s hw _ => ?_)) rfl rfl
      have : s = .B := by simpa [wf] using hw
      subst this
      exact ⟨hL.false_num, hL.false_bool⟩
  | other w =>
      refine MT_of_leaf S _ (Or.inr (fun s _ hs => ?_)) rfl rfl
      simp [pr] at hs
  | add a ih => exact MT_of_leaf S _ (T_add S a (fun h hh => (ih.2 h hh).1)) rfl rfl
  | and a ih => exact MT_of_leaf S _ (T_and S a (fun h hh => (ih.2 h hh).1)) rfl rfl
  | or a ih => exact MT_of_leaf S _ (T_or S a (fun h hh => (ih.2 h hh).1)) rfl rfl
  | fn name a ih => exact MT_of_leaf S _ (T_fn S hL name a (fun h hh => (ih.2 h hh).1)) rfl rfl
  | pw ps ih => exact MT_of_leaf S _ (T_pw S ps (fun h hh => (ih.2 h hh).1)) rfl rfl
  | rel r a b iha ihb => exact MT_of_leaf S _ (T_rel S r a b iha.1.1 ihb.1.1) rfl rfl
  | mul a ih =>
      refine ⟨⟨T_mul S hL a ih.2, ?_⟩, by intro h hh; simp [toList] at hh⟩
      intro c hc; exact ⟨(ih.2 c hc).1, fun c' hc' => ((ih.2 c hc).2 c' hc').1⟩
  | pow b x ihb ihx =>
      refine ⟨⟨T_pow S hL b x ihb.1.1 ihx.1.1, ?_⟩, by intro h hh; simp [toList] at hh⟩
      intro c hc; simp only [kids, List.mem_singleton] at hc; subst hc
      exact ⟨ihb.1.1, fun c' hc' => (ihb.1.2 c' hc').1⟩
  | pair v c ihv ihc =>
      refine ⟨⟨T_pair S v c ihv.1.1 ihc.1.1, ?_⟩, by intro h hh; simp [toList] at hh⟩
      intro k hk; simp only [kids, List.mem_cons, List.mem_singleton, List.not_mem_nil, or_false] at hk
      rcases hk with rfl | rfl
      · exact ⟨ihv.1.1, fun c' hc' => (ihv.1.2 c' hc').1⟩
      · exact ⟨ihc.1.1, fun c' hc' => (ihc.1.2 c' hc').1⟩
  | nil => exact MT_of_leaf S _ (Or.inl rfl) rfl rfl
  | cons h t ihh iht =>
      refine ⟨⟨Or.inl rfl, by intro c hc; simp [kids] at hc⟩, ?_⟩
      intro x hx; simp only [toList, List.mem_cons] at hx
      rcases hx with rfl | hx
      · exact ihh.1
      · exact iht.2 x hx

end C11
