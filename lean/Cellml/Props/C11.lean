/-! Property theorems for C11 (not built yet). -/
