import Cellml.Basic.Sexp
import Cellml.C18.Model

/-! Channel C18 of the model driver.

    request  `(C18 fixed|today (stores r0 r1 …) (snaps (snap M0 M1 …) …) (factory ARG …))`
             `Mi = (m OP (new CREATOR …) (eqs SHAPE …))`          what model `i` of the process looked like after the step
             `OP = load | userEdit | (conv one|number|incompatible in|out state|free|other nOdes) | sing | fix | rmEq | idle`
             `CREATOR = cnLiteral | … | singQuantity | (raw string | missing | (foreign r) | (store r))`
             `SHAPE = (k j) | (a i …)`
    reply    `((snaps (snap R0 R1 …) …) (factory RES …))`
             `Ri = (ok (cls (c …) …) (expect CREATOR …) (loaderq n|any …))` or `(rejected)`;
             `c = s` unit of the store, `b` bare string, `f` foreign, `m` missing, `x` no such object -/
namespace C18
open Sexp

def variant? : Sexp → Option Variant
  | .atom "fixed" => some .fixed
  | .atom "today" => some .today
  | _ => none

def ref? : Sexp → Option UnitRef
  | .atom "string" => some .bareString
  | .atom "missing" => some .missing
  | .list [.atom "foreign", r] => do some (.foreign (← nat? r))
  | .list [.atom "store", r] => do some (.ofStore (← nat? r))
  | _ => none

def creator? : Sexp → Option Creator
  | .atom "cnLiteral" => some .cnLiteral
  | .atom "connFactor" => some .connFactor
  | .atom "transformConst" => some .transformConst
  | .atom "loaderVariable" => some .loaderVariable
  | .atom "factoryQuantity" => some .factoryQuantity
  | .atom "newVariable" => some .newVariable
  | .atom "convFactor" => some .convFactor
  | .atom "convVariable" => some .convVariable
  | .atom "origDerivVariable" => some .origDerivVariable
  | .atom "maybeConvert" => some .maybeConvert
  | .atom "singQuantity" => some .singQuantity
  | .list [.atom "raw", r] => do some (.raw (← ref? r))
  | _ => none

def creatorSx : Creator → Sexp
  | .cnLiteral => .atom "cnLiteral" | .connFactor => .atom "connFactor" | .transformConst => .atom "transformConst"
  | .loaderVariable => .atom "loaderVariable" | .factoryQuantity => .atom "factoryQuantity"
  | .newVariable => .atom "newVariable" | .convFactor => .atom "convFactor" | .convVariable => .atom "convVariable"
  | .origDerivVariable => .atom "origDerivVariable" | .maybeConvert => .atom "maybeConvert"
  | .singQuantity => .atom "singQuantity" | .raw _ => .atom "raw"

def cf? : Sexp → Option CF
  | .atom "one" => some .one | .atom "number" => some .number | .atom "incompatible" => some .incompatible
  | _ => none

def dir? : Sexp → Option Dir
  | .atom "in" => some .input | .atom "out" => some .output | _ => none

def role? : Sexp → Option Role
  | .atom "state" => some .state | .atom "free" => some .free | .atom "other" => some .other | _ => none

def op? : Sexp → Option Op
  | .atom "load" => some .load
  | .atom "userEdit" => some .userEdit
  | .atom "sing" => some .removeSingularities
  | .atom "fix" => some .fixWriteBack
  | .atom "rmEq" => some .removeEquation
  | .atom "idle" => some .idle
  | .list [.atom "conv", c, d, r, n] => do some (.convertVariable (← cf? c) (← dir? d) (← role? r) (← nat? n))
  | _ => none

def shape? : Sexp → Option EqShape
  | .list [.atom "k", j] => do some (.keep (← nat? j))
  | .list (.atom "a" :: ids) => do some (.atoms (← ids.mapM nat?))
  | _ => none

def mstep? : Sexp → Option Step
  | .list [.atom "m", op, .list (.atom "new" :: cs), .list (.atom "eqs" :: es)] => do
      some { op := (← op? op), creates := (← cs.mapM creator?), eqs := (← es.mapM shape?) }
  | _ => none

def arg? : Sexp → Option UnitArg
  | .atom "own" => some .ownUnit | .atom "shared" => some .sharedUnit | .atom "name" => some .knownName
  | .atom "unknown" => some .unknownName | .atom "none" => some .noneArg
  | .list [.atom "foreign", r] => do some (.foreignUnit (← nat? r))
  | _ => none

def classSx (sid : Nat) : Option UnitRef → Sexp
  | some (.ofStore r) => .atom (if r = sid then "s" else "f")
  | some .bareString => .atom "b"
  | some (.foreign _) => .atom "f"
  | some .missing => .atom "m"
  | none => .atom "x"

def expectSx : Op → Sexp
  | .convertVariable c d r n => .list (.atom "expect" :: (convertCreates c d r n).map creatorSx)
  | .removeEquation => .list [.atom "expect"]
  | .idle => .list [.atom "expect"]
  | _ => .list [.atom "expect", .atom "any"]

def isLoaderQuantity : Creator → Bool
  | .cnLiteral | .connFactor | .transformConst => true
  | _ => false

/-- does a loaded equation hold as many quantities as its origin allows (pool was empty before the load)? -/
def loaderEqOk (creates : List Creator) (e : List Nat) : Bool :=
  let qs := (e.filterMap (fun i => creates[i]?)).filter isLoaderQuantity
  match qs.head? with
  | some c => match loaderQuantities c with
              | some n => qs.length == n && qs.all (· == c)
              | none => qs.all (· == c)
  | none => true

def answer (v : Variant) (s : MState) (st : Step) : MState × Sexp :=
  if st.ok s then
    let s' := step v s st
    (s', .list [.atom "ok",
                .list (.atom "cls" :: (classes s').map (fun e => .list (e.map (classSx s'.storeId)))),
                expectSx st.op,
                .list (.atom "loaderq" :: (if st.op = .load then s'.eqs.map (fun e => ofBool (loaderEqOk st.creates e))
                                           else []))])
  else (s, .list [.atom "rejected"])

def snap (v : Variant) (w : World) (ms : List Step) : World × List Sexp :=
  let rec go (w : World) (i : Nat) : List Step → List Sexp → World × List Sexp
    | [], acc => (w, acc.reverse)
    | st :: rest, acc =>
        match w[i]? with
        | some s =>
            let (s', r) := answer v s st
            go (w.set i s') (i + 1) rest (r :: acc)
        | none => go w (i + 1) rest (.atom "no-such-model" :: acc)
  go w 0 ms []

def snaps (v : Variant) (w : World) : List (List Step) → List Sexp → List Sexp
  | [], acc => acc.reverse
  | ms :: rest, acc =>
      let (w', rs) := snap v w ms
      snaps v w' rest (.list (.atom "snap" :: rs) :: acc)

def factorySx (sid : Nat) (a : UnitArg) : Sexp :=
  match createQuantity sid a with
  | .ok r => .list [.atom "ok", classSx sid (some r)]
  | .error .keyError => .list [.atom "raised", .atom "KeyError"]

def handle (args : List Sexp) : Sexp :=
  match args with
  | [v, .list (.atom "stores" :: rs), .list (.atom "snaps" :: ss), .list (.atom "factory" :: fs)] =>
      match variant? v, rs.mapM nat?, ss.mapM (fun s => match s with
                                                 | .list (.atom "snap" :: ms) => ms.mapM mstep?
                                                 | _ => none), fs.mapM arg? with
      | some v, some rs, some ss, some fs =>
          let w : World := rs.map init
          .list [.list (.atom "snaps" :: snaps v w ss []),
                 .list (.atom "factory" :: fs.map (factorySx (rs.headD 0)))]
      | _, _, _, _ => .atom "bad-request"
  | _ => .atom "bad-request"

end C18
