import Cellml.Generated.Code.Units
import Cellml.Tie.UnitsLemmas
import Cellml.Props.C19
import Cellml.Units.WorklistComplete
import Mathlib.Tactic.SplitIfs

/-! # Tie: the methods of `cellmlmanip.units.UnitStore` (generated from the source) = the hand models
    `Units.prefixName`, `Units.mangle`, `Units.Store.isDefined`, `Units.getUnit`, `Units.addBaseUnit`, `Units.addUnit`
    (Units/Define.lean), `Units.isEquivalent` (Units/Core.lean), `Units.convertQ`, `Units.conversionFactorR`
    (Units/Rules.lean), `Units.convert`, `Units.conversionFactor` (Units/Conv.lean), `Iso.formatName`
    (Iso/Namespace.lean) -- the functions the theorems of Props/C07, C16, C19 are about. -/

set_option linter.unusedSimpArgs false

namespace Cellml.Tie.PUnits
open Units PMap Cellml.Gen

/-! ### `_prefix_name`, `_prefix_expression`, the `_WORD` substitution -/

/-- `UnitStore._prefix_name` = `Units.prefixName` -/
theorem prefixName_tie (st : Store) (reg : Registry) (rules : List Rule) (name : String) :
    Id.run (Gen.Units.prefixName (storeObj st reg rules) name) = Units.prefixName st.id name := by
  unfold Gen.Units.prefixName Units.prefixName storeObj
  by_cases h : Cellml.Gen.cellmlUnits.contains name = true <;> simp [Py.isIn] <;> rfl

/-- `UnitStore._prefix_expression` (the callback of `_WORD.sub`) = `Units.prefixName` of the matched word -/
theorem prefixExpression_tie (st : Store) (reg : Registry) (rules : List Rule) (word : String) :
    Id.run (Gen.Units.prefixExpression (storeObj st reg rules) word) = Units.prefixName st.id word := by
  unfold Gen.Units.prefixExpression
  exact prefixName_tie st reg rules word

/-- `_WORD.sub(self._prefix_expression, ·)` on a unit name = `Units.mangle` -/
theorem wordSub_tie (st : Store) (reg : Registry) (rules : List Rule) (elems : List UnitElem) :
    wordSub (fun m => Id.run (Gen.Units.prefixExpression (storeObj st reg rules) m)) ⟨elems, id⟩ =
      ⟨elems, mangle st.id⟩ := by
  have : (fun m => Id.run (Gen.Units.prefixExpression (storeObj st reg rules) m)) = Units.prefixName st.id :=
    funext (prefixExpression_tie st reg rules)
  rw [this]
  rfl

/-! ### `is_defined`, `get_unit` -/

/-- `UnitStore.is_defined` = `Units.Store.isDefined` -/
theorem isDefined_tie (st : Store) (reg : Registry) (rules : List Rule) (name : String) :
    Id.run (Gen.Units.isDefined (storeObj st reg rules) name) = st.isDefined name := by
  unfold Gen.Units.isDefined Store.isDefined storeObj
  exact isIn_known st.known name

/-- `UnitStore.get_unit` = `Units.getUnit` (all errors of the model function are `KeyError`s: it carries them in
    `AddErr.valueError "KeyError …"`) -/
theorem getUnit_tie (st : Store) (reg : Registry) (rules : List Rule) (name : String) :
    Gen.Units.getUnit (storeObj st reg rules) name =
      (errClass (fun _ => "KeyError") (Units.getUnit st name)).map UnitObj.mk := by
  have hp := prefixName_tie st reg rules name
  have hk : Py.isIn name (storeObj st reg rules)._known_units = st.isDefined name := isIn_known st.known name
  unfold Gen.Units.getUnit Units.getUnit
  simp only [hp, hk]
  by_cases h1 : Py.isIn name Cellml.Gen.unsupportedUnits = true <;>
    by_cases h2 : st.isDefined name = true <;>
    simp [Py.isIn, errClass, Except.map, pintUnit, throw, throwThe, MonadExceptOf.throw, pure, Except.pure,
      bind, Except.bind] at h1 ⊢ <;> simp [h1, h2]

/-! ### `add_base_unit`, `add_unit` -/

/-- what the python method returns besides the mutated store: the new `Unit` -/
def added (st : Store) (rules : List Rule) (name : String) (p : Registry × Store) : StoreObj × UnitObj :=
  (storeObj p.2 p.1 rules, ⟨nameContainer (Units.prefixName st.id name)⟩)

/-- `UnitStore.add_base_unit` = `Units.addBaseUnit` -/
theorem addBaseUnit_tie (st : Store) (reg : Registry) (rules : List Rule) (name : String) :
    Gen.Units.addBaseUnit (storeObj st reg rules) name =
      (errClass addErrClass (Units.addBaseUnit reg st name)).map (added st rules name) := by
  have hp := prefixName_tie st reg rules name
  have hk : Py.isIn name (storeObj st reg rules)._known_units = st.isDefined name := isIn_known st.known name
  unfold Gen.Units.addBaseUnit Units.addBaseUnit
  simp only [hp, hk]
  unfold Store.isDefined
  by_cases h1 : Cellml.Gen.cellmlUnits.contains name = true <;>
    by_cases h2 : st.known.contains name = true <;>
    simp [Py.isIn, errClass, Except.map, pintUnit, throw, throwThe, MonadExceptOf.throw, pure, Except.pure,
      bind, Except.bind, addErrClass, added, pintDefine, storeObj, setAdd] at h1 h2 ⊢ <;> simp [h1, h2]

/-- the identity conversion of a dimensionless number -/
theorem factor_nil (reg : Registry) : factor reg [] [] = .ok [] := by
  refine (Cellml.Props.C07.factor_ok_iff reg [] [] _).mpr ⟨rfl, rfl, by simp [beq], ?_⟩
  symm
  apply norm_eq_nil_of_zero
  intro p; simp only [get_sub]; grind

theorem convertWithRules_nil (reg : Registry) (rules : List Rule) :
    convertWithRules reg rules [] [] = .ok ([], []) := by
  rw [convertWithRules_same_dims reg rules [] [] rfl, factor_nil]

/-- `UnitStore.add_unit` = `Units.addUnit`, for every store, registry, name and definition whose text
    `Parser._make_pint_unit_definition` could build and pint could read (`hdef`: the model's error `offset` is raised by
    the parser BEFORE `add_unit` is called; `badNumber` / `unsupported` are number texts outside the model's fragment,
    see `addUnit_tie_name` for what is tied there).
    Outside (`hsup`): a definition that mentions `dimensionless` next to dimensional units, where the hand model
    abstains (`AddErr.unsupported`, known finding C03/C07).
    Since the repair of the hand model (notes/reports/MODELFIX_Units.md) there is NO hypothesis about names with a total
    exponent of zero: the model, like pint, looks every identifier of the expression up in the registry
    (`refsKnown`; `add_unit('x', '((nosuch)**0)')` is an `UndefinedUnitError` on both sides), and it tests the name
    before it evaluates anything, in the order of the source. -/
theorem addUnit_tie (st : Store) (reg : Registry) (rules : List Rule) (name : String) (elems : List UnitElem)
    (k : Scale) (c : Container) (d : Bool) (hdef : defMeaning st.id elems = .ok (k, c, d))
    (hsup : ¬ (PMap.norm c ≠ [] ∧ d = true)) :
    Gen.Units.addUnit (storeObj st reg rules) name ⟨elems, id⟩ =
      (errClass addErrClass (Units.addUnit reg st name elems)).map (added st rules name) := by
  have hp := prefixName_tie st reg rules name
  have hw := wordSub_tie st reg rules elems
  have hk : Py.isIn name (storeObj st reg rules)._known_units = st.isDefined name := isIn_known st.known name
  have hrefs : refsKnown reg st.id elems = allKnown reg c := refsKnown_eq_allKnown elems k c d hdef
  rw [addUnit_noOffset (defMeaning_ok_offset hdef)]
  unfold Gen.Units.addUnit Units.addUnitWith
  simp only [hp, hw, hdef, hk, hrefs]
  unfold Store.isDefined
  have hm : defMeaningG (mangle st.id) elems = .ok (k, c, d) := by rw [defMeaningG_mangle, hdef]
  by_cases h1 : name ∈ Cellml.Gen.cellmlUnits
  · simp [Py.isIn, h1, errClass, Except.map, throw, throwThe, MonadExceptOf.throw, bind, Except.bind, addErrClass]
  by_cases h2 : name ∈ st.known
  · simp [Py.isIn, h1, h2, errClass, Except.map, throw, throwThe, MonadExceptOf.throw, bind, Except.bind, addErrClass]
  by_cases h3 : name ∈ Cellml.Gen.unsupportedUnits
  · simp [Py.isIn, h1, h2, h3, errClass, Except.map, throw, throwThe, MonadExceptOf.throw, bind, Except.bind,
      addErrClass]
  by_cases h4 : allKnown reg c = true
  · by_cases h5 : PMap.norm c = []
    · simp [Py.isIn, h1, h2, h3, h4, h5, hm, errClass, Except.map, throw, throwThe, MonadExceptOf.throw, bind,
        Except.bind, pure, Except.pure, addErrClass, pintParse, storeObj, unitObj_beq, PMap.beq, RegObj.dimensionless,
        norm, pintTo, convertWithRules_nil, pintDefine, added, setAdd, pintUnit, HMul.hMul, Mul.mul, PMap.add]
    · have h6 : d = false := by
        cases d with
        | false => rfl
        | true => exact absurd ⟨h5, rfl⟩ hsup
      subst h6
      simp [Py.isIn, h1, h2, h3, h4, h5, hm, errClass, Except.map, throw, throwThe, MonadExceptOf.throw, bind,
        Except.bind, pure, Except.pure, addErrClass, pintParse, storeObj, unitObj_beq, PMap.beq, RegObj.dimensionless,
        norm, norm_idem, pintDefine, added, setAdd, pintUnit]
  · have h4' : allKnown reg c = false := by simpa using h4
    simp [Py.isIn, h1, h2, h3, h4', hm, errClass, Except.map, throw, throwThe, MonadExceptOf.throw, bind,
      Except.bind, pure, Except.pure, addErrClass, pintParse, storeObj]

/-- The three tests on the NAME come first on both sides, whatever the expression is (no hypothesis on the definition
    besides that the parser could build its text): a built-in name, a name this store already knows, an unsupported
    name are `ValueError`s of the generated method and of the hand model alike — also where the expression could not be
    evaluated (`add_unit('metre', '((second)**x)')`; before the repair the model answered `BadDefinition` there). -/
theorem addUnit_tie_name (st : Store) (reg : Registry) (rules : List Rule) (name : String) (elems : List UnitElem)
    (hoff : elems.any elemOffsetBad = false)
    (hname : name ∈ Cellml.Gen.cellmlUnits ∨ name ∈ st.known ∨ name ∈ Cellml.Gen.unsupportedUnits) :
    Gen.Units.addUnit (storeObj st reg rules) name ⟨elems, id⟩ = .error ⟨"ValueError"⟩ ∧
      errClass addErrClass (Units.addUnit reg st name elems) = .error ⟨"ValueError"⟩ := by
  have hk : Py.isIn name (storeObj st reg rules)._known_units = st.isDefined name := isIn_known st.known name
  rw [addUnit_noOffset hoff]
  unfold Gen.Units.addUnit Units.addUnitWith
  simp only [hk]
  unfold Store.isDefined
  by_cases h1 : name ∈ Cellml.Gen.cellmlUnits
  · simp [Py.isIn, h1, errClass, throw, throwThe, MonadExceptOf.throw, bind, Except.bind, addErrClass]
  by_cases h2 : name ∈ st.known
  · simp [Py.isIn, h1, h2, errClass, throw, throwThe, MonadExceptOf.throw, bind, Except.bind, addErrClass]
  have h3 : name ∈ Cellml.Gen.unsupportedUnits := by
    rcases hname with h | h | h
    · exact absurd h h1
    · exact absurd h h2
    · exact h
  simp [Py.isIn, h1, h2, h3, errClass, throw, throwThe, MonadExceptOf.throw, bind, Except.bind, addErrClass]

/-! ### `is_equivalent` -/

/-- `UnitStore.is_equivalent` = `Units.isEquivalent` -/
theorem isEquivalent_tie (st : Store) (reg : Registry) (rules : List Rule) (a b : Container) :
    Id.run (Gen.Units.isEquivalent (storeObj st reg rules) ⟨a⟩ ⟨b⟩) = Units.isEquivalent reg a b := by
  rfl

/-! ### `convert`, `get_conversion_factor` -/

/-- the result of `convert` for a quantity of magnitude `m`, from the model's multiplier -/
def converted (m : MagObj) (b : Container) (p : Scale × Syms) : QuantityObj := ⟨m * ⟨p.1, p.2⟩, ⟨b⟩⟩

/-- `UnitStore.convert` = `Units.convertQ` (C19: pint's conversion with the enabled rules, and the special case for the
    unit `dimensionless`), for every quantity (any magnitude `m`, any unit `a`) and every target unit -/
theorem convert_tie (st : Store) (reg : Registry) (rules : List Rule) (m : MagObj) (a b : Container) :
    Gen.Units.convert (storeObj st reg rules) ⟨m, ⟨a⟩⟩ ⟨b⟩ =
      (errClass uErrClass (convertQ reg rules a b)).map (converted m b) := by
  unfold Gen.Units.convert convertQ
  by_cases h1 : PMap.norm a = []
  · have ha0 : a ≃ ([] : Container) := by intro p; rw [← get_norm a p, h1]
    have hda : dimsOf reg a = [] := by rw [dimsOf_congr reg ha0, dimsOf_nil]
    by_cases h2 : dimsOf reg b = []
    · simp only [storeObj, unitObj_beq, PMap.beq, RegObj.dimensionless, norm, h1, pintDims, hda, h2]
      cases hc : convertWithRules reg rules b a with
      | error e =>
        simp [hc, pintTo, unitQuantity, errClass, Except.map, bind, Except.bind]
      | ok p =>
        obtain ⟨f, y⟩ := p
        simp [hc, pintTo, unitQuantity, errClass, Except.map, bind, Except.bind, pure, Except.pure, converted,
          magInv, MagObj.one, HMul.hMul, Mul.mul, PMap.add]
    · simp only [storeObj, unitObj_beq, PMap.beq, RegObj.dimensionless, norm, h1, pintDims, hda, h2]
      cases hc : convertWithRules reg rules a b with
      | error e =>
        simp [hc, h2, pintTo, errClass, Except.map, bind, Except.bind]
      | ok p =>
        obtain ⟨f, y⟩ := p
        simp [hc, h2, pintTo, errClass, Except.map, bind, Except.bind, pure, Except.pure, converted]
  · simp only [storeObj, unitObj_beq, PMap.beq, RegObj.dimensionless, norm, h1, pintDims]
    cases hc : convertWithRules reg rules a b with
    | error e =>
      simp [hc, pintTo, errClass, Except.map, bind, Except.bind]
    | ok p =>
      obtain ⟨f, y⟩ := p
      simp [hc, pintTo, errClass, Except.map, bind, Except.bind, pure, Except.pure, converted]

/-- … hence (C19 `convert_special_case_invisible`) pint's conversion with the rules, and with no rule enabled the
    C07 model `Units.convert` (the ordinary factor) -/
theorem convert_tie_C07 (st : Store) (reg : Registry) (m : MagObj) (a b : Container) :
    Gen.Units.convert (storeObj st reg []) ⟨m, ⟨a⟩⟩ ⟨b⟩ =
      (errClass uErrClass (Units.convert reg a b)).map (fun p => ⟨m * ⟨p.1, []⟩, ⟨p.2⟩⟩) := by
  rw [convert_tie, convertQ_eq, Cellml.Props.C19.no_rules_plain]
  unfold Units.convert
  cases factor reg a b <;> simp [errClass, Except.map, converted]

/-- `UnitStore.get_conversion_factor` = `Units.conversionFactorR` (`none` is the int `1`) -/
theorem getConversionFactor_tie (st : Store) (reg : Registry) (rules : List Rule) (a b : Container) :
    (Gen.Units.getConversionFactor (storeObj st reg rules) ⟨a⟩ ⟨b⟩).map CFObj.toModel =
      errClass uErrClass (conversionFactorR reg rules a b) := by
  unfold Gen.Units.getConversionFactor conversionFactorR
  rw [show unitQuantity ⟨a⟩ = ⟨MagObj.one, ⟨a⟩⟩ from rfl, convert_tie]
  cases hc : convertQ reg rules a b with
  | error e => simp [errClass, Except.map, bind, Except.bind]
  | ok p =>
    obtain ⟨f, y⟩ := p
    by_cases hy : y = [] <;> by_cases hf : f = [] <;>
      simp [errClass, Except.map, bind, Except.bind, pure, Except.pure, converted, MagObj.one, HMul.hMul, Mul.mul,
        PMap.add, isNumber, pyFloat, isCloseOne, isSympyMul, hasFloatOneArg, dropFloatOneArgs, hy, hf,
        CFObj.toModel]

/-- … and with no rule enabled the C07 model `Units.conversionFactor` -/
theorem getConversionFactor_tie_C07 (st : Store) (reg : Registry) (a b : Container) :
    (Gen.Units.getConversionFactor (storeObj st reg []) ⟨a⟩ ⟨b⟩).map (fun r => r.toModel.map Prod.fst) =
      errClass uErrClass (conversionFactor reg a b) := by
  have h := getConversionFactor_tie st reg [] a b
  have e : (Gen.Units.getConversionFactor (storeObj st reg []) ⟨a⟩ ⟨b⟩).map (fun r => r.toModel.map Prod.fst) =
      ((Gen.Units.getConversionFactor (storeObj st reg []) ⟨a⟩ ⟨b⟩).map CFObj.toModel).map (Option.map Prod.fst) := by
    cases Gen.Units.getConversionFactor (storeObj st reg []) ⟨a⟩ ⟨b⟩ <;> rfl
  rw [e, h]
  unfold conversionFactorR conversionFactor
  rw [convertQ_eq, Cellml.Props.C19.no_rules_plain]
  cases factor reg a b with
  | error e => simp [errClass, Except.map]
  | ok f => by_cases hf : f = [] <;> simp [errClass, Except.map, hf]

/-! ### `format` -/

theorem strip_dimensionless : Iso.strip "dimensionless" = "dimensionless" := by decide +kernel

/-- `store.format(store.get_unit(name))` = `Iso.formatName` (the text C16's `strip_roundtrip*` theorems are about) -/
theorem format_tie (st : Store) (reg : Registry) (rules : List Rule) (name : String) :
    Id.run (Gen.Units.format (storeObj st reg rules) ⟨nameContainer (Units.prefixName st.id name)⟩ false) =
      Iso.formatName st.id name := by
  unfold Gen.Units.format Iso.formatName nameContainer
  by_cases h : (Units.prefixName st.id name == "dimensionless") = true
  · simp [h, PyStr.str, strip_dimensionless]
  · simp [h, PyStr.str]

/-- `format(unit, base_units=True)`: the prefix-stripped text of `get_base_units(unit)`, i.e. of the root form
    `Units.toRoot` that `Iso.obsUnit` observes (scale and root units) -/
theorem format_base_tie (st : Store) (reg : Registry) (rules : List Rule) (c : Container) :
    Id.run (Gen.Units.format (storeObj st reg rules) ⟨c⟩ true) =
      Iso.strip (PyStr.str (toRoot reg c).1 ++ " " ++ PyStr.str (UnitObj.mk (toRoot reg c).2)) := by
  rfl

end Cellml.Tie.PUnits
