/-! # C14 model, part 1: exact decimal text → IEEE-754 binary64, from scratch, on `Nat`.

    Core Lean only (linked into the driver). Everything is structurally recursive and reduces in the kernel.

    **Scaled values.** Every finite double is an integer multiple of `2^-1074`. The model works with the *scaled value*
    `v · 2^1074 ∈ Nat` of a magnitude, so no negative exponent ever appears: a finite double is exactly a natural
    number of the form `m · 2^j` with `m < 2^53` (and `j ≤ 2045`), the subnormals are `j = 0, m < 2^52`.

    * `roundDivEven n d`   nearest integer to `n/d`, ties to even (the only rounding step of the model);
    * `ratToBits num den`  bit pattern (sign 0) of the double nearest to `num/den`: scale, locate the binade with
                           `Nat.log2`, clamp to the subnormal spacing (truncated subtraction), round once, assemble the
                           fields by *addition* (a carry out of the significand lands in the exponent), overflow → +inf;
    * `scaledOfBits b`     the scaled value of a magnitude pattern; `bitsToRat` the exact rational of a 64-bit pattern;
    * `parseDecL`          CPython's `float()` grammar for finite decimal literals:
                           `ws [sign] (digits [. [digits]] | . digits) [(e|E) [sign] digits] ws` (no `_`, `inf`, `nan`);
    * `decToBitsL/decToBits` text → 64-bit pattern. -/

namespace C14

/-- nearest integer to `n / d`, ties to even -/
def roundDivEven (n d : Nat) : Nat :=
  let q := n / d
  let r := n % d
  if 2 * r < d then q
  else if 2 * r > d then q + 1
  else if q % 2 = 0 then q else q + 1

/-- the pattern of +infinity (exponent field all ones, fraction zero) -/
def infBits : Nat := 2047 * 2 ^ 52

/-- fields before the overflow test: significand `sig` (`< 2^52`: subnormal field; `2^52 ≤ sig ≤ 2^53`: normal, hidden
    bit removed, a carry `sig = 2^53` moves into the exponent by the addition) at spacing `2^j` (scaled) -/
def rawBits (j sig : Nat) : Nat :=
  if sig < 2 ^ 52 then sig else (j + 1) * 2 ^ 52 + (sig - 2 ^ 52)

/-- field assembly with overflow to infinity -/
def assemble (j sig : Nat) : Nat :=
  if infBits ≤ rawBits j sig then infBits else rawBits j sig

/-- spacing exponent (scaled) of the binade that contains `N / den`:
    `floor(log2(N/den)) - 52`, clamped at 0 (the subnormal spacing) by truncated subtraction -/
def spacing (N den : Nat) : Nat := Nat.log2 (N / den) - 52

/-- magnitude bits of the double nearest to `num / den` (`den > 0`), round-half-even, one rounding -/
def ratToBits (num den : Nat) : Nat :=
  let N := num * 2 ^ 1074
  let j := spacing N den
  assemble j (roundDivEven N (den * 2 ^ j))

/-- scaled value (`value · 2^1074`) of a magnitude pattern `b < infBits` -/
def scaledOfBits (b : Nat) : Nat :=
  let e := b / 2 ^ 52
  let f := b % 2 ^ 52
  if e = 0 then f else (2 ^ 52 + f) * 2 ^ (e - 1)

def signBit : Nat := 2 ^ 63

/-- magnitude part of a 64-bit pattern -/
def magOf (b : Nat) : Nat := b % signBit
def isNeg (b : Nat) : Bool := decide (signBit ≤ b)
def isFiniteBits (b : Nat) : Bool := decide (magOf b < infBits)

/-- exact rational value of a finite 64-bit pattern -/
def bitsToRat (b : Nat) : Rat :=
  let v : Rat := mkRat (scaledOfBits (magOf b)) (2 ^ 1074)
  if isNeg b then -v else v

/-! ## Text -/

def isWs (c : Char) : Bool := c == ' ' || c == '\t' || c == '\n' || c == '\r' || c == '\x0b' || c == '\x0c'

def dropWs : List Char → List Char
  | [] => []
  | c :: r => if isWs c then dropWs r else c :: r

/-- Python `str.strip()` for the whitespace that can occur in XML text -/
def strip (cs : List Char) : List Char := (dropWs (dropWs cs).reverse).reverse

def digitVal (c : Char) : Nat := c.toNat - 48

def digitsToNat (cs : List Char) : Nat := cs.foldl (fun a c => 10 * a + digitVal c) 0

/-- split off the longest prefix of ASCII digits -/
def spanDigits : List Char → List Char × List Char
  | [] => ([], [])
  | c :: r => if c.isDigit then let (d, t) := spanDigits r; (c :: d, t) else ([], c :: r)

/-- optional sign: `(negative, rest)` -/
def takeSign : List Char → Bool × List Char
  | '-' :: t => (true, t)
  | '+' :: t => (false, t)
  | t => (false, t)

/-- exponent part: empty, or `(e|E) [sign] digits` reaching the end of the text -/
def parseExpPart : List Char → Option Int
  | [] => some 0
  | c :: t =>
    if c == 'e' || c == 'E' then
      let (en, u) := takeSign t
      let (ds, rest) := spanDigits u
      if ds.isEmpty || !rest.isEmpty then none
      else
        let v : Int := digitsToNat ds
        some (if en then -v else v)
    else none

/-- optional fraction: `. digits*` -/
def splitFrac : List Char → List Char × List Char
  | '.' :: t => spanDigits t
  | t => ([], t)

/-- a stripped literal ↦ (negative, decimal significand `m`, decimal exponent `k`): value `± m · 10^k` -/
def parseBody (cs : List Char) : Option (Bool × Nat × Int) :=
  let (neg, cs) := takeSign cs
  let (ip, rest) := spanDigits cs
  let (fp, rest) := splitFrac rest
  if ip.isEmpty && fp.isEmpty then none
  else match parseExpPart rest with
    | none => none
    | some ex => some (neg, digitsToNat (ip ++ fp), ex - (fp.length : Int))

def parseDecL (cs : List Char) : Option (Bool × Nat × Int) := parseBody (strip cs)

/-- magnitude bits of `m · 10^k` -/
def decMag (m : Nat) (k : Int) : Nat :=
  if 0 ≤ k then ratToBits (m * 10 ^ k.toNat) 1 else ratToBits m (10 ^ (-k).toNat)

def withSign (neg : Bool) (mag : Nat) : Nat := if neg then signBit + mag else mag

/-- text → 64-bit pattern of the nearest double (what CPython's `float(text)` returns, as bits) -/
def decToBitsL (cs : List Char) : Option Nat :=
  match parseDecL cs with
  | none => none
  | some (neg, m, k) => some (withSign neg (decMag m k))

def decToBits (s : String) : Option Nat := decToBitsL s.toList

/-- 16 hex digits with `0x` -/
def hexOf (n : Nat) : String :=
  let ds := Nat.toDigits 16 n
  "0x" ++ String.ofList (List.replicate (16 - ds.length) '0' ++ ds)

end C14
