import Cellml.C09.Model

/-! Lemmas about the C09 model: `least`, Kahn's loop, the ancestor closure, `buildGraph`, `stripGraph`.
    Core Lean only. The property theorems are in `Cellml/Props/C09.lean`. -/

namespace C09

/-! ## `least` -/

theorem least_mem {key : Node → String} : ∀ {l : List Node} {m : Node}, least key l = some m → m ∈ l
  | [], m, h => by simp [least] at h
  | x :: xs, m, h => by
      simp only [least] at h
      split at h
      · simp at h; simp [h]
      · rename_i m' hm'
        have := least_mem hm'
        simp at h; subst h
        split <;> simp [*]

theorem least_eq_none {key : Node → String} : ∀ {l : List Node}, least key l = none → l = []
  | [], _ => rfl
  | x :: xs, h => by
      simp only [least] at h
      split at h <;> simp at h

/-- nothing in the list has a smaller key than the node chosen -/
theorem least_le {key : Node → String} : ∀ {l : List Node} {m : Node}, least key l = some m →
    ∀ w ∈ l, ¬ key w < key m
  | [], m, h => by simp [least] at h
  | x :: xs, m, h => by
      simp only [least] at h
      split at h
      · rename_i hn
        simp at h; subst h
        have := least_eq_none hn; subst this
        intro w hw; simp at hw; subst hw; exact String.lt_irrefl _
      · rename_i m' hm'
        have ih := least_le hm'
        simp at h; subst h
        intro w hw
        simp at hw
        split
        · rename_i hlt
          rcases hw with rfl | hw
          · exact String.lt_asymm hlt
          · exact ih w hw
        · rename_i hnlt
          rcases hw with rfl | hw
          · exact String.lt_irrefl _
          · intro hwx
            have h1 : key m' ≤ key w := String.not_lt.mp (ih w hw)
            have h2 : key w ≤ key m' := String.not_lt.mp (fun h => hnlt (String.lt_trans h hwx))
            have h3 : key w = key m' := String.le_antisymm h2 h1
            rw [h3] at hwx; exact hnlt hwx

/-- the choice is the FIRST node with the least key: every earlier node has a strictly greater key -/
theorem least_first {key : Node → String} : ∀ {l : List Node} {m : Node}, least key l = some m →
    ∃ i : Nat, l[i]? = some m ∧ ∀ (j : Nat) (w : Node), j < i → l[j]? = some w → key m < key w
  | [], m, h => by simp [least] at h
  | x :: xs, m, h => by
      simp only [least] at h
      split at h
      · simp at h; subst h
        exact ⟨0, by simp, by intro j w hj; omega⟩
      · rename_i m' hm'
        obtain ⟨i, hi, hlt⟩ := least_first hm'
        simp at h
        split at h
        · rename_i hmx
          subst h
          refine ⟨i + 1, by simpa using hi, ?_⟩
          intro j w hj hw
          cases j with
          | zero => simp at hw; subst hw; exact hmx
          | succ j => simp at hw; exact hlt j w (by omega) hw
        · subst h
          exact ⟨0, by simp, by intro j w hj; omega⟩

def KeyInj (key : Node → String) (l : List Node) : Prop := ∀ a ∈ l, ∀ b ∈ l, key a = key b → a = b

theorem KeyInj.subset {key : Node → String} {l l' : List Node} (h : KeyInj key l) (hs : ∀ a ∈ l', a ∈ l) :
    KeyInj key l' := fun a ha b hb hk => h a (hs a ha) b (hs b hb) hk

/-- with distinct keys the least node is determined by the SET of candidates -/
theorem least_unique {key : Node → String} {l : List Node} {m : Node} (hinj : KeyInj key l)
    (hm : m ∈ l) (hle : ∀ w ∈ l, ¬ key w < key m) : least key l = some m := by
  cases h : least key l with
  | none => have := least_eq_none h; subst this; simp at hm
  | some m' =>
      have hm' := least_mem h
      have h1 : key m ≤ key m' := String.not_lt.mp (hle m' hm')
      have h2 : key m' ≤ key m := String.not_lt.mp (least_le h m hm)
      rw [hinj m hm m' hm' (String.le_antisymm h1 h2)]

theorem least_congr {key : Node → String} {l l' : List Node} (hinj : KeyInj key l)
    (hmem : ∀ a, a ∈ l' ↔ a ∈ l) : least key l' = least key l := by
  cases h : least key l with
  | none =>
      have := least_eq_none h; subst this
      cases l' with
      | nil => rfl
      | cons a t => exact absurd ((hmem a).mp (by simp)) (by simp)
  | some m =>
      exact least_unique (hinj.subset fun a ha => (hmem a).mp ha) ((hmem m).mpr (least_mem h))
        (fun w hw => least_le h w ((hmem w).mp hw))

/-! ## Kahn's loop -/

theorem mem_preds {g : Graph} {u v : Node} : u ∈ preds g v ↔ (u, v) ∈ g.edges := by
  simp only [preds, List.mem_map, List.mem_filter]
  constructor
  · rintro ⟨⟨a, b⟩, ⟨hm, hb⟩, rfl⟩
    simp at hb; subst hb; exact hm
  · intro h; exact ⟨(u, v), ⟨h, by simp⟩, rfl⟩

theorem isReady_iff {g : Graph} {done : List Node} {v : Node} :
    isReady g done v = true ↔ ∀ u, (u, v) ∈ g.edges → u ∈ done := by
  simp only [isReady, List.all_eq_true, decide_eq_true_eq]
  constructor
  · intro h u hu; exact h u (mem_preds.mpr hu)
  · intro h u hu; exact h u (mem_preds.mp hu)

/-- every node is preceded by all its predecessors -/
def Respects (g : Graph) (l : List Node) : Prop :=
  ∀ (i : Nat) (v : Node), l[i]? = some v → ∀ u, (u, v) ∈ g.edges → u ∈ l.take i

theorem respects_snoc (g : Graph) (done : List Node) (v : Node)
    (hd : Respects g done) (hv : isReady g done v = true) : Respects g (done ++ [v]) := by
  intro i w hw u hu
  by_cases hi : i < done.length
  · rw [List.getElem?_append_left hi] at hw
    rw [List.take_append_of_le_length (Nat.le_of_lt hi)]
    exact hd i w hw u hu
  · have hlen : i = done.length := by
      have : i < (done ++ [v]).length := by
        rcases Nat.lt_or_ge i (done ++ [v]).length with h | h
        · exact h
        · rw [List.getElem?_eq_none h] at hw; cases hw
      simp at this; omega
    subst hlen
    simp at hw; subst hw
    simp [isReady_iff.mp hv u hu]

theorem kahn_respects (key : Node → String) (g : Graph) :
    ∀ (fuel : Nat) (remaining done : List Node),
      Respects g done → Respects g (kahn key g fuel remaining done) := by
  intro fuel
  induction fuel with
  | zero => intro remaining done hd; simpa [kahn] using hd
  | succ n ih =>
      intro remaining done hd
      simp only [kahn]
      cases hv : least key (remaining.filter (isReady g done)) with
      | none => simpa using hd
      | some v =>
        have hmem := least_mem hv
        have hready : isReady g done v = true := (List.mem_filter.mp hmem).2
        exact ih (remaining.erase v) (done ++ [v]) (respects_snoc g done v hd hready)

/-- whatever happens, the output is `done` followed by some of the remaining nodes, each at most once -/
theorem kahn_sub (key : Node → String) (g : Graph) :
    ∀ (fuel : Nat) (remaining done : List Node),
      ∃ rest, (kahn key g fuel remaining done ++ rest).Perm (done ++ remaining) := by
  intro fuel
  induction fuel with
  | zero => intro remaining done; exact ⟨remaining, by simp [kahn]⟩
  | succ n ih =>
      intro remaining done
      simp only [kahn]
      cases hv : least key (remaining.filter (isReady g done)) with
      | none => exact ⟨remaining, List.Perm.refl _⟩
      | some v =>
        have hmem : v ∈ remaining := (List.mem_filter.mp (least_mem hv)).1
        obtain ⟨rest, hrest⟩ := ih (remaining.erase v) (done ++ [v])
        refine ⟨rest, hrest.trans ?_⟩
        rw [List.append_assoc]
        exact List.Perm.append_left done (List.perm_cons_erase hmem).symm

theorem exists_min_rank (rank : Node → Nat) : ∀ (l : List Node), l ≠ [] → ∃ v ∈ l, ∀ w ∈ l, rank v ≤ rank w
  | [], h => absurd rfl h
  | [x], _ => ⟨x, by simp, by intro w hw; simp at hw; subst hw; exact Nat.le_refl _⟩
  | x :: y :: t, _ => by
      obtain ⟨v, hv, hmin⟩ := exists_min_rank rank (y :: t) (by simp)
      by_cases h : rank x ≤ rank v
      · refine ⟨x, by simp, ?_⟩
        intro w hw
        rcases List.mem_cons.mp hw with rfl | hw
        · exact Nat.le_refl _
        · exact Nat.le_trans h (hmin w hw)
      · refine ⟨v, List.mem_cons_of_mem _ hv, ?_⟩
        intro w hw
        rcases List.mem_cons.mp hw with rfl | hw
        · omega
        · exact hmin w hw

/-- The graph has no cycle: its nodes can be ranked so that every edge goes upwards. -/
def Acyclic (g : Graph) : Prop := ∃ rank : Node → Nat, ∀ u v, (u, v) ∈ g.edges → rank u < rank v

/-- In an acyclic graph Kahn's loop never gets stuck: with enough fuel every remaining node is output. -/
theorem kahn_complete (key : Node → String) (g : Graph) (rank : Node → Nat)
    (hrank : ∀ u v, (u, v) ∈ g.edges → rank u < rank v) :
    ∀ (fuel : Nat) (remaining done : List Node), remaining.length ≤ fuel →
      (∀ v ∈ remaining, ∀ u, (u, v) ∈ g.edges → u ∈ done ∨ u ∈ remaining) →
      (kahn key g fuel remaining done).Perm (done ++ remaining) := by
  intro fuel
  induction fuel with
  | zero =>
      intro remaining done hlen _
      have : remaining = [] := List.eq_nil_of_length_eq_zero (by omega)
      subst this; simp [kahn]
  | succ n ih =>
      intro remaining done hlen hclosed
      simp only [kahn]
      cases hv : least key (remaining.filter (isReady g done)) with
      | none =>
          have hnil := least_eq_none hv
          cases hr : remaining with
          | nil => simp
          | cons a t =>
              exfalso
              obtain ⟨v, hvmem, hmin⟩ := exists_min_rank rank remaining (by simp [hr])
              have hready : isReady g done v = true := by
                rw [isReady_iff]
                intro u hu
                rcases hclosed v hvmem u hu with h | h
                · exact h
                · have := hmin u h; have := hrank u v hu; omega
              have : v ∈ remaining.filter (isReady g done) := List.mem_filter.mpr ⟨hvmem, hready⟩
              rw [hnil] at this; simp at this
      | some v =>
          have hmem : v ∈ remaining := (List.mem_filter.mp (least_mem hv)).1
          have hlen' : (remaining.erase v).length ≤ n := by
            rw [List.length_erase_of_mem hmem]; omega
          have hclosed' : ∀ w ∈ remaining.erase v, ∀ u, (u, w) ∈ g.edges →
              u ∈ done ++ [v] ∨ u ∈ remaining.erase v := by
            intro w hw u hu
            rcases hclosed w (List.mem_of_mem_erase hw) u hu with h | h
            · exact Or.inl (List.mem_append_left _ h)
            · by_cases huv : u = v
              · subst huv; exact Or.inl (by simp)
              · exact Or.inr ((List.mem_erase_of_ne huv).mpr h)
          refine (ih (remaining.erase v) (done ++ [v]) hlen' hclosed').trans ?_
          rw [List.append_assoc]
          exact List.Perm.append_left done (List.perm_cons_erase hmem).symm

/-- Kahn's loop only looks at the SET of remaining nodes and the SET of edges when keys are distinct. -/
theorem kahn_congr (key : Node → String) (g g' : Graph)
    (hedges : ∀ e, e ∈ g'.edges ↔ e ∈ g.edges) :
    ∀ (fuel : Nat) (remaining remaining' done : List Node), remaining'.Perm remaining → KeyInj key remaining →
      kahn key g' fuel remaining' done = kahn key g fuel remaining done := by
  have hready : ∀ done v, isReady g' done v = isReady g done v := by
    intro done v
    rw [Bool.eq_iff_iff, isReady_iff, isReady_iff]
    constructor
    · intro h u hu; exact h u ((hedges _).mpr hu)
    · intro h u hu; exact h u ((hedges _).mp hu)
  intro fuel
  induction fuel with
  | zero => intro remaining remaining' done _ _; simp [kahn]
  | succ n ih =>
      intro remaining remaining' done hperm hinj
      simp only [kahn]
      have hfun : isReady g' done = isReady g done := funext (hready done)
      rw [hfun]
      have hl : least key (remaining'.filter (isReady g done)) = least key (remaining.filter (isReady g done)) := by
        apply least_congr (hinj.subset fun a ha => (List.mem_filter.mp ha).1)
        intro a
        exact (hperm.filter _).mem_iff
      rw [hl]
      cases hv : least key (remaining.filter (isReady g done)) with
      | none => rfl
      | some v =>
          exact ih (remaining.erase v) (remaining'.erase v) (done ++ [v]) (hperm.erase v)
            (hinj.subset fun a ha => List.mem_of_mem_erase ha)

theorem mem_take_of_getElem? {l : List Node} {i j : Nat} {x : Node} (h : l[j]? = some x) (hj : j < i) :
    x ∈ l.take i := by
  apply List.mem_of_getElem? (i := j)
  rw [List.getElem?_take, if_pos hj]; exact h

/-- the output extends `done` -/
theorem kahn_prefix (key : Node → String) (g : Graph) :
    ∀ (fuel : Nat) (remaining done : List Node), ∃ t, kahn key g fuel remaining done = done ++ t := by
  intro fuel
  induction fuel with
  | zero => intro remaining done; exact ⟨[], by simp [kahn]⟩
  | succ n ih =>
      intro remaining done
      simp only [kahn]
      cases hv : least key (remaining.filter (isReady g done)) with
      | none => exact ⟨[], by simp⟩
      | some v =>
          obtain ⟨t, ht⟩ := ih (remaining.erase v) (done ++ [v])
          exact ⟨v :: t, by show kahn key g n _ _ = _; rw [ht]; simp⟩

/-- Greedy choice: the node output at position `i` has the least key among the nodes that are still waiting and whose
    predecessors have all been output before position `i`. -/
theorem kahn_least (key : Node → String) (g : Graph) :
    ∀ (fuel : Nat) (remaining done : List Node) (i : Nat) (v : Node), done.length ≤ i →
      (kahn key g fuel remaining done)[i]? = some v →
      ∀ w ∈ remaining, w ∉ (kahn key g fuel remaining done).take i →
        isReady g ((kahn key g fuel remaining done).take i) w = true → ¬ key w < key v := by
  intro fuel
  induction fuel with
  | zero =>
      intro remaining done i v hi hv
      simp only [kahn] at hv
      rw [List.getElem?_eq_none hi] at hv; cases hv
  | succ n ih =>
      intro remaining done i v hi hv w hw hnot hready
      simp only [kahn] at hv hnot hready
      cases hl : least key (remaining.filter (isReady g done)) with
      | none =>
          simp only [hl] at hv
          rw [List.getElem?_eq_none hi] at hv; cases hv
      | some v0 =>
          simp only [hl] at hv hnot hready
          obtain ⟨t, ht⟩ := kahn_prefix key g n (remaining.erase v0) (done ++ [v0])
          by_cases hlen : i = done.length
          · subst hlen
            rw [ht] at hv hready
            have htake : (done ++ [v0] ++ t).take done.length = done := by
              rw [List.append_assoc, List.take_left']; rfl
            rw [htake] at hready
            have hv0 : v = v0 := by
              rw [List.append_assoc, List.getElem?_append_right (Nat.le_refl _)] at hv
              simpa using hv.symm
            subst hv0
            exact least_le hl w (List.mem_filter.mpr ⟨hw, hready⟩)
          · have hgt : (done ++ [v0]).length ≤ i := by simp; omega
            have hv0mem : v0 ∈ (kahn key g n (remaining.erase v0) (done ++ [v0])).take i := by
              have hlt : done.length < i := by simp at hgt; omega
              apply mem_take_of_getElem? (j := done.length) _ hlt
              rw [ht, List.append_assoc, List.getElem?_append_right (Nat.le_refl _)]
              simp
            have hne : w ≠ v0 := fun h => hnot (h ▸ hv0mem)
            exact ih (remaining.erase v0) (done ++ [v0]) i v hgt hv w ((List.mem_erase_of_ne hne).mpr hw) hnot hready

/-! ## `lexTopo` -/

theorem lexTopo_ok {key : Node → String} {g : Graph} {l : List Node} (h : lexTopo key g = .ok l) :
    l = kahn key g g.nodes.length g.nodes [] ∧ l.length = g.nodes.length := by
  simp only [lexTopo] at h
  split at h
  · rename_i hlen
    simp at h; subst h; exact ⟨rfl, hlen⟩
  · simp at h

theorem lexTopo_ok_perm {key : Node → String} {g : Graph} {l : List Node} (h : lexTopo key g = .ok l) :
    l.Perm g.nodes := by
  obtain ⟨rfl, hlen⟩ := lexTopo_ok h
  obtain ⟨rest, hrest⟩ := kahn_sub key g g.nodes.length g.nodes []
  have := hrest.length_eq
  simp only [List.length_append, List.nil_append] at this
  have hnil : rest = [] := List.eq_nil_of_length_eq_zero (by omega)
  subst hnil
  simpa using hrest

theorem lexTopo_ok_respects {key : Node → String} {g : Graph} {l : List Node} (h : lexTopo key g = .ok l) :
    Respects g l := by
  obtain ⟨rfl, _⟩ := lexTopo_ok h
  exact kahn_respects key g _ _ [] (by intro i v h; simp at h)

/-- edges join nodes, nodes are listed once -/
structure WF (g : Graph) : Prop where
  nodup : g.nodes.Nodup
  src : ∀ u v, (u, v) ∈ g.edges → u ∈ g.nodes
  tgt : ∀ u v, (u, v) ∈ g.edges → v ∈ g.nodes

theorem lexTopo_of_acyclic {key : Node → String} {g : Graph} (hwf : WF g) (hac : Acyclic g) :
    ∃ l, lexTopo key g = .ok l := by
  obtain ⟨rank, hrank⟩ := hac
  have hp := kahn_complete key g rank hrank g.nodes.length g.nodes [] (Nat.le_refl _)
    (fun v _ u hu => Or.inr (hwf.src u v hu))
  have hlen := hp.length_eq
  simp only [List.nil_append] at hlen
  exact ⟨kahn key g g.nodes.length g.nodes [], by simp [lexTopo, hlen]⟩

theorem mem_take_idxOf_lt : ∀ {l : List Node} {i : Nat} {u : Node}, u ∈ l.take i → l.idxOf u < i
  | [], i, u, h => by simp at h
  | x :: xs, 0, u, h => by simp at h
  | x :: xs, i + 1, u, h => by
      simp only [List.take_succ_cons, List.mem_cons] at h
      by_cases hx : x = u
      · subst hx; simp [List.idxOf_cons_self]
      · rcases h with h | h
        · exact absurd h.symm hx
        · have := mem_take_idxOf_lt h
          have hb : (x == u) = false := by simpa using hx
          rw [List.idxOf_cons, hb]; simp; omega

theorem getElem?_idxOf {l : List Node} {v : Node} (h : v ∈ l) : l[l.idxOf v]? = some v := by
  have hlt : l.idxOf v < l.length := List.idxOf_lt_length_iff.mpr h
  rw [List.getElem?_eq_getElem hlt]
  simp

/-- a successful sort yields a ranking: position in the output -/
theorem acyclic_of_lexTopo {key : Node → String} {g : Graph} {l : List Node} (hwf : WF g)
    (h : lexTopo key g = .ok l) : ∀ u v, (u, v) ∈ g.edges → l.idxOf u < l.idxOf v := by
  intro u v huv
  have hv : v ∈ l := (lexTopo_ok_perm h).mem_iff.mpr (hwf.tgt u v huv)
  exact mem_take_idxOf_lt (lexTopo_ok_respects h _ v (getElem?_idxOf hv) u huv)

end C09
