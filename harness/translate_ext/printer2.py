"""Extension of the code translator for the group PrinterMul2 (cellmlmanip/printer.py `_print_Mul`).

Two added rules, both about python scoping / value semantics, none about the logic of the function:

 * python's `X or Y` in VALUE position (`a = a or [sympy.S.One]`): the value is X when X is truthy, else Y
   (`if Py.truthy X then X else Y`); X is a plain name, so evaluating its translation twice is harmless;
 * spec key `'retype': {name: new_name}`: `_print_Mul` mutates the list `b_str` in place (item assignment, so the Lean
   variable is `let mut`) and then re-binds the NAME to a string (`b_str = ' * '.join(b_str)`). Lean's `do` notation can
   neither re-type nor shadow a mutable variable, so this one assignment is emitted as `let new_name := …` and every
   later read of `name` reads `new_name`."""
import ast

import translate_code


class PrinterFn(translate_code.Fn):
    def __init__(self, spec, node):
        super().__init__(spec, node)
        self.renamed = {}

    def expr(self, e):
        if isinstance(e, ast.Name) and e.id in self.renamed:
            return self.renamed[e.id]
        if isinstance(e, ast.BoolOp) and isinstance(e.op, ast.Or) and len(e.values) == 2 \
                and isinstance(e.values[0], ast.Name) and self.try_patterns(e) is None:
            x, y = self.expr(e.values[0]), self.expr(e.values[1])
            return '(if Py.truthy %s then %s else %s)' % (x, x, y)
        return super().expr(e)

    def stmt(self, s, ind):
        retype = self.spec.get('retype', {})
        if isinstance(s, ast.Assign) and len(s.targets) == 1 and isinstance(s.targets[0], ast.Name) \
                and s.targets[0].id in retype and s.targets[0].id in self.declared \
                and s.targets[0].id not in self.renamed:
            name = s.targets[0].id
            rhs = self.expr(s.value)
            self.emit(ind, 'let %s := %s' % (retype[name], rhs))
            self.renamed[name] = retype[name]
            return
        return super().stmt(s, ind)
