import Cellml.Load.Lemmas

/-! # C17 — what a successful run of the connection work list implies (so that the contrary is refused)

    Additional invariants of `Load.connectLoop` (the ones of `Load/Lemmas.lean` are membership-based):
    * the deque and the recorded mapping together are always a permutation of the directed connections — every
      connection is recorded exactly once, so two connections into one target cannot both be recorded;
    * a connection is recorded only after `get_conversion_factor` returned.
    And the step budget: the loop returns within `tri n + n + 2` iterations for `n` connections. -/

namespace C17
open Load

def swap (p : VRef × VRef) : VRef × VRef := (p.2, p.1)

theorem stepConn_some_mapping {reg : Registry} {vt : VarTable} {st st' : CState} {s t : VRef}
    (h : stepConn reg vt st (s, t) = .ok (some st')) :
    st'.mapping = (t, s) :: st.mapping ∧ ∃ f, Units.factor reg (unitsOf vt s) (unitsOf vt t) = .ok f := by
  unfold stepConn at h
  simp only at h
  split at h
  · cases h
  · split at h
    · cases h
    · rename_i a hs
      split at h
      · cases h
      · cases h
      · rename_i f hf
        split at h
        · split at h
          · simp only [Except.ok.injEq, Option.some.injEq] at h; subst h; exact ⟨rfl, f, hf⟩
          · split at h
            · cases h
            · simp only [Except.ok.injEq, Option.some.injEq] at h; subst h; exact ⟨rfl, f, hf⟩
        · simp only [Except.ok.injEq, Option.some.injEq] at h; subst h; exact ⟨rfl, f, hf⟩

/-- the counting invariant -/
structure Jnv (reg : Registry) (vt : VarTable) (l dq : List (VRef × VRef)) (st : CState) : Prop where
  perm   : (dq ++ st.mapping.map swap).Perm l
  factor : ∀ p ∈ st.mapping, ∃ f, Units.factor reg (unitsOf vt p.2) (unitsOf vt p.1) = .ok f

theorem jnv_init (reg : Registry) (vt : VarTable) (l : List (VRef × VRef)) : Jnv reg vt l l (initState vt) where
  perm := by simp [initState]
  factor := by intro p hp; simp [initState] at hp

theorem connectLoop_jnv {reg : Registry} {vt : VarTable} {l : List (VRef × VRef)} :
    ∀ (dq : List (VRef × VRef)) (unch : Nat) (hu : unch ≤ dq.length) (st st' : CState),
      Jnv reg vt l dq st → connectLoop reg vt dq unch hu st = .ok st' → Jnv reg vt l [] st' := by
  intro dq unch hu st
  fun_induction connectLoop reg vt dq unch hu st with
  | case1 unch st hu _ => intro st' hinv h; simp only [Except.ok.injEq] at h; subst h; exact hinv
  | case2 unch st c rest hu e he _ => intro st' hinv h; cases h
  | case3 unch st c rest hu he hlt _ ih =>
      intro st' hinv h
      refine ih st' ⟨?_, hinv.factor⟩ h
      exact (List.perm_append_comm.append_right _).trans hinv.perm
  | case4 unch st c rest hu he hlt _ => intro st' hinv h; cases h
  | case5 unch st c rest hu st1 he _ ih =>
      intro st' hinv h
      obtain ⟨s, t⟩ := c
      obtain ⟨hm, f, hf⟩ := stepConn_some_mapping he
      refine ih st' ⟨?_, ?_⟩ h
      · rw [hm]
        simp only [List.map_cons, swap]
        exact List.perm_middle.trans hinv.perm
      · intro p hp
        rw [hm] at hp
        simp only [List.mem_cons] at hp
        rcases hp with rfl | hp
        · exact ⟨f, hf⟩
        · exact hinv.factor p hp

theorem connect_jnv {reg : Registry} {vt : VarTable} {l : List (VRef × VRef)} {st : CState}
    (h : connect reg vt l = .ok st) : Jnv reg vt l [] st :=
  connectLoop_jnv l 0 (Nat.zero_le _) (initState vt) st (jnv_init reg vt l) h

/-- every directed connection is recorded exactly once -/
theorem connect_ok_perm {reg : Registry} {vt : VarTable} {l : List (VRef × VRef)} {st : CState}
    (h : connect reg vt l = .ok st) : (st.mapping.map swap).Perm l := by
  simpa using (connect_jnv h).perm

/-- no variable is the target of two connections -/
theorem connect_ok_targets_nodup {reg : Registry} {vt : VarTable} {l : List (VRef × VRef)} {st : CState}
    (h : connect reg vt l = .ok st) : (l.map Prod.snd).Nodup := by
  have hp := (connect_ok_perm h).map Prod.snd
  have hk : (st.mapping.map swap).map Prod.snd = keys st.mapping := by
    simp only [List.map_map, keys]
    rfl
  rw [hk] at hp
  exact hp.nodup_iff.mp (WF.keys_nodup (connect_inv h).wf)

/-- the units at the two ends of every connection are convertible -/
theorem connect_ok_factor {reg : Registry} {vt : VarTable} {l : List (VRef × VRef)} {st : CState}
    (h : connect reg vt l = .ok st) (s t : VRef) (hm : (s, t) ∈ l) :
    ∃ f, Units.factor reg (unitsOf vt s) (unitsOf vt t) = .ok f := by
  have hm' := (connect_ok_perm h).mem_iff.mpr hm
  obtain ⟨p, hp, he⟩ := List.mem_map.mp hm'
  obtain ⟨f, hf⟩ := (connect_jnv h).factor p hp
  simp only [swap, Prod.mk.injEq] at he
  rw [he.1, he.2] at hf
  exact ⟨f, hf⟩

/-- the target of a connection is never a variable that is its own source (no `in` interface) -/
theorem connect_ok_target_not_src {reg : Registry} {vt : VarTable} {l : List (VRef × VRef)} {st : CState}
    (h : connect reg vt l = .ok st) (s t : VRef) (hm : (s, t) ∈ l) : ¬ Src vt t := by
  have inv := connect_inv h
  rcases inv.conn_in (s, t) hm with hd | hmap
  · simp at hd
  · exact WF.key_not_src inv.wf t (mem_keys_of_mem hmap)

/-- the source of a connection is its own source or the target of another connection -/
theorem connect_ok_source_fed {reg : Registry} {vt : VarTable} {l : List (VRef × VRef)} {st : CState}
    (h : connect reg vt l = .ok st) (s t : VRef) (hm : (s, t) ∈ l) : Src vt s ∨ ∃ s', (s', s) ∈ l := by
  have inv := connect_inv h
  rcases inv.conn_in (s, t) hm with hd | hmap
  · simp at hd
  · rcases WF.val_ok inv.wf t s hmap with hs | hk
    · exact Or.inl hs
    · obtain ⟨p, hp, he⟩ := List.mem_map.mp hk
      obtain ⟨a, b⟩ := p
      simp only at he
      subst he
      exact Or.inr ⟨b, inv.map_from _ _ hp⟩

/-! ## the step budget of the loop -/

def tri : Nat → Nat
  | 0 => 0
  | n + 1 => tri n + (n + 1)

/-- iterations that always suffice for a deque of `n` connections with `unch` unsuccessful ones in a row so far -/
def stepBound (n unch : Nat) : Nat := tri n + (n + 1 - unch) + 1

theorem connectLoopF_eq : ∀ (fuel : Nat) (reg : Registry) (vt : VarTable) (dq : List (VRef × VRef)) (unch : Nat)
    (hu : unch ≤ dq.length) (st : CState), stepBound dq.length unch ≤ fuel →
    connectLoopF reg vt fuel dq unch st = some (connectLoop reg vt dq unch hu st) := by
  intro fuel
  induction fuel with
  | zero => intro reg vt dq unch hu st hf; simp [stepBound] at hf
  | succ fuel ih =>
      intro reg vt dq unch hu st hf
      cases dq with
      | nil => rw [connectLoop.eq_1]; rfl
      | cons c rest =>
          rw [connectLoop.eq_2]
          simp only [connectLoopF]
          cases hs : stepConn reg vt st c with
          | error e => rfl
          | ok o =>
              cases o with
              | none =>
                  simp only
                  by_cases hlt : unch + 1 ≤ (rest ++ [c]).length
                  · rw [if_pos hlt, dif_pos hlt]
                    apply ih
                    simp only [stepBound, List.length_cons, List.length_append, List.length_nil, tri] at hf hlt hu ⊢
                    omega
                  · rw [if_neg hlt, dif_neg hlt]
              | some st' =>
                  simp only
                  apply ih
                  simp only [stepBound, List.length_cons, tri] at hf hu ⊢
                  omega

theorem tri_double (n : Nat) : 2 * tri n = n * (n + 1) := by
  induction n with
  | zero => rfl
  | succ n ih =>
      simp only [tri, Nat.mul_add, ih]
      simp only [Nat.add_mul, Nat.mul_one, Nat.one_mul]
      omega

end C17
