/-! Property theorems for C14 (not built yet). -/
