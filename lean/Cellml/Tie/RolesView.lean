import Cellml.Tie.Prelude
import Cellml.Model.Roles

/-! # What the translated role queries of model.py see of a `Model` object

    The generated code (`Cellml/Generated/Code/Roles.lean`, `RolesValue.lean`) refers to python attribute paths and
    calls (`self._ode_definition_map.values()`, `ode.lhs.variables[0]`, `self.graph`, `defn.rhs.atoms(Variable)`,
    `float(expr.xreplace(evaluated))` …). The pattern tables of harness/code_specs/roles*.py bind each of them to one of
    the accessors below, which read the state of the hand-written model (`Model.RModel`, Cellml/Model/Roles.lean).
    `self` is the `RModel` itself. Representation: a `Variable` object is its identity number (`Nat`), a node of the
    graph is a `Model.Node`, an `Eq` object is a `Model.Eqn` (its right-hand side: `M.rhs e.tok`), a python set is the
    list of its elements in the model's traversal order. Core Lean only. -/

namespace Cellml.Tie.PRoles
open Model

-- ------------------------------------------------------------------------------------------------ exception classes
/-- the class of the exception the `graph` property raises (assertions of the builder; an undefined derivative on a
    right-hand side has no `.type`: AttributeError; with both kinds of bad reference present python's set order decides
    which is met first — the assertion is taken here) -/
def gerrClass : GErr → String
  | .duplicate => "AssertionError"
  | .lhs => "AssertionError"
  | .badRef false true => "AttributeError"
  | .badRef _ _ => "AssertionError"

/-- the class of the exception `_get_value` raises. `arith` and `unsupported` are where SymPy yields no finite float
    (`zoo` after a division by zero / the interpretation of an opaque term has no value): a class name of their own -/
def verrClass : VErr → String
  | .noDefinition => "ValueError"
  | .noInit => "TypeError"
  | .fuel => "RecursionError"
  | .arith => "ArithmeticOutsideModel"
  | .unsupported => "UnsupportedOutsideModel"
  | .derivativeWrtNumber => "ValueError"
  | .floatHasNoAtoms => "AttributeError"

-- ------------------------------------------------------------------------------------------------ the definition maps
/-- `self._ode_definition_map.values()` -/
def odeValues (self : RModel) : List Eqn := self.st.odeDef.map (·.2)

/-- `self._ode_definition_map.keys()`; also the dict itself where only its keys matter (`in`, truthiness) -/
def odeKeys (self : RModel) : List Nat := stateKeys self.st

/-- `self._ode_definition_map.get(v)` -/
def odeGet (self : RModel) (v : Nat) : Option Eqn := self.st.odeDef.lookup v

/-- `self._var_definition_map.get(v)` -/
def varDefGet (self : RModel) (v : Nat) : Option Eqn := self.st.varDef.lookup v

/-- `self._var_definition_map[v]` -/
def varDefItem (self : RModel) (v : Nat) : Except PyErr Eqn :=
  match self.st.varDef.lookup v with
  | some e => .ok e
  | none => .error ⟨"KeyError"⟩

/-- `ode.lhs.variables[0]`: the bound variable of a derivative; anything else has no `.variables` -/
def lhsVariables0 (ode : Eqn) : Except PyErr Nat :=
  match ode.lhs with
  | .deriv _ t _ => .ok t
  | _ => .error ⟨"AttributeError"⟩

/-- `v.order_added` of a `Variable` -/
def orderAdded (self : RModel) (v : Nat) : Nat := orderOf self.st v

/-- `v.initial_value` (`None` or a number) -/
def initialValue (self : RModel) (v : Nat) : Option Rat := initOf self.st v

/-- `l.sort(key=k)`: python's sort is stable -/
def pySortBy {α} (key : α → Nat) (l : List α) : List α := sortBy key l

/-- `defn.rhs.atoms(Variable)` for what `_var_definition_map.get` returned. For `None` python raises AttributeError;
    the one use is behind `defn is not None and …`, which a Lean `&&` of pure terms cannot express, so the accessor is
    total (`None` ↦ no atoms) -/
def rhsAtomsVariable (self : RModel) (defn : Option Eqn) : List Nat :=
  match defn with
  | some e => (self.rhs e.tok).vars
  | none => []

-- ------------------------------------------------------------------------------------------------ the graph
/-- the `self.graph` property: the graph (cached or built) or the exception of the builder -/
def graphOf (self : RModel) : Except PyErr Graph :=
  match (queryGraph self.st).2 with
  | .ok g => .ok g
  | .error e => .error ⟨gerrClass e⟩

/-- iterating a `networkx.DiGraph`: its nodes in insertion order -/
def graphIter (g : Graph) : List Node := g.nodes.map (·.node)

/-- `graph.nodes.items()`: node and attribute dictionary -/
def graphItems (g : Graph) : List (Node × GNode) := g.nodes.map (fun n => (n.node, n))

/-- `isinstance(v, sympy.Derivative)` -/
def isDerivative : Node → Bool
  | .deriv _ _ => true
  | .var _ => false

/-- `deriv.args[0]` of a graph node (a `Variable` has no args: python would raise IndexError; used as a sort key on a
    list already filtered to derivatives, the accessor is total) -/
def nodeArg0 : Node → Nat
  | .deriv s _ => s
  | .var v => v

/-- `var.order_added` of a graph node (a `Derivative` has none: AttributeError in python; used as a sort key on a list
    already filtered to variables, the accessor is total) -/
def nodeOrderAdded (self : RModel) : Node → Nat
  | .var v => orderOf self.st v
  | .deriv _ _ => 0

/-- `cellmlmanip.model.VariableType` -/
inductive VariableType | UNKNOWN | STATE | FREE | PARAMETER | COMPUTED
deriving DecidableEq, Repr

def ofVType : VType → VariableType
  | .state => .STATE
  | .free => .FREE
  | .parameter => .PARAMETER
  | .computed => .COMPUTED

/-- `node.get('variable_type', default)` on the attribute dictionary of a graph node -/
def getVariableType (node : GNode) (dflt : VariableType) : VariableType :=
  match node.vtype with
  | some t => ofVType t
  | none => dflt

-- ------------------------------------------------------------------------------------------------ _get_value
/-- a value held by the `evaluated` dictionary: `None` (a state without initial value) or a number -/
abbrev PyVal := Option Rat

/-- python integer literals where a value of the dictionary is expected (`evaluated[time] = 0`) -/
scoped instance (n : Nat) : OfNat (Option Rat) n := ⟨some (n : Rat)⟩

/-- the `evaluated` argument of `_get_value`: `None` or a dict from variables to values. A call that receives a dict
    mutates it in place, so the dict is threaded: `_get_value` returns the value and the dict as the call leaves it. -/
abbrev PyMemo := Option (List (Nat × PyVal))

/-- `x in evaluated`, `evaluated[k] = v` (on `None` python raises TypeError; `_get_value` never gets there) -/
instance : Py.DictLike PyMemo Nat PyVal where
  keys d := match d with | some l => l.map (·.1) | none => []
  setItem d k v := d.map (Py.setAssoc k v)

/-- a float as a value of the dictionary -/
def pyFloatVal (q : Rat) : PyVal := some q

/-- `float(x.initial_value)`: TypeError on `None` -/
def floatVal : PyVal → Except PyErr Rat
  | some q => .ok q
  | none => .error ⟨"TypeError"⟩

/-- `eq.rhs` of an equation of the model -/
def eqRhs (self : RModel) (e : Eqn) : Expr := self.rhs e.tok

/-- `ode.rhs` for what `_ode_definition_map.get` returned (AttributeError on `None`) -/
def optEqRhs (self : RModel) : Option Eqn → Except PyErr Expr
  | some e => .ok (self.rhs e.tok)
  | none => .error ⟨"AttributeError"⟩

/-- `ode.lhs` for what `_ode_definition_map.get` returned, as a graph node (a variable or a derivative; `None` for
    `None` — the one use is behind `ode is None or …` — and for a left-hand side that is neither) -/
def eqLhsNode : Option Eqn → Option Node
  | some e => lhsNode e.lhs
  | none => none

/-- `expr.atoms(Variable)`, in the model's traversal order (python: a set) -/
def varAtoms (e : Expr) : List Nat := e.vars

/-- `expr.atoms(sympy.Derivative)`, in the model's traversal order (python: a set); the derivatives in the argument
    places of an opaque term included -/
def derivAtoms (e : Expr) : List Node := e.nodes.filter isDerivative

mutual
  /-- `expr.xreplace(replacements)` where the keys of `replacements` are derivatives (it reaches inside an opaque term:
      its argument places are rewritten) -/
  def xreplaceDerivs (e : Expr) (r : List (Node × Expr)) : Expr :=
    match e with
    | .deriv s t => (r.lookup (.deriv s t)).getD (.deriv s t)
    | .bin op a b => .bin op (xreplaceDerivs a r) (xreplaceDerivs b r)
    | .pow a n => .pow (xreplaceDerivs a r) n
    | .opq id args => .opq id (xreplaceDerivsL args r)
    | .num q => .num q
    | .var v => .var v
  def xreplaceDerivsL (es : List Expr) (r : List (Node × Expr)) : List Expr :=
    match es with
    | [] => []
    | a :: as => xreplaceDerivs a r :: xreplaceDerivsL as r
end

mutual
  /-- substitution of the numbers of a dict for the variables of a tree; `none`: a variable that occurs is mapped to
      `None` -/
  def substVals (l : List (Nat × PyVal)) : Expr → Option Expr
    | .var v => match l.lookup v with
      | some (some q) => some (.num q)
      | some none => none
      | none => some (.var v)
    | .bin op a b =>
      match substVals l a, substVals l b with
      | some a', some b' => some (.bin op a' b')
      | _, _ => none
    | .pow a n => (substVals l a).map (fun a' => .pow a' n)
    | .opq id args => (substValsL l args).map (fun args' => .opq id args')
    | .num q => some (.num q)
    | .deriv s t => some (.deriv s t)
  def substValsL (l : List (Nat × PyVal)) : List Expr → Option (List Expr)
    | [] => some []
    | a :: as =>
      match substVals l a, substValsL l as with
      | some a', some as' => some (a' :: as')
      | _, _ => none
end

/-- `expr.xreplace(evaluated)`. A variable mapped to `None` makes SymPy raise SympifyError when it rebuilds the parent
    node (a bare variable is replaced by `None` itself and the following `float(None)` raises TypeError). -/
def xreplaceMemo (e : Expr) (d : PyMemo) : Except PyErr Expr :=
  match d with
  | none => .error ⟨"AttributeError"⟩
  | some l =>
    match substVals l e with
    | some e' => .ok e'
    | none => match e with
      | .var _ => .error ⟨"TypeError"⟩
      | _ => .error ⟨"SympifyError"⟩

/-- `float(expr)`: the value of a tree without variables under the interpretation `fn` of the opaque terms (a
    variable or derivative that is left: `noDefinition`; `/0`: `arith`; an opaque term to which `fn` gives no value:
    `unsupported`, see `verrClass`). SymPy's `float` is the one leaf of `_get_value` that depends on what the opaque
    terms ARE: `fn` is a parameter of the generated `_get_value` (harness/code_specs/rolesvalue.py passes it on). -/
def floatExpr (fn : Interp) (e : Expr) : Except PyErr Rat := errClass verrClass (evalE fn [] e)

end Cellml.Tie.PRoles
