"""C12 — singularity removal only repairs: equal outside the window, accurate inside."""
import logging
from fractions import Fraction

import mpmath as mp

from common import Str, sx

mp.mp.dps = 40
ID = 'C12'
LEAN_MODULES = ['Cellml.Props.C12', 'Cellml.Tie.SingPw', 'Cellml.Tie.SingFix', 'Cellml.Tie.SingTrav', 'Cellml.Tie.Sing', 'Cellml.Tie.SingFixAdd', 'Cellml.Tie.SingDet', 'Cellml.Tie.SingDet3', 'Cellml.Props.C12Gen']
N = {'quick': 60, 'thorough': 700}
RULE = ('each case is a small model built through the public API (V a state with an ODE, units mV / per_mV / '
        'dimensionless / ms) holding 4-6 generated equations (quick: 60 cases ≈ 300 generated equations, thorough: 700 '
        'cases ≈ 3450) + one without pattern + one excluded + one whose right-hand side is a Piecewise (+ in 1 case of 5 '
        'a pattern in the ODE of V): the four forms U/(exp U − 1), U/(1 − exp U), (exp U − 1)/U, (1 − exp U)/U with '
        'U = k·(V − v0) or k·V + c or k·V − c (dyadic k, v0; literals or other model variables), outer factor (none, '
        '1.0, literal, variable, excluded variable), added terms, sums and products of two such terms with equal or '
        'different singular points, a factor times a sum, reciprocals, a sum of a product and a term, near misses '
        '(numerator with another root / constant / V, exp + 1, exp − 2, other denominator, square, exp numerator; '
        'singular point 0 in 40 %), offsets that are excluded parameters (symbolic, oracle only); every equation is '
        'evaluated before and after at 13 voltages per term (at the singular point, ± half the half-width, the edges '
        '∓ 0.1 %, ± 3 half-widths, + 1e-3, − 1, + 25, − 1/3) with mpmath at 40 digits; non-trivial = the implementation '
        'changed at least one equation; distinct = distinct case JSON')
TRUSTED = ['Lean 4.33 kernel', 'axioms: propext, Classical.choice, Quot.sound',
           'correspondence harness harness/props/c12.py (model builder, sympy → tree serialiser, mpmath evaluators)',
           'SymPy 1.14 is modelled, not verified: automatic canonicalisation of Mul/Add after the quantities are '
           'replaced by floats (numeric folding, merging of equal bases, exp(c + kV) → exp(c)·exp(kV)), match and '
           'solveset on the affine fragment U = k·V + c; the trees handed to the model are the ones SymPy built',
           'networkx lexicographical_topological_sort (the visiting order is an input of the model)',
           'mpmath 40-digit evaluation and mpmath.limit for the analytic limit']
ASSUMPTIONS = ['numeric accuracy inside the window (distance to the analytic limit) is checked by the oracle on the '
               'generated equations only: the theorems carry the algebraic part (bracketing, equality outside, convex '
               'combination inside, continuity at the edges); a second-derivative bound for U/(exp U − 1) needs real '
               'analysis over exp and is not proved',
               'floating-point rounding of the bounds (solveset at 17 digits) is outside the exact rational model: '
               'bounds are compared at relative 1e-9 and 1e-3 of the half width, values at relative 1e-9',
               'generated singular points of two terms in one equation are equal or at least 1/4 apart; for equal '
               'singular points in one product the offsets satisfy |c| ≥ 2 or c = 0 (exp/log round trip exact at 60 '
               'bits), so that SymPy sees equal singular points as equal']
FINGERPRINT = {'cellmlmanip/_singularity_fixes.py': ['_generate_piecewise', '_float_dummies', '_is_negative_power',
                                                     '_solve_real', '_get_singularity', '_fix_expr_parts',
                                                     '_remove_singularities', 'remove_fixable_singularities', 'ONE',
                                                     'subs_parsed_math_funcs'],
               'cellmlmanip/model.py': ['Model.remove_fixable_singularities']}

DELTA = Fraction(1, 10 ** 7)
UNITS = ('dl', 'mV', 'pmV', 'ms', 'mV_per_ms')
FORMS = ('U/(e-1)', 'U/(1-e)', '(e-1)/U', '(1-e)/U')


# ------------------------------------------------------------------------------------------------ generation
def fs(x):
    return str(Fraction(x))


def q(v, unit):
    return ['q', fs(v), unit]


def pick_k(rng, plus_style=False):
    while True:
        k = Fraction(rng.choice([1, 1, 1, 3, 5]), rng.choice([1, 2, 4, 8, 16])) * rng.choice([-1, 1])
        if k.numerator in (5, -5) and k.denominator == 1:
            continue
        if plus_style and abs(k) == 1:
            continue   # 1.0*V - c and V - c are one function but two SymPy trees (see RULE / report)
        return k


def pick_v0(rng):
    return Fraction(rng.randint(-160, 160), rng.choice([1, 2, 4])) if rng.random() < 0.85 else Fraction(0)


def safe_offset(k, v0):
    c = -k * v0
    return c == 0 or abs(c) >= 2


def u_spec(rng, k, v0, style, consts):
    """the exponent argument U written in one of the styles; may introduce constant variables"""
    if style == 'kv0':
        return ['mul', q(k, 'pmV'), ['sub', ['V'], q(v0, 'mV')]]
    if style == 'plus':
        return ['add', ['mul', q(k, 'pmV'), ['V']], q(-k * v0, 'dl')]
    if style == 'minus':
        return ['sub', ['mul', q(k, 'pmV'), ['V']], q(k * v0, 'dl')]
    if style == 'kvar':      # slope and offset are other model variables
        kn, cn = 'k%d' % len(consts), 'c%d' % (len(consts) + 1)
        consts.append({'name': kn, 'unit': 'pmV', 'value': fs(k)})
        consts.append({'name': cn, 'unit': 'dl', 'value': fs(-k * v0)})
        return ['add', ['mul', ['v', kn], ['V']], ['v', cn]]
    if style == 'v0var':     # the reversal potential is another model variable
        vn = 'E%d' % len(consts)
        consts.append({'name': vn, 'unit': 'mV', 'value': fs(v0)})
        return ['mul', q(k, 'pmV'), ['sub', ['V'], ['v', vn]]]
    raise ValueError(style)


def core_spec(U, form):
    one = q(1, 'dl')
    e = ['exp', U]
    if form == 0:
        return ['div', U, ['sub', e, one]]
    if form == 1:
        return ['div', U, ['sub', one, e]]
    if form == 2:
        return ['div', ['sub', e, one], U]
    return ['div', ['sub', one, e], U]


def new_term(rng, consts, k=None, v0=None, styles=('kv0', 'plus', 'minus', 'kvar', 'v0var')):
    style = rng.choice(styles)
    if k is None:
        k = pick_k(rng, plus_style=style in ('plus', 'minus', 'kvar'))
    if v0 is None:
        v0 = pick_v0(rng)
    form = rng.randrange(4)
    U = u_spec(rng, k, v0, style, consts)
    return {'k': fs(k), 'v0': fs(v0), 'form': form, 'style': style}, core_spec(U, form)


def outer(rng, spec, consts, excluded):
    """optional outer factor: 1.0, a literal, another variable, or an excluded variable (not substituted)"""
    r = rng.random()
    if r < 0.2:
        return spec, 'none'
    if r < 0.35:
        return ['mul', q(1, 'dl'), spec], 'one'
    if r < 0.7:
        return ['mul', q(rng.choice([3, -2, Fraction(1, 2), Fraction(-7, 4), 10]), 'dl'), spec], 'literal'
    if r < 0.85:
        n = 'P%d' % len(consts)
        consts.append({'name': n, 'unit': 'dl', 'value': fs(rng.choice([3, -2, Fraction(1, 2), 1]))})
        return ['mul', ['v', n], spec], 'variable'
    return ['mul', ['v', excluded], spec], 'excluded-variable'


def added(rng, spec):
    r = rng.random()
    if r < 0.55:
        return spec, 'none'
    if r < 0.8:
        return ['add', spec, ['mul', q(rng.choice([2, Fraction(-1, 4), Fraction(3, 8)]), 'pmV'), ['V']]], 'aV'
    return ['add', spec, q(rng.choice([1, -3, Fraction(5, 2)]), 'dl')], 'const'


def probes(terms):
    out = []
    for t in terms:
        k, v0 = Fraction(t['k']), Fraction(t['v0'])
        w = DELTA / abs(k)
        for d in (0, w / 2, -w / 2, w * Fraction(999, 1000), -w * Fraction(999, 1000), w * Fraction(1001, 1000),
                  -w * Fraction(1001, 1000), 3 * w, -3 * w, Fraction(1, 1000), -1, 25, Fraction(-1, 3)):
            v = v0 + d
            if fs(v) not in out:
                out.append(fs(v))
    return out


NEAR = ('num-other-root', 'num-const', 'num-V', 'exp+1', 'exp-2', 'den-other', 'sq', 'exp-numerator')


def near_miss(rng, kind, k, v0):
    U = ['mul', q(k, 'pmV'), ['sub', ['V'], q(v0, 'mV')]]
    one = q(1, 'dl')
    em1 = ['sub', ['exp', U], one]
    v2 = v0 + (rng.choice([1, -3, Fraction(5, 2)]) if rng else 1)
    if kind == 'num-other-root':
        return ['div', ['mul', q(3, 'pmV'), ['sub', ['V'], q(v2, 'mV')]], em1]
    if kind == 'num-const':
        return ['div', q(3, 'dl'), em1]
    if kind == 'num-V':      # a documented form exactly when v0 = 0
        return ['div', ['mul', q(3, 'pmV'), ['V']], em1]
    if kind == 'exp+1':
        return ['div', U, ['add', ['exp', U], one]]
    if kind == 'exp-2':
        return ['div', U, ['sub', ['exp', U], q(2, 'dl')]]
    if kind == 'den-other':
        return ['div', em1, ['mul', q(k / 2, 'pmV'), ['sub', ['V'], q(v2, 'mV')]]]
    if kind == 'sq':
        return ['div', ['pow', U, 2], em1]
    if kind == 'exp-numerator':
        return ['div', ['exp', ['mul', q(k / 2, 'pmV'), ['sub', ['V'], q(v0, 'mV')]]], em1]
    raise ValueError(kind)


def gen_equation(rng, i, consts, excluded):
    """one generated equation: dict(name, rhs, kind, terms, expect, …)"""
    name = 'I%d' % i
    r = rng.random()
    if r < 0.42:
        t, c = new_term(rng, consts)
        spec, o = outer(rng, c, consts, excluded)
        spec, a = added(rng, spec)
        return {'name': name, 'rhs': spec, 'kind': 'single', 'terms': [t], 'expect': 'repair',
                'detail': 'form%d/%s/outer-%s/added-%s' % (t['form'], t['style'], o, a)}
    if r < 0.72:
        op = 'sum' if r < 0.57 else 'prod'
        same = rng.random() < 0.5
        while True:
            k1 = pick_k(rng, True)
            v1 = pick_v0(rng)
            k2 = pick_k(rng, True)
            v2 = v1 if same else pick_v0(rng)
            if same and not (safe_offset(k1, v1) and safe_offset(k2, v2)):
                continue
            if not same and abs(v1 - v2) < Fraction(1, 4):
                continue
            break
        styles = ('kv0', 'plus', 'minus')
        t1, c1 = new_term(rng, consts, k1, v1, styles)
        t2, c2 = new_term(rng, consts, k2, v2, styles)
        spec = ['add', c1, c2] if op == 'sum' else ['mul', c1, c2]
        spec, o = outer(rng, spec, consts, excluded) if op == 'prod' else (spec, 'none')
        spec, a = added(rng, spec)
        return {'name': name, 'rhs': spec, 'kind': '%s-%s-sp' % (op, 'equal' if same else 'different'),
                'terms': [t1, t2], 'expect': 'repair',
                'detail': 'forms%d%d/%s-%s/samek-%s/outer-%s/added-%s' % (t1['form'], t2['form'], t1['style'],
                                                                     t2['style'], k1 == k2, o, a)}
    if r < 0.79:
        t, c = new_term(rng, consts)
        inner = ['add', c, ['mul', q(rng.choice([2, Fraction(-1, 4)]), 'pmV'), ['V']]]
        return {'name': name, 'rhs': ['mul', q(rng.choice([3, -2]), 'dl'), inner], 'kind': 'factor-times-sum',
                'terms': [t], 'expect': 'repair', 'detail': 'form%d/%s' % (t['form'], t['style'])}
    if r < 0.83:
        t, c = new_term(rng, consts, styles=('kv0', 'plus'))
        inner = ['add', c, q(rng.choice([2, 3]), 'dl')]
        return {'name': name, 'rhs': ['div', q(rng.choice([3, -2]), 'dl'), inner], 'kind': 'reciprocal',
                'terms': [t], 'expect': 'repair', 'detail': 'form%d/%s' % (t['form'], t['style'])}
    if r < 0.85:
        # a sum whose terms share a singular point, one of them a product that carries a second singular point
        while True:
            k1, k2, k3, v1, v2 = pick_k(rng, True), pick_k(rng, True), pick_k(rng, True), pick_v0(rng), pick_v0(rng)
            if abs(v1 - v2) >= Fraction(1, 4) and safe_offset(k1, v1) and safe_offset(k3, v1):
                break
        t1, c1 = new_term(rng, consts, k1, v1, ('kv0', 'plus'))
        t2, c2 = new_term(rng, consts, k2, v2, ('kv0', 'plus'))
        t3, c3 = new_term(rng, consts, k3, v1, ('kv0', 'plus'))
        return {'name': name, 'rhs': ['add', ['mul', c1, c2], c3], 'kind': 'sum-of-product', 'terms': [t1, t2, t3],
                'expect': 'repair', 'detail': 'forms%d%d%d' % (t1['form'], t2['form'], t3['form'])}
    if r < 0.95:
        kind = rng.choice(NEAR)
        k = pick_k(rng)
        v0 = pick_v0(rng) if rng.random() < 0.6 else Fraction(0)
        expect = 'same'
        terms = [{'k': fs(k), 'v0': fs(v0), 'form': 0, 'style': 'kv0'}]
        if kind == 'num-V' and v0 == 0:
            expect = 'repair'
        return {'name': name, 'rhs': near_miss(rng, kind, k, v0), 'kind': 'near-miss', 'terms': terms,
                'expect': expect, 'detail': kind + ('/sp0' if v0 == 0 else '')}
    # symbolic offset: U = k*V + X with X excluded (kept as a parameter): outside the rational model, oracle only
    k = pick_k(rng, True)
    form = rng.randrange(4)
    U = ['add', ['mul', q(k, 'pmV'), ['V']], ['v', excluded]]
    return {'name': name, 'rhs': core_spec(U, form), 'kind': 'symbolic-offset', 'terms': [], 'expect': 'symbolic',
            'k': fs(k), 'detail': 'form%d' % form}


def make_case(rng):
    consts = []
    excluded = 'X'
    xval = rng.choice([Fraction(3, 2), -2, Fraction(5, 4), 3])
    eqs = []
    for i in range(rng.randint(4, 6)):
        e = gen_equation(rng, i, consts, excluded)
        if e['kind'] == 'symbolic-offset':
            k = Fraction(e['k'])
            e['terms'] = [{'k': fs(k), 'v0': fs(-xval / k), 'form': 0, 'style': 'symbolic'}]
        e['probe'] = probes(e['terms'])
        eqs.append(e)
    # twins: a second equation built on the very same SymPy sub-expression object as an earlier one (a model in which
    # two variables share a term: rate = c + P(V), tau = d + P(V)); the analysis of P is then served from the cache of
    # _get_singularity and must repair the second equation exactly like the first
    cands = [e for e in eqs if e['kind'] in ('single', 'prod-different-sp', 'prod-equal-sp', 'sum-different-sp',
                                             'sum-equal-sp', 'sum-of-product')]
    if cands and rng.random() < 0.6:
        e0 = rng.choice(cands)
        key = 'S' + e0['name']
        core = e0['rhs']
        e0['rhs'] = ['share', key, core]
        eqs.append({'name': 'T' + e0['name'][1:], 'rhs': ['add', ['share', key, core], q(rng.choice([1, -3, Fraction(5, 2)]), 'dl')],
                    'kind': e0['kind'], 'terms': e0['terms'], 'expect': e0['expect'], 'detail': e0['detail'] + '/twin',
                    'probe': e0['probe']})
    # one equation without the pattern, one excluded equation with the pattern, one Piecewise right-hand side
    plain = rng.choice([
        ['add', ['mul', q(3, 'pmV'), ['V']], ['exp', ['mul', q(Fraction(1, 8), 'pmV'), ['V']]]],
        ['mul', q(2, 'pmV'), ['sub', ['V'], q(5, 'mV')]],
        ['div', ['mul', q(3, 'pmV'), ['V']], ['add', ['exp', ['mul', q(Fraction(1, 8), 'pmV'), ['V']]], q(1, 'dl')]],
    ])
    eqs.append({'name': 'J', 'rhs': plain, 'kind': 'plain', 'terms': [], 'expect': 'same', 'detail': 'plain',
                'probe': [fs(x) for x in (0, 5, Fraction(-7, 2), 25)]})
    t, c = new_term(rng, consts, styles=('kv0', 'plus'))
    eqs.append({'name': 'Y', 'rhs': ['mul', q(2, 'dl'), c], 'kind': 'excluded-equation', 'terms': [t],
                'expect': 'same', 'detail': 'excluded', 'probe': probes([t])[7:]})
    t, c = new_term(rng, consts, styles=('kv0', 'plus'))
    eqs.append({'name': 'W', 'rhs': ['pcw', c, q(1, 'dl'), fs(Fraction(t['v0']) + 10)], 'kind': 'piecewise-rhs',
                'terms': [t], 'expect': 'same', 'detail': 'piecewise', 'probe': probes([t])[7:]})
    ode = None
    if rng.random() < 0.2:
        t, c = new_term(rng, consts, styles=('kv0', 'plus'))
        ode = {'rhs': ['mul', q(1, 'mV_per_ms'), c], 'terms': [t], 'probe': probes([t])}
    rng.shuffle(eqs)
    return {'eqs': eqs, 'consts': consts, 'xval': fs(xval), 'exclude': ['X', 'Y'], 'ode': ode}


def gen(rng, n, tier):
    for _ in range(n):
        yield make_case(rng)


def single_case(k, v0, form, style, P=3, name='I0'):
    consts = []
    import random
    U = u_spec(random.Random(0), Fraction(k), Fraction(v0), style, consts)
    t = {'k': fs(k), 'v0': fs(v0), 'form': form, 'style': style}
    rhs = ['mul', q(P, 'dl'), core_spec(U, form)]
    e = {'name': name, 'rhs': rhs, 'kind': 'single', 'terms': [t], 'expect': 'repair',
         'detail': 'form%d/%s/outer-literal/added-none' % (form, style)}
    e['probe'] = probes([t])
    return {'eqs': [e], 'consts': consts, 'xval': '3/2', 'exclude': ['X', 'Y'], 'ode': None}


def corpus():
    out = []
    # the four forms, both signs of the slope, both ways of writing U
    for form in range(4):
        out.append(single_case(Fraction(1, 2), 5, form, 'kv0'))
        out.append(single_case(Fraction(-1, 8), Fraction(15, 2), form, 'plus'))
    # U = -0.125·V + 0.9375: exp/log round trip at 60 bits misses 0.9375
    out.append(single_case(Fraction(-1, 8), Fraction(15, 2), 2, 'minus'))
    out.append(single_case(Fraction(-3, 4), 1, 0, 'plus'))     # matched singular point is the Integer 1
    # a pole that is not removable, singular point 0
    k = Fraction(1, 2)
    e = {'name': 'I0', 'rhs': near_miss(None, 'num-const', k, Fraction(0)), 'kind': 'near-miss',
         'terms': [{'k': fs(k), 'v0': '0', 'form': 0, 'style': 'kv0'}], 'expect': 'same', 'detail': 'num-const/sp0'}
    e['probe'] = probes(e['terms'])
    out.append({'eqs': [e], 'consts': [], 'xval': '3/2', 'exclude': ['X', 'Y'], 'ode': None})
    # a reciprocal written with the Float exponent -1.0 (the only spelling the 1/A branch accepted before cca411b)
    t = {'k': '1/2', 'v0': '5', 'form': 1, 'style': 'kv0'}
    c = core_spec(u_spec(None, Fraction(1, 2), Fraction(5), 'kv0', []), 1)
    e = {'name': 'I0', 'rhs': ['mul', q(3, 'dl'), ['powf', ['add', c, q(2, 'dl')]]], 'kind': 'reciprocal',
         'terms': [t], 'expect': 'repair', 'detail': 'float-exponent', 'probe': probes([t])}
    out.append({'eqs': [e], 'consts': [], 'xval': '3/2', 'exclude': ['X', 'Y'], 'ode': None})
    return out


# ------------------------------------------------------------------------------------------------ implementation
def _mpf(x):
    f = Fraction(x)
    return mp.mpf(f.numerator) / f.denominator


class Built:
    pass


def build(case):
    """the model of a case, through the public API"""
    import sympy
    from cellmlmanip.model import Model
    logging.disable(logging.CRITICAL)
    b = Built()
    m = b.model = Model('m')
    s = m.units
    u = b.units = {'dl': s.get_unit('dimensionless'), 'mV': s.add_unit('mV', 'volt / 1000'),
                   'ms': s.add_unit('ms', 'second / 1000')}
    u['pmV'] = s.add_unit('per_mV', '1 / mV')
    u['mV_per_ms'] = s.add_unit('mV_per_ms', 'mV / ms')
    b.t = m.add_variable('t', u['ms'])
    b.V = m.add_variable('V', u['mV'], initial_value=-80.0)
    b.vars = {'V': b.V}

    shared = {}

    def ex(spec):
        op = spec[0]
        if op == 'q':
            return m.create_quantity(float(Fraction(spec[1])), u[spec[2]])
        if op == 'share':     # the SAME SymPy object in several equations (so the cached analysis is hit again)
            if spec[1] not in shared:
                shared[spec[1]] = ex(spec[2])
            return shared[spec[1]]
        if op == 'V':
            return b.V
        if op == 'v':
            return b.vars[spec[1]]
        if op == 'add':
            return sympy.Add(*[ex(a) for a in spec[1:]])
        if op == 'mul':
            return sympy.Mul(*[ex(a) for a in spec[1:]])
        if op == 'sub':
            return ex(spec[1]) - ex(spec[2])
        if op == 'div':
            return ex(spec[1]) / ex(spec[2])
        if op == 'exp':
            return sympy.exp(ex(spec[1]))
        if op == 'pow':
            return ex(spec[1]) ** int(spec[2])
        if op == 'powf':      # Pow with the Float exponent -1.0
            return sympy.Pow(ex(spec[1]), sympy.Float(-1.0), evaluate=False)
        if op == 'pcw':
            return sympy.Piecewise((ex(spec[1]), sympy.Lt(b.V, m.create_quantity(float(Fraction(spec[3])), u['mV']))),
                                   (ex(spec[2]), True))
        raise ValueError(op)

    for c in case['consts']:
        v = b.vars[c['name']] = m.add_variable(c['name'], u[c['unit']])
        m.add_equation(sympy.Eq(v, m.create_quantity(float(Fraction(c['value'])), u[c['unit']])))
    x = b.vars['X'] = m.add_variable('X', u['dl'])
    m.add_equation(sympy.Eq(x, m.create_quantity(float(Fraction(case['xval'])), u['dl'])))
    ode = case.get('ode')
    m.add_equation(sympy.Eq(sympy.Derivative(b.V, b.t),
                            ex(ode['rhs']) if ode else m.create_quantity(1.0, u['mV_per_ms'])))
    for e in case['eqs']:
        v = b.vars[e['name']] = m.add_variable(e['name'], u['dl'])
        m.add_equation(sympy.Eq(v, ex(e['rhs'])))
    return b


def lhs_name(lhs):
    return 'd:' + lhs.args[0].name if lhs.is_Derivative else lhs.name


def tree(e, V):
    """SymPy tree → nested lists in the model's vocabulary, argument order as SymPy holds it"""
    import sympy
    from cellmlmanip.model import Quantity, Variable
    if isinstance(e, Quantity):
        if float(e) == 1.0 and str(e.units) != 'dimensionless':
            # a one that carries a unit (1 [per_mV_ms]) is not a plain `1 *`: written 1**1 so that the model's
            # `isOne` (the `1 * A -> A` step) does not take it for one; value and classification are unchanged
            return ['pow', ['num', '1'], 1]
        return ['num', fs(Fraction(float(e)))]
    if e is V:
        return 'V'
    if isinstance(e, Variable):
        return ['var', e.name]
    if isinstance(e, (sympy.Integer, sympy.Rational)):
        return ['num', '%d/%d' % (e.p, e.q) if e.q != 1 else str(e.p)]
    if isinstance(e, sympy.Float):
        return ['num', fs(Fraction(float(e)))]
    if isinstance(e, sympy.Add):
        return ['add'] + [tree(a, V) for a in e.args]
    if isinstance(e, sympy.Mul):
        return ['mul'] + [tree(a, V) for a in e.args]
    if isinstance(e, sympy.Pow):
        if isinstance(e.args[1], sympy.Integer):
            return ['pow', tree(e.args[0], V), int(e.args[1])]
        if isinstance(e.args[1], sympy.Float) and e.args[1] == -1.0:
            return ['pow', tree(e.args[0], V), -1]
        return ['fn', 'pow', tree(e.args[0], V), tree(e.args[1], V)]
    if isinstance(e, sympy.exp):
        return ['exp', tree(e.args[0], V)]
    if isinstance(e, sympy.Piecewise):
        return ['fn', 'piecewise'] + [tree(a.args[0], V) for a in e.args]
    if isinstance(e, sympy.Derivative):
        return ['var', 'd:' + e.args[0].name]
    return ['fn', type(e).__name__] + [tree(a, V) for a in e.args if isinstance(a, sympy.Expr)]


class Evaluator:
    """mpmath evaluation of the model's SymPy trees: variables through their defining equations"""

    def __init__(self, model, V, v):
        self.m, self.V, self.v, self.memo = model, V, v, {}

    def var(self, x):
        if x is self.V:
            return self.v
        if x not in self.memo:
            d = self.m.get_definition(x)
            if d is None:
                raise KeyError('no definition for ' + x.name)
            self.memo[x] = self.ev(d.rhs)
        return self.memo[x]

    def ev(self, e):
        import sympy
        from cellmlmanip.model import Quantity, Variable
        if isinstance(e, Quantity):
            val = e._value
            return mp.mpf(val._mpf_) if isinstance(val, sympy.Float) else mp.mpf(float(val))
        if isinstance(e, Variable):
            return self.var(e)
        if isinstance(e, sympy.Integer):
            return mp.mpf(e.p)
        if isinstance(e, sympy.Rational):
            return mp.mpf(e.p) / e.q
        if isinstance(e, sympy.Float):
            return mp.mpf(e._mpf_)
        if isinstance(e, sympy.Add):
            return mp.fsum(self.ev(a) for a in e.args)
        if isinstance(e, sympy.Mul):
            return mp.fprod(self.ev(a) for a in e.args)
        if isinstance(e, sympy.Pow):
            b, x = self.ev(e.args[0]), self.ev(e.args[1])
            if x == int(x):
                n = int(x)
                return b ** n if n >= 0 else mp.mpf(1) / (b ** (-n))
            return b ** x
        if isinstance(e, sympy.exp):
            return mp.exp(self.ev(e.args[0]))
        if isinstance(e, sympy.Piecewise):
            for val, cond in e.args:
                if self.cond(cond):
                    return self.ev(val)
            raise ValueError('no branch')
        raise TypeError('cannot evaluate ' + type(e).__name__)

    def cond(self, c):
        import sympy
        if c is sympy.true or c is True:
            return True
        if c is sympy.false or c is False:
            return False
        if isinstance(c, sympy.And):
            return all(self.cond(a) for a in c.args)
        if isinstance(c, sympy.Or):
            return any(self.cond(a) for a in c.args)
        if isinstance(c, sympy.Not):
            return not self.cond(c.args[0])
        a, b = self.ev(c.args[0]), self.ev(c.args[1])
        ops = {'LessThan': a <= b, 'StrictLessThan': a < b, 'GreaterThan': a >= b, 'StrictGreaterThan': a > b,
               'Equality': a == b, 'Unequality': a != b}
        return ops[type(c).__name__]


def show(x):
    return mp.nstr(x, 36)


def safe_eval(model, V, v, expr):
    try:
        x = Evaluator(model, V, v).ev(expr)
        if not mp.isfinite(x):
            return 'nonfinite'
        return show(x)
    except ZeroDivisionError:
        return 'div0'
    except Exception as e:   # noqa
        return 'err:' + type(e).__name__


def limit_at(model, V, v, expr):
    """the analytic limit of the original right-hand side at a singular point"""
    def f(h):
        return Evaluator(model, V, v + h).ev(expr)
    try:
        a = mp.limit(f, 0, exp=True)
        h = mp.mpf(10) ** -16
        sym = (f(h) + f(-h)) / 2     # cross-check: symmetric mean, error O(h²)
        if abs(a - sym) > mp.mpf(10) ** -12 * max(1, abs(sym)):
            a = sym
        return show(a) if mp.isfinite(a) else 'nonfinite'
    except Exception as e:   # noqa
        return 'err:' + type(e).__name__


def windows_of(model, V, expr):
    """(lo, hi) of every generated piecewise, outermost first; the bounds are read from the condition"""
    import sympy
    out = []

    def rec(e):
        if isinstance(e, sympy.Piecewise) and len(e.args) == 2 and e.args[1][1] is sympy.true and \
                not isinstance(e.args[0][1], sympy.StrictLessThan):
            cond = e.args[0][1]
            bounds = []
            for r in cond.atoms(sympy.core.relational.Relational):
                for side in r.args:
                    if side is not V:
                        val = Evaluator(model, V, mp.mpf(0)).ev(side)
                        if all(abs(val - b) > 0 for b in bounds):
                            bounds.append(val)
            if len(bounds) == 2:
                out.append([show(min(bounds)), show(max(bounds))])
            else:
                out.append(['?', '?'])
            rec(e.args[1][0])
            return
        for a in e.args:
            rec(a)
    rec(expr)
    return out


def unit_class(model, expr):
    from cellmlmanip import units as U
    try:
        r = model.units.evaluate_units(expr)
        return 'unit' if isinstance(r, model.units.Unit) else 'other:' + type(r).__name__
    except U.UnitError as e:
        return 'UnitError:' + type(e).__name__
    except Exception as e:   # noqa
        return 'other:' + type(e).__name__


def impl(case):
    import networkx as nx
    from cellmlmanip.model import Quantity
    b = build(case)
    m, V = b.model, b.V
    before = list(m.equations)
    obs = {'eq_order': [lhs_name(e.lhs) for e in before],
           'trees': {lhs_name(e.lhs): tree(e.rhs, V) for e in before},
           'order': [lhs_name(n) for n in nx.lexicographical_topological_sort(m.graph, key=str)
                     if m.graph.nodes[n]['equation'] is not None],
           'defined_before': sorted(v.name for v in m.variables() if m.get_definition(v) is not None)}
    probe = {e['name']: e['probe'] for e in case['eqs']}
    if case.get('ode'):
        probe['d:V'] = case['ode']['probe']
    rhs_before = {lhs_name(e.lhs): e.rhs for e in before}
    units_before = {lhs_name(e.lhs): [unit_class(m, e.lhs), unit_class(m, e.rhs)] for e in before}
    obs['varvals'] = {}
    for e in before:
        if isinstance(e.rhs, Quantity):
            obs['varvals'][lhs_name(e.lhs)] = safe_eval(m, V, mp.mpf(0), e.rhs)
    obs['before'] = {n: {v: safe_eval(m, V, _mpf(v), rhs_before[n]) for v in vs} for n, vs in probe.items()}
    obs['limit'] = {}
    for e in case['eqs'] + ([dict(case['ode'], name='d:V')] if case.get('ode') else []):
        for t in e['terms']:
            if obs['before'][e['name']].get(t['v0']) in ('div0', 'nonfinite'):
                obs['limit'].setdefault(e['name'], {})[t['v0']] = limit_at(m, V, _mpf(t['v0']), rhs_before[e['name']])
    try:
        m.remove_fixable_singularities(V, {b.vars[n] for n in case['exclude'] if n in b.vars})
        obs['raised'] = None
    except Exception as e:   # noqa
        obs['raised'] = type(e).__name__ + ': ' + str(e)[:200]
    after = list(m.equations)
    same_object = {lhs_name(e.lhs) for e in after if any(e is o for o in before)}
    obs['eq_order_after'] = [lhs_name(e.lhs) for e in after]
    obs['defined_after'] = sorted(v.name for v in m.variables() if m.get_definition(v) is not None)
    obs['changed'] = sorted(n for n in obs['eq_order_after'] if n not in same_object)
    rhs_after = {lhs_name(e.lhs): e.rhs for e in after}
    obs['rhs_equal'] = {n: bool(n in rhs_after and rhs_after[n] == rhs_before[n]) for n in rhs_before}
    obs['windows'] = {n: windows_of(m, V, rhs_after[n]) for n in obs['changed']}
    obs['after'] = {n: {v: safe_eval(m, V, _mpf(v), rhs_after[n]) for v in vs} for n, vs in probe.items()
                    if n in rhs_after}
    # C18: every number keeps a real unit
    c18 = []
    for e in after:
        n = lhs_name(e.lhs)
        bad = sorted({str(q_) for q_ in e.rhs.atoms(Quantity) if not isinstance(q_.units, m.units.Unit)})
        cls = [unit_class(m, e.lhs), unit_class(m, e.rhs)]
        # string units make evaluate_units raise TypeError. (evaluate_units computes with magnitudes and `Add` stands for
        # its first operand, so it can raise ZeroDivisionError/OverflowError on an equation as written, e.g. 1/(0·mV − V)
        # once a constant has been substituted: that is C04's business, not reported here.)
        worse = any(c == 'other:TypeError' and c != c0 for c, c0 in zip(cls, units_before.get(n, ['unit', 'unit'])))
        if bad or worse:
            c18.append([n, bad[:4], cls])
    obs['c18'] = c18
    return obs


# ------------------------------------------------------------------------------------------------ model
def to_sx(t):
    if isinstance(t, list):
        if t[0] == 'var':
            return ['var', Str(t[1])]
        if t[0] == 'fn':
            return ['fn', Str(t[1])] + [to_sx(a) for a in t[2:]]
        if t[0] == 'num':
            return ['num', t[1]]
        if t[0] == 'pow':
            return ['pow', to_sx(t[1]), t[2]]
        return [t[0]] + [to_sx(a) for a in t[1:]]
    return t


def requests(case, obs):
    if 'trees' not in obs:
        return []
    probe = [[Str(e['name'])] + e['probe'] for e in case['eqs']]
    if case.get('ode'):
        probe.append([Str('d:V')] + case['ode']['probe'])
    # two variants: the factors of every product in the given order and in reverse (see Detect.lean, `rev`)
    return [sx(['C12', ['delta', DELTA], ['rev', rev],
                ['eqs'] + [[Str(n), to_sx(obs['trees'][n])] for n in obs['eq_order']],
                ['order'] + [Str(n) for n in obs['order']],
                ['exclude'] + [Str(n) for n in case['exclude']],
                ['probe'] + probe]) for rev in (False, True)]


class TreeEval:
    """evaluate the model's tree with mpmath, taking every inside/outside decision from the model's list"""

    def __init__(self, decisions, varvals):
        self.dec, self.pos, self.varvals, self.scale = decisions, 0, varvals, mp.mpf(0)

    def ev(self, t, v):
        if t == 'V':
            return v
        op = t[0]
        if op == 'num':
            return _mpf(t[1])
        if op == 'var':
            return mp.mpf(self.varvals[str(t[1])])
        if op == 'add':
            return mp.fsum([self.ev(a, v) for a in t[1:]])
        if op == 'mul':
            return mp.fprod([self.ev(a, v) for a in t[1:]])
        if op == 'pow':
            b, n = self.ev(t[1], v), int(t[2])
            return b ** n if n >= 0 else mp.mpf(1) / (b ** (-n))
        if op == 'exp':
            return mp.exp(self.ev(t[1], v))
        if op == 'pw':
            d = self.dec[self.pos]
            self.pos += 1
            if d == 'out':
                return self.ev(t[3], v)
            a = self.ev(t[3], _mpf(t[1]))
            b = self.ev(t[3], _mpf(t[2]))
            self.scale = max(self.scale, abs(a), abs(b))
            return a + _mpf(d[1]) * (b - a)
        raise TypeError('cannot evaluate %r' % (op,))


def close(a, b, rel, floor=0):
    return abs(a - b) <= rel * max(abs(a), abs(b), floor)


def compare(case, obs, replies):
    for rep in replies:
        if not isinstance(rep, list) or len(rep) != 3:
            return 'model reply malformed: %r' % (rep,)
    skip = {str(n) for n in replies[0][0][1:]}   # a product outside the modelled fragment (symbolic offset): oracle only
    if obs.get('raised'):
        return 'implementation raised %s, model has no failure mode' % obs['raised']
    variants = []
    for rep in replies:
        variants.append(({str(e[0]): e for e in rep[1][1:]}, [str(e[0]) for e in rep[1][1:]],
                         {str(p[0]): p[1:] for p in rep[2][1:]}))
    meqs, morder, _ = variants[0]
    mchanged = sorted(n for n, e in meqs.items() if e[1] == 'true' and n not in skip)
    ichanged = [n for n in obs['changed'] if n not in skip]
    if mchanged != ichanged:
        return 'changed equations: implementation %s, model %s' % (ichanged, mchanged)
    if [n for n in morder if n not in skip] != [n for n in obs['eq_order_after'] if n not in skip]:
        return 'Model.equations order after the call: implementation %s, model %s' % (obs['eq_order_after'], morder)
    for n in obs['eq_order_after']:
        why = None
        if n in skip:
            continue
        for meqs, _, mprobe in variants:
            why = compare_equation(n, meqs[n], mprobe.get(n), obs)
            if why is None:
                break
        if why:
            return why
    return None


def compare_equation(n, meq, mprobe, obs):
    if meq[1] == 'true':
        mw = sorted([_mpf(w[0]), _mpf(w[1])] for w in meq[2][1:])
        try:
            iw = sorted([mp.mpf(w[0]), mp.mpf(w[1])] for w in obs['windows'][n])
        except (ValueError, TypeError):
            return '%s: unreadable ranges %s' % (n, obs['windows'][n])
        if len(mw) != len(iw):
            return '%s: ranges: implementation %s, model %s' % (n, obs['windows'][n], meq[2][1:])
        for (ml, mh), (il, ih) in zip(mw, iw):
            half = (mh - ml) / 2
            for a, b in ((ml, il), (mh, ih)):
                if not (close(a, b, mp.mpf('1e-9')) and abs(a - b) <= half / 1000 + abs(a) * mp.mpf('1e-14')):
                    return '%s: range bound: implementation %s, model %s' % (n, show(b), show(a))
    for item in mprobe or []:
        v, dec = item[0], item[1:]
        te = TreeEval(dec, obs['varvals'])
        try:
            val = te.ev(meq[3], _mpf(v))
            mval = show(val) if mp.isfinite(val) else 'nonfinite'
        except ZeroDivisionError:
            mval = 'div0'
        except TypeError:
            break         # an unchanged user Piecewise: nothing the model could evaluate
        if te.pos != len(dec) and mval != 'div0':
            return '%s at V=%s: %d decisions, %d used' % (n, v, len(dec), te.pos)
        ival = obs['after'][n][v]
        if mval in ('div0', 'nonfinite') or ival in ('div0', 'nonfinite') or ival.startswith('err'):
            if (mval in ('div0', 'nonfinite')) != (ival in ('div0', 'nonfinite')):
                return '%s at V=%s: implementation %s, model %s' % (n, v, ival, mval)
            continue
        if not close(mp.mpf(ival), val, mp.mpf('1e-9'), te.scale + mp.mpf('1e-20')):
            return '%s at V=%s: implementation %s, model %s' % (n, v, ival, mval)
    return None


# ------------------------------------------------------------------------------------------------ property oracle
def not_repaired_key(e, style):
    if e['kind'] in ('prod-equal-sp', 'reciprocal', 'sum-of-product'):
        return 'not-repaired:' + {'prod-equal-sp': 'product-equal-sp',
                                  'sum-of-product': 'sum-drops-nested-range'}.get(e['kind'], e['kind'])
    return 'not-repaired:exp-split-offset' if style in ('plus', 'minus', 'kvar') else 'not-repaired:factored'


def oracle(case, obs):
    """C12 stated on what the implementation did, independent of the Lean model."""
    fails = []
    if obs.get('raised'):
        return [{'key': 'raised:' + obs['raised'].split(':')[0], 'detail': obs['raised']}]
    if obs['defined_before'] != obs['defined_after']:
        fails.append({'key': 'defined-set-changed', 'detail': '%s -> %s' % (obs['defined_before'],
                                                                           obs['defined_after'])})
    if sorted(obs['eq_order']) != sorted(obs['eq_order_after']):
        fails.append({'key': 'defined-set-changed', 'detail': 'left-hand sides %s -> %s'
                      % (obs['eq_order'], obs['eq_order_after'])})
    for c in case['consts'] + [{'name': 'X'}]:
        if c['name'] in obs['changed'] or not obs['rhs_equal'].get(c['name'], False):
            fails.append({'key': 'constant-changed', 'detail': c['name']})
    eqs = list(case['eqs'])
    if case.get('ode'):
        eqs.append(dict(case['ode'], name='d:V', kind='single', expect='repair', detail='ode'))
    for e in eqs:
        n = e['name']
        changed = n in obs['changed']
        if e['expect'] == 'same':
            if changed or not obs['rhs_equal'].get(n, False):
                key = {'plain': 'plain-changed', 'excluded-equation': 'excluded-changed',
                       'piecewise-rhs': 'piecewise-rhs-changed'}.get(e['kind'], 'changed-without-pattern:' + e['detail'])
                fails.append({'key': key, 'detail': '%s (%s) was replaced; ranges %s'
                              % (n, e['detail'], obs['windows'].get(n))})
                # a pole replaced by a straight line: report the first voltage where the value differs
            continue
        wins = []
        for w in obs['windows'].get(n, []):
            try:
                wins.append((mp.mpf(w[0]), mp.mpf(w[1])))
            except (ValueError, TypeError):
                fails.append({'key': 'range-unreadable', 'detail': '%s %s' % (n, w)})
        terms = [(Fraction(t['k']), Fraction(t['v0'])) for t in e['terms']]
        # every term's singular point is covered by a range; every range is of the order of U_offset around one
        for (k, v0), t in zip(terms, e['terms']):
            if not any(lo < _mpf(v0) < hi for lo, hi in wins):
                fails.append({'key': not_repaired_key(e, t['style']), 'detail': '%s = %s: the singular point V=%s (U = %s·(V − %s)) '
                              'is not covered by a piecewise; ranges %s' % (n, e['detail'], v0, k, v0, wins)})
        for lo, hi in wins:
            ok = any(lo < _mpf(v0) < hi and (hi - lo) * abs(_mpf(k)) <= 2 * _mpf(DELTA) * (1 + mp.mpf('1e-6'))
                     and (hi - lo) * abs(_mpf(k)) >= _mpf(DELTA) / 2 for k, v0 in terms)
            if not ok:
                fails.append({'key': 'range-not-around-singularity', 'detail': '%s: [%s, %s] for terms %s'
                              % (n, show(lo), show(hi), e['terms'])})
        # values: equal outside every range, finite and accurate inside
        for v in e['probe']:
            a, b = obs['after'].get(n, {}).get(v), obs['before'][n][v]
            x = _mpf(v)
            inside = any(lo <= x <= hi for lo, hi in wins)
            if a is None or a.startswith('err'):
                fails.append({'key': 'evaluation-failed', 'detail': '%s at V=%s: %s' % (n, v, a)})
                continue
            if not inside:
                if b in ('div0', 'nonfinite'):
                    if a != b and not any(_mpf(v0) == x for _, v0 in terms):
                        fails.append({'key': 'outside-changed', 'detail': '%s at V=%s: %s -> %s' % (n, v, b, a)})
                    continue        # an unrepaired singular point is reported above
                if a in ('div0', 'nonfinite') or not close(mp.mpf(a), mp.mpf(b), mp.mpf('1e-25'), mp.mpf('1e-30')):
                    fails.append({'key': 'outside-changed', 'detail': '%s at V=%s outside every range: %s -> %s'
                                  % (n, v, b, a)})
                continue
            if a in ('div0', 'nonfinite'):
                fails.append({'key': 'inside-not-finite', 'detail': '%s at V=%s: %s' % (n, v, a)})
                continue
            ref = b if b not in ('div0', 'nonfinite') else obs['limit'].get(n, {}).get(v)
            if ref is None or ref.startswith('err') or ref == 'nonfinite':
                fails.append({'key': 'no-reference-value', 'detail': '%s at V=%s: before %s, limit %s' % (n, v, b, ref)})
                continue
            if not close(mp.mpf(a), mp.mpf(ref), mp.mpf('1e-6'), 1):
                fails.append({'key': 'inside-inaccurate', 'detail': '%s at V=%s: %s, analytic %s' % (n, v, a, ref)})
    for n, bad, cls in obs['c18']:
        fails.append({'key': 'c18-string-units', 'detail': '%s: quantities %s carry units that are not a Unit of the '
                      'model\'s store; evaluate_units(lhs, rhs) -> %s' % (n, bad, cls)})
    seen, out = set(), []
    for f in fails:
        if f['key'] not in seen or len(out) < 6:
            out.append(f)
            seen.add(f['key'])
    return out[:10]


def shrink(violation):
    """keep only the equation a failure names (plus the constants it uses), if that still fails with the same key"""
    case, key = violation['case'], violation['failures'][0]['key']
    name = violation['failures'][0]['detail'].split(':')[0].split(' ')[0]
    for e in case['eqs']:
        if e['name'] == name:
            small = dict(case, eqs=[e], ode=None)
            obs = impl(small)
            fails = [f for f in oracle(small, obs) if f['key'] == key]
            if fails:
                return {'case': small, 'failures': fails, 'obs': obs}
    return None


def nontrivial(case, obs):
    return bool(obs.get('changed'))


def tag(case, obs):
    n = len(obs.get('changed', []))
    kinds = {e['kind'] for e in case['eqs']}
    special = [k for k in ('prod-equal-sp', 'sum-of-product', 'reciprocal', 'symbolic-offset', 'near-miss') if k in kinds]
    return '%s equations changed%s' % ('0' if n == 0 else '1-3' if n <= 3 else '4+',
                                       (' [' + ','.join(special) + ']') if special else '')


MANIFEST = {
    'technique': 'Lean 4 theorems over every ordered field (range algebra, piecewise interpolation for an arbitrary '
                 'function, wrapping recursion for an arbitrary detector, model traversal, semantic soundness) + '
                 'differential correspondence with 40-digit evaluation',
    'text': ('Proved in Lean (lean/Cellml/Props/C12.lean, standard axioms only), for every ordered field, every slope '
             'k ≠ 0, offset, δ > 0, voltage: the range of U = k·V + c brackets the singular point and is exactly '
             '|U| ≤ δ (window_brackets); for ANY function f the piecewise equals f outside the range (outside_equal), '
             'inside it is a convex combination of the two edge values, between them, within |f(b) − f(a)| of each, and '
             'equal to them at the edges (inside_between); the swap is irrelevant; the sum-level merge is the widest '
             'range (merge_widest, merge_all_widest); the sequential merge of _get_singularity is not (proved '
             'counterexample + partial theorem). For every expression tree, detector and interpretation of exp: the '
             'tree returned by _fix_expr_parts evaluates like the original outside every generated range '
             '(fix_outside_equal), and every solution of the original model satisfies every equation of the repaired '
             'model outside its ranges (traverse_sound). Traversal: left-hand sides are a permutation of the old ones '
             '(defined_vars_unchanged), excluded / Piecewise / pattern-free equations survive unchanged. The four forms '
             'with affine U are detected with exactly one range and repaired, for all rational P, k ≠ 0, c '
             '(forms_detected, forms_detected_zero_offset, forms_repaired). The model is tied to '
             '_singularity_fixes.py by a seeded correspondence check (which equations change, order of '
             'Model.equations, ranges at 1e-9, values at 13 voltages per term with the inside/outside decisions and '
             'interpolation coefficients taken from the model) and an independent mpmath oracle. Four defects fixed '
             '(string units, two matcher defects, dead 1/A branch), three known findings.'),
    'note': ('NOT proved: the distance of the interpolated value from the analytic limit (real analysis over exp); '
             'checked numerically by the oracle (relative 1e-6) on every generated equation. SymPy '
             '(canonicalisation, match, solveset) is modelled on the affine fragment, not verified; equations whose '
             'U contains a non-substituted parameter are checked by the oracle only.'),
}
