import Cellml.Generated.Code.SingFix
import Cellml.C12.Lemmas
import Mathlib.Tactic.SplitIfs
set_option linter.unusedSimpArgs false

/-! # Tie: `_remove_singularities` and `_fix_expr_parts` (generated from the source) = `C12.removeSing`, `C12.fixBody`
    / `C12.fixParts` (hand model) -/

namespace Cellml.Tie.Sing
open C12 C12.Expr Cellml.Gen

/-- `_generate_piecewise(ex, V, sp, Vmin, Vmax) if sp is not None else ex` on the python spelling of a model result
    is the model's `wrap` -/
theorem genPw_enc (r : Res) :
    (if (enc r).2.2.1.isSome = true then genPw (enc r).2.2.2.1 (enc r).2.2.1 (enc r).1 (enc r).2.1 else (enc r).2.2.2.1)
      = wrap r := by
  obtain ⟨w, e, c⟩ := r
  cases w <;> simp [enc, genPw, wrap]

theorem genPw_res (r : Res) :
    (if r.win.isSome = true then genPw r.ex (r.win.map (·.sp)) (r.win.map (·.vmin)) (r.win.map (·.vmax)) else r.ex)
      = wrap r := by
  obtain ⟨w, e, c⟩ := r
  cases w <;> simp [genPw, wrap]

theorem touched_enc (r : Res) : ((enc r).2.2.2.2 || (enc r).1.isSome) = r.touched := by
  obtain ⟨w, e, c⟩ := r
  cases w <;> simp [enc, Res.touched]

/-- what `_remove_singularities` returns, by the model: `(changed, new expression)` -/
def pyRemoveSing (det : List Expr → List (Win Rat)) (e : Expr) : Bool × Expr :=
  if !e.hasExp then (false, e)
  else ((fixParts det (e.size + 1) e).touched, wrap (fixParts det (e.size + 1) e))

/-- **Tie of `_remove_singularities`**: with `_fix_expr_parts` the model's `fixParts` (in its python spelling `enc`),
    the generated function never raises and returns `(changed, ex)` with … -/
theorem removeSingularities_tie (det : List Expr → List (Win Rat)) (e : Expr) :
    SingFix.removeSingularities (fun x => .ok (enc (fixParts det (x.size + 1) x))) e = .ok (pyRemoveSing det e) := by
  unfold SingFix.removeSingularities pyRemoveSing
  by_cases h : e.hasExp = true
  · simp only [bind, Except.bind, pure, Except.pure, Py.truthy_bool, h, Bool.not_true, Bool.false_eq_true, if_false,
      genPw_enc, touched_enc]
  · simp [h, pure, Except.pure]

/-- … `changed` exactly when the model's `removeSing` replaces the equation, and then `ex` is the replacement: the
    `fix` argument of the traversal built from the python pair is the model's `removeSing` -/
theorem fixOf_pyRemoveSing (det : List Expr → List (Win Rat)) : fixOf (pyRemoveSing det) = removeSing det := by
  funext e
  unfold fixOf pyRemoveSing removeSing
  by_cases h : e.hasExp = true <;> simp [h]

/-! ## `_fix_expr_parts` -/

/-- a python `for` loop whose body neither raises nor leaves the loop is a left fold -/
theorem forIn_ok_yield {α β : Type} (l : List α) (init : β) (g : α → β → β) :
    forIn l init (fun a s => (Except.ok (ForInStep.yield (g a s)) : Except PyErr (ForInStep β)))
      = Except.ok (l.foldl (fun s a => g a s) init) := by
  induction l generalizing init with
  | nil => rfl
  | cons a as ih => rw [List.forIn_cons]; simp only [bind, Except.bind]; exact ih _

/-- the loop "append the (wrapped) part, or-in whether it was touched" -/
theorem foldl_parts {α : Type} (l : List α) (g : α → Expr) (t u : α → Bool) (acc : List Expr) (b : Bool) :
    l.foldl (fun (s : List Expr × Bool) a => (s.1 ++ [g a], s.2 || t a || u a)) (acc, b)
      = (acc ++ l.map g, b || l.any (fun a => t a || u a)) := by
  induction l generalizing acc b with
  | nil => simp
  | cons a as ih => rw [List.foldl_cons, ih]; simp [Bool.or_assoc]

theorem genPw_winTuple (e : Expr) (w : Win Rat) :
    genPw e (winTuple w).2.2 (winTuple w).1 (winTuple w).2.1 = wrapWin w e := by
  simp [genPw, winTuple]

theorem dropOnes_filter (as : List Expr) :
    mkMul (List.map (fun a => a) (List.filter (fun a => !(a.isOne && unitless a)) as)) = dropOnes (mul as) := by
  simp [dropOnes, unitless]

theorem mkMul_two (l : List Expr) (h : 2 ≤ l.length) : mkMul l = mul l := by
  match l, h with
  | _ :: _ :: _, _ => rfl

@[simp] theorem args_mul (as : List Expr) : args (mul as) = as := rfl
@[simp] theorem args_add (as : List Expr) : args (add as) = as := rfl
@[simp] theorem isMul_mul (as : List Expr) : isMul (mul as) = true := rfl

theorem map_wrap_enc (rec : Expr → Res) (bs : List Expr) :
    List.map (fun a => if (enc (rec a)).2.2.1.isSome = true then
        genPw (enc (rec a)).2.2.2.1 (enc (rec a)).2.2.1 (enc (rec a)).1 (enc (rec a)).2.1 else (enc (rec a)).2.2.2.1) bs
      = (bs.map rec).map wrap := by
  simp only [genPw_enc, List.map_map]; rfl

theorem any_touched_enc (rec : Expr → Res) (bs : List Expr) :
    (bs.any fun a => (enc (rec a)).2.2.2.2 || (enc (rec a)).1.isSome) = (bs.map rec).any Res.touched := by
  simp only [touched_enc, List.any_map]; rfl

/-- **Tie of `_fix_expr_parts` (open recursion), PARTIAL: every branch except `A + B + …`.**
    For every detector `det` (`_get_singularity`), every value `rec` of the recursive calls and every expression `e`
    whose ones-free form `dropOnes e` is not a sum (`hna`) and, when it is a product, has at least two factors
    (`hcanon`: SymPy never holds a `Mul` with fewer; `Mul(*[x])` is `x` in python but `mul [x]` in the model), the
    definition generated from `_fix_expr_parts` never raises and returns the python spelling of the hand model's
    `if !e.hasExp then ⟨none, e, false⟩ else fixBody det rec (dropOnes e)` — the body of `C12.fixParts`.
    MISSING: the `isinstance(expr, Add)` branch (`sameSp` / `mergeAll` against `set(str(sp))`, `min` / `max` of the
    flat list of bounds) — the generated definition contains it, the theorem does not speak about it. -/
theorem fixExprParts_tie_partial (det : List Expr → List (Win Rat)) (rec : Expr → Res) (e : Expr)
    (hna : isAdd (dropOnes e) = false) (hcanon : ∀ as, dropOnes e = mul as → 2 ≤ as.length) :
    SingFix.fixExprParts det (fun x => enc (rec x)) e
      = .ok (enc (if e.hasExp then fixBody det rec (dropOnes e) else ⟨none, e, false⟩)) := by
  by_cases h : e.hasExp = true
  · rw [if_pos h]
    unfold SingFix.fixExprParts
    cases e with
    | mul as =>
      simp only [bind, Except.bind, pure, Except.pure, Py.truthy_bool, isMul_mul, args_mul, h, Bool.not_true,
        Bool.false_eq_true, if_false, if_true, dropOnes_filter]
      generalize dropOnes (mul as) = x at *
      cases x with
      | add bs => simp [isAdd] at hna
      | mul bs =>
        have hb : 2 ≤ bs.length := hcanon bs rfl
        simp only [isAdd, isPow, isMul_mul, args_mul, Bool.false_eq_true, if_false, Bool.false_and, if_true]
        simp only [fixBody]
        obtain ⟨l, hl⟩ : ∃ l, det bs = l := ⟨_, rfl⟩
        simp only [hl]
        match l with
        | [] =>
          simp only [List.map_nil, List.length_nil, forIn_ok_yield, foldl_parts, map_wrap_enc, any_touched_enc]
          simp [enc, mkMul_two, hb, Function.comp_def]
        | [w] => simp [winTuple, enc]
        | w :: w' :: ws =>
          simp [forIn_ok_yield, enc, List.foldl_map, genPw_winTuple]
          simp [winTuple]
      | pow b k =>
        by_cases hk : k = -1
        · subst hk
          simp [isAdd, isPow, isMul, args, arg0, powExp, fixBody, enc, genPw_res, Res.touched]
        · simp [isAdd, isPow, isMul, args, arg0, powExp, fixBody, hk, enc]
      | _ => simp [isAdd, isPow, isMul, fixBody, enc]
    | add bs => simp [isAdd, dropOnes] at hna
    | pow b k =>
      by_cases hk : k = -1
      · subst hk
        simp [pure, Except.pure, h, isAdd, isPow, isMul, args, arg0, powExp, fixBody, dropOnes, enc, genPw_res,
          Res.touched]
      · simp [bind, Except.bind, pure, Except.pure, h, isAdd, isPow, isMul, args, arg0, powExp, fixBody, dropOnes,
          hk, enc]
    | _ => simp [bind, Except.bind, pure, Except.pure, h, isAdd, isPow, isMul, fixBody, dropOnes, enc]
  · unfold SingFix.fixExprParts
    simp [h, pure, Except.pure, enc]

/-- `hcanon` is needed: on the (non-SymPy) tree `Mul(Mul(exp(V)))` with a detector that finds nothing, python's
    `Mul(*expr_parts)` of the single rebuilt factor IS that factor (`exp(V)`), the model returns `mul [exp V]` -/
example :
    (SingFix.fixExprParts (fun _ => []) (fun x => enc ⟨none, x, false⟩) (mul [mul [exp volt]])).map
        (fun r => isMul r.2.2.2.1) = .ok false ∧
    isMul (fixBody (fun _ => []) (fun x => ⟨none, x, false⟩) (dropOnes (mul [mul [exp volt]]))).ex = true := by
  constructor <;> rfl

/-- the hand model `fixParts` is a fixpoint of the generated functional (on the same domain) -/
theorem fixParts_fixpoint_partial (det : List Expr → List (Win Rat)) (n : Nat) (e : Expr)
    (hna : isAdd (dropOnes e) = false) (hcanon : ∀ as, dropOnes e = mul as → 2 ≤ as.length) :
    SingFix.fixExprParts det (fun x => enc (fixParts det n x)) e = .ok (enc (fixParts det (n + 1) e)) := by
  rw [fixExprParts_tie_partial det _ e hna hcanon]
  unfold fixParts
  by_cases h : e.hasExp = true <;> simp [h]

end Cellml.Tie.Sing
