import Cellml.Basic.Sexp
/-! Channel C01 of the model driver (stub: not built yet). -/
namespace C01
def handle (_args : List Sexp) : Sexp := .atom "not-implemented"
end C01
