import Cellml.Tie.Prelude

/-! # GenB: python's `while test(s): s = body(s)` over a GENERATED loop body, three ways

    The code translator writes the body of a `while` loop as a step function on the loop state (`while_body`) and the
    test as a Boolean function. To state a property of the python function that contains the loop, the loop itself has
    to be put back. This file does that generically (core Lean only):

    * `WhileRuns test body s r` — the big-step semantics of the python statement: the loop started in state `s` ends
      with `r` (the final state, or the exception raised by an iteration). Deterministic (`WhileRuns.det`). A loop
      that does not terminate has no `r`.
    * `whileFuel test body n s` — the loop with a budget of `n` passes through the test; `none` = budget exhausted.
    * `whileMeasure μ test body s` — the loop as a TOTAL function by well-founded recursion on a measure
      `μ : σ → Nat × Nat` (lexicographic). An iteration that does not decrease `μ` ends the loop with the pseudo-exception
      `MeasureViolation`; whenever the result is anything else, it is the result of the python loop
      (`whileMeasure_runs`). -/

namespace Cellml.Tie.PGenB
open Cellml.Tie

variable {σ : Type}

/-- big-step semantics of `while test(s): s = body(s)` -/
inductive WhileRuns (test : σ → Bool) (body : σ → Except PyErr σ) : σ → Except PyErr σ → Prop
  | stop (s : σ) : test s = false → WhileRuns test body s (.ok s)
  | raise (s : σ) (e : PyErr) : test s = true → body s = .error e → WhileRuns test body s (.error e)
  | step (s s' : σ) (r : Except PyErr σ) : test s = true → body s = .ok s' → WhileRuns test body s' r →
      WhileRuns test body s r

theorem WhileRuns.det {test : σ → Bool} {body : σ → Except PyErr σ} {s : σ} {r r' : Except PyErr σ}
    (h : WhileRuns test body s r) (h' : WhileRuns test body s r') : r = r' := by
  induction h with
  | stop s ht =>
    cases h' with
    | stop => rfl
    | raise _ _ ht' => rw [ht] at ht'; cases ht'
    | step _ _ _ ht' => rw [ht] at ht'; cases ht'
  | raise s e ht hb =>
    cases h' with
    | stop _ ht' => rw [ht] at ht'; cases ht'
    | raise _ _ _ hb' => rw [hb] at hb'; cases hb'; rfl
    | step _ _ _ _ hb' => rw [hb] at hb'; cases hb'
  | step s s' r ht hb _ ih =>
    cases h' with
    | stop _ ht' => rw [ht] at ht'; cases ht'
    | raise _ _ _ hb' => rw [hb] at hb'; cases hb'
    | step _ s'' _ _ hb' hr' =>
      rw [hb] at hb'; cases hb'
      exact ih hr'

/-- the loop with a step budget (`none`: the budget ran out before the loop ended) -/
def whileFuel (test : σ → Bool) (body : σ → Except PyErr σ) : Nat → σ → Option (Except PyErr σ)
  | 0, _ => none
  | n + 1, s =>
      if test s then
        match body s with
        | .error e => some (.error e)
        | .ok s' => whileFuel test body n s'
      else some (.ok s)

/-- a result within the budget is the result of the python loop -/
theorem whileFuel_runs {test : σ → Bool} {body : σ → Except PyErr σ} :
    ∀ (n : Nat) (s : σ) (r : Except PyErr σ), whileFuel test body n s = some r → WhileRuns test body s r := by
  intro n
  induction n with
  | zero => intro s r h; cases h
  | succ n ih =>
    intro s r h
    unfold whileFuel at h
    by_cases ht : test s = true
    · simp only [ht, if_true] at h
      cases hb : body s with
      | error e =>
        rw [hb] at h
        simp only [Option.some.injEq] at h
        subst h
        exact .raise s e ht hb
      | ok s' =>
        rw [hb] at h
        exact .step s s' r ht hb (ih s' r h)
    · have ht' : test s = false := by simpa using ht
      simp only [ht', Bool.false_eq_true, if_false, Option.some.injEq] at h
      subst h
      exact .stop s ht'

/-- the order the measure decreases in -/
abbrev lexLt (a b : Nat × Nat) : Prop := Prod.Lex (· < ·) (· < ·) a b

instance (a b : Nat × Nat) : Decidable (lexLt a b) := by
  unfold lexLt
  exact decidable_of_iff (a.1 < b.1 ∨ (a.1 = b.1 ∧ a.2 < b.2)) (by
    obtain ⟨a1, a2⟩ := a
    obtain ⟨b1, b2⟩ := b
    constructor
    · rintro (h | ⟨h1, h2⟩)
      · exact Prod.Lex.left _ _ h
      · simp only at h1; subst h1; exact Prod.Lex.right _ h2
    · intro h
      cases h with
      | left _ _ h => exact Or.inl h
      | right _ h => exact Or.inr ⟨rfl, h⟩)

/-- the loop as a total function: well-founded recursion on the measure `μ` -/
def whileMeasure (μ : σ → Nat × Nat) (test : σ → Bool) (body : σ → Except PyErr σ) (s : σ) : Except PyErr σ :=
  if test s then
    match body s with
    | .error e => .error e
    | .ok s' => if lexLt (μ s') (μ s) then whileMeasure μ test body s' else .error ⟨"MeasureViolation"⟩
  else .ok s
termination_by μ s
decreasing_by assumption

theorem whileMeasure_stop (μ : σ → Nat × Nat) (test : σ → Bool) (body : σ → Except PyErr σ) (s : σ)
    (ht : test s = false) : whileMeasure μ test body s = .ok s := by
  rw [whileMeasure]; simp [ht]

theorem whileMeasure_raise (μ : σ → Nat × Nat) (test : σ → Bool) (body : σ → Except PyErr σ) (s : σ) (e : PyErr)
    (ht : test s = true) (hb : body s = .error e) : whileMeasure μ test body s = .error e := by
  rw [whileMeasure]; simp [ht, hb]

theorem whileMeasure_step (μ : σ → Nat × Nat) (test : σ → Bool) (body : σ → Except PyErr σ) (s s' : σ)
    (ht : test s = true) (hb : body s = .ok s') (hlt : lexLt (μ s') (μ s)) :
    whileMeasure μ test body s = whileMeasure μ test body s' := by
  rw [whileMeasure]; simp [ht, hb, hlt]

theorem whileMeasure_violation (μ : σ → Nat × Nat) (test : σ → Bool) (body : σ → Except PyErr σ) (s s' : σ)
    (ht : test s = true) (hb : body s = .ok s') (hlt : ¬ lexLt (μ s') (μ s)) :
    whileMeasure μ test body s = .error ⟨"MeasureViolation"⟩ := by
  rw [whileMeasure]; simp [ht, hb, hlt]

/-- unless the measure guard fired, `whileMeasure` returns what the python loop returns -/
theorem whileMeasure_runs (μ : σ → Nat × Nat) (test : σ → Bool) (body : σ → Except PyErr σ) (s : σ)
    (h : whileMeasure μ test body s ≠ .error ⟨"MeasureViolation"⟩) :
    WhileRuns test body s (whileMeasure μ test body s) := by
  have wf : WellFounded (fun a b : σ => lexLt (μ a) (μ b)) :=
    InvImage.wf μ (Prod.lex Nat.lt_wfRel Nat.lt_wfRel).wf
  revert h
  refine wf.induction (C := fun s => whileMeasure μ test body s ≠ .error ⟨"MeasureViolation"⟩ →
    WhileRuns test body s (whileMeasure μ test body s)) s ?_
  intro s ih h
  by_cases ht : test s = true
  · cases hb : body s with
    | error e => rw [whileMeasure_raise μ test body s e ht hb]; exact .raise s e ht hb
    | ok s' =>
      by_cases hlt : lexLt (μ s') (μ s)
      · rw [whileMeasure_step μ test body s s' ht hb hlt] at h ⊢
        exact .step s s' _ ht hb (ih s' hlt h)
      · exact absurd (whileMeasure_violation μ test body s s' ht hb hlt) h
  · have ht' : test s = false := by simpa using ht
    rw [whileMeasure_stop μ test body s ht']
    exact .stop s ht'

end Cellml.Tie.PGenB
