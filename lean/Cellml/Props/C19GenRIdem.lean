import Cellml.Props.C19GenR

/-! # C19, generated `add_conversion_rule`: adding the same rule twice changes NO conversion

    `C19GenR.add_twice_idempotent` is about single lookups. Here the whole conversion: pint's path search
    (`Units.findPath`: iterative deepening over `walks`, first walk of the smallest length) over the rule list with the
    rule behind a newer rule with the same key (in particular: the same rule enabled twice) finds the same path as
    without it, the same transformations are applied along
    it, so `convertWithRules`, `convertQ`, `conversionFactorR` and the GENERATED `convert` / `get_conversion_factor`
    return the same for all units (`later_rule_replaces_in_conversions`, `add_twice_converts_alike`). -/

namespace Cellml.Props.C19GenR
open Units PMap Cellml.Gen Cellml.Tie Cellml.Tie.PUnits Cellml.Tie.PConvRule

/-- two lists with the same first element (or both empty) and the same elements -/
def Same {α : Type} (l l' : List α) : Prop := l.head? = l'.head? ∧ ∀ p, p ∈ l ↔ p ∈ l'

theorem Same.refl {α : Type} (l : List α) : Same l l := ⟨rfl, fun _ => Iff.rfl⟩

theorem Same.trans {α : Type} {a b c : List α} (h₁ : Same a b) (h₂ : Same b c) : Same a c :=
  ⟨h₁.1.trans h₂.1, fun p => (h₁.2 p).trans (h₂.2 p)⟩

theorem Same.append {α : Type} {a a' b b' : List α} (h₁ : Same a a') (h₂ : Same b b') :
    Same (a ++ b) (a' ++ b') := by
  refine ⟨?_, fun p => ?_⟩
  · rw [List.head?_append, List.head?_append, h₁.1, h₂.1]
  · rw [List.mem_append, List.mem_append, h₁.2, h₂.2]

theorem Same.map {α β : Type} (f : α → β) {a a' : List α} (h : Same a a') : Same (a.map f) (a'.map f) := by
  refine ⟨?_, fun p => ?_⟩
  · rw [List.head?_map, List.head?_map, h.1]
  · simp only [List.mem_map, h.2]

theorem Same.flatMap {α β : Type} (xs : List α) {f g : α → List β} (h : ∀ x, Same (f x) (g x)) :
    Same (xs.flatMap f) (xs.flatMap g) := by
  induction xs with
  | nil => exact Same.refl _
  | cons x xs ih => rw [List.flatMap_cons, List.flatMap_cons]; exact Same.append (h x) ih

theorem Same.dup {α : Type} (a b : List α) : Same (a ++ (a ++ b)) (a ++ b) := by
  refine ⟨?_, fun p => ?_⟩
  · simp only [List.head?_append]
    cases a.head? <;> simp
  · simp only [List.mem_append]
    constructor
    · rintro (h | h | h)
      · exact Or.inl h
      · exact Or.inl h
      · exact Or.inr h
    · rintro (h | h)
      · exact Or.inl h
      · exact Or.inr (Or.inr h)

/-! ### a rule behind a newer rule with the same key (in particular: behind itself) is never seen -/

/-- the walks of every length: same first walk, same walks, with and without the shadowed rule `r` -/
theorem walks_shadow (r' r : Rule) (rs : List Rule) (hs : r.src = r'.src) (hd : r.dst = r'.dst) :
    ∀ (n : Nat) (s d : Dims), Same (walks (r' :: r :: rs) n s d) (walks (r' :: rs) n s d) := by
  intro n
  induction n with
  | zero => intro s d; exact Same.refl _
  | succ n ih =>
    intro s d
    unfold walks
    by_cases h : r'.src = s
    · simp only [List.filter_cons, hs, hd, h, decide_true, if_true, List.flatMap_cons]
      exact Same.trans (Same.dup _ _)
        (Same.append (Same.map _ (ih _ _)) (Same.flatMap _ (fun x => Same.map _ (ih _ _))))
    · simp only [List.filter_cons, hs, h, decide_false, Bool.false_eq_true, if_false]
      exact Same.flatMap _ (fun x => Same.map _ (ih _ _))

theorem search_shadow (r' r : Rule) (rs : List Rule) (hs : r.src = r'.src) (hd : r.dst = r'.dst) (s d : Dims) :
    ∀ (fuel n : Nat), search (r' :: r :: rs) s d fuel n = search (r' :: rs) s d fuel n := by
  intro fuel
  induction fuel with
  | zero => intro n; rfl
  | succ fuel ih =>
    intro n
    rw [search_succ, search_succ, ih]
    have hS := (walks_shadow r' r rs hs hd n s d).1
    cases h2 : walks (r' :: r :: rs) n s d <;> cases h1 : walks (r' :: rs) n s d <;> simp_all

theorem search_more_fuel {rules : List Rule} {s d : Dims} : ∀ {fuel n : Nat} {p : List Dims},
    search rules s d fuel n = some p → search rules s d (fuel + 1) n = some p := by
  intro fuel
  induction fuel with
  | zero => intro n p h; simp [search] at h
  | succ fuel ih =>
    intro n p h
    rw [search_succ] at h
    rw [search_succ rules s d (fuel + 1) n]
    cases hw : walks rules n s d with
    | cons q t => rw [hw] at h; exact h
    | nil => rw [hw] at h; exact ih h

theorem reach_shadow {r' r : Rule} {rs : List Rule} (hs : r.src = r'.src) (hd : r.dst = r'.dst) {s d : Dims}
    (h : Reach (r' :: r :: rs) s d) : Reach (r' :: rs) s d := by
  induction h with
  | refl s => exact Reach.refl s
  | step x d hx _ ih =>
    simp only [List.mem_cons] at hx
    rcases hx with h | h | h
    · exact Reach.step x d (by simp [h]) ih
    · subst h
      rw [hs]; rw [hd] at ih
      exact Reach.step r' d (by simp) ih
    · exact Reach.step x d (by simp [h]) ih

/-- pint's path search finds the same path with and without the shadowed rule -/
theorem findPath_shadow (r' r : Rule) (rs : List Rule) (hs : r.src = r'.src) (hd : r.dst = r'.dst) (s d : Dims) :
    findPath (r' :: r :: rs) s d = findPath (r' :: rs) s d := by
  cases h : findPath (r' :: rs) s d with
  | none =>
    exact findPath_none_of_not_reach (fun hr => (findPath_none_iff.mp h) (reach_shadow hs hd hr))
  | some p =>
    unfold findPath at h ⊢
    rw [search_shadow r' r rs hs hd]
    exact search_more_fuel h

theorem lookupRule_shadow (r' r : Rule) (rs : List Rule) (hs : r.src = r'.src) (hd : r.dst = r'.dst) (s d : Dims) :
    lookupRule (r' :: r :: rs) s d = lookupRule (r' :: rs) s d := by
  rw [lookupRule_cons, lookupRule_cons, lookupRule_cons, hs, hd]
  split <;> rfl

theorem rulesAlong_shadow (r' r : Rule) (rs : List Rule) (hs : r.src = r'.src) (hd : r.dst = r'.dst) :
    ∀ (p : List Dims) (s : Dims), rulesAlong (r' :: r :: rs) s p = rulesAlong (r' :: rs) s p := by
  intro p
  induction p with
  | nil => intro s; rfl
  | cons d p ih => intro s; simp only [rulesAlong, lookupRule_shadow r' r rs hs hd, ih]

/-- pint's conversion with the enabled contexts does not see a transformation that a newer context overrides -/
theorem convertWithRules_shadow (reg : Registry) (r' r : Rule) (rs : List Rule) (hs : r.src = r'.src)
    (hd : r.dst = r'.dst) (a b : Container) :
    convertWithRules reg (r' :: r :: rs) a b = convertWithRules reg (r' :: rs) a b := by
  unfold convertWithRules
  simp only [findPath_shadow r' r rs hs hd, rulesAlong_shadow r' r rs hs hd]

/-- the model functions of C19 likewise -/
theorem shadowed_rule_invisible_model (reg : Registry) (r' r : Rule) (rs : List Rule) (hs : r.src = r'.src)
    (hd : r.dst = r'.dst) (a b : Container) :
    convertQ reg (r' :: r :: rs) a b = convertQ reg (r' :: rs) a b ∧
    conversionFactorR reg (r' :: r :: rs) a b = conversionFactorR reg (r' :: rs) a b := by
  have h : convertQ reg (r' :: r :: rs) a b = convertQ reg (r' :: rs) a b := by
    unfold convertQ; simp only [convertWithRules_shadow reg r' r rs hs hd]
  exact ⟨h, by unfold conversionFactorR; rw [h]⟩

/-- **A later rule for the same pair of dimensionalities replaces the earlier one in every conversion.** After
    `add_conversion_rule(f, t, rule)` and then `add_conversion_rule(f', t', rule')` with `f'`, `t'` of the dimensions of
    `f`, `t` (any units of those dimensions), the generated `convert` / `get_conversion_factor` answer exactly as on the
    object on which only the second call was made - for all magnitudes and all units, result or exception class. -/
theorem later_rule_replaces_in_conversions (st : Store) (reg : Registry) (rules : List Rule) (f t f' t' : Container)
    (body body' : List RFactor) (hf : allKnown reg f = true) (ht : allKnown reg t = true)
    (hf' : allKnown reg f' = true) (ht' : allKnown reg t' = true)
    (h₁ : dimsOf reg f ≃ dimsOf reg f') (h₂ : dimsOf reg t ≃ dimsOf reg t')
    (m : MagObj) (a b : Container) :
    ∃ s₁ s₂ s₂', addR st reg rules f t body = .ok s₁ ∧
      Gen.ConvRule.addConversionRule s₁ ⟨f'⟩ ⟨t'⟩ body' = .ok s₂ ∧ addR st reg rules f' t' body' = .ok s₂' ∧
      Gen.Units.convert s₂ ⟨m, ⟨a⟩⟩ ⟨b⟩ = Gen.Units.convert s₂' ⟨m, ⟨a⟩⟩ ⟨b⟩ ∧
      Gen.Units.getConversionFactor s₂ ⟨a⟩ ⟨b⟩ = Gen.Units.getConversionFactor s₂' ⟨a⟩ ⟨b⟩ := by
  have hs : (mkRule reg f t body).src = (mkRule reg f' t' body').src := by
    rw [mkRule_src, mkRule_src, dimsOf_eq_of_equiv h₁]
  have hd : (mkRule reg f t body).dst = (mkRule reg f' t' body').dst := by
    rw [mkRule_dst, mkRule_dst, dimsOf_eq_of_equiv h₂]
  refine ⟨_, _, _, addConversionRule_ok st reg rules f t body hf ht,
    addConversionRule_ok st reg _ f' t' body' hf' ht', addConversionRule_ok st reg rules f' t' body' hf' ht', ?_, ?_⟩
  · rw [PGenB.genConvert_rules, PGenB.genConvert_rules, convertWithRules_shadow reg _ _ rules hs hd]
  · apply C19Gen.getConversionFactor_congr
    show Gen.Units.convert _ ⟨MagObj.one, ⟨a⟩⟩ ⟨b⟩ = Gen.Units.convert _ ⟨MagObj.one, ⟨a⟩⟩ ⟨b⟩
    rw [PGenB.genConvert_rules, PGenB.genConvert_rules, convertWithRules_shadow reg _ _ rules hs hd]

/-- **Adding the same rule twice changes no conversion.** The object after two identical calls of the generated
    `add_conversion_rule` and the object after one answer every `convert` and every `get_conversion_factor` (both
    generated) alike - same quantity, same exception class - for all magnitudes and all units. -/
theorem add_twice_converts_alike (st : Store) (reg : Registry) (rules : List Rule) (f t : Container)
    (body : List RFactor) (hf : allKnown reg f = true) (ht : allKnown reg t = true)
    (m : MagObj) (a b : Container) :
    ∃ s₁ s₂, addR st reg rules f t body = .ok s₁ ∧ Gen.ConvRule.addConversionRule s₁ ⟨f⟩ ⟨t⟩ body = .ok s₂ ∧
      Gen.Units.convert s₂ ⟨m, ⟨a⟩⟩ ⟨b⟩ = Gen.Units.convert s₁ ⟨m, ⟨a⟩⟩ ⟨b⟩ ∧
      Gen.Units.getConversionFactor s₂ ⟨a⟩ ⟨b⟩ = Gen.Units.getConversionFactor s₁ ⟨a⟩ ⟨b⟩ := by
  obtain ⟨s₁, s₂, s₂', e₁, e₂, e₂', hc, hg⟩ := later_rule_replaces_in_conversions st reg rules f t f t body body
    hf ht hf ht (Equiv.refl _) (Equiv.refl _) m a b
  rw [e₁] at e₂'
  cases e₂'
  exact ⟨s₁, s₂, e₁, e₂, hc, hg⟩

end Cellml.Props.C19GenR
