import Cellml.Tie.ConvertCases

/-! # Tie, n-ary branches of `convert_expression_recursively`: `Add`, `Mul`, `And`, `Or`, n-ary functions (`Max`, `Min`, …).

    SymPy's nodes are flat (`Add(a, b, c)`), the model's are left-nested (`add (add a b) c`). The view shows the python
    `for arg in expr.args` loops the FLAT operand list along the left spine (`addArgs` …). Here: the generated loop over
    the n flat operands = the model's nested recursion (`add_loop`, `mul_loop`, `and_loop`, `or_loop`, `fn_loop`, by
    induction along the spine, arbitrary start state, using `convert_target` and `convert_ident`), and from that the
    per-constructor ties `tie_add`, `tie_mul`, `tie_and`, `tie_or`, `tie_fnN`. -/

set_option linter.constructorNameAsVariable false

namespace Cellml.Tie.PConvert
open Units Infer Convert Cellml.Gen

/-! ### a `for` loop whose body never breaks is a monadic left fold -/

/-- the loop `for a in xs: s = step(a, s)` -/
def loopM {σ : Type} (step : E → σ → Except PyErr σ) (xs : List E) (s : σ) : Except PyErr σ :=
  xs.foldlM (fun s a => step a s) s

theorem forIn_eq_loopM {σ : Type} (step : E → σ → Except PyErr σ) (F : E → σ → Except PyErr (ForInStep σ))
    (hF : ∀ a s, F a s = (step a s).map ForInStep.yield) (xs : List E) (s : σ) :
    forIn xs s F = loopM step xs s := by
  induction xs generalizing s with
  | nil => rfl
  | cons a xs ih =>
    simp only [List.forIn_cons, loopM, List.foldlM_cons, hF]
    cases step a s with
    | error e => rfl
    | ok s' => simpa [Except.map, bind, Except.bind, loopM] using ih s'

theorem loopM_append {σ : Type} (step : E → σ → Except PyErr σ) (xs ys : List E) (s : σ) :
    loopM step (xs ++ ys) s = (loopM step xs s).bind (loopM step ys) := by
  simp only [loopM, List.foldlM_append]; rfl

theorem loopM_one {σ : Type} (step : E → σ → Except PyErr σ) (a : E) (s : σ) : loopM step [a] s = step a s := by
  simp only [loopM, List.foldlM_cons, List.foldlM_nil]
  cases step a s <;> rfl

theorem loopM_snoc {σ : Type} (step : E → σ → Except PyErr σ) (xs : List E) (b : E) (s : σ) :
    loopM step (xs ++ [b]) s = (loopM step xs s).bind (step b) := by
  rw [loopM_append]; congr 1; funext s'; exact loopM_one step b s'

/-- what a loop lemma says: the model fails - the loop fails with the same class; the model succeeds with `r` - the loop
    ends in a state related to `r` -/
def LoopSpec {σ : Type} (res : Except UnitErr CR) (out : Except PyErr σ) (good : CR → σ → Prop) : Prop :=
  match res with
  | .error err => out = .error ⟨convCls err⟩
  | .ok r => ∃ s, out = .ok s ∧ good r s

theorem loopSpec_error {σ : Type} {err : UnitErr} {out : Except PyErr σ} {good : CR → σ → Prop} :
    LoopSpec (.error err) out good ↔ out = .error ⟨convCls err⟩ := Iff.rfl

theorem loopSpec_ok {σ : Type} {r : CR} {out : Except PyErr σ} {good : CR → σ → Prop} :
    LoopSpec (.ok r) out good ↔ ∃ s, out = .ok s ∧ good r s := Iff.rfl

section
variable (reg : Registry) (Γ : VarEnv)

local notation "GEN" => Gen.Convert.convertExpressionRecursively (convView reg Γ) (modelRec reg Γ)
local notation "MODEL" => fun e t => encConv (Convert.convert reg Γ e t)

/-! ### Add -/

/-- loop state of the Add branch: `(to_units, actual_units, was_converted, new_args)` -/
abbrev AddSt := PyUnit × PyUnit × Bool × List E

/-- one iteration of `for arg in expr.args` of the Add branch -/
def addStep (arg : E) (s : AddSt) : Except PyErr AddSt :=
  match modelRec reg Γ arg s.1 with
  | .error e => .error e
  | .ok x => .ok (if s.1.isNone then x.2.2 else s.1, x.2.2, x.2.1 || s.2.2.1, s.2.2.2 ++ [x.1])

/-- end state of the Add loop over the operands of a spine whose model result is `r` -/
def addGood (tu : PyUnit) (wc0 : Bool) (acc : List E) (r : CR) (s : AddSt) : Prop :=
  ∃ y ys, s = (some (tu.getD r.u), some r.u, r.wc || wc0, acc ++ y :: ys) ∧ ys.foldl E.add y = r.e

theorem add_leaf (e : E) (hl : addArgs e = [e]) (tu : PyUnit) (au0 : PyUnit) (wc0 : Bool) (acc : List E) :
    LoopSpec (Convert.convert reg Γ e tu) (loopM (addStep reg Γ) (addArgs e) ((tu, au0, wc0, acc) : AddSt))
      (addGood tu wc0 acc) := by
  rw [hl, loopM_one]
  cases h : Convert.convert reg Γ e tu with
  | error err => simp [loopSpec_error, addStep, modelRec_error h]
  | ok r =>
    refine loopSpec_ok.2 ⟨(if tu.isNone then some r.u else tu, some r.u, r.wc || wc0, acc ++ [r.e]), ?_, r.e, [], ?_, rfl⟩
    · simp only [addStep, modelRec_ok h]
    · cases tu <;> rfl

/-- the loop over the flat operands of the spine `e` (start state arbitrary) = `Convert.convert e`: errors by class;
    on success the operands were given `to_units` (or the unit of the first one), the flags are or-ed, and the new
    operands left-nest to the model's new expression -/
theorem add_loop (e : E) : ∀ (tu : PyUnit) (au0 : PyUnit) (wc0 : Bool) (acc : List E),
    LoopSpec (Convert.convert reg Γ e tu) (loopM (addStep reg Γ) (addArgs e) ((tu, au0, wc0, acc) : AddSt))
      (addGood tu wc0 acc) := by
  induction e with
  | add a b iha _ =>
    intro tu au0 wc0 acc
    simp only [addArgs, loopM_snoc, Convert.convert]
    have IH := iha tu au0 wc0 acc
    cases ha : Convert.convert reg Γ a tu with
    | error err => rw [ha, loopSpec_error] at IH; simp [IH, Except.bind, bind, loopSpec_error]
    | ok ra =>
      rw [ha, loopSpec_ok] at IH
      obtain ⟨_, IH1, y, ys, rfl, IH2⟩ := IH
      have ia := (Convert.convert_ident ha).2
      simp only [bind, Except.bind]
      cases hb : Convert.convert reg Γ b (some (tu.getD ra.u)) with
      | error err => have := modelRec_error hb; simp [IH1, addStep, this, loopSpec_error]
      | ok rb =>
        have := modelRec_ok hb
        have ib := (Convert.convert_ident hb).2
        have hu : rb.u = tu.getD ra.u := Convert.convert_target b _ rb hb
        simp only [pure, Except.pure]
        refine loopSpec_ok.2 ⟨(some (tu.getD ra.u), some rb.u, rb.wc || (ra.wc || wc0), (acc ++ y :: ys) ++ [rb.e]),
          ?_, y, ys ++ [rb.e], ?_, ?_⟩
        · simp only [IH1, addStep, this, Option.isNone_some, Bool.false_eq_true, if_false]
        · simp [hu]
          exact ⟨by cases tu <;> rfl, by cases rb.wc <;> cases ra.wc <;> cases wc0 <;> rfl⟩
        · simp only [List.foldl_append, IH2, List.foldl_cons, List.foldl_nil]
          cases hw1 : ra.wc <;> cases hw2 : rb.wc <;> simp_all
  | _ => intros; apply add_leaf; rfl

macro "branchN" : tactic => `(tactic|
  (unfold Gen.Convert.convertExpressionRecursively
   simp only [isMatrix, isSymbol, isDerivative, isMul, isPow, isAdd, isRelational, isPiecewise, isFunction, isNumber,
     isBoolean, isVariable, Py.truthy_bool, args, maybeConvertChild_eq, Bool.false_eq_true, if_false, if_true]))

theorem tie_add (a b : E) (tgt : PyUnit) : GEN (.add a b) tgt = MODEL (.add a b) tgt := by
  branchN
  rw [forIn_eq_loopM (addStep reg Γ) _ ?hF]
  case hF =>
    intro arg s
    simp only [addStep]
    cases modelRec reg Γ arg s.1 with
    | error e => simp [bind, Except.bind, Except.map]
    | ok x => cases h : s.1 <;> simp [bind, Except.bind, Except.map, pure, Except.pure]
  have L := add_loop reg Γ (.add a b) tgt none false []
  cases h : Convert.convert reg Γ (.add a b) tgt with
  | error err => rw [h, loopSpec_error] at L; simp [L, bind, Except.bind, encConv_error]
  | ok r =>
    rw [h, loopSpec_ok] at L
    obtain ⟨_, L1, y, ys, rfl, L2⟩ := L
    have ir := (Convert.convert_ident h).2
    simp [L1, bind, Except.bind, encConv_ok, pure, Except.pure, rebuild, L2]
    cases hw : r.wc <;> simp_all

/-! ### Mul -/

/-- loop state of the Mul branch: `(was_converted, new_args, all_arg_units)` -/
abbrev MulSt := Bool × List E × List PyUnit

/-- one iteration of `for arg in expr.args` of the Mul branch -/
def mulStep (arg : E) (s : MulSt) : Except PyErr MulSt :=
  match modelRec reg Γ arg none with
  | .error e => .error e
  | .ok x => .ok (x.2.1 || s.1, s.2.1 ++ [x.1], s.2.2 ++ [x.2.2])

/-- end state of the Mul loop: flags or-ed, the new operands left-nest to the model's new expression, and
    `reduce(mul, all_arg_units)` is the model's unit -/
def mulGood (wc0 : Bool) (acc : List E) (accu : List PyUnit) (r : CR) (s : MulSt) : Prop :=
  ∃ y ys u us, s = (r.wc || wc0, acc ++ y :: ys, accu ++ u :: us) ∧ ys.foldl E.mul y = r.e ∧
    us.foldlM unitMul u = .ok (some r.u)

theorem mul_leaf (e : E) (hl : mulArgs e = [e]) (wc0 : Bool) (acc : List E) (accu : List PyUnit) :
    LoopSpec (Convert.convert reg Γ e none) (loopM (mulStep reg Γ) (mulArgs e) ((wc0, acc, accu) : MulSt))
      (mulGood wc0 acc accu) := by
  rw [hl, loopM_one]
  cases h : Convert.convert reg Γ e none with
  | error err => simp [loopSpec_error, mulStep, modelRec_error h]
  | ok r =>
    refine loopSpec_ok.2 ⟨(r.wc || wc0, acc ++ [r.e], accu ++ [some r.u]), ?_, r.e, [], some r.u, [], rfl, rfl, rfl⟩
    simp only [mulStep, modelRec_ok h]

/-- the Mul loop over the flat operands of the spine `e` = `Convert.convert e None` -/
theorem mul_loop (e : E) : ∀ (wc0 : Bool) (acc : List E) (accu : List PyUnit),
    LoopSpec (Convert.convert reg Γ e none) (loopM (mulStep reg Γ) (mulArgs e) ((wc0, acc, accu) : MulSt))
      (mulGood wc0 acc accu) := by
  induction e with
  | mul a b iha _ =>
    intro wc0 acc accu
    simp only [mulArgs, loopM_snoc, Convert.convert]
    have IH := iha wc0 acc accu
    cases ha : Convert.convert reg Γ a none with
    | error err => rw [ha, loopSpec_error] at IH; simp [IH, Except.bind, bind, loopSpec_error]
    | ok ra =>
      rw [ha, loopSpec_ok] at IH
      obtain ⟨_, IH1, y, ys, u, us, rfl, IH2, IH3⟩ := IH
      have ia := (Convert.convert_ident ha).2
      simp only [bind, Except.bind]
      cases hb : Convert.convert reg Γ b none with
      | error err => have := modelRec_error hb; simp [IH1, mulStep, this, loopSpec_error]
      | ok rb =>
        have := modelRec_ok hb
        have ib := (Convert.convert_ident hb).2
        simp only [maybeConv]
        refine loopSpec_ok.2 ⟨(rb.wc || (ra.wc || wc0), (acc ++ y :: ys) ++ [rb.e], (accu ++ u :: us) ++ [some rb.u]),
          ?_, y, ys ++ [rb.e], u, us ++ [some rb.u], ?_, ?_, ?_⟩
        · simp only [IH1, mulStep, this]
        · simp
          cases rb.wc <;> cases ra.wc <;> cases wc0 <;> rfl
        · simp only [List.foldl_append, IH2, List.foldl_cons, List.foldl_nil]
          cases hw1 : ra.wc <;> cases hw2 : rb.wc <;> simp_all
        · simp [List.foldlM_append, IH3, unitMul, bind, Except.bind, pure, Except.pure]
  | _ => intros; apply mul_leaf; rfl

/-- the model converts a product with target `None` first and the result afterwards -/
theorem convert_mul_split (a b : E) (tgt : PyUnit) :
    Convert.convert reg Γ (.mul a b) tgt
      = (Convert.convert reg Γ (.mul a b) none).bind (fun r0 => maybeConv reg r0.e r0.wc r0.u tgt r0.same) := by
  simp only [Convert.convert]
  cases Convert.convert reg Γ a none with
  | error err => rfl
  | ok ra =>
    cases Convert.convert reg Γ b none with
    | error err => rfl
    | ok rb => simp [bind, Except.bind, maybeConv]

theorem tie_mul (a b : E) (tgt : PyUnit) : GEN (.mul a b) tgt = MODEL (.mul a b) tgt := by
  branchN
  rw [forIn_eq_loopM (mulStep reg Γ) _ ?hF]
  case hF =>
    intro arg s
    simp only [mulStep]
    cases modelRec reg Γ arg none with
    | error e => simp [bind, Except.bind, Except.map]
    | ok x => simp [bind, Except.bind, Except.map, pure, Except.pure]
  have L := mul_loop reg Γ (.mul a b) false [] []
  rw [convert_mul_split]
  cases h : Convert.convert reg Γ (.mul a b) none with
  | error err => rw [h, loopSpec_error] at L; simp [L, bind, Except.bind, encConv_error]
  | ok r =>
    rw [h, loopSpec_ok] at L
    obtain ⟨_, L1, y, ys, u, us, rfl, L2, L3⟩ := L
    have ir := (Convert.convert_ident h).2
    have hred : reduceMul (u :: us) = .ok (some r.u) := L3
    simp only [L1, bind, Except.bind, List.nil_append, hred, rebuild, L2, Bool.or_false]
    have hm := fun ex => maybeConvertExpr_tie reg Γ ex r.wc r.u tgt r.same
    cases tgt with
    | none => cases hw : r.wc <;> simp_all [maybeConv, encConv_ok, pure, Except.pure]
    | some t =>
      simp only [Option.isSome_some, if_true]
      have he : (if r.wc = true then r.e else a.mul b) = r.e := by cases hw : r.wc <;> simp_all
      cases hw : r.wc <;> simp only [hw, Bool.false_eq_true, if_false, if_true] <;> simp only [hw] at he <;>
        simp only [if_true, Bool.false_eq_true, if_false] at he <;>
        (try rw [he]) <;> rw [← hw, hm] <;>
        cases maybeConv reg r.e r.wc r.u (some t) r.same <;> rfl

/-! ### And, Or, n-ary functions: the Function branch -/

/-- loop state of the Function branch: `(actual_units, was_converted, new_args)` -/
abbrev FnSt := PyUnit × Bool × List E

/-- one iteration of `for arg in expr.args` of the Function branch: each operand gets the `actual_units` returned
    for the previous one as target -/
def fnStep (arg : E) (s : FnSt) : Except PyErr FnSt :=
  match modelRec reg Γ arg s.1 with
  | .error e => .error e
  | .ok x => .ok (x.2.2, x.2.1 || s.2.1, s.2.2 ++ [x.1])

/-- end state of the Function loop; `mk` is the binary node of the class -/
def fnGood (mk : E → E → E) (wc0 : Bool) (acc : List E) (r : CR) (s : FnSt) : Prop :=
  ∃ y ys, s = (some r.u, r.wc || wc0, acc ++ y :: ys) ∧ ys.foldl mk y = r.e

theorem fn_leaf (mk : E → E → E) (e : E) (wc0 : Bool) (acc : List E) :
    LoopSpec (Convert.convert reg Γ e (some [])) (loopM (fnStep reg Γ) [e] ((some [], wc0, acc) : FnSt))
      (fnGood mk wc0 acc) := by
  rw [loopM_one]
  cases h : Convert.convert reg Γ e (some []) with
  | error err => simp [loopSpec_error, fnStep, modelRec_error h]
  | ok r =>
    refine loopSpec_ok.2 ⟨(some r.u, r.wc || wc0, acc ++ [r.e]), ?_, r.e, [], rfl, rfl⟩
    simp only [fnStep, modelRec_ok h]

/-- one more operand: if the model converts the node `mk a b` (target dimensionless) by converting `a` and then `b`
    to dimensionless, and the loop over `xs` does what the model does on `a`, then the loop over `xs ++ [b]` does
    what the model does on `mk a b`. The python loop gives `b` the unit returned for the previous operand as target:
    that is dimensionless by `convert_target`. -/
theorem fn_snoc (mk : E → E → E) (a b : E) (xs : List E) (wc0 : Bool) (acc : List E)
    (hmodel : Convert.convert reg Γ (mk a b) (some []) = (do
      let ra ← Convert.convert reg Γ a (some [])
      let rb ← Convert.convert reg Γ b (some [])
      pure ⟨if (ra.wc || rb.wc) then mk ra.e rb.e else mk a b, ra.wc || rb.wc, rb.u, !(ra.wc || rb.wc)⟩))
    (IH : LoopSpec (Convert.convert reg Γ a (some [])) (loopM (fnStep reg Γ) xs ((some [], wc0, acc) : FnSt))
      (fnGood mk wc0 acc)) :
    LoopSpec (Convert.convert reg Γ (mk a b) (some [])) (loopM (fnStep reg Γ) (xs ++ [b]) ((some [], wc0, acc) : FnSt))
      (fnGood mk wc0 acc) := by
  rw [hmodel, loopM_snoc]
  cases ha : Convert.convert reg Γ a (some []) with
  | error err => rw [ha, loopSpec_error] at IH; simp [IH, Except.bind, bind, loopSpec_error]
  | ok ra =>
    rw [ha, loopSpec_ok] at IH
    obtain ⟨_, IH1, y, ys, rfl, IH2⟩ := IH
    have ia := (Convert.convert_ident ha).2
    have hu : ra.u = [] := Convert.convert_target a [] ra ha
    simp only [bind, Except.bind]
    cases hb : Convert.convert reg Γ b (some []) with
    | error err => have := modelRec_error hb; simp [IH1, fnStep, this, hu, loopSpec_error]
    | ok rb =>
      have := modelRec_ok hb
      have ib := (Convert.convert_ident hb).2
      simp only [pure, Except.pure]
      refine loopSpec_ok.2 ⟨(some rb.u, rb.wc || (ra.wc || wc0), (acc ++ y :: ys) ++ [rb.e]), ?_, y, ys ++ [rb.e], ?_, ?_⟩
      · simp only [IH1, fnStep, hu, this]
      · simp
        cases rb.wc <;> cases ra.wc <;> cases wc0 <;> rfl
      · simp only [List.foldl_append, IH2, List.foldl_cons, List.foldl_nil]
        cases hw1 : ra.wc <;> cases hw2 : rb.wc <;> simp_all

theorem and_loop (e : E) : ∀ (wc0 : Bool) (acc : List E),
    LoopSpec (Convert.convert reg Γ e (some [])) (loopM (fnStep reg Γ) (andArgs e) ((some [], wc0, acc) : FnSt))
      (fnGood E.and wc0 acc) := by
  induction e with
  | and a b iha _ =>
    intro wc0 acc
    exact fn_snoc reg Γ E.and a b _ wc0 acc (by simp [Convert.convert, dimlessTarget]) (iha wc0 acc)
  | _ => intros; apply fn_leaf

theorem or_loop (e : E) : ∀ (wc0 : Bool) (acc : List E),
    LoopSpec (Convert.convert reg Γ e (some [])) (loopM (fnStep reg Γ) (orArgs e) ((some [], wc0, acc) : FnSt))
      (fnGood E.or wc0 acc) := by
  induction e with
  | or a b iha _ =>
    intro wc0 acc
    exact fn_snoc reg Γ E.or a b _ wc0 acc (by simp [Convert.convert, dimlessTarget]) (iha wc0 acc)
  | _ => intros; apply fn_leaf

/-- n-ary function `f`: the spine of `fnN f` nodes. A `fnN g` node with another name (and any other node) is one
    operand. -/
theorem fn_loop (f : String) (e : E) : ∀ (wc0 : Bool) (acc : List E),
    LoopSpec (Convert.convert reg Γ e (some [])) (loopM (fnStep reg Γ) (fnArgs f e) ((some [], wc0, acc) : FnSt))
      (fnGood (E.fnN f) wc0 acc) := by
  induction e with
  | fnN g a b iha _ =>
    intro wc0 acc
    by_cases hfg : f = g
    · subst hfg
      simp only [fnArgs, if_true]
      exact fn_snoc reg Γ (E.fnN f) a b _ wc0 acc (by simp [Convert.convert, dimlessTarget]) (iha wc0 acc)
    · simp only [fnArgs, hfg, if_false]
      apply fn_leaf
  | _ => intros; apply fn_leaf

/-- the end of the Function branch after the loop: rebuild if anything was converted -/
theorem fn_finish (mk : E → E → E) (ex : E) (xs : List E)
    (hre : ∀ y ys, rebuild ex (y :: ys) = ys.foldl mk y)
    (L : LoopSpec (Convert.convert reg Γ ex (some [])) (loopM (fnStep reg Γ) xs ((some [], false, []) : FnSt))
      (fnGood mk false [])) :
    (do let s ← loopM (fnStep reg Γ) xs ((some [], false, []) : FnSt)
        if (s.2.1 && Py.truthy s.2.2) = true then (pure (rebuild ex s.2.2, s.2.1, s.1) : Except PyErr ConvRes)
        else pure (ex, s.2.1, s.1))
      = encConv (Convert.convert reg Γ ex (some [])) := by
  cases h : Convert.convert reg Γ ex (some []) with
  | error err => rw [h, loopSpec_error] at L; simp [L, bind, Except.bind, encConv_error]
  | ok r =>
    rw [h, loopSpec_ok] at L
    obtain ⟨_, L1, y, ys, rfl, L2⟩ := L
    have ir := (Convert.convert_ident h).2
    simp [L1, bind, Except.bind, encConv_ok, pure, Except.pure, hre, L2]
    cases hw : r.wc <;> simp_all

theorem fnStep_hF (arg : E) (s : FnSt) :
    (do let __x ← Except.map (fun r => (r.fst, r.snd.fst || s.snd.fst, r.snd.snd)) (modelRec reg Γ arg s.fst)
        (pure (ForInStep.yield (__x.2.snd, __x.2.fst, s.snd.snd ++ [__x.fst])) : Except PyErr (ForInStep FnSt)))
      = (fnStep reg Γ arg s).map ForInStep.yield := by
  simp only [fnStep]
  cases modelRec reg Γ arg s.1 with
  | error e => simp [bind, Except.bind, Except.map]
  | ok x => simp [bind, Except.bind, Except.map, pure, Except.pure]

theorem convert_dimless_and (a b : E) (tgt : PyUnit) (hd : dimlessTarget tgt = true) :
    Convert.convert reg Γ (.and a b) tgt = Convert.convert reg Γ (.and a b) (some []) := by
  simp only [Convert.convert, hd]; simp [dimlessTarget]

theorem tie_and (a b : E) (tgt : PyUnit) : GEN (.and a b) tgt = MODEL (.and a b) tgt := by
  branchN
  have hin : Py.isIn (funcName (a.and b)) ["floor", "ceiling", "Abs"] = false := by simp [funcName, Py.isIn]
  simp only [hin, Bool.false_eq_true, if_false, dimless_eq]
  cases hd : dimlessTarget tgt with
  | false => simp [Convert.convert, hd, bind, Except.bind, throw, throwThe, MonadExceptOf.throw, encConv_error, convCls, UnitErr.name]
  | true =>
    simp only [Bool.not_true, Bool.false_eq_true, if_false]
    rw [convert_dimless_and reg Γ a b tgt hd, forIn_eq_loopM (fnStep reg Γ) _ (fnStep_hF reg Γ)]
    exact fn_finish reg Γ E.and _ _ (fun _ _ => rfl) (and_loop reg Γ (.and a b) false [])

theorem convert_dimless_or (a b : E) (tgt : PyUnit) (hd : dimlessTarget tgt = true) :
    Convert.convert reg Γ (.or a b) tgt = Convert.convert reg Γ (.or a b) (some []) := by
  simp only [Convert.convert, hd]; simp [dimlessTarget]

theorem tie_or (a b : E) (tgt : PyUnit) : GEN (.or a b) tgt = MODEL (.or a b) tgt := by
  branchN
  have hin : Py.isIn (funcName (a.or b)) ["floor", "ceiling", "Abs"] = false := by simp [funcName, Py.isIn]
  simp only [hin, Bool.false_eq_true, if_false, dimless_eq]
  cases hd : dimlessTarget tgt with
  | false => simp [Convert.convert, hd, bind, Except.bind, throw, throwThe, MonadExceptOf.throw, encConv_error, convCls, UnitErr.name]
  | true =>
    simp only [Bool.not_true, Bool.false_eq_true, if_false]
    rw [convert_dimless_or reg Γ a b tgt hd, forIn_eq_loopM (fnStep reg Γ) _ (fnStep_hF reg Γ)]
    exact fn_finish reg Γ E.or _ _ (fun _ _ => rfl) (or_loop reg Γ (.or a b) false [])

theorem convert_dimless_fnN (f : String) (a b : E) (tgt : PyUnit) (hd : dimlessTarget tgt = true) :
    Convert.convert reg Γ (.fnN f a b) tgt = Convert.convert reg Γ (.fnN f a b) (some []) := by
  simp only [Convert.convert, hd]; simp [dimlessTarget]

/-- n-ary function (`Max(a, b, c)` is `fnN "Max" (fnN "Max" a b) c`): all operands along the spine of `fnN f` nodes -/
theorem tie_fnN (f : String) (a b : E) (tgt : PyUnit) (hf : Py.isIn f ["floor", "ceiling", "Abs"] = false) :
    GEN (.fnN f a b) tgt = MODEL (.fnN f a b) tgt := by
  branchN
  simp only [funcName, hf, Bool.false_eq_true, if_false, dimless_eq]
  cases hd : dimlessTarget tgt with
  | false => simp [Convert.convert, hd, bind, Except.bind, throw, throwThe, MonadExceptOf.throw, encConv_error, convCls, UnitErr.name]
  | true =>
    simp only [Bool.not_true, Bool.false_eq_true, if_false]
    rw [convert_dimless_fnN reg Γ f a b tgt hd, forIn_eq_loopM (fnStep reg Γ) _ (fnStep_hF reg Γ)]
    exact fn_finish reg Γ (E.fnN f) _ _ (fun _ _ => rfl) (fn_loop reg Γ f (.fnN f a b) false [])

end
end Cellml.Tie.PConvert
