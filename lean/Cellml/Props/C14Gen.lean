import Cellml.Props.C14
import Cellml.Tie.Transpile

set_option linter.unusedSimpArgs false
set_option linter.unusedVariables false

/-! # C14 — the headline theorems of `Props/C14.lean`, stated about the code GENERATED from `_cn_handler`

    The only python function of the C14 pipeline that is under a source tie is `Transpiler._cn_handler`
    (`Gen.Transpile.cnHandlerText`, read with `cnViewC14`: a python float is its binary64 bit pattern, the leaf
    `float(text)` is `C14.decToBitsL`, `int(text)` is `C14.parseIntL`, `'%d'` is `C14.renderInt`, the number
    generator stores the float object). `genCn n` is that generated definition on the lxml element `n`.

    * `round_nearest_gen`      — what the generated handler returns for a plain `<cn>` is a nearest double of the exact
                                 value of the text, within half a unit, even on ties (all three parts of `round_nearest`,
                                 instantiated where the generated code can reach them: at decimal literals `m·10^k`);
    * `enotation_single_gen`   — the generated handler on `m<sep/>e` is ONE rounding of `mantissa × 10^z`;
    * `pipeline_id_partial_gen`— `genPipeline` (= `C14.pipeline` with the two `<cn>` sources read by the generated
                                 handler) is the identity on every finite literal except `-0.0`;
    * `widen_narrow_id_gen`    — every finite non-zero double the generated handler returns survives
                                 `float(q.evalf(FLOAT_PRECISION))`; the hypothesis `b < 2^64` of the original is PROVED
                                 from "the generated handler returned `b`" (`genCn_lt`).

    No tie used here carries a domain hypothesis. Not generated (model only, as before): the stages after the parser —
    `initial_value` (`float(initial_value)` in model.py), `Quantity._value`, `get_value`, `evalf` (`strippedValue`); the
    constant `FLOAT_PRECISION` is the generated `Cellml.Gen.floatPrecision`. -/

namespace Cellml.Props.C14Gen
open _root_.C14 Cellml.Tie Cellml.Tie.PTranspile Cellml.Gen

/-- the definition generated from `Transpiler._cn_handler`, C14 reading, on an lxml `<cn>` element -/
abbrev genCn (n : CnNode) : Except PyErr Nat := Transpile.cnHandlerText cnViewC14 n

theorem optToExcept_ok {α} (cls : String) (o : Option α) (a : α) : optToExcept cls o = .ok a ↔ o = some a := by
  cases o <;> simp [optToExcept]

theorem parseDecL_strip (cs : List Char) : parseDecL (strip cs) = parseDecL cs := by
  unfold parseDecL; rw [strip14_strip]

/-! ## 2. `round_nearest` -/

/-- **round_nearest (generated code).** For every plain `<cn>` whose text is a finite decimal literal `±m·10^k`
    (blanks around it allowed; any children, any units) and whose rounding does not overflow, the generated
    `_cn_handler` returns a bit pattern `b` with the sign of the text whose magnitude is the ONE rounding
    `ratToBits (m·10^k)` and is (a) at least as close to `m·10^k` as every finite double, (b) within half a unit of the
    spacing, (c) even in the last bit on an exact tie. -/
theorem round_nearest_gen (t : List Char) (kids : List (Bool × Option String)) (u : Option String)
    (neg : Bool) (m : Nat) (k : Int) (hp : parseDecL t = some (neg, m, k))
    (hfin : ratToBits (Cellml.Props.C14.decNum m k) (Cellml.Props.C14.decDen k) < infBits) :
    let num := Cellml.Props.C14.decNum m k
    let den := Cellml.Props.C14.decDen k
    ∃ b, genCn ⟨none, some (String.ofList t), kids, u⟩ = .ok b ∧ magOf b = ratToBits num den ∧ isNeg b = neg ∧
      (∀ c, c < infBits →
        dist (num * 2 ^ 1074) (scaledOfBits (magOf b) * den) ≤ dist (num * 2 ^ 1074) (scaledOfBits c * den)) ∧
      2 * dist (num * 2 ^ 1074) (scaledOfBits (magOf b) * den) ≤ den * 2 ^ spacing (num * 2 ^ 1074) den ∧
      (2 * ((num * 2 ^ 1074) % (den * 2 ^ spacing (num * 2 ^ 1074) den)) = den * 2 ^ spacing (num * 2 ^ 1074) den →
        magOf b % 2 = 0) := by
  intro num den
  have hfin' : decMag m k < infBits := by rw [Cellml.Props.C14.decMag_eq]; exact hfin
  obtain ⟨b, hb, hmag, hneg, hnear⟩ :=
    Cellml.Props.C14.round_nearest_text (strip t) neg m k (by rw [parseDecL_strip]; exact hp) hfin'
  have hmag' : magOf b = ratToBits num den := by rw [hmag, Cellml.Props.C14.decMag_eq]
  have hrn := Cellml.Props.C14.round_nearest num den (Cellml.Props.C14.decDen_pos k) hfin
  refine ⟨b, ?_, hmag', hneg, hnear, ?_, ?_⟩
  · unfold genCn; rw [cnHandlerText_plain_tie, optToExcept_ok]
    simpa [cnPlain, String.toList_ofList] using hb
  · rw [hmag']; exact hrn.2.1
  · rw [hmag']; exact hrn.2.2

/-- non-vacuity: `<cn> 0.1 </cn>` -/
example : genCn ⟨none, some " 0.1 ", [], none⟩ = .ok 0x3FB999999999999A := by
  unfold genCn; rw [cnHandlerText_plain_tie, optToExcept_ok]; decide +kernel

/-! ## 5. `enotation_single` -/

/-- **enotation_single (generated code).** For every mantissa and every exponent text python's `int()` reads as `z`,
    the generated `_cn_handler` on `<cn type="e-notation">mant<sep/>expo</cn>` returns the double nearest to the EXACT
    product `mantissa × 10^z`: one `decMag`, i.e. one rounding. The format string `'%se%d'` and the single `float(…)`
    are in the generated text. -/
theorem enotation_single_gen (m : Mantissa) (mant expo : List Char) (z : Int) (u : Option String)
    (hm : strip mant = m.chars) (he : parseIntL expo = some z) :
    genCn ⟨some "e-notation", some (String.ofList mant), [(true, some (String.ofList expo))], u⟩ =
      .ok (withSign m.sign.neg (decMag m.digits (z - (m.fp.length : Int)))) := by
  unfold genCn; rw [cnHandlerText_enotation_tie, optToExcept_ok]
  simpa [String.toList_ofList] using Cellml.Props.C14.enotation_single m mant expo z hm he

/-- the concrete instance of `Props/C14.lean` (`-12.5<sep/>+07`) on the generated code -/
example : genCn ⟨some "e-notation", some " -12.5 ", [(true, some " +07 ")], none⟩ = .ok 0xC19DCD6500000000 := by
  unfold genCn; rw [cnHandlerText_enotation_tie, optToExcept_ok]; decide +kernel

/-- **contrast** on the generated code: `0.14<sep/>1` is `1.4`, not the twice-rounded product -/
theorem two_step_differs_gen :
    genCn ⟨some "e-notation", some "0.14", [(true, some "1")], none⟩ = .ok 0x3FF6666666666666 ∧
    twoStep "0.14".toList 1 = some 0x3FF6666666666667 := by
  refine ⟨?_, Cellml.Props.C14.two_step_differs.2⟩
  unfold genCn; rw [cnHandlerText_enotation_tie, optToExcept_ok]; exact Cellml.Props.C14.two_step_differs.1

/-! ## 4. `pipeline_id` -/

/-- `C14.sourceBits` with the two `<cn>` sources read by the GENERATED `_cn_handler` on the element of the literal
    (`cnNodeOf`); `initial_value` does not go through the transpiler (`float(initial_value)` in model.py — model) -/
def genSourceBits (s : Source) : Option Nat :=
  match cnNodeOf s with
  | some n => (genCn n).toOption
  | none => sourceBits s

/-- `C14.pipeline` over `genSourceBits` -/
def genPipeline (s : Source) : Option Observed :=
  (genSourceBits s).map fun b =>
    { quantity := quantityValue b, getValue := getValue (quantityValue b), stripped := strippedValue (quantityValue b) }

theorem genSourceBits_eq (s : Source) : genSourceBits s = sourceBits s := by
  unfold genSourceBits
  cases hn : cnNodeOf s with
  | none => rfl
  | some n =>
    simp only [genCn, cn_sourceBits_tie s n hn]
    cases sourceBits s <;> rfl

theorem genPipeline_eq (s : Source) : genPipeline s = pipeline s := by
  unfold genPipeline pipeline; rw [genSourceBits_eq]

/-- every source is ONE call of the text → double conversion on ONE text -/
theorem source_is_one_parse_gen (s : Source) : genSourceBits s = (sourceText s).bind decToBitsL := by
  rw [genSourceBits_eq]; exact Cellml.Props.C14.source_is_one_parse s

/-- **pipeline_id (generated code; `_partial` as the original: all literals except those whose nearest double is
    `-0.0`).** For every way of writing a number whose nearest double `b` — as returned by the generated `_cn_handler`
    for the two `<cn>` forms — is finite and not the negative zero, every stage returns `b`. -/
theorem pipeline_id_partial_gen (s : Source) (b : Nat) (h : genSourceBits s = some b)
    (hfin : isFiniteBits b = true) (hnz : b ≠ signBit) :
    genPipeline s = some { quantity := b, getValue := b, stripped := b } := by
  rw [genPipeline_eq]
  exact Cellml.Props.C14.pipeline_id_partial s b (by rw [← genSourceBits_eq]; exact h) hfin hnz

/-- the same, said directly of the element: whatever finite `b ≠ -0.0` the generated handler returns on the element of
    a `<cn>` literal is what `Quantity`, `get_value` and the unit-stripped equation hold -/
theorem pipeline_id_partial_cn_gen (s : Source) (n : CnNode) (hn : cnNodeOf s = some n) (b : Nat)
    (h : genCn n = .ok b) (hfin : isFiniteBits b = true) (hnz : b ≠ signBit) :
    pipeline s = some { quantity := b, getValue := b, stripped := b } := by
  refine Cellml.Props.C14.pipeline_id_partial s b ?_ hfin hnz
  have := cn_sourceBits_tie s n hn
  unfold genCn at h
  rw [h] at this
  exact ((optToExcept_ok _ _ _).1 this.symm)

/-- the excluded case is real on the generated code too (known finding `negative-zero-sign-lost`) -/
theorem pipeline_negzero_sign_lost_gen :
    genCn ⟨none, some "-0.0", [], none⟩ = .ok signBit ∧
    genPipeline (.plain "-0.0".toList) = some { quantity := signBit, getValue := signBit, stripped := 0 } := by
  refine ⟨?_, ?_⟩
  · unfold genCn; rw [cnHandlerText_plain_tie, optToExcept_ok]; exact Cellml.Props.C14.pipeline_negzero_sign_lost.1
  · rw [genPipeline_eq]; exact Cellml.Props.C14.pipeline_negzero_sign_lost.2

/-! ## 3. `widen_narrow_id` -/

theorem bind_ok {α β} (x : Except PyErr α) (f : α → Except PyErr β) (b : β) (h : x.bind f = .ok b) :
    ∃ a, x = .ok a ∧ f a = .ok b := by
  cases x with
  | error e => simp [Except.bind] at h
  | ok a => exact ⟨a, rfl, h⟩

/-- for EVERY reading of the leaves (`self`): whatever the generated `_cn_handler` returns is the number generator
    applied to a result of the leaf `float(…)` — every returning path of the source goes through one `float` call -/
theorem cnHandlerText_float {F R : Type} (self : CnView F R) (n : CnNode) (r : R)
    (h : Transpile.cnHandlerText self n = .ok r) :
    ∃ s f, self.float s = .ok f ∧ self.numberGenerator f n.units = .ok r := by
  unfold Transpile.cnHandlerText at h
  simp only [bind, pure, Except.pure, throw, throwThe, MonadExceptOf.throw] at h
  obtain ⟨f, hf, hg⟩ := bind_ok _ _ _ h
  have : ∃ s, self.float s = .ok f := by
    split at hf
    · obtain ⟨a, _, hf⟩ := bind_ok _ _ _ hf
      split at hf
      · obtain ⟨b, _, hf⟩ := bind_ok _ _ _ hf
        split at hf
        · obtain ⟨m, _, hf⟩ := bind_ok _ _ _ hf
          obtain ⟨c, _, hf⟩ := bind_ok _ _ _ hf
          obtain ⟨t, _, hf⟩ := bind_ok _ _ _ hf
          obtain ⟨e, _, hf⟩ := bind_ok _ _ _ hf
          exact ⟨_, hf⟩
        · cases hf
      · cases hf
    · obtain ⟨s, _, hf⟩ := bind_ok _ _ _ hf
      exact ⟨s, hf⟩
  obtain ⟨s, hs⟩ := this
  exact ⟨s, f, hs, hg⟩

/-- whatever the generated `_cn_handler` returns, on ANY element, is a 64-bit pattern -/
theorem genCn_lt (n : CnNode) (b : Nat) (h : genCn n = .ok b) : b < 2 ^ 64 := by
  obtain ⟨s, f, hs, hg⟩ := cnHandlerText_float cnViewC14 n b h
  have hs' : optToExcept "ValueError" (decToBitsL s.toList) = .ok f := hs
  have hg' : (Except.ok (quantityValue f) : Except PyErr Nat) = .ok b := hg
  injection hg' with hg'
  rw [optToExcept_ok] at hs'
  rw [← hg']
  exact Cellml.Props.C14.decToBitsL_lt _ f hs'

/-- **widen_narrow_id (generated code).** Every finite non-zero double `b` the generated `_cn_handler` returns — on any
    element — is unchanged by `float(quantity.evalf(FLOAT_PRECISION))` (generated constant `Gen.floatPrecision`). The
    original's hypothesis `b < 2^64` is not assumed: it follows from `b` being a result of the generated code. -/
theorem widen_narrow_id_gen (n : CnNode) (b : Nat) (h : genCn n = .ok b) (hfin : isFiniteBits b = true)
    (hnz : magOf b ≠ 0) : strippedValue b = b :=
  Cellml.Props.C14.widen_narrow_id b (genCn_lt n b h) hfin hnz

end Cellml.Props.C14Gen
