import Cellml.Basic.Sexp
/-! Channel C16 of the model driver (stub: not built yet). -/
namespace C16
def handle (_args : List Sexp) : Sexp := .atom "not-implemented"
end C16
