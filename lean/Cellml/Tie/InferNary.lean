import Cellml.Tie.Infer

set_option linter.constructorNameAsVariable false
set_option linter.unusedSimpArgs false
set_option linter.unusedVariables false

/-! # Tie of `UnitCalculator.traverse`, second part: the n-ary nodes that Tie/Infer.lean left out

    * `fnN` (SymPy functions of two and more arguments: `Max`, `Min`, `Mod`, …): `tie_fnN`. The view shows the flat
      operand list `Sym.fnArgs` (same-name left spine); the model's `deferredFn` bookkeeping (Expr/Infer.lean) is shown
      to be the flat "traverse every operand, then reject" of the source — on the domain `leftOK`, which is exactly
      where the bookkeeping is sound (outside it model and code differ: `fnN_disagreement`).
    * n-ary `And` / `Or` (`Sym.andArgs` / `Sym.orArgs`): `gen_and_flat` (what the code does, unconditionally),
      `tie_and_nary` (equal to the model on `boolDom`), `tie_and_class` (always: both reject, and the class of each is
      `BooleanUnitsError` or the class of an operand's failure).
    * `inDomainN`, `traverse_tie_nary`: the fixpoint tie on the enlarged domain.
    * `gen_congr`: the generated functional calls `rec` only on `kids` of the node. -/

namespace Cellml.Tie.PInfer
open Units Cellml.Gen

/-! ### lists of operands -/

theorem collectM_append (rec : Obj → Except PyErr Q) (l₁ l₂ : List Obj) :
    collectM rec (l₁ ++ l₂) =
      match collectM rec l₁ with
      | .error e => .error e
      | .ok qs => match collectM rec l₂ with
        | .error e => .error e
        | .ok qs' => .ok (qs ++ qs') := by
  induction l₁ with
  | nil => simp only [List.nil_append, collectM]; cases collectM rec l₂ <;> simp
  | cons a l ih =>
    simp only [List.cons_append, collectM, ih]
    cases rec a with
    | error e => simp
    | ok q =>
      simp only []
      cases collectM rec l with
      | error e => simp
      | ok qs => simp only []; cases collectM rec l₂ <;> simp

theorem collectM_congr (rec rec' : Obj → Except PyErr Q) (l : List Obj) (h : ∀ x ∈ l, rec x = rec' x) :
    collectM rec l = collectM rec' l := by
  induction l with
  | nil => rfl
  | cons a l ih =>
    simp only [collectM, h a (List.mem_cons_self ..), ih (fun x hx => h x (List.mem_cons_of_mem _ hx))]

theorem fnArgs_ne_nil (f : String) (e : E) : Sym.fnArgs f e ≠ [] := by
  cases e <;> simp [Sym.fnArgs]
  split <;> simp

theorem fnArgs_node (f : String) (a b : E) : Sym.fnArgs f (.fnN f a b) = Sym.fnArgs f a ++ [b] := by
  simp [Sym.fnArgs]

/-- names of SymPy classes that `traverse` handles in its one-argument branches; a node `fnN` under such a name is
    outside the tie (only `log(x, b, evaluate=False)` exists in SymPy: there the code answers `dimensionless` when `x`
    is, the model rejects every `fnN`) -/
def fnNameOK (f : String) : Bool :=
  f != "Abs" && f != "floor" && f != "ceiling" && f != "log" && f != "factorial" && f != "exp" &&
    !(trigFunctions.contains f)

section
variable (reg : Registry) (Γ : VarEnv)

/-- the generated code on a function of two or more operands: every operand is traversed (first exception wins),
    then `UnexpectedMathUnitsError` -/
theorem gen_fnN (f : String) (a b : E) (hn : fnNameOK f = true) :
    gen reg Γ (.ex (.fnN f a b)) =
      match collectM (modelRec reg Γ) ((Sym.fnArgs f (.fnN f a b)).map .ex) with
      | .error er => .error er
      | .ok _ => .error ⟨"UnexpectedMathUnitsError"⟩ := by
  simp only [fnNameOK, Bool.and_eq_true, bne_iff_ne, ne_eq, Bool.not_eq_true', List.contains_eq_mem,
    decide_eq_false_iff_not] at hn
  obtain ⟨⟨⟨⟨⟨⟨h1, h2⟩, h3⟩, h4⟩, h5⟩, h6⟩, h7⟩ := hn
  simp only [Gen.Infer.traverse, Sym.isMatrix, Sym.isPiecewise, Sym.isDerivative, Sym.args, loop_eq]
  cases hc : collectM (modelRec reg Γ) ((Sym.fnArgs f (.fnN f a b)).map .ex) with
  | error er =>
    simp [Sym.isMatrix, Sym.isPiecewise, Sym.isDerivative, bind, Except.bind, pure, Except.pure, throw, throwThe,
      MonadExceptOf.throw]
  | ok qs =>
    have hl := collectM_length _ _ _ hc
    have hl2 : (qs.length == 1) = false := by
      rw [hl, fnArgs_node]
      have := fnArgs_ne_nil f a
      cases hm : Sym.fnArgs f a with
      | nil => exact absurd hm this
      | cons y ys => simp
    simp [Sym.isMatrix, Sym.isPiecewise, Sym.isDerivative, Sym.isSymbol, Sym.isQuantity,
      Sym.isVariable, Sym.isNumber, Sym.isInteger, Sym.isRational, Sym.isMul, Sym.isPow, Sym.isAdd,
      Sym.isRelational, Sym.isBoolean, Sym.isFunction, Sym.func, bind, Except.bind, pure, Except.pure, throw,
      throwThe, MonadExceptOf.throw, h1, h2, h3, h4, h5, h6, h7, Py.isIn, hl2]

/-! ### the model's `deferredFn` bookkeeping is the flat operand loop -/

/-- the result is the model's internal marker "an n-ary function rejected after all its operands" -/
def isDeferred {α} : Except UnitErr α → Bool
  | .error .deferredFn => true
  | _ => false

/-- Where the model's bookkeeping for `fnN f a b` is sound, as a condition on the left child `a`: along the same-name
    spine no operand except the last one of the whole call fails with the marker `deferredFn` itself - the model would
    take that failure for "the flattened inner call rejected after all its operands succeeded" and go on to the next
    operand, whereas the code stops with `UnexpectedMathUnitsError` at that operand. (An operand fails with the marker
    iff it is, or contains under operators, another `fnN` all of whose operands are accepted. A head operand that is a
    call of ANOTHER function is handled correctly by the model and is allowed.) -/
def leftOK (f : String) : E → Bool
  | .fnN g a b => if f = g then leftOK f a && !isDeferred (_root_.Infer.traverse reg Γ b) else true
  | x => !isDeferred (_root_.Infer.traverse reg Γ x)

/-- what `Infer.trav` does with the left child of `fnN f a b` -/
def leftStep (f : String) (a : E) : Except UnitErr Unit :=
  match a with
  | .fnN g _ _ =>
      match _root_.Infer.trav reg Γ a with
      | .error .deferredFn => if f = g then pure () else throw .unexpectedMath
      | .error err => throw err
      | .ok _ => pure ()
  | _ => do let _ ← _root_.Infer.finish reg (← _root_.Infer.trav reg Γ a); pure ()

theorem leftStep_fnN (f g : String) (x y : E) :
    leftStep reg Γ f (.fnN g x y) =
      match _root_.Infer.trav reg Γ (.fnN g x y) with
      | .error .deferredFn => if f = g then pure () else throw .unexpectedMath
      | .error err => throw err
      | .ok _ => pure () := rfl

theorem trav_fnN_eq (f : String) (a b : E) :
    _root_.Infer.trav reg Γ (.fnN f a b) =
      (leftStep reg Γ f a >>= fun _ => _root_.Infer.traverse reg Γ b >>= fun _ => .error .deferredFn) := by
  have key : ∀ r : Except UnitErr Unit,
      (r >>= fun _ => _root_.Infer.trav reg Γ b >>= fun l => _root_.Infer.finish reg l >>= fun _ =>
        (throw UnitErr.deferredFn : Except UnitErr (List (_root_.Infer.M × Container)))) =
      (r >>= fun _ => _root_.Infer.traverse reg Γ b >>= fun _ => .error .deferredFn) := by
    intro r
    cases r with
    | error err => rfl
    | ok u =>
      simp only [_root_.Infer.traverse, bind, Except.bind]
      cases _root_.Infer.trav reg Γ b with
      | error err => rfl
      | ok l => simp only []; cases _root_.Infer.finish reg l <;> rfl
  rw [← key]
  cases a
  case fnN g x y =>
    rw [_root_.Infer.trav, leftStep_fnN]
    dsimp only
    generalize (_root_.Infer.trav reg Γ b >>= fun l => _root_.Infer.finish reg l >>= fun _ =>
        (throw UnitErr.deferredFn : Except UnitErr (List (_root_.Infer.M × Container)))) = T
    cases _root_.Infer.trav reg Γ (.fnN g x y) with
    | ok l => rfl
    | error err =>
      cases err <;> (try rfl) <;>
        (by_cases hfg : f = g <;>
          simp [hfg, bind, Except.bind, throw, throwThe, MonadExceptOf.throw, pure, Except.pure])
  all_goals
    rw [_root_.Infer.trav]
    · simp only [leftStep]
      try dsimp only
      generalize (_root_.Infer.trav reg Γ b >>= fun l => _root_.Infer.finish reg l >>= fun _ =>
          (throw UnitErr.deferredFn : Except UnitErr (List (_root_.Infer.M × Container)))) = T
      generalize _root_.Infer.trav reg Γ _ = r
      cases r with
      | error err => rfl
      | ok l => simp only [bind, Except.bind]; cases _root_.Infer.finish reg l <;> rfl
    · intro g x y h; cases h

theorem left_spine (f : String) (a : E) (h : leftOK reg Γ f a = true) :
    (liftE (leftStep reg Γ f a) : Except PyErr Unit) =
        (match collectM (modelRec reg Γ) ((Sym.fnArgs f a).map .ex) with
          | .error er => .error er
          | .ok _ => .ok ()) ∧
      isDeferred (leftStep reg Γ f a) = false := by
  induction a with
  | fnN g a' b' iha _ =>
    by_cases hfg : f = g
    · subst hfg
      simp only [leftOK, if_true, Bool.and_eq_true, Bool.not_eq_true'] at h
      obtain ⟨ih1, ih2⟩ := iha h.1
      have hb := h.2
      rw [leftStep_fnN, trav_fnN_eq, fnArgs_node]
      simp only [List.map_append, List.map_cons, List.map_nil, collectM_snoc]
      cases hl : leftStep reg Γ f a' with
      | error err =>
        rw [hl] at ih1 ih2
        cases hc : collectM (modelRec reg Γ) ((Sym.fnArgs f a').map .ex) with
        | ok qs => rw [hc] at ih1; simp [liftE, errClass] at ih1
        | error er =>
          rw [hc] at ih1
          cases err <;> simp_all [isDeferred, liftE, errClass, bind, Except.bind, throw, throwThe, MonadExceptOf.throw]
      | ok u =>
        rw [hl] at ih1
        cases hc : collectM (modelRec reg Γ) ((Sym.fnArgs f a').map .ex) with
        | error er => rw [hc] at ih1; simp [liftE, errClass] at ih1
        | ok qs =>
          simp only [modelRec]
          cases hb' : _root_.Infer.traverse reg Γ b' with
          | error err =>
            rw [hb'] at hb
            cases err <;> simp_all [isDeferred, liftE, errClass, bind, Except.bind, throw, throwThe,
              MonadExceptOf.throw]
          | ok q =>
            simp [isDeferred, liftE, errClass, bind, Except.bind, pure, Except.pure]
    · obtain ⟨err, he⟩ := Infer.trav_fnN reg Γ g a' b'
      have ht := Infer.trav_error_traverse reg Γ _ err he
      have hargs : Sym.fnArgs f (.fnN g a' b') = [.fnN g a' b'] := by simp [Sym.fnArgs, hfg]
      rw [leftStep_fnN]
      simp only [he, hargs, List.map_cons, List.map_nil, collectM, modelRec, ht]
      cases err <;> simp [hfg, isDeferred, liftE, errClass, errName, UnitErr.name, throw, throwThe,
        MonadExceptOf.throw]
  | _ =>
    simp only [leftOK, Bool.not_eq_true'] at h
    simp only [leftStep, Sym.fnArgs, List.map_cons, List.map_nil, collectM, modelRec]
    rw [show ∀ x : E, (do let _ ← _root_.Infer.finish reg (← _root_.Infer.trav reg Γ x); pure ()) =
        (_root_.Infer.traverse reg Γ x >>= fun _ => (pure () : Except UnitErr Unit)) from fun x => by
          simp [_root_.Infer.traverse, bind, Except.bind]; cases _root_.Infer.trav reg Γ x <;> rfl]
    revert h
    generalize _root_.Infer.traverse reg Γ _ = r
    intro h
    cases r with
    | ok q => simp [isDeferred, liftE, errClass, bind, Except.bind, pure, Except.pure]
    | error err => cases err <;> simp_all [isDeferred, liftE, errClass, bind, Except.bind]

/-- **`fnN` (Max / Min / Mod … of two or more operands).** The flat operand loop of the source followed by
    `raise UnexpectedMathUnitsError` is what the model's nested `deferredFn` bookkeeping computes, when no operand but
    the last fails with the marker itself (`leftOK`). -/
theorem tie_fnN (f : String) (a b : E) (hn : fnNameOK f = true) (h : leftOK reg Γ f a = true) :
    gen reg Γ (.ex (.fnN f a b)) = mdl reg Γ (.fnN f a b) := by
  rw [gen_fnN reg Γ f a b hn, mdl, Infer.traverse_def, trav_fnN_eq, fnArgs_node]
  obtain ⟨h1, h2⟩ := left_spine reg Γ f a h
  simp only [List.map_append, List.map_cons, List.map_nil, collectM_snoc, modelRec]
  cases hl : leftStep reg Γ f a with
  | error err =>
    rw [hl] at h1
    cases hc : collectM (modelRec reg Γ) ((Sym.fnArgs f a).map .ex) with
    | ok qs => rw [hc] at h1; simp [liftE, errClass] at h1
    | error er => rw [hc] at h1; simpa [liftE, errClass, bind, Except.bind] using h1.symm
  | ok u =>
    rw [hl] at h1
    cases hc : collectM (modelRec reg Γ) ((Sym.fnArgs f a).map .ex) with
    | error er => rw [hc] at h1; simp [liftE, errClass] at h1
    | ok qs =>
      cases _root_.Infer.traverse reg Γ b <;>
        simp [liftE, errClass, bind, Except.bind, errName, UnitErr.name]

/-! ### n-ary `And` / `Or` -/

theorem collectM_error_mem (rec : Obj → Except PyErr Q) (l : List Obj) (er : PyErr)
    (h : collectM rec l = .error er) : ∃ x ∈ l, rec x = .error er := by
  induction l with
  | nil => simp [collectM] at h
  | cons a l ih =>
    simp only [collectM] at h
    cases ha : rec a with
    | error e => rw [ha] at h; simp only [Except.error.injEq] at h; exact ⟨a, List.mem_cons_self .., by rw [ha, h]⟩
    | ok q =>
      rw [ha] at h
      simp only [] at h
      cases hc : collectM rec l with
      | ok qs => rw [hc] at h; cases h
      | error e =>
        rw [hc] at h
        simp only [Except.error.injEq] at h
        obtain ⟨x, hx, hr⟩ := ih (by rw [hc, h])
        exact ⟨x, List.mem_cons_of_mem _ hx, hr⟩

theorem collectM_ok_mem (rec : Obj → Except PyErr Q) (l : List Obj) (qs : List Q)
    (h : collectM rec l = .ok qs) : ∀ x ∈ l, ∃ q, rec x = .ok q := by
  induction l generalizing qs with
  | nil => intro x hx; cases hx
  | cons a l ih =>
    simp only [collectM] at h
    cases ha : rec a with
    | error e => rw [ha] at h; cases h
    | ok q =>
      rw [ha] at h
      simp only [] at h
      cases hc : collectM rec l with
      | error e => rw [hc] at h; cases h
      | ok qs' =>
        intro x hx
        rcases List.mem_cons.mp hx with rfl | hx
        · exact ⟨q, ha⟩
        · exact ih qs' hc x hx

/-- what the source does with a Boolean function of operands `l`: every operand is traversed (first exception wins),
    then `BooleanUnitsError` -/
def flatBool (l : List E) : Except PyErr Q :=
  match collectM (modelRec reg Γ) (l.map .ex) with
  | .error er => .error er
  | .ok _ => .error ⟨"BooleanUnitsError"⟩

def isErr {α} : Except UnitErr α → Bool
  | .error _ => true
  | .ok _ => false

/-- accepted, or rejected as a Boolean -/
def okOrBool {α} : Except UnitErr α → Bool
  | .ok _ => true
  | .error .boolean => true
  | .error _ => false

/-- Where the model's left-nested `And` / `Or` agrees with the flat n-ary node of SymPy in the exception CLASS: at most
    two operands; or one of the first two operands is rejected (always the case when the operands are Booleans, as
    SymPy requires: every Relational / Boolean operand is rejected); or every later operand is accepted or rejected
    with `BooleanUnitsError`. Outside: the model stops after the first two operands with `BooleanUnitsError`, the code
    goes on and raises the class of the first later operand that fails (TIE_Infer.md, disagreement 1). -/
def boolDom (l : List E) : Bool :=
  decide (l.length ≤ 2) || (l.take 2).any (fun x => isErr (_root_.Infer.traverse reg Γ x)) ||
    (l.drop 2).all (fun x => okOrBool (_root_.Infer.traverse reg Γ x))

theorem flatBool_take2 (l : List E) (h : boolDom reg Γ l = true) :
    flatBool reg Γ l = flatBool reg Γ (l.take 2) := by
  simp only [boolDom, Bool.or_eq_true, decide_eq_true_eq, List.any_eq_true, List.all_eq_true] at h
  rcases h with (h | ⟨x, hx, he⟩) | h
  · rw [List.take_of_length_le h]
  · have hsplit : l = l.take 2 ++ l.drop 2 := (List.take_append_drop 2 l).symm
    conv => lhs; rw [hsplit]
    simp only [flatBool, List.map_append, collectM_append]
    cases hc : collectM (modelRec reg Γ) ((l.take 2).map .ex) with
    | error er => rfl
    | ok qs =>
      exfalso
      obtain ⟨q, hq⟩ := collectM_ok_mem _ _ _ hc (.ex x) (List.mem_map_of_mem hx)
      simp only [modelRec, liftE, errClass] at hq
      cases ht : _root_.Infer.traverse reg Γ x with
      | ok r => rw [ht] at he; simp [isErr] at he
      | error e => rw [ht] at hq; cases hq
  · have hsplit : l = l.take 2 ++ l.drop 2 := (List.take_append_drop 2 l).symm
    conv => lhs; rw [hsplit]
    simp only [flatBool, List.map_append, collectM_append]
    cases hc : collectM (modelRec reg Γ) ((l.take 2).map .ex) with
    | error er => rfl
    | ok qs =>
      simp only []
      cases hd : collectM (modelRec reg Γ) ((l.drop 2).map .ex) with
      | ok qs' => rfl
      | error er =>
        simp only []
        obtain ⟨o, ho, hr⟩ := collectM_error_mem _ _ _ hd
        obtain ⟨x, hx, rfl⟩ := List.mem_map.mp ho
        have hb := h x hx
        simp only [modelRec, liftE, errClass] at hr
        cases ht : _root_.Infer.traverse reg Γ x with
        | ok r => rw [ht] at hr; cases hr
        | error e =>
          rw [ht] at hr hb
          cases e <;> simp [okOrBool] at hb
          simp only [Except.error.injEq] at hr
          rw [← hr]; rfl

/-- always: a rejection, whose class is `BooleanUnitsError` or the class of the failure of one of the operands -/
theorem flatBool_class (l : List E) :
    ∃ c, flatBool reg Γ l = .error c ∧ (c = ⟨"BooleanUnitsError"⟩ ∨ ∃ x ∈ l, mdl reg Γ x = .error c) := by
  simp only [flatBool]
  cases hc : collectM (modelRec reg Γ) (l.map .ex) with
  | ok qs => exact ⟨_, rfl, Or.inl rfl⟩
  | error er =>
    obtain ⟨o, ho, hr⟩ := collectM_error_mem _ _ _ hc
    obtain ⟨x, hx, rfl⟩ := List.mem_map.mp ho
    exact ⟨er, rfl, Or.inr ⟨x, hx, hr⟩⟩

theorem andArgs_ne_nil (e : E) : Sym.andArgs e ≠ [] := by
  cases e <;> simp [Sym.andArgs]
theorem orArgs_ne_nil (e : E) : Sym.orArgs e ≠ [] := by
  cases e <;> simp [Sym.orArgs]

theorem take2_snoc {α} (l : List α) (x y : α) (h : l ≠ []) : (l ++ [x] ++ [y]).take 2 = (l ++ [x]).take 2 := by
  cases l with
  | nil => exact absurd rfl h
  | cons a l => cases l <;> simp

/-- the generated code on an `And` of any number of operands -/
theorem gen_and_flat (a b : E) : gen reg Γ (.ex (.and a b)) = flatBool reg Γ (Sym.andArgs (.and a b)) := by
  simp only [flatBool, Gen.Infer.traverse, Sym.isMatrix, Sym.isPiecewise, Sym.isDerivative, Sym.args, loop_eq]
  cases hc : collectM (modelRec reg Γ) ((Sym.andArgs (.and a b)).map .ex) <;>
  simp [Sym.isMatrix, Sym.isPiecewise, Sym.isDerivative, Sym.isSymbol, Sym.isQuantity,
    Sym.isVariable, Sym.isNumber, Sym.isInteger, Sym.isRational, Sym.isMul, Sym.isPow, Sym.isAdd,
    Sym.isRelational, Sym.isBoolean, bind, Except.bind, pure, Except.pure, throw, throwThe, MonadExceptOf.throw]

theorem gen_or_flat (a b : E) : gen reg Γ (.ex (.or a b)) = flatBool reg Γ (Sym.orArgs (.or a b)) := by
  simp only [flatBool, Gen.Infer.traverse, Sym.isMatrix, Sym.isPiecewise, Sym.isDerivative, Sym.args, loop_eq]
  cases hc : collectM (modelRec reg Γ) ((Sym.orArgs (.or a b)).map .ex) <;>
  simp [Sym.isMatrix, Sym.isPiecewise, Sym.isDerivative, Sym.isSymbol, Sym.isQuantity,
    Sym.isVariable, Sym.isNumber, Sym.isInteger, Sym.isRational, Sym.isMul, Sym.isPow, Sym.isAdd,
    Sym.isRelational, Sym.isBoolean, bind, Except.bind, pure, Except.pure, throw, throwThe, MonadExceptOf.throw]

theorem flatBool_pair (a b : E) :
    flatBool reg Γ [a, b] =
      liftE (_root_.Infer.traverse reg Γ a >>= fun _ => _root_.Infer.traverse reg Γ b >>= fun _ =>
        (.error .boolean : Except UnitErr Q)) := by
  simp only [flatBool, List.map_cons, List.map_nil, collectM, modelRec]
  cases _root_.Infer.traverse reg Γ a <;> simp [liftE, errClass, bind, Except.bind]
  cases _root_.Infer.traverse reg Γ b <;> simp [errName, UnitErr.name]

/-- the model's left-nested `And` looks at the first two operands of the flat node only -/
theorem and_model (a : E) : ∀ b, mdl reg Γ (.and a b) = flatBool reg Γ ((Sym.andArgs (.and a b)).take 2) := by
  induction a with
  | and a' b' iha _ =>
    intro b
    have h1 : Sym.andArgs (.and (.and a' b') b) = Sym.andArgs a' ++ [b'] ++ [b] := by simp [Sym.andArgs]
    have h2 : Sym.andArgs (.and a' b') = Sym.andArgs a' ++ [b'] := by simp [Sym.andArgs]
    rw [h1, take2_snoc _ _ _ (andArgs_ne_nil a'), ← h2, ← iha b']
    rw [mdl, Infer.traverse_and, mdl]
    obtain ⟨c, hc, _⟩ := flatBool_class reg Γ ((Sym.andArgs (.and a' b')).take 2)
    have := iha b'
    rw [hc, mdl] at this
    cases ht : _root_.Infer.traverse reg Γ (.and a' b') with
    | ok q => rw [ht] at this; cases this
    | error e => simp [bind, Except.bind]
  | _ =>
    intro b
    simp only [Sym.andArgs, List.cons_append, List.nil_append, List.take_succ_cons, List.take_zero]
    rw [flatBool_pair, mdl, Infer.traverse_and]

theorem or_model (a : E) : ∀ b, mdl reg Γ (.or a b) = flatBool reg Γ ((Sym.orArgs (.or a b)).take 2) := by
  induction a with
  | or a' b' iha _ =>
    intro b
    have h1 : Sym.orArgs (.or (.or a' b') b) = Sym.orArgs a' ++ [b'] ++ [b] := by simp [Sym.orArgs]
    have h2 : Sym.orArgs (.or a' b') = Sym.orArgs a' ++ [b'] := by simp [Sym.orArgs]
    rw [h1, take2_snoc _ _ _ (orArgs_ne_nil a'), ← h2, ← iha b']
    rw [mdl, Infer.traverse_or, mdl]
    obtain ⟨c, hc, _⟩ := flatBool_class reg Γ ((Sym.orArgs (.or a' b')).take 2)
    have := iha b'
    rw [hc, mdl] at this
    cases ht : _root_.Infer.traverse reg Γ (.or a' b') with
    | ok q => rw [ht] at this; cases this
    | error e => simp [bind, Except.bind]
  | _ =>
    intro b
    simp only [Sym.orArgs, List.cons_append, List.nil_append, List.take_succ_cons, List.take_zero]
    rw [flatBool_pair, mdl, Infer.traverse_or]

/-- **n-ary `And`**: the flat operand loop of the source = the model's nested node, on `boolDom` -/
theorem tie_and_nary (a b : E) (h : boolDom reg Γ (Sym.andArgs (.and a b)) = true) :
    gen reg Γ (.ex (.and a b)) = mdl reg Γ (.and a b) := by
  rw [gen_and_flat, and_model, flatBool_take2 reg Γ _ h]

theorem tie_or_nary (a b : E) (h : boolDom reg Γ (Sym.orArgs (.or a b)) = true) :
    gen reg Γ (.ex (.or a b)) = mdl reg Γ (.or a b) := by
  rw [gen_or_flat, or_model, flatBool_take2 reg Γ _ h]

/-- **n-ary `And`, unconditionally, up to the `UnitError` subclass**: code and model both reject, each with
    `BooleanUnitsError` or with the class of the failure of one of the operands. -/
theorem tie_and_class (a b : E) :
    ∃ c c', gen reg Γ (.ex (.and a b)) = .error c ∧ mdl reg Γ (.and a b) = .error c' ∧
      (c = ⟨"BooleanUnitsError"⟩ ∨ ∃ x ∈ Sym.andArgs (.and a b), mdl reg Γ x = .error c) ∧
      (c' = ⟨"BooleanUnitsError"⟩ ∨ ∃ x ∈ Sym.andArgs (.and a b), mdl reg Γ x = .error c') := by
  obtain ⟨c, hc, hcc⟩ := flatBool_class reg Γ (Sym.andArgs (.and a b))
  obtain ⟨c', hc', hcc'⟩ := flatBool_class reg Γ ((Sym.andArgs (.and a b)).take 2)
  refine ⟨c, c', by rw [gen_and_flat, hc], by rw [and_model, hc'], hcc, ?_⟩
  rcases hcc' with h | ⟨x, hx, h⟩
  · exact Or.inl h
  · exact Or.inr ⟨x, List.mem_of_mem_take hx, h⟩

theorem tie_or_class (a b : E) :
    ∃ c c', gen reg Γ (.ex (.or a b)) = .error c ∧ mdl reg Γ (.or a b) = .error c' ∧
      (c = ⟨"BooleanUnitsError"⟩ ∨ ∃ x ∈ Sym.orArgs (.or a b), mdl reg Γ x = .error c) ∧
      (c' = ⟨"BooleanUnitsError"⟩ ∨ ∃ x ∈ Sym.orArgs (.or a b), mdl reg Γ x = .error c') := by
  obtain ⟨c, hc, hcc⟩ := flatBool_class reg Γ (Sym.orArgs (.or a b))
  obtain ⟨c', hc', hcc'⟩ := flatBool_class reg Γ ((Sym.orArgs (.or a b)).take 2)
  refine ⟨c, c', by rw [gen_or_flat, hc], by rw [or_model, hc'], hcc, ?_⟩
  rcases hcc' with h | ⟨x, hx, h⟩
  · exact Or.inl h
  · exact Or.inr ⟨x, List.mem_of_mem_take hx, h⟩

end
/-! ### the enlarged domain and the fixpoint tie on it -/

/-- The nodes on which the tie is stated now. Compared with `inDomain` (Tie/Infer.lean): `fnN` is inside when its name
    is not that of a one-argument function and the model's bookkeeping is sound for it (`leftOK`); `And` / `Or` of any
    number of operands are inside on `boolDom`. Still outside: `oo`, `nan`, bare `undef`, an `ite` chain not ending in
    `undef`, an undeclared variable, `fn1` under the names the wire format spells `abs` / `floor` / `ceil`. -/
def inDomainN (reg : Registry) (Γ : VarEnv) : E → Bool
  | .oo | .nan | .undef => false
  | .var i => Γ[i]?.isSome
  | .fn1 f _ => f != "Abs" && f != "floor" && f != "ceiling"
  | .fnN f a _ => fnNameOK f && leftOK reg Γ f a
  | .ite _ _ el => Sym.isChain el
  | .and a b => boolDom reg Γ (Sym.andArgs (.and a b))
  | .or a b => boolDom reg Γ (Sym.orArgs (.or a b))
  | _ => true

theorem inDomainN_of_inDomain (reg : Registry) (Γ : VarEnv) (e : E) (h : inDomain Γ e = true) :
    inDomainN reg Γ e = true := by
  cases e
  case fnN f a b => simp [inDomain] at h
  case and a b =>
    cases a <;> first | (simp [inDomain] at h; done) | simp [inDomainN, boolDom, Sym.andArgs]
  case or a b =>
    cases a <;> first | (simp [inDomain] at h; done) | simp [inDomainN, boolDom, Sym.orArgs]
  all_goals simpa [inDomain, inDomainN] using h

/-- **Tie of `UnitCalculator.traverse`, all node kinds.** As `traverse_tie`, on `inDomainN`: now including functions of
    two and more arguments (`Max`, `Min`, `Mod`, …: flat operand list against the model's `deferredFn` bookkeeping) and
    `And` / `Or` of any number of operands. -/
theorem traverse_tie_nary (reg : Registry) (Γ : VarEnv) (e : E) (h : inDomainN reg Γ e = true) :
    Gen.Infer.traverse (TravView.mk reg Γ) (modelRec reg Γ) (.ex e) = liftE (_root_.Infer.traverse reg Γ e) := by
  cases e
  case fnN f a b =>
    simp only [inDomainN, Bool.and_eq_true] at h
    exact tie_fnN reg Γ f a b h.1 h.2
  case and a b => exact tie_and_nary reg Γ a b (by simpa [inDomainN] using h)
  case or a b => exact tie_or_nary reg Γ a b (by simpa [inDomainN] using h)
  all_goals exact traverse_tie reg Γ _ (by simpa [inDomain, inDomainN] using h)

/-! ### the generated functional calls `rec` on the operands of the node only -/

/-- the sub-expressions on which the generated `traverse` calls `self.traverse` -/
def kids : E → List E
  | .add a b => Sym.addArgs (.add a b)
  | .mul a b => Sym.mulArgs (.mul a b)
  | .pow b x => [b, x]
  | .abs a | .floor a | .ceil a | .fn1 _ a | .not a => [a]
  | .fnN f a b => Sym.fnArgs f (.fnN f a b)
  | .ite c t el => chainExprs (.ite c t el)
  | .deriv v t => [.var v, .var t]
  | .rel _ a b => [a, b]
  | .and a b => Sym.andArgs (.and a b)
  | .or a b => Sym.orArgs (.or a b)
  | _ => []

theorem collectM_congr' (rec rec' : Obj → Except PyErr Q) (l : List E)
    (h : ∀ x ∈ l, rec (.ex x) = rec' (.ex x)) : collectM rec (l.map .ex) = collectM rec' (l.map .ex) := by
  apply collectM_congr
  intro o ho
  obtain ⟨x, hx, rfl⟩ := List.mem_map.mp ho
  exact h x hx

theorem gen_congr_generic (v : TravView) (rec rec' : Obj → Except PyErr Q) (e : E)
    (hP : Sym.isPiecewise (.ex e) = false) (hD : Sym.isDerivative (.ex e) = false)
    (hk : Sym.args (.ex e) = (kids e).map .ex)
    (h : ∀ x ∈ kids e, rec (.ex x) = rec' (.ex x)) :
    Gen.Infer.traverse v rec (.ex e) = Gen.Infer.traverse v rec' (.ex e) := by
  simp only [Gen.Infer.traverse, hP, hD, Py.truthy_bool, Bool.false_eq_true, if_false, loop_eq, hk,
    collectM_congr' rec rec' _ h]

/-- **Congruence.** The body of `traverse` generated from the source uses its recursive call only on the operands
    `kids e` of the node: two answers for `self.traverse` that agree there give the same result. -/
theorem gen_congr (v : TravView) (rec rec' : Obj → Except PyErr Q) (e : E)
    (h : ∀ x ∈ kids e, rec (.ex x) = rec' (.ex x)) :
    Gen.Infer.traverse v rec (.ex e) = Gen.Infer.traverse v rec' (.ex e) := by
  cases e
  case ite c t el =>
    have h' : ∀ x ∈ chainExprs (.ite c t el), rec (.ex x) = rec' (.ex x) := h
    simp only [Gen.Infer.traverse, Sym.isMatrix, Sym.isPiecewise, Sym.args, loop_pieces, Py.truthy_bool,
      Bool.false_eq_true, if_false, if_true, collectM_congr' rec rec' _ h']
  case undef =>
    simp only [Gen.Infer.traverse, Sym.isMatrix, Sym.isPiecewise, Sym.args, List.forIn_nil, Py.truthy_bool,
      Bool.false_eq_true, if_false, if_true]
  case deriv x t =>
    have h1 := h (.var x) (by simp [kids])
    have h2 := h (.var t) (by simp [kids])
    simp only [Gen.Infer.traverse, Sym.isMatrix, Sym.isPiecewise, Sym.isDerivative, Sym.args, Sym.derivCount,
      Py.truthy_bool, Bool.false_eq_true, if_false, if_true,
      Py.getItem, Sym.item, List.getElem?_cons_zero, List.getElem?_cons_succ, bind, Except.bind, h1, h2]
  all_goals exact gen_congr_generic v rec rec' _ rfl rfl rfl h


/-! ### the disagreements between hand model and code, as theorems (the registry plays no role in them) -/

/-- two variables in metre -/
def Γm : VarEnv := [{ unit := [("metre", 1)] }, { unit := [("metre", 1)] }]

/-- `Max(x, Min(x, y), Mod(x, x**y))` - SymPy's `args` come in this order (confirmed in python) -/
def eMaxMinMod : E :=
  .fnN "Max" (.fnN "Max" (.var 0) (.fnN "Min" (.var 0) (.var 1))) (.fnN "Mod" (.var 0) (.pow (.var 0) (.var 1)))

/-- **Disagreement (finding 2 of TIE_Infer.md, confirmed on the python side).** The code stops at the second operand
    `Min(x, y)` with `UnexpectedMathUnitsError`; the model takes that failure (its marker `deferredFn`) for the
    rejection of the flattened inner `Max`, goes on to the third operand and reports its
    `InputArgumentsMustBeDimensionlessError`. The node is outside `inDomainN` (by `leftOK`). -/
theorem fnN_disagreement :
    gen [] Γm (.ex eMaxMinMod) = .error ⟨"UnexpectedMathUnitsError"⟩ ∧
      mdl [] Γm eMaxMinMod = .error ⟨"InputArgumentsMustBeDimensionlessError"⟩ ∧
      inDomainN [] Γm eMaxMinMod = false := by
  refine ⟨?_, by decide, by decide⟩
  rw [eMaxMinMod, gen_fnN _ _ _ _ _ (by decide)]
  decide

/-- `And(x, y, Eq(Max(x, y), x))` -/
def eAnd3 : E := .and (.and (.var 0) (.var 1)) (.rel .eq (.fnN "Max" (.var 0) (.var 1)) (.var 0))

/-- **Disagreement (finding 1 of TIE_Infer.md).** Code: all three operands are traversed, the third raises
    `UnexpectedMathUnitsError`. Model: the nested `and x y` raises `BooleanUnitsError` first. -/
theorem and_disagreement :
    gen [] Γm (.ex eAnd3) = .error ⟨"UnexpectedMathUnitsError"⟩ ∧
      mdl [] Γm eAnd3 = .error ⟨"BooleanUnitsError"⟩ ∧ inDomainN [] Γm eAnd3 = false := by
  refine ⟨?_, by decide, by decide⟩
  rw [eAnd3, gen_and_flat]
  decide

end Cellml.Tie.PInfer
