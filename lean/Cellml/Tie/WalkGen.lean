import Cellml.Tie.MathsWalk
import Cellml.Tie.TranspileClosed

set_option linter.unusedSimpArgs false
set_option linter.unusedVariables false

/-! # Tie: the hand-written walk of `Tie/MathsWalkView.lean` (`walkExpr`) = the GENERATED handlers of
      `cellmlmanip.parser.Transpiler`, run with the two callbacks of the transpiler object

    `walkExpr T` stands, inside the generated `Parser._add_maths`, for `Transpiler.parse_tree` / `transpile` and the
    handlers. Here it is tied to the code generated from those handlers (`Generated/Code/Transpile.lean`):

    * `toMml` — the MathML element `harness/docgen.py:expr_xml` writes for an expression of `Load.Expr`;
    * `genWalkFuel sym num` / `genWalk` — `self.handlers[tag](child)` exactly as `PGenE.genHandlerFuel`: the GENERATED
      table lookup `handlerOf`, the GENERATED loop `transpileChildren`, `PGenE.runMethod` (the GENERATED
      `_apply_handler`, `_bvar_handler`, `_simple_operator_handler`, the closures `_wrapped_minus` / `_wrapped_divide` /
      `_wrapped_power` / `_wrapped_diff` through `call_tie`) — except for the two methods that call the constructor
      arguments of the transpiler: `_ci_handler` calls `sym`, and the `number_generator` leaf of the GENERATED
      `_cn_handler` is `num`;
    * `toSy` — the SymPy term (`C02.Sy`, the value domain of the generated handlers) of a transpiled expression
      (`Load.Expr VRef FUnit`): Variables and Quantities are `sympy.Dummy` objects (`.sym`, named by any `Names`);
    * `walkExpr_eq_genWalk` — for every expression of the fragment (`Frag`), `genWalk` on `toMml e` with the callbacks of
      `T` is `(walkExpr T e).map toSy`: same result, same first exception (left operand before right, `<bvar>` before the
      differentiated variable);
    * `walkSide_eq_genWalk` — the same for a side of an equation, including the left-hand side with a `<degree>`
      (`MSide.higher`: GENERATED `_degree_handler`, two-child `_bvar_handler`, the `int(…)` TypeError of `_wrapped_diff`);
    * `parseTree_eq_gen` — `transpiler.parse_tree(math_element)`: the GENERATED loop `Transpiler.transpile` over the
      `<apply><eq/>…</apply>` children of a `<math>` element (GENERATED `_wrapper_relational` around `sympy.Eq`) is the
      hand-written `parseTree` (all equations, in order, before anything is added);
    * `frag_theTranspiler` — for the transpiler the generated `_add_maths` constructs, the condition `Frag` puts on the
      number generator is: the unit store knows `dimensionless`. -/

namespace Cellml.Tie.PWalkGen
open C02 Cellml.Gen Cellml.Tie Cellml.Tie.PTranspile Cellml.Tie.PGenE
open Cellml.Tie.PMathsWalk (TranspilerObj walkExpr walkSide MSide MEq MathElem TrEq parseEqs parseTree)

/-! ## 1. the document side: what `docgen.expr_xml` writes -/

/-- `<cn cellml:units="u">text</cn>`. `C02.Mml.cn` has the `type` attribute, the text and the children of a `<cn>`
    but no slot for `cellml:units` (the default transpiler of C02 ignores it): the element is written as `.el "cn"`
    holding the `.cn` cell and the attribute value in a `.ci` cell. `runMethodW` reads it back into the `CnNode` the
    generated `_cn_handler` consumes. -/
def cnUnits (text u : String) : Mml := .el "cn" (.cons (.cn none (some text) []) (.cons (.ci u) .nil))

/-- `harness/docgen.py:expr_xml`; `render` is the decimal text the writer puts into `<cn>` -/
def toMml (render : Rat → String) : Load.Expr String String → Mml
  | .num q u => cnUnits (render q) u
  | .var a => .ci a
  | .diff x t => .el "apply" (Mml.ofList [.el "diff" .nil, .el "bvar" (Mml.ofList [.ci t]), .ci x])
  | .add a b => .el "apply" (Mml.ofList [.el "plus" .nil, toMml render a, toMml render b])
  | .sub a b => .el "apply" (Mml.ofList [.el "minus" .nil, toMml render a, toMml render b])
  | .mul a b => .el "apply" (Mml.ofList [.el "times" .nil, toMml render a, toMml render b])
  | .div a b => .el "apply" (Mml.ofList [.el "divide" .nil, toMml render a, toMml render b])
  | .neg a => .el "apply" (Mml.ofList [.el "minus" .nil, toMml render a])
  | .powi a n => .el "apply" (Mml.ofList [.el "power" .nil, toMml render a, cnUnits (render n) "dimensionless"])

/-! ## 2. the generated handlers with the two callbacks -/

/-- the leaves of the GENERATED `_cn_handler` for a transpiler constructed with `number_generator=num`: `float`, `int`,
    `strip` as for C02; the number generator is the callback (python floats that are not finite, and a `<cn>` without
    `cellml:units`, are outside the loader's documents) -/
def cnViewW (num : Rat → String → Except PyErr Sy) : CnView FVal Sy :=
  { cnViewC02 with
    numberGenerator := fun v u => match v, u with
      | .fin q, some u => num q u
      | _, _ => .error ⟨"outside: number generator on inf / nan or without units"⟩ }

/-- `self.handlers[tag]` by method name, for `Transpiler(symbol_generator=sym, number_generator=num)`: as
    `PGenE.runMethod`, but `_ci_handler` (`self.symbol_generator(node.text.strip())`) calls `sym` and the GENERATED
    `_cn_handler` runs on `cnViewW num`. Every other method IS `PGenE.runMethod` (generated definitions). -/
def runMethodW (sym : String → Except PyErr Sy) (num : Rat → String → Except PyErr Sy) (m : String) (self : TView)
    (node : Mml) : Except PyErr Sy :=
  if m = "_cn_handler" then
    (match node with
      | .el _ (.cons (.cn ty text kids) (.cons (.ci u) .nil)) => Transpile.cnHandler (cnViewW num) ⟨ty, text, kids, some u⟩
      | .cn ty text kids => Transpile.cnHandler (cnViewW num) ⟨ty, text, kids, none⟩
      | _ => .error ⟨"outside: <cn> not in its own encoding"⟩)
  else if m = "_ci_handler" then
    (match node with
      | .ci n => sym n
      | _ => .error ⟨"outside: <ci> not in its own encoding"⟩)
  else runMethod m self node

/-- `self.handlers[tag](child)`, recursion depth at most `n` — `PGenE.genHandlerFuel` with the callbacks -/
def genWalkFuel (sym : String → Except PyErr Sy) (num : Rat → String → Except PyErr Sy) :
    Nat → String → Mml → Except PyErr Sy
  | 0, _, _ => .error ⟨"RecursionError"⟩
  | n + 1, tag, child =>
    match handlerOf tag with
    | none => .error ⟨"KeyError"⟩
    | some m => runMethodW sym num m ⟨fun node => Transpile.transpileChildren ⟨hasH, genWalkFuel sym num n⟩ node⟩ child

/-- the `self` a generated container handler sees -/
def tvW (sym : String → Except PyErr Sy) (num : Rat → String → Except PyErr Sy) (n : Nat) : TView :=
  ⟨fun node => Transpile.transpileChildren ⟨hasH, genWalkFuel sym num n⟩ node⟩

theorem genWalkFuel_succ (sym : String → Except PyErr Sy) (num : Rat → String → Except PyErr Sy) (n : Nat)
    (tag : String) (child : Mml) :
    genWalkFuel sym num (n + 1) tag child =
      match handlerOf tag with
      | none => .error ⟨"KeyError"⟩
      | some m => runMethodW sym num m (tvW sym num n) child := rfl

/-- the handler of the element's own tag, run on the element (fuel: the termination measure of C02) -/
def genWalk (sym : String → Except PyErr Sy) (num : Rat → String → Except PyErr Sy) (t : Mml) : Except PyErr Sy :=
  genWalkFuel sym num t.size (mmlTag t) t

/-! ## 3. the value side -/

/-- names of the `sympy.Dummy` objects: a Variable, a Quantity (`create_quantity(value, units)`); `dimless`: the unit
    object `get_unit('dimensionless')` returns -/
structure Names where
  var : Load.VRef → String
  qty : Rat → Load.FUnit → String
  dimless : Load.FUnit

/-- the SymPy term of a transpiled expression, in the heads of `C02.Sy` (`Add`, `Mul`: SymPy classes of the generated
    table; `sub`, `div`, `neg`, `pow`: python operators of the closures; `Derivative(x, t, 1)`) -/
def toSy (N : Names) : Load.Expr Load.VRef Load.FUnit → Sy
  | .num q u => .sym (N.qty q u)
  | .var v => .sym (N.var v)
  | .diff x t => .app "Derivative" (Sy.ofList [.sym (N.var x), .sym (N.var t), .int 1])
  | .add a b => .app "Add" (Sy.ofList [toSy N a, toSy N b])
  | .sub a b => .app "sub" (Sy.ofList [toSy N a, toSy N b])
  | .mul a b => .app "Mul" (Sy.ofList [toSy N a, toSy N b])
  | .div a b => .app "div" (Sy.ofList [toSy N a, toSy N b])
  | .neg a => .app "neg" (Sy.ofList [toSy N a])
  | .powi a n => .app "pow" (Sy.ofList [toSy N a, .sym (N.qty n N.dimless)])

/-- `symbol_generator` of `T` as the generated handlers see it (`TranspilerObj.ci`: the closure with its assertion) -/
def symOf (N : Names) (T : TranspilerObj) (a : String) : Except PyErr Sy := (T.ci a).map fun v => .sym (N.var v)
/-- `number_generator` of `T` as the generated handlers see it -/
def numOf (N : Names) (T : TranspilerObj) (q : Rat) (u : String) : Except PyErr Sy := (T.num q u).map (toSy N)

theorem numLike_toSy (N : Names) : ∀ e, numLike (toSy N e) = true
  | .num _ _ | .var _ => rfl
  | .diff _ _ | .add _ _ | .sub _ _ | .mul _ _ | .div _ _ | .neg _ | .powi _ _ => by
    simp only [toSy, numLike, Sy.srt]; decide +kernel

/-! ## 4. the generated loop and the generated `_apply_handler`, unrolled -/

/-- the loop of `Transpiler.transpile` over a list of children -/
def runKids (d : DView) : List Mml → Except PyErr (List Sy)
  | [] => .ok []
  | k :: ks =>
    if d.hasHandler (mmlTag k) = true then
      match d.runHandler (mmlTag k) k with
      | .error e => .error e
      | .ok a => match runKids d ks with
        | .error e => .error e
        | .ok r => .ok (a :: r)
    else .error ⟨"ValueError"⟩

theorem kids_loop (d : DView) : ∀ (ks : List Mml) (acc : List Sy),
    (forIn ks acc (fun child_element r =>
        if Py.truthy (d.hasHandler (mmlTag child_element)) = true then
          (d.runHandler (mmlTag child_element) child_element).bind fun v =>
            Except.pure (ForInStep.yield (r ++ [v]))
        else (throw (PyErr.mk "ValueError") : Except PyErr PUnit).bind fun _ => Except.pure (ForInStep.yield r)) :
          Except PyErr (List Sy))
      = match runKids d ks with
        | .error e => .error e
        | .ok r => .ok (acc ++ r)
  | [], acc => by simp [runKids, pure, Except.pure]
  | k :: ks, acc => by
    simp only [List.forIn_cons, runKids, Py.truthy_bool]
    by_cases hh : d.hasHandler (mmlTag k) = true
    · simp only [hh, if_true]
      cases d.runHandler (mmlTag k) k with
      | error e => simp [bind, Except.bind]
      | ok a =>
        have ih := kids_loop d ks (acc ++ [a])
        simp only [Py.truthy_bool, bind, Except.bind, Except.pure] at ih
        simp only [bind, Except.bind, Except.pure]
        rw [ih]
        cases runKids d ks <;> simp
    · simp [hh, bind, Except.bind, throw, throwThe, MonadExceptOf.throw]

/-- **the GENERATED `Transpiler.transpile`** on an element with the children `ks`, for any `self.handlers` -/
theorem transpileChildren_eq (d : DView) (tag : String) (ks : List Mml) :
    Transpile.transpileChildren d (.el tag (Mml.ofList ks)) = runKids d ks := by
  unfold Transpile.transpileChildren
  simp only [mmlChildren, mml_toList_ofList, bind, pure]
  rw [kids_loop d ks []]
  cases runKids d ks <;> simp [Except.bind, Except.pure]

section
variable (sym : String → Except PyErr Sy) (num : Rat → String → Except PyErr Sy)

/-- **the GENERATED `_apply_handler`** over the generated loop: transpile the children, call the first on the rest —
    `genCall`: a SymPy class, or one of the GENERATED closures `_wrapped_*` (`call_tie`) -/
theorem apply_eq (k : Nat) (ks : List Mml) :
    genWalkFuel sym num (k + 1) "apply" (.el "apply" (Mml.ofList ks)) =
      match runKids ⟨hasH, genWalkFuel sym num k⟩ ks with
      | .error e => .error e
      | .ok [] => .error ⟨"IndexError"⟩
      | .ok [f] => .ok f
      | .ok (f :: r) => genCall f r := by
  rw [genWalkFuel_succ, handlerOf_apply]
  have : runMethodW sym num "_apply_handler" (tvW sym num k) (.el "apply" (Mml.ofList ks)) =
      Transpile.applyHandler (tvW sym num k) (.el "apply" (Mml.ofList ks)) := by simp [runMethodW, runMethod]
  simp only [this]
  rw [applyHandler_tie]
  simp only [modelContainer, tvW, transpileChildren_eq]
  cases runKids ⟨hasH, genWalkFuel sym num k⟩ ks with
  | error e => rfl
  | ok l =>
    match l with
    | [] => simp [Except.bind, assemble, Sy.ofList, syE, errClass, syErrName]
    | [f] => simp [Except.bind, assemble, Sy.ofList, syE, errClass, syErrName]
    | f :: a :: r =>
      simp only [Except.bind, ← pyCall_eq_genCall, pyCall]
      simp [assemble, Sy.ofList]

/-- an operator with two operands -/
theorem apply_bin (opTag : String) (f : Sy) (A B : Mml) (k : Nat) (hop : hasH opTag = true)
    (hf : genWalkFuel sym num k opTag (.el opTag .nil) = .ok f)
    (hA : hasH (mmlTag A) = true) (hB : hasH (mmlTag B) = true) :
    genWalkFuel sym num (k + 1) "apply" (.el "apply" (Mml.ofList [.el opTag .nil, A, B])) =
      match genWalkFuel sym num k (mmlTag A) A with
      | .error e => .error e
      | .ok a => match genWalkFuel sym num k (mmlTag B) B with
        | .error e => .error e
        | .ok b => genCall f [a, b] := by
  rw [apply_eq]
  have ht : mmlTag (Mml.el opTag .nil) = opTag := rfl
  simp only [runKids, ht, hop, hA, hB, hf, if_true]
  cases genWalkFuel sym num k (mmlTag A) A with
  | error e => rfl
  | ok a => cases genWalkFuel sym num k (mmlTag B) B <;> rfl

/-- an operator with one operand -/
theorem apply_un (opTag : String) (f : Sy) (A : Mml) (k : Nat) (hop : hasH opTag = true)
    (hf : genWalkFuel sym num k opTag (.el opTag .nil) = .ok f) (hA : hasH (mmlTag A) = true) :
    genWalkFuel sym num (k + 1) "apply" (.el "apply" (Mml.ofList [.el opTag .nil, A])) =
      match genWalkFuel sym num k (mmlTag A) A with
      | .error e => .error e
      | .ok a => genCall f [a] := by
  rw [apply_eq]
  have ht : mmlTag (Mml.el opTag .nil) = opTag := rfl
  simp only [runKids, ht, hop, hA, hf, if_true]
  cases genWalkFuel sym num k (mmlTag A) A <;> rfl

/-! ## 5. the operator children: the GENERATED `_simple_operator_handler`, the closures of the explicit handlers -/

theorem handlerOf_plus : handlerOf "plus" = some "_simple_operator_handler" := by decide +kernel
theorem handlerOf_times : handlerOf "times" = some "_simple_operator_handler" := by decide +kernel
theorem handlerOf_minus : handlerOf "minus" = some "_minus_handler" := by decide +kernel
theorem handlerOf_divide : handlerOf "divide" = some "_divide_handler" := by decide +kernel
theorem handlerOf_power : handlerOf "power" = some "_power_handler" := by decide +kernel
theorem handlerOf_diff : handlerOf "diff" = some "_diff_handler" := by decide +kernel
theorem handlerOf_bvar : handlerOf "bvar" = some "_bvar_handler" := by decide +kernel

theorem op_plus (k : Nat) : genWalkFuel sym num (k + 1) "plus" (.el "plus" .nil) = .ok (.cls "Add") := by
  rw [genWalkFuel_succ, handlerOf_plus]
  have : runMethodW sym num "_simple_operator_handler" (tvW sym num k) (.el "plus" .nil) =
      Transpile.simpleOperatorHandler (.el "plus" .nil) := by simp [runMethodW, runMethod]
  simp only [this]
  rw [simpleOperatorHandler_tie]
  decide +kernel

theorem op_times (k : Nat) : genWalkFuel sym num (k + 1) "times" (.el "times" .nil) = .ok (.cls "Mul") := by
  rw [genWalkFuel_succ, handlerOf_times]
  have : runMethodW sym num "_simple_operator_handler" (tvW sym num k) (.el "times" .nil) =
      Transpile.simpleOperatorHandler (.el "times" .nil) := by simp [runMethodW, runMethod]
  simp only [this]
  rw [simpleOperatorHandler_tie]
  decide +kernel

theorem op_wrapped (tag m : String) (k : Nat) (h : handlerOf tag = some m) (hm : m ∈ wrappedHandlers) :
    genWalkFuel sym num (k + 1) tag (.el tag .nil) = .ok (.wrapped m) := by
  rw [genWalkFuel_succ, h]
  simp only [wrappedHandlers, List.mem_cons, List.mem_nil_iff, or_false] at hm
  rcases hm with rfl | rfl | rfl | rfl | rfl | rfl <;> simp [runMethodW, runMethod, wrappedHandlers]

/-! ## 6. what the callees do on numeric operands: SymPy's classes (leaf), the GENERATED closures -/

theorem call_Add (a b : Sy) (ha : numLike a = true) (hb : numLike b = true) :
    genCall (.cls "Add") [a, b] = .ok (.app "Add" (Sy.ofList [a, b])) := by
  have h1 : sympyArity "Add" = some (0, none) := by decide +kernel
  have h2 : classKind "Add" = .arith := by decide +kernel
  simp [genCall, sympyClassCall, callClass, h1, h2, Sy.ofList, Sy.all, Sy.len, ha, hb, syE, errClass]

theorem call_Mul (a b : Sy) (ha : numLike a = true) (hb : numLike b = true) :
    genCall (.cls "Mul") [a, b] = .ok (.app "Mul" (Sy.ofList [a, b])) := by
  have h1 : sympyArity "Mul" = some (0, none) := by decide +kernel
  have h2 : classKind "Mul" = .arith := by decide +kernel
  simp [genCall, sympyClassCall, callClass, h1, h2, Sy.ofList, Sy.all, Sy.len, ha, hb, syE, errClass]

/-- the call of the closure `_minus_handler` returned IS the generated `_wrapped_minus` -/
theorem call_minus2 (a b : Sy) : genCall (.wrapped "_minus_handler") [a, b] = Transpile.wrappedMinus a (some b) := by
  simp [genCall]
theorem call_minus1 (a : Sy) : genCall (.wrapped "_minus_handler") [a] = Transpile.wrappedMinus a none := by
  simp [genCall]
theorem call_divide (a b : Sy) : genCall (.wrapped "_divide_handler") [a, b] = Transpile.wrappedDivide a b := by
  simp [genCall]
theorem call_power (a b : Sy) : genCall (.wrapped "_power_handler") [a, b] = Transpile.wrappedPower a b := by
  simp [genCall]
theorem call_diff (x y : Sy) : genCall (.wrapped "_diff_handler") [x, y] = Transpile.wrappedDiff x y none := by
  simp [genCall]

theorem wrappedMinus2_num (a b : Sy) (ha : numLike a = true) (hb : numLike b = true) :
    Transpile.wrappedMinus a (some b) = .ok (.app "sub" (Sy.ofList [a, b])) := by
  have := wrappedMinus_tie [a, b]
  simp only at this
  rw [← this]
  simp [callWrapped, Sy.ofList, arith2, ha, hb, syE, errClass]

theorem wrappedMinus1_num (a : Sy) (ha : numLike a = true) :
    Transpile.wrappedMinus a none = .ok (.app "neg" (Sy.ofList [a])) := by
  have := wrappedMinus_tie [a]
  simp only at this
  rw [← this]
  simp [callWrapped, Sy.ofList, arith1, ha, syE, errClass]

theorem wrappedDivide_num (a b : Sy) (ha : numLike a = true) (hb : numLike b = true) :
    Transpile.wrappedDivide a b = .ok (.app "div" (Sy.ofList [a, b])) := by
  have := wrappedDivide_tie [a, b]
  simp only at this
  rw [← this]
  simp [callWrapped, Sy.ofList, arith2, ha, hb, syE, errClass]

theorem wrappedPower_num (a b : Sy) (ha : numLike a = true) (hb : numLike b = true) :
    Transpile.wrappedPower a b = .ok (.app "pow" (Sy.ofList [a, b])) := by
  have := wrappedPower_tie [a, b]
  simp only at this
  rw [← this]
  simp [callWrapped, Sy.ofList, arith2, ha, hb, syE, errClass]

/-- `_wrapped_diff(t, x)` on two Dummy objects: `sympy.Derivative(x, t, evaluate=False)` -/
theorem wrappedDiff_sym (t x : String) :
    Transpile.wrappedDiff (.sym t) (.sym x) none = .ok (.app "Derivative" (Sy.ofList [.sym x, .sym t, .int 1])) := by
  have := wrappedDiff_tie [.sym t, .sym x]
  simp only at this
  rw [← this]
  simp [callWrapped, Sy.ofList, diffCb, isBoolConst, mkDeriv, numLike, Sy.srt, syE, errClass]


/-! ## 7. the leaves: `<ci>`, `<cn cellml:units>`, `<bvar>` -/

theorem hasH_ci : hasH "ci" = true := by decide +kernel
theorem hasH_cn : hasH "cn" = true := by decide +kernel
theorem hasH_apply : hasH "apply" = true := by decide +kernel
theorem hasH_plus : hasH "plus" = true := by decide +kernel
theorem hasH_times : hasH "times" = true := by decide +kernel
theorem hasH_minus : hasH "minus" = true := by decide +kernel
theorem hasH_divide : hasH "divide" = true := by decide +kernel
theorem hasH_power : hasH "power" = true := by decide +kernel
theorem hasH_diff : hasH "diff" = true := by decide +kernel
theorem hasH_bvar : hasH "bvar" = true := by decide +kernel

/-- `_ci_handler`: the callback -/
theorem ci_eq (k : Nat) (a : String) : genWalkFuel sym num (k + 1) "ci" (.ci a) = sym a := by
  rw [genWalkFuel_succ, handlerOf_ci']
  simp [runMethodW]

/-- the GENERATED `_cn_handler` on `<cn cellml:units="u">text</cn>` where python's `float(text.strip())` is `q`: the
    callback on `(q, u)` -/
theorem cn_eq (k : Nat) (text u : String) (q : Rat) (h : pyFloat text.toList = some (.fin q)) :
    genWalkFuel sym num (k + 1) "cn" (cnUnits text u) = num q u := by
  rw [genWalkFuel_succ, handlerOf_cn']
  simp only [runMethodW, cnUnits, if_true]
  unfold Transpile.cnHandler
  simp [bind, Except.bind, pure, Except.pure, cnViewW, cnViewC02, String.toList_ofList, pyFloat_strip, h, optToExcept]

/-- the GENERATED `_bvar_handler` on `<bvar><ci>t</ci></bvar>` -/
theorem bvar_eq (k : Nat) (t : String) :
    genWalkFuel sym num (k + 2) "bvar" (.el "bvar" (Mml.ofList [.ci t])) = sym t := by
  rw [genWalkFuel_succ, handlerOf_bvar]
  have : runMethodW sym num "_bvar_handler" (tvW sym num (k + 1)) (.el "bvar" (Mml.ofList [.ci t])) =
      Transpile.bvarHandler (tvW sym num (k + 1)) (.el "bvar" (Mml.ofList [.ci t])) := by simp [runMethodW, runMethod]
  simp only [this]
  rw [bvarHandler_tie]
  simp only [modelContainer, tvW, transpileChildren_eq, runKids, mmlTag, hasH_ci, if_true, ci_eq]
  cases sym t <;> simp [Except.bind, assemble, Sy.ofList, syE, errClass]

end

/-! ## 8. the theorem -/

/-- the fragment: every number of the expression is written as a text python's `float` reads back as that number
    (`render`), and — `walkExpr` does not hand the exponent of an integer power to the number generator, python does
    (`<cn cellml:units="dimensionless">n</cn>`) — the number generator of `T` makes the Quantity `n [dimensionless]` of
    every exponent -/
def Frag (render : Rat → String) (N : Names) (T : TranspilerObj) : Load.Expr String String → Prop
  | .num q _ => pyFloat (render q).toList = some (.fin q)
  | .var _ => True
  | .diff _ _ => True
  | .add a b => Frag render N T a ∧ Frag render N T b
  | .sub a b => Frag render N T a ∧ Frag render N T b
  | .mul a b => Frag render N T a ∧ Frag render N T b
  | .div a b => Frag render N T a ∧ Frag render N T b
  | .neg a => Frag render N T a
  | .powi a n => Frag render N T a ∧ pyFloat (render n).toList = some (.fin n) ∧
      T.num n "dimensionless" = .ok (.num n N.dimless)

theorem hasH_toMml (render : Rat → String) (e : Load.Expr String String) :
    hasH (mmlTag (toMml render e)) = true := by
  cases e <;> simp only [toMml, cnUnits, mmlTag] <;> decide +kernel

section
variable (render : Rat → String) (N : Names) (T : TranspilerObj)

theorem walk_fuel : ∀ (e : Load.Expr String String) (n : Nat), Frag render N T e → (toMml render e).size ≤ n →
    genWalkFuel (symOf N T) (numOf N T) n (mmlTag (toMml render e)) (toMml render e) =
      (walkExpr T e).map (toSy N)
  | .num q u, n, hf, hs => by
    obtain ⟨k, rfl⟩ : ∃ k, n = k + 1 := ⟨n - 1, by have := size_pos (toMml render (.num q u)); omega⟩
    simp only [Frag] at hf
    simp only [toMml]
    rw [show mmlTag (cnUnits (render q) u) = "cn" from rfl, cn_eq _ _ k _ u q hf]
    rfl
  | .var a, n, hf, hs => by
    obtain ⟨k, rfl⟩ : ∃ k, n = k + 1 := ⟨n - 1, by have := size_pos (toMml render (.var a)); omega⟩
    simp only [toMml, mmlTag, ci_eq, symOf, walkExpr]
    cases T.ci a <;> rfl
  | .diff x t, n, hf, hs => by
    simp only [toMml, Mml.ofList, Mml.size] at hs
    obtain ⟨k, rfl⟩ : ∃ k, n = k + 3 := ⟨n - 3, by omega⟩
    simp only [toMml, mmlTag]
    rw [apply_bin _ _ "diff" (.wrapped "_diff_handler") (.el "bvar" (Mml.ofList [.ci t])) (.ci x) (k + 2) hasH_diff
      (op_wrapped _ _ "diff" _ (k + 1) handlerOf_diff (by decide)) hasH_bvar hasH_ci]
    simp only [mmlTag, bvar_eq, ci_eq, symOf, walkExpr]
    cases T.ci t with
    | error e => rfl
    | ok t' =>
      cases T.ci x with
      | error e => rfl
      | ok x' =>
        simp only [Except.map, call_diff, wrappedDiff_sym, toSy]
  | .add a b, n, hf, hs => by
    simp only [toMml, Mml.ofList, Mml.size] at hs
    obtain ⟨k, rfl⟩ : ∃ k, n = k + 2 := ⟨n - 2, by omega⟩
    simp only [toMml, mmlTag]
    rw [apply_bin _ _ "plus" (.cls "Add") _ _ (k + 1) hasH_plus (op_plus _ _ k) (hasH_toMml render a)
      (hasH_toMml render b), walk_fuel a (k + 1) hf.1 (by omega), walk_fuel b (k + 1) hf.2 (by omega)]
    simp only [walkExpr]
    cases walkExpr T a with
    | error e => rfl
    | ok a' =>
      cases walkExpr T b with
      | error e => rfl
      | ok b' => simp only [Except.map, call_Add _ _ (numLike_toSy N a') (numLike_toSy N b'), toSy]
  | .mul a b, n, hf, hs => by
    simp only [toMml, Mml.ofList, Mml.size] at hs
    obtain ⟨k, rfl⟩ : ∃ k, n = k + 2 := ⟨n - 2, by omega⟩
    simp only [toMml, mmlTag]
    rw [apply_bin _ _ "times" (.cls "Mul") _ _ (k + 1) hasH_times (op_times _ _ k) (hasH_toMml render a)
      (hasH_toMml render b), walk_fuel a (k + 1) hf.1 (by omega), walk_fuel b (k + 1) hf.2 (by omega)]
    simp only [walkExpr]
    cases walkExpr T a with
    | error e => rfl
    | ok a' =>
      cases walkExpr T b with
      | error e => rfl
      | ok b' => simp only [Except.map, call_Mul _ _ (numLike_toSy N a') (numLike_toSy N b'), toSy]
  | .sub a b, n, hf, hs => by
    simp only [toMml, Mml.ofList, Mml.size] at hs
    obtain ⟨k, rfl⟩ : ∃ k, n = k + 2 := ⟨n - 2, by omega⟩
    simp only [toMml, mmlTag]
    rw [apply_bin _ _ "minus" (.wrapped "_minus_handler") _ _ (k + 1) hasH_minus
      (op_wrapped _ _ "minus" _ k handlerOf_minus (by decide)) (hasH_toMml render a)
      (hasH_toMml render b), walk_fuel a (k + 1) hf.1 (by omega), walk_fuel b (k + 1) hf.2 (by omega)]
    simp only [walkExpr]
    cases walkExpr T a with
    | error e => rfl
    | ok a' =>
      cases walkExpr T b with
      | error e => rfl
      | ok b' =>
        simp only [Except.map, call_minus2, wrappedMinus2_num _ _ (numLike_toSy N a') (numLike_toSy N b'), toSy]
  | .div a b, n, hf, hs => by
    simp only [toMml, Mml.ofList, Mml.size] at hs
    obtain ⟨k, rfl⟩ : ∃ k, n = k + 2 := ⟨n - 2, by omega⟩
    simp only [toMml, mmlTag]
    rw [apply_bin _ _ "divide" (.wrapped "_divide_handler") _ _ (k + 1) hasH_divide
      (op_wrapped _ _ "divide" _ k handlerOf_divide (by decide)) (hasH_toMml render a)
      (hasH_toMml render b), walk_fuel a (k + 1) hf.1 (by omega), walk_fuel b (k + 1) hf.2 (by omega)]
    simp only [walkExpr]
    cases walkExpr T a with
    | error e => rfl
    | ok a' =>
      cases walkExpr T b with
      | error e => rfl
      | ok b' =>
        simp only [Except.map, call_divide, wrappedDivide_num _ _ (numLike_toSy N a') (numLike_toSy N b'), toSy]
  | .neg a, n, hf, hs => by
    simp only [toMml, Mml.ofList, Mml.size] at hs
    obtain ⟨k, rfl⟩ : ∃ k, n = k + 2 := ⟨n - 2, by omega⟩
    simp only [toMml, mmlTag]
    rw [apply_un _ _ "minus" (.wrapped "_minus_handler") _ (k + 1) hasH_minus
      (op_wrapped _ _ "minus" _ k handlerOf_minus (by decide)) (hasH_toMml render a),
      walk_fuel a (k + 1) hf (by omega)]
    simp only [walkExpr]
    cases walkExpr T a with
    | error e => rfl
    | ok a' => simp only [Except.map, call_minus1, wrappedMinus1_num _ (numLike_toSy N a'), toSy]
  | .powi a m, n, hf, hs => by
    simp only [toMml, Mml.ofList, Mml.size] at hs
    obtain ⟨k, rfl⟩ : ∃ k, n = k + 2 := ⟨n - 2, by omega⟩
    simp only [toMml, mmlTag]
    rw [apply_bin _ _ "power" (.wrapped "_power_handler") (toMml render a) (cnUnits (render m) "dimensionless") (k + 1)
      hasH_power
      (op_wrapped _ _ "power" _ k handlerOf_power (by decide)) (hasH_toMml render a) hasH_cn,
      walk_fuel a (k + 1) hf.1 (by omega)]
    rw [show mmlTag (cnUnits (render m) "dimensionless") = "cn" from rfl, cn_eq _ _ k _ _ _ hf.2.1]
    simp only [walkExpr, numOf, hf.2.2]
    cases walkExpr T a with
    | error e => rfl
    | ok a' =>
      simp only [Except.map, call_power, toSy]
      exact wrappedPower_num _ _ (numLike_toSy N a') rfl

/-- **`walkExpr` = the generated handlers.** For every expression of the fragment, the hand-written walk of
    `Tie/MathsWalkView.lean` is the code GENERATED from `Transpiler.transpile`, `_apply_handler`, `_bvar_handler`,
    `_simple_operator_handler`, `_cn_handler` and the closures `_wrapped_minus`, `_wrapped_divide`, `_wrapped_power`,
    `_wrapped_diff`, run on the MathML `docgen` writes, with `T`'s callbacks where the transpiler calls its
    `symbol_generator` / `number_generator`: same term (through `toSy`), same first exception of a callback — left
    operand before right, `<bvar>` before the differentiated variable. -/
theorem walkExpr_eq_genWalk (e : Load.Expr String String) (hf : Frag render N T e) :
    genWalk (symOf N T) (numOf N T) (toMml render e) = (walkExpr T e).map (toSy N) :=
  walk_fuel render N T e _ hf (Nat.le_refl _)

end

/-! ## 9. a left-hand side with `<degree>` (`MSide.higher`) -/

theorem handlerOf_degree : handlerOf "degree" = some "_degree_handler" := by decide +kernel
theorem hasH_degree : hasH "degree" = true := by decide +kernel

/-- `<degree><cn cellml:units="dimensionless">n</cn></degree>` -/
def degreeEl (render : Rat → String) (n : Nat) : Mml :=
  .el "degree" (Mml.ofList [cnUnits (render n) "dimensionless"])

/-- the MathML of one side of an equation -/
def toMmlSide (render : Rat → String) : MSide → Mml
  | .e x => toMml render x
  | .higher x t n =>
    .el "apply" (Mml.ofList [.el "diff" .nil, .el "bvar" (Mml.ofList [.ci t, degreeEl render n]), .ci x])

section
variable (sym : String → Except PyErr Sy) (num : Rat → String → Except PyErr Sy)

/-- the GENERATED `_degree_handler` -/
theorem degree_eq (k : Nat) (render : Rat → String) (n : Nat) (h : pyFloat (render n).toList = some (.fin n)) :
    genWalkFuel sym num (k + 2) "degree" (degreeEl render n) = num n "dimensionless" := by
  rw [genWalkFuel_succ, handlerOf_degree]
  have : runMethodW sym num "_degree_handler" (tvW sym num (k + 1)) (degreeEl render n) =
      Transpile.degreeHandler (tvW sym num (k + 1)) (degreeEl render n) := by simp [runMethodW, runMethod]
  simp only [this]
  rw [degreeHandler_tie]
  have ht : mmlTag (cnUnits (render n) "dimensionless") = "cn" := rfl
  simp only [modelContainer, tvW, degreeEl, transpileChildren_eq, runKids, ht, hasH_cn, if_true, cn_eq _ _ k _ _ _ h]
  cases num n "dimensionless" <;> simp [Except.bind, assemble, Sy.ofList, syE, errClass]

/-- the GENERATED `_bvar_handler` on `<bvar><ci>t</ci><degree>…</degree></bvar>`: the python list `[t, degree]` -/
theorem bvar2_eq (k : Nat) (render : Rat → String) (t : String) (n : Nat)
    (h : pyFloat (render n).toList = some (.fin n)) :
    genWalkFuel sym num (k + 3) "bvar" (.el "bvar" (Mml.ofList [.ci t, degreeEl render n])) =
      match sym t with
      | .error e => .error e
      | .ok a => match num n "dimensionless" with
        | .error e => .error e
        | .ok d => .ok (.pylist (Sy.ofList [a, d])) := by
  rw [genWalkFuel_succ, handlerOf_bvar]
  have : runMethodW sym num "_bvar_handler" (tvW sym num (k + 2)) (.el "bvar" (Mml.ofList [.ci t, degreeEl render n])) =
      Transpile.bvarHandler (tvW sym num (k + 2)) (.el "bvar" (Mml.ofList [.ci t, degreeEl render n])) := by
    simp [runMethodW, runMethod]
  simp only [this]
  rw [bvarHandler_tie]
  have ht : mmlTag (degreeEl render n) = "degree" := rfl
  have hc : mmlTag (Mml.ci t) = "ci" := rfl
  simp only [modelContainer, tvW, transpileChildren_eq, runKids, ht, hc, hasH_ci, hasH_degree, if_true, ci_eq,
    degree_eq _ _ k render n h]
  cases sym t with
  | error e => rfl
  | ok a => cases num n "dimensionless" <;> simp [Except.bind, assemble, Sy.ofList, syE, errClass]

/-- `_wrapped_diff([t, q], x)` with `q` a Dummy (the Quantity of the degree): `int(q)` is a TypeError -/
theorem wrappedDiff_degree (t q x : String) :
    Transpile.wrappedDiff (.pylist (Sy.ofList [.sym t, .sym q])) (.sym x) none = .error ⟨"TypeError"⟩ := by
  have := wrappedDiff_tie [.pylist (Sy.ofList [.sym t, .sym q]), .sym x]
  simp only at this
  rw [← this]
  simp [callWrapped, Sy.ofList, diffCb, isBoolConst, syE, errClass, syErrName]

end

section
variable (render : Rat → String) (N : Names) (T : TranspilerObj)

/-- the fragment for a side -/
def FragSide : MSide → Prop
  | .e x => Frag render N T x
  | .higher _ _ n => pyFloat (render n).toList = some (.fin n) ∧ ∃ q u, T.num n "dimensionless" = .ok (.num q u)

theorem higher_fuel (x t : String) (n k : Nat) (hf : FragSide render N T (.higher x t n)) :
    genWalkFuel (symOf N T) (numOf N T) (k + 4) "apply" (toMmlSide render (.higher x t n)) =
      (walkSide T (.higher x t n)).map (toSy N) := by
  obtain ⟨h1, q, u, h2⟩ := hf
  simp only [toMmlSide]
  rw [apply_bin _ _ "diff" (.wrapped "_diff_handler") (.el "bvar" (Mml.ofList [.ci t, degreeEl render n])) (.ci x) (k + 3)
    hasH_diff (op_wrapped _ _ "diff" _ (k + 2) handlerOf_diff (by decide)) hasH_bvar hasH_ci]
  have hb : mmlTag (Mml.el "bvar" (Mml.ofList [.ci t, degreeEl render n])) = "bvar" := rfl
  have hc : mmlTag (Mml.ci x) = "ci" := rfl
  simp only [hb, hc, bvar2_eq _ _ k render t n h1, ci_eq, symOf, numOf, h2, walkSide]
  cases T.ci t with
  | error e => rfl
  | ok t' =>
    cases T.ci x with
    | error e => rfl
    | ok x' => simp only [Except.map, call_diff, toSy, wrappedDiff_degree]

/-- **`walkSide` = the generated handlers**, both kinds of side -/
theorem walkSide_eq_genWalk (s : MSide) (hf : FragSide render N T s) :
    genWalk (symOf N T) (numOf N T) (toMmlSide render s) = (walkSide T s).map (toSy N) := by
  cases s with
  | e x => exact walkExpr_eq_genWalk render N T x hf
  | higher x t n =>
    have := higher_fuel render N T x t n
      ((toMmlSide render (.higher x t n)).size - 4) hf
    have hs : (toMmlSide render (.higher x t n)).size - 4 + 4 = (toMmlSide render (.higher x t n)).size := by
      simp only [toMmlSide, degreeEl, cnUnits, Mml.ofList, Mml.size]
    rw [hs] at this
    exact this

end

/-! ## 10. the transpiler `_add_maths` constructs -/

open Cellml.Tie.PMathsWalk in
theorem theTranspiler_num (self : MathsView) (cname : String) (v2s : Load.VRef → Option Load.VRef) (m : Cellml.Tie.VMap)
    (q : Rat) (u : String) (c : Container) (h : self.getUnit u = .ok c) :
    (theTranspiler self cname v2s m).num q u = .ok (.num q ([], c)) := by
  simp [theTranspiler, mkTranspiler, h, createQuantity, bind, Except.bind, pure, Except.pure]

/-- every number of the expression (and every exponent) is written as a text `float` reads back as that number -/
def NumsOk (render : Rat → String) : Load.Expr String String → Prop
  | .num q _ => pyFloat (render q).toList = some (.fin q)
  | .var _ => True
  | .diff _ _ => True
  | .add a b => NumsOk render a ∧ NumsOk render b
  | .sub a b => NumsOk render a ∧ NumsOk render b
  | .mul a b => NumsOk render a ∧ NumsOk render b
  | .div a b => NumsOk render a ∧ NumsOk render b
  | .neg a => NumsOk render a
  | .powi a n => NumsOk render a ∧ pyFloat (render n).toList = some (.fin n)

open Cellml.Tie.PMathsWalk in
/-- for the transpiler of `_add_maths` the condition on the number generator is: the unit store knows
    `dimensionless` -/
theorem frag_theTranspiler (render : Rat → String) (N : Names) (self : MathsView) (cname : String)
    (v2s : Load.VRef → Option Load.VRef) (m : Cellml.Tie.VMap) (c : Container)
    (hd : self.getUnit "dimensionless" = .ok c) (hN : N.dimless = ([], c)) :
    ∀ e, NumsOk render e → Frag render N (theTranspiler self cname v2s m) e
  | .num _ _, h => h
  | .var _, _ => trivial
  | .diff _ _, _ => trivial
  | .add a b, h => ⟨frag_theTranspiler render N self cname v2s m c hd hN a h.1, frag_theTranspiler render N self cname v2s m c hd hN b h.2⟩
  | .sub a b, h => ⟨frag_theTranspiler render N self cname v2s m c hd hN a h.1, frag_theTranspiler render N self cname v2s m c hd hN b h.2⟩
  | .mul a b, h => ⟨frag_theTranspiler render N self cname v2s m c hd hN a h.1, frag_theTranspiler render N self cname v2s m c hd hN b h.2⟩
  | .div a b, h => ⟨frag_theTranspiler render N self cname v2s m c hd hN a h.1, frag_theTranspiler render N self cname v2s m c hd hN b h.2⟩
  | .neg a, h => frag_theTranspiler render N self cname v2s m c hd hN a h
  | .powi a n, h => ⟨frag_theTranspiler render N self cname v2s m c hd hN a h.1, h.2, by
      rw [theTranspiler_num self cname v2s m n "dimensionless" c hd, hN]⟩

/-- the fragment is inhabited: `2`, `-1.5`, `0.001` as python reads them -/
theorem render_examples :
    pyFloat "2".toList = some (.fin 2) ∧ pyFloat "-1.5".toList = some (.fin (-3/2)) ∧
    pyFloat "0.001".toList = some (.fin (1/1000)) := by
  refine ⟨?_, ?_, ?_⟩ <;> decide +kernel

/-! ## 11. equations: `<apply><eq/> lhs rhs </apply>`, and `parse_tree` on a `<math>` element -/

theorem handlerOf_eq : handlerOf "eq" = some "_simple_operator_handler" := by decide +kernel
theorem hasH_eq : hasH "eq" = true := by decide +kernel

/-- `<eq/>`: the GENERATED `_simple_operator_handler` returns the relation wrapper around `sympy.Eq` -/
theorem op_eq (sym : String → Except PyErr Sy) (num : Rat → String → Except PyErr Sy) (k : Nat) :
    genWalkFuel sym num (k + 1) "eq" (.el "eq" .nil) = .ok (.rel "Eq") := by
  rw [genWalkFuel_succ, handlerOf_eq]
  have : runMethodW sym num "_simple_operator_handler" (tvW sym num k) (.el "eq" .nil) =
      Transpile.simpleOperatorHandler (.el "eq" .nil) := by simp [runMethodW, runMethod]
  simp only [this]
  rw [simpleOperatorHandler_tie]
  decide +kernel

theorem isNan_toSy (N : Names) (e : Load.Expr Load.VRef Load.FUnit) : isNan (toSy N e) = false := by
  cases e <;> rfl
theorem isBoolConst_toSy (N : Names) (e : Load.Expr Load.VRef Load.FUnit) : isBoolConst (toSy N e) = false := by
  cases e <;> rfl

/-- the GENERATED `_wrapper_relational` around `Eq` on two transpiled expressions: `sympy.Eq(l, r)` -/
theorem call_Eq (N : Names) (l r : Load.Expr Load.VRef Load.FUnit) :
    genCall (.rel "Eq") [toSy N l, toSy N r] = .ok (.app "Eq" (Sy.ofList [toSy N l, toSy N r])) := by
  have h1 : sympyArity "Eq" = some (2, some 2) := by decide +kernel
  have h2 : classKind "Eq" = .eq := by decide +kernel
  have h3 : isIneqClass "Eq" = false := by decide +kernel
  simp [genCall, wrapperRelational_tie, callRel, callClass, h1, h2, h3, Sy.ofList, Sy.all, Sy.any, Sy.len,
    numLike_toSy, isNan_toSy, isBoolConst_toSy, syE, errClass]

/-- `sympy.Eq(lhs, rhs)` -/
def eqToSy (N : Names) (q : TrEq) : Sy := .app "Eq" (Sy.ofList [toSy N q.lhs, toSy N q.rhs])

def toMmlEq (render : Rat → String) (q : MEq) : Mml :=
  .el "apply" (Mml.ofList [.el "eq" .nil, toMmlSide render q.lhs, toMml render q.rhs])

/-- the `<math>` element -/
def toMmlMath (render : Rat → String) (m : MathElem) : Mml := .el "math" (Mml.ofList (m.eqs.map (toMmlEq render)))

section
variable (render : Rat → String) (N : Names) (T : TranspilerObj)

theorem hasH_toMmlSide (s : MSide) : hasH (mmlTag (toMmlSide render s)) = true := by
  cases s with
  | e x => exact hasH_toMml render x
  | higher x t n => exact hasH_apply

theorem side_fuel (s : MSide) (n : Nat) (hf : FragSide render N T s) (hs : (toMmlSide render s).size ≤ n) :
    genWalkFuel (symOf N T) (numOf N T) n (mmlTag (toMmlSide render s)) (toMmlSide render s) =
      (walkSide T s).map (toSy N) := by
  cases s with
  | e x => exact walk_fuel render N T x n hf hs
  | higher x t m =>
    have hs' := hs
    simp only [toMmlSide, degreeEl, cnUnits, Mml.ofList, Mml.size] at hs'
    obtain ⟨k, rfl⟩ : ∃ k, n = k + 4 := ⟨n - 4, by omega⟩
    exact higher_fuel render N T x t m k hf

def FragEq (q : MEq) : Prop := FragSide render N T q.lhs ∧ Frag render N T q.rhs

/-- one equation: left side, then right side, then the GENERATED relation wrapper -/
theorem eq_fuel (q : MEq) (n : Nat) (hf : FragEq render N T q) (hs : (toMmlEq render q).size ≤ n) :
    genWalkFuel (symOf N T) (numOf N T) n "apply" (toMmlEq render q) =
      match walkSide T q.lhs with
      | .error e => .error e
      | .ok l => match walkExpr T q.rhs with
        | .error e => .error e
        | .ok r => .ok (eqToSy N ⟨l, r⟩) := by
  simp only [toMmlEq, Mml.ofList, Mml.size] at hs
  obtain ⟨k, rfl⟩ : ∃ k, n = k + 2 := ⟨n - 2, by omega⟩
  simp only [toMmlEq]
  rw [apply_bin _ _ "eq" (.rel "Eq") _ _ (k + 1) hasH_eq (op_eq _ _ k) (hasH_toMmlSide render q.lhs)
    (hasH_toMml render q.rhs), side_fuel render N T q.lhs (k + 1) hf.1 (by omega),
    walk_fuel render N T q.rhs (k + 1) hf.2 (by omega)]
  cases walkSide T q.lhs with
  | error e => rfl
  | ok l =>
    cases walkExpr T q.rhs with
    | error e => rfl
    | ok r => simp only [Except.map, call_Eq, eqToSy]

/-- the GENERATED loop of `Transpiler.transpile` over the equations of a `<math>` element -/
theorem eqs_fuel (n : Nat) : ∀ (qs : List MEq), (∀ q ∈ qs, FragEq render N T q ∧ (toMmlEq render q).size ≤ n) →
    runKids ⟨hasH, genWalkFuel (symOf N T) (numOf N T) n⟩ (qs.map (toMmlEq render)) =
      (parseEqs T qs).map (List.map (eqToSy N))
  | [], _ => rfl
  | q :: r, h => by
    have hq := h q (by simp)
    have ih := eqs_fuel n r (fun x hx => h x (by simp [hx]))
    have ht : mmlTag (toMmlEq render q) = "apply" := rfl
    simp only [List.map_cons, runKids, ht, hasH_apply, if_true, eq_fuel render N T q n hq.1 hq.2, ih, parseEqs]
    cases walkSide T q.lhs with
    | error e => rfl
    | ok l =>
      cases walkExpr T q.rhs with
      | error e => rfl
      | ok rh => cases parseEqs T r <;> rfl

theorem mem_size' : ∀ (ks : List Mml) (k : Mml), k ∈ ks → k.size ≤ (Mml.ofList ks).size
  | x :: xs, k, h => by
    simp only [Mml.ofList, Mml.size]
    rcases List.mem_cons.1 h with rfl | h
    · omega
    · have := mem_size' xs k h; omega

/-- **`transpiler.parse_tree(math_element)`** (`= self.transpile(math_element)`: the GENERATED loop over the generated
    handlers, fuel = the size of the element) **= the hand-written `parseTree`**: all equations transpiled in document
    order, left side before right side, the first exception of a callback wins -/
theorem parseTree_eq_gen (m : MathElem) (hf : ∀ q ∈ m.eqs, FragEq render N T q) :
    Transpile.transpileChildren ⟨hasH, genWalkFuel (symOf N T) (numOf N T) (toMmlMath render m).size⟩
        (toMmlMath render m) = (parseTree T m).map (List.map (eqToSy N)) := by
  unfold toMmlMath parseTree
  rw [transpileChildren_eq]
  apply eqs_fuel
  intro q hq
  refine ⟨hf q hq, ?_⟩
  have := mem_size' (m.eqs.map (toMmlEq render)) (toMmlEq render q) (List.mem_map_of_mem hq)
  simp only [Mml.size]
  omega

end

/-! ## 12. nothing is lost in `toSy` -/

/-- `toSy` loses nothing when the Dummy objects have distinct names -/
theorem toSy_inj (N : Names) (hv : ∀ v w, N.var v = N.var w → v = w)
    (hq : ∀ q u q' u', N.qty q u = N.qty q' u' → q = q' ∧ u = u')
    (hd : ∀ v q u, N.var v ≠ N.qty q u) : ∀ a b, toSy N a = toSy N b → a = b := by
  intro a
  induction a with
  | num q u =>
    intro b h
    cases b <;> simp only [toSy, Sy.ofList, Sy.sym.injEq, reduceCtorEq] at h
    · obtain ⟨h1, h2⟩ := hq _ _ _ _ h; rw [h1, h2]
    · exact absurd h.symm (hd _ _ _)
  | var v =>
    intro b h
    cases b <;> simp only [toSy, Sy.ofList, Sy.sym.injEq, reduceCtorEq] at h
    · exact absurd h (hd _ _ _)
    · rw [hv _ _ h]
  | diff x t =>
    intro b h
    cases b <;> simp [toSy, Sy.ofList] at h
    rw [hv _ _ h.1, hv _ _ h.2]
  | add a b iha ihb =>
    intro c h
    cases c <;> simp [toSy, Sy.ofList] at h
    rw [iha _ h.1, ihb _ h.2]
  | sub a b iha ihb =>
    intro c h
    cases c <;> simp [toSy, Sy.ofList] at h
    rw [iha _ h.1, ihb _ h.2]
  | mul a b iha ihb =>
    intro c h
    cases c <;> simp [toSy, Sy.ofList] at h
    rw [iha _ h.1, ihb _ h.2]
  | div a b iha ihb =>
    intro c h
    cases c <;> simp [toSy, Sy.ofList] at h
    rw [iha _ h.1, ihb _ h.2]
  | neg a iha =>
    intro c h
    cases c <;> simp [toSy, Sy.ofList] at h
    rw [iha _ h]
  | powi a n iha =>
    intro c h
    cases c <;> simp [toSy, Sy.ofList] at h
    rw [iha _ h.1, Rat.intCast_inj.mp (hq _ _ _ _ h.2).1]

end Cellml.Tie.PWalkGen
