import Cellml.C15.Model

/-! # `sortBy` (Python's stable `list.sort(key=…)`) and the counter behind `order_added` -/

namespace C15

variable {α : Type}

theorem insertBy_perm (k : α → Nat) (x : α) : ∀ l : List α, (insertBy k x l).Perm (x :: l)
  | [] => List.Perm.refl _
  | y :: ys => by
      unfold insertBy
      split
      · exact List.Perm.refl _
      · exact ((insertBy_perm k x ys).cons y).trans (List.Perm.swap x y ys)

theorem sortBy_perm (k : α → Nat) : ∀ l : List α, (sortBy k l).Perm l
  | [] => List.Perm.refl _
  | x :: xs => (insertBy_perm k x (sortBy k xs)).trans ((sortBy_perm k xs).cons x)

theorem mem_sortBy {k : α → Nat} {l : List α} {a : α} : a ∈ sortBy k l ↔ a ∈ l := (sortBy_perm k l).mem_iff

theorem insertBy_sorted (k : α → Nat) (x : α) : ∀ l : List α, l.Pairwise (fun a b => k a ≤ k b) →
    (insertBy k x l).Pairwise (fun a b => k a ≤ k b)
  | [], _ => List.pairwise_singleton _ _
  | y :: ys, h => by
      unfold insertBy
      split
      · rename_i hxy
        refine List.Pairwise.cons ?_ h
        intro b hb
        rcases List.mem_cons.mp hb with rfl | hb
        · exact hxy
        · exact Nat.le_trans hxy ((List.pairwise_cons.mp h).1 b hb)
      · rename_i hxy
        have hy := List.pairwise_cons.mp h
        refine List.Pairwise.cons ?_ (insertBy_sorted k x ys hy.2)
        intro b hb
        rcases List.mem_cons.mp ((insertBy_perm k x ys).mem_iff.mp hb) with rfl | hb
        · exact Nat.le_of_lt (Nat.lt_of_not_le hxy)
        · exact hy.1 b hb

theorem sortBy_sorted (k : α → Nat) : ∀ l : List α, (sortBy k l).Pairwise (fun a b => k a ≤ k b)
  | [] => List.Pairwise.nil
  | x :: xs => insertBy_sorted k x _ (sortBy_sorted k xs)

/-- Sorting with pairwise distinct keys gives a list that depends only on the SET of elements: two lists with the
    same elements (permutations of each other) sort to the same list. -/
theorem sortBy_eq_of_perm (k : α → Nat) {l₁ l₂ : List α} (hp : l₁.Perm l₂)
    (hinj : ∀ a ∈ l₁, ∀ b ∈ l₁, k a = k b → a = b) : sortBy k l₁ = sortBy k l₂ := by
  apply List.Perm.eq_of_pairwise (le := fun a b => k a ≤ k b)
  · intro a b ha hb hab hba
    exact hinj a (mem_sortBy.mp ha) b (hp.mem_iff.mpr (mem_sortBy.mp hb)) (Nat.le_antisymm hab hba)
  · exact sortBy_sorted k l₁
  · exact sortBy_sorted k l₂
  · exact (sortBy_perm k l₁).trans (hp.trans (sortBy_perm k l₂).symm)

/-- a list that is already strictly increasing in the key is left as it is -/
theorem sortBy_of_sorted (k : α → Nat) : ∀ l : List α, l.Pairwise (fun a b => k a ≤ k b) → sortBy k l = l
  | [], _ => rfl
  | x :: xs, h => by
      have hx := List.pairwise_cons.mp h
      rw [sortBy, sortBy_of_sorted k xs hx.2]
      cases xs with
      | nil => rfl
      | cons y ys => simp [insertBy, hx.1 y List.mem_cons_self]

/-! ## `order_added`: `Model.add_variable` / `Model.remove_variable` (model.py, after the C08 fix d092113) -/

/-- the part of a `Model` that `order_added` depends on -/
structure VarsState where
  /-- `_name_to_variable`: name ↦ `order_added`, a dict (insertion order) -/
  live  : List (String × Nat)
  /-- `_variables_added`: number of variables ever added -/
  added : Nat
deriving Repr, DecidableEq

inductive VarOp where
  | add (name : String)
  | remove (name : String)
deriving Repr, DecidableEq

/-- `add_variable` (refused when the name exists) / `remove_variable` -/
def VarsState.step (s : VarsState) : VarOp → VarsState
  | .add n => if s.live.any (·.1 == n) then s else ⟨s.live ++ [(n, s.added)], s.added + 1⟩
  | .remove n => ⟨s.live.filter (·.1 != n), s.added⟩

def VarsState.run (ops : List VarOp) : VarsState := ops.foldl VarsState.step ⟨[], 0⟩

/-- BEFORE the C08 fix: `order_added=len(self._name_to_variable)` -/
def VarsState.stepOld (s : VarsState) : VarOp → VarsState
  | .add n => if s.live.any (·.1 == n) then s else ⟨s.live ++ [(n, s.live.length)], s.added + 1⟩
  | .remove n => ⟨s.live.filter (·.1 != n), s.added⟩

/-- invariant: `variables()` lists the variables in strictly increasing `order_added`, all below the counter -/
def VarsState.Good (s : VarsState) : Prop :=
  (s.live.map (·.2)).Pairwise (· < ·) ∧ ∀ p ∈ s.live, p.2 < s.added

theorem VarsState.good_step {s : VarsState} (h : s.Good) (op : VarOp) : (s.step op).Good := by
  cases op with
  | add n =>
      simp only [VarsState.step]
      split
      · exact h
      · refine ⟨?_, ?_⟩
        · simp only [List.map_append, List.map_cons, List.map_nil]
          rw [List.pairwise_append]
          refine ⟨h.1, List.pairwise_singleton _ _, ?_⟩
          intro a ha b hb
          simp only [List.mem_cons, List.not_mem_nil, or_false] at hb
          obtain ⟨p, hp, rfl⟩ := List.mem_map.mp ha
          rw [hb]; exact h.2 p hp
        · intro p hp
          rcases List.mem_append.mp hp with hp | hp
          · exact Nat.lt_succ_of_lt (h.2 p hp)
          · simp only [List.mem_cons, List.not_mem_nil, or_false] at hp
            rw [hp]; exact Nat.lt_succ_self _
  | remove n =>
      simp only [VarsState.step]
      refine ⟨?_, fun p hp => h.2 p (List.mem_filter.mp hp).1⟩
      exact List.Pairwise.sublist (List.Sublist.map _ List.filter_sublist) h.1

theorem VarsState.good_run (ops : List VarOp) : (VarsState.run ops).Good := by
  unfold VarsState.run
  suffices ∀ (s : VarsState), s.Good → (ops.foldl VarsState.step s).Good from
    this _ ⟨List.Pairwise.nil, fun p hp => by cases hp⟩
  induction ops with
  | nil => exact fun s h => h
  | cons op ops ih => exact fun s h => ih _ (VarsState.good_step h op)

end C15
